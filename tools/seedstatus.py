#!/usr/bin/env python3
"""seedstatus.py: latest RESULT per seed from /tmp/seedfinal_*.log vs /verif/seeded archive"""
import glob, json, os, re
last = {}
allr = {}
for f in sorted(glob.glob('/tmp/seedfinal_*.log'), key=os.path.getmtime):
    for l in open(f):
        m = re.match(r'RESULT (C\d+)-(\S+) (.*)', l)
        if m:
            last[(m.group(1), m.group(2))] = m.group(3).strip()
            allr.setdefault((m.group(1), m.group(2)), []).append(m.group(3).strip())
allseeds = set()
for d in glob.glob('/tmp/seedout-C*/[12]') + glob.glob('/tmp/seedout2-C*/[12]') + glob.glob('/tmp/seedout3-C*/[12]'):
    pid = re.search(r'(C\d+)', d).group(1)
    k = os.path.basename(d)
    if 'seedout2' in d: k = 'r2-' + k
    if 'seedout3' in d: k = 'r3-' + k
    allseeds.add((pid, k))
notes = json.load(open('/verif/tools/seed_notes.json'))
rows = []
for (pid, k) in sorted(allseeds):
    name = f'{pid}-{k}'
    r = last.get((pid, k), 'NOT-RUN')
    r = re.sub(r'\(expect[^)]*\)', '', r).replace('build=0 ', '')
    arch = os.path.exists(f'/verif/seeded/{name}/meta.json')
    det = None
    if arch:
        det = json.load(open(f'/verif/seeded/{name}/meta.json'))['check_result']['detected']
    std = any(re.sub(r'\(expect[^)]*\)', '', x).replace('build=0 ', '') == 'demo_with_patch=1 existing_tests=0 demo_clean=0 check_exit=1' for x in allr.get((pid, k), []))
    flag = ''
    if name in notes: flag = 'NOTE:' + ','.join(notes[name].keys())
    if not (std and arch and det):
        rows.append((name, r, 'archived' if arch else 'no-archive', 'det' if det else ('MISS' if det is False else '-'), flag))
print('total seeds', len(allseeds), 'non-standard:', len(rows))
for r in rows: print(' | '.join(r))
