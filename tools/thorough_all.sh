#!/bin/bash
# thorough_all.sh <log> ids… : run thorough tier (no evidence) sequentially
LOG=$1; shift
cd /verif
for id in "$@"; do
  s=$(date +%s)
  KSE_THOROUGH_MINUTES=${TM:-3} timeout 3000 ./kv check $id --tier thorough --no-evidence --workers 6 > /tmp/thorough-$id.log 2>&1; rc=$?
  echo "$id exit=$rc wall=$(( $(date +%s) - s ))s $(grep -cE '^INCONCLUSIVE' /tmp/thorough-$id.log) incon $(grep -cE '^VIOLATION' /tmp/thorough-$id.log) viol" >> $LOG
done
echo FINISHED >> $LOG
