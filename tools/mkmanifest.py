#!/usr/bin/env python3
"""Regenerates /verif/MANIFEST.json from tools/claims.json (per-property claim text)
and the harness directories present. A property is claimed iff it has an entry in
claims.json with "claimed": true; every other property is listed under
not_applicable with its reason."""
import json, os, sys
root = os.path.dirname(os.path.dirname(os.path.abspath(__file__)))
props = [json.loads(l) for l in open(os.path.join(root, 'properties.jsonl'))]
claims = json.load(open(os.path.join(root, 'tools', 'claims.json')))
# per-property claim files written next to the harnesses; a property is claimed
# only if it is also listed in tools/claimed.txt (checked clean on the unchanged
# tree by tools/statusall.sh)
claimed_ids = set(open(os.path.join(root, 'tools', 'claimed.txt')).read().split()) if os.path.exists(os.path.join(root, 'tools', 'claimed.txt')) else set()
for p in props:
    cj = os.path.join(root, 'harness', p['id'], 'claim.json')
    if p['id'] not in claims and os.path.exists(cj):
        c = json.load(open(cj))
        if c.get('status') == 'not-applicable':
            claims[p['id']] = {"claimed": False, "reason": c.get('note', 'not applicable')}
        elif p['id'] in claimed_ids:
            claims[p['id']] = {"claimed": True, "text": c['text'], "note": c['note']}
        else:
            claims[p['id']] = {"claimed": False, "reason": "check exists (harness/%s) but is not yet registered: not clean or too slow on the unchanged tree in the last full status run" % p['id']}
checks, na = [], []
for p in props:
    pid = p['id']
    c = claims.get(pid, {})
    if c.get('claimed'):
        checks.append({
            "property_id": pid,
            "quick_cmd": f"./kv check {pid} --tier quick",
            "thorough_cmd": f"./kv check {pid} --tier thorough",
            "evidence_file": f"/verif/evidence/{pid}.json",
            "replay_cmd_template": "./kv replay {path}",
            "engine": "kse",
            "level_claimed": {
                "category": "model_checking",
                "text": c['text'],
                "design_ref": f"DESIGN.md §7 {pid}",
            },
            "level_note": c['note'],
            "technique": c.get('technique', "bounded symbolic execution of the go/ssa form of the real functions; every symbolic branch and every property assertion decided by an SMT solver (z3, QF_BV+UF); counterexamples replayed natively"),
        })
    else:
        na.append({"property_id": pid, "reason": c.get('reason', "no check registered yet: harness not built / not clean on the unchanged tree")})
man = {
    "version": 1,
    "setup_cmd": "./kv build",
    "hooks": {
        "guard": "verif",
        "enable": "harnesses are injected through go/packages overlays and `go test -overlay -tags=verif`; no source file of uber/kraken carries verification hooks",
        "baseline_off_cmd": "cd /repo && for m in $(cat /w/out/gomods.txt); do MF=$(cd /repo/$m && . /w/out/goenv.sh && gomodflag); (cd /repo/$m && go test $MF -json -vet=off -count=1 -timeout 25m ./...); done",
        "source_commits": [],
        "add_only": True,
    },
    "engines": [{
        "name": "kse",
        "path": "/verif/kse",
        "serves_properties": [c['property_id'] for c in checks],
        "kind_free_text": "symbolic executor for Go: interprets go/ssa of /repo's working tree (harness injected by overlay) with SMT terms for integers/bytes/booleans, models for file system (crash points), clock, scheduler, hashes; z3 5.1 over SMT-LIB2 stdin; DFS over decision prefixes; native replay of counterexamples",
    }],
    "checks": checks,
    "not_applicable": na,
    "notes": "All checks are bounded (bounds are printed in each evidence file). exit 0 = every assertion discharged unsat on every feasible path within the bounds; exit 1 + VIOLATION = counterexample replayed against the native build; exit 2 = inconclusive (unknown/timeout/unsupported construct/unwinding bound), never reported as success.",
}
json.dump(man, open(os.path.join(root, 'MANIFEST.json'), 'w'), indent=1)
print(f"claimed {len(checks)}, not claimed {len(na)}")
