#!/usr/bin/env python3
import json,subprocess,sys
pid,sig,prefix,what=sys.argv[1:5]
status = sys.argv[5] if len(sys.argv)>5 else "fixed"
k=json.load(open('/verif/known_findings.json'))
e={"property":pid,"signature":sig,"status":status,"what":what}
if status=="fixed":
    log=subprocess.check_output("git -C /repo log --format='%h %s' f17875d..HEAD",shell=True,text=True).strip().split('\n')
    h=[l.split(' ',1)[0] for l in log if l.split(' ',1)[1].startswith(prefix)]
    assert h, prefix
    e["commit"]=h[0]
k=[x for x in k if not (x["property"]==pid and x["signature"]==sig)]
k.append(e)
json.dump(k,open('/verif/known_findings.json','w'),indent=1)
print("ok",pid,sig,e.get("commit"))
