#!/usr/bin/env python3
"""seedkeep.py ID K 'RESULT line' : archive a confirmed seeded change under /verif/seeded/ID-K/"""
import json, os, shutil, sys, re
pid, k, result = sys.argv[1], sys.argv[2], sys.argv[3]
src = f"/tmp/seedout-{pid}/{k}" if not k.startswith(("r2-", "r3-")) else f"/tmp/seedout{k[1]}-{pid}/{k[3:]}"
dst = f"/verif/seeded/{pid}-{k}"
os.makedirs(dst, exist_ok=True)
for f in ("patch.diff", "demo_test.go"):
    shutil.copy(os.path.join(src, f), os.path.join(dst, f))
# the diff as it applied to the current HEAD (3-way for seeds written before a fix commit)
applied = f"/tmp/sv-{pid}-{k}.applied.diff"
if os.path.exists(applied) and os.path.getsize(applied) > 0:
    a = open(applied).read()
    if a != open(os.path.join(src, "patch.diff")).read():
        shutil.copy(os.path.join(src, "patch.diff"), os.path.join(dst, "patch.orig.diff"))
        open(os.path.join(dst, "patch.diff"), "w").write(a)
meta = json.load(open(os.path.join(src, "meta.json")))
m = dict(re.findall(r"(\w+)=(\d+)", result))
viol = [l.strip() for l in open(f"/tmp/sv-{pid}-{k}.check.log") if l.startswith(("VIOLATION", "INCONCLUSIVE", "OK", "KNOWN"))][:6]
out = {
    "property": pid,
    "breaks": meta.get("summary"),
    "mechanism": meta.get("mechanism"),
    "needs_to_manifest": meta.get("needs"),
    "author": "independent sub-agent given only the property text and a scratch worktree",
    "author_tests_run": meta.get("tests_run"),
    "confirmed_in_scratch_worktree": {
        "cmd": f"tools/seedcheck.sh {pid} {k}",
        "go_build": int(m.get("build", -1)) == 0,
        "demo_fails_with_patch": int(m.get("demo_with_patch", 0)) != 0,
        "touched_packages_tests_pass_with_patch": int(m.get("existing_tests", 1)) == 0,
        "demo_passes_without_patch": int(m.get("demo_clean", 1)) == 0,
    },
    "check_result": {"cmd": f"./kv check {pid} --repo <worktree with patch>", "exit": int(m.get("check_exit", -1)), "detected": int(m.get("check_exit", -1)) == 1, "lines": viol},
}
json.dump(out, open(os.path.join(dst, "meta.json"), "w"), indent=1)
print("kept", dst, "detected" if out["check_result"]["detected"] else "MISSED")
