#!/bin/bash
# seedrun.sh <logfile> "<ID K>" ... : validate seeds sequentially, archive confirmed ones
LOG=$1; shift
for s in "$@"; do
  set -- $s
  r=$(/verif/tools/seedcheck3.sh $1 $2 --workers 6 2>&1 | grep -E "^RESULT" | tail -1)
  echo "$r" >> $LOG
  if echo "$r" | grep -q "build=0 demo_with_patch=[1-9][0-9]*(expect!=0) existing_tests=0(expect 0) demo_clean=0"; then
    python3 /verif/tools/seedkeep.py $1 $2 "$r" >> $LOG 2>&1
  else
    echo "NOT-CONFIRMED $1-$2" >> $LOG
  fi
done
echo FINISHED >> $LOG
