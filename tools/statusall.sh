#!/bin/bash
# statusall.sh [ids…]: run quick checks and print one line per property
cd /verif
IDS="$@"; [ -z "$IDS" ] && IDS=$(ls harness | grep '^C')
for id in $IDS; do
  s=$(date +%s)
  timeout 1500 ./kv check $id --tier quick > /tmp/status-$id.log 2>&1; rc=$?
  e=$(( $(date +%s) - s ))
  echo "$id exit=$rc wall=${e}s $(grep -cE '^VIOLATION' /tmp/status-$id.log) viol $(grep -cE '^INCONCLUSIVE' /tmp/status-$id.log) incon $(grep -cE '^KNOWN' /tmp/status-$id.log) known"
done
