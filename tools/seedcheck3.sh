#!/bin/bash
# seedcheck.sh <ID> <K> [check-args…]: validate seeded change K for property ID
# (patch applies, touched packages' tests pass, demo fails with / passes without)
# and run the property's check against the mutated tree.
ID=$1; K=$2; shift 2
SRC=/tmp/seedout-$ID/$K
case "$K" in r2-*) SRC=/tmp/seedout2-$ID/${K#r2-};; r3-*) SRC=/tmp/seedout3-$ID/${K#r3-};; esac
[ -d "$SRC" ] || SRC=/verif/seeded/$ID-$K
WT=/tmp/sv-$ID-$K
export PATH="$(go env GOMODCACHE)/golang.org/toolchain@v0.0.1-go1.24.0.linux-amd64/bin:$PATH" GOTOOLCHAIN=local GOFLAGS=-mod=mod GOPROXY=off GOSUMDB=off
git -C /repo worktree remove --force $WT >/dev/null 2>&1
git -C /repo worktree add --detach $WT HEAD >/dev/null 2>&1 || { echo "worktree failed"; exit 2; }
cd $WT
git apply $SRC/patch.diff 2>/dev/null || git apply -3 $SRC/patch.diff || { echo "RESULT $ID-$K patch-does-not-apply"; git -C /repo worktree remove --force $WT; exit 2; }
git diff HEAD > /tmp/sv-$ID-$K.applied.diff; git reset -q
PKGS=$(grep '^+++ b/' $SRC/patch.diff | sed 's|+++ b/||' | xargs -n1 dirname | sort -u | sed 's|^|./|')
DEMODIR=$(grep -m1 -oE '(Belongs in package directory|package directory|belongs in)[: ]+`?[a-zA-Z0-9_./-]+' $SRC/demo_test.go | grep -oE '[a-zA-Z0-9_./-]+$' | sed 's|/$||')
D2=$(grep -m1 -oE 'go test[^|]* \./[A-Za-z0-9_./-]+' $SRC/demo_test.go | grep -oE '\./[A-Za-z0-9_./-]+$' | sed 's|^\./||; s|/$||; s|/\.\.\.$||')
[ -n "$D2" ] && [ -d "$D2" ] && DEMODIR=$D2
[ -d "$DEMODIR" ] || DEMODIR=$(grep -m1 -oE 'Belongs in:? +[A-Za-z0-9_./-]+' $SRC/demo_test.go | awk '{print $NF}' | sed 's|/$||')
[ -d "$DEMODIR" ] || DEMODIR=$(echo $PKGS | awk '{print $1}')
DEMOPKG=$(grep -m1 '^package ' $SRC/demo_test.go | awk '{print $2}')
cp $SRC/demo_test.go $DEMODIR/zz_seed_demo_test.go
DEMORUN=$(grep -oE 'func (Test[A-Za-z0-9_]+)' $SRC/demo_test.go | awk '{print $2}' | paste -sd'|')
echo "pkgs: $PKGS ; demo in $DEMODIR run $DEMORUN"
go build ./... >/tmp/sv-$ID-$K.build.log 2>&1; B=$?
go test -vet=off -count=1 -run "^($DEMORUN)\$" ./$DEMODIR >/tmp/sv-$ID-$K.demo_with.log 2>&1; DW=$?
rm $DEMODIR/zz_seed_demo_test.go
go test -vet=off -count=1 $PKGS >/tmp/sv-$ID-$K.tests.log 2>&1; T=$?
# known load-sensitive tests (hard wall-clock deadlines) get two more attempts, serially
if [ $T -ne 0 ]; then go test -vet=off -count=1 -p 1 $PKGS >/tmp/sv-$ID-$K.tests.log 2>&1; T=$?; fi
if [ $T -ne 0 ]; then sleep 20; go test -vet=off -count=1 -p 1 $PKGS >/tmp/sv-$ID-$K.tests.log 2>&1; T=$?; fi
git apply -R /tmp/sv-$ID-$K.applied.diff
cp $SRC/demo_test.go $DEMODIR/zz_seed_demo_test.go
go test -vet=off -count=1 -run "^($DEMORUN)\$" ./$DEMODIR >/tmp/sv-$ID-$K.demo_without.log 2>&1; DO=$?
if [ $DO -ne 0 ]; then go test -vet=off -count=1 -p 1 -run "^($DEMORUN)\$" ./$DEMODIR >/tmp/sv-$ID-$K.demo_without.log 2>&1; DO=$?; fi
rm $DEMODIR/zz_seed_demo_test.go
git checkout -- . ; git apply /tmp/sv-$ID-$K.applied.diff
cd /verif
timeout 900 ./kv check $ID --repo $WT --no-evidence --no-validate --budget 240s "$@" >/tmp/sv-$ID-$K.check.log 2>&1; C=$?
echo "RESULT $ID-$K build=$B demo_with_patch=$DW(expect!=0) existing_tests=$T(expect 0) demo_clean=$DO(expect 0) check_exit=$C(expect 1)"
grep -E "^VIOLATION|^INCONCLUSIVE|^OK|^KNOWN" /tmp/sv-$ID-$K.check.log | head -5
git -C /repo worktree remove --force $WT >/dev/null 2>&1
