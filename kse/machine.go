package main

// The interpreter proper: frames, instruction dispatch, calls, defers,
// panics. Symbolic decisions are in decide.go, operators in ops.go,
// scheduling in sched.go, environment models in model_*.go.

import (
	"fmt"
	"go/constant"
	"go/token"
	"go/types"
	"os"
	"strings"
	"time"

	"golang.org/x/tools/go/ssa"
)

// engine signals (Go panics that are not target panics)
type pathEnd struct {
	kind string // "done", "infeasible", "assume", "unsupported", "budget", "deadlock", "abort", "violation", "fatal", "exit"
	msg  string
}

type crashSignal struct{}

type targetPanic struct {
	v Value // the interface value passed to panic()
}

type deferred struct {
	fn    Value
	args  []Value
	instr *ssa.Defer
	tail  *deferred
}

type fnInfo struct {
	slots  map[ssa.Value]int
	n      int
	intr   intrinsic
	name   string
	looked bool
}

type frame struct {
	m         *Machine
	caller    *frame
	fn        *ssa.Function
	info      *fnInfo
	locals    []Value
	block     *ssa.BasicBlock
	prevBlock *ssa.BasicBlock
	defers    *deferred
	result    Value
	panicking bool
	panic     interface{}
	phitemps  []Value
	callInstr ssa.Instruction
	depth     int
	skipPhis  int
}

type intrinsic func(m *Machine, fr *frame, args []Value) Value

type Machine struct {
	w       *World
	prog    *ssa.Program
	tf      *TermFactory
	solver  *Solver
	cfg     *RunConfig
	globals map[*ssa.Global]*Value
	inited  map[*ssa.Package]int
	infos   map[*ssa.Function]*fnInfo

	// decisions
	prefix      []Decision
	trace       []Decision
	pos         int
	pending     [][]Decision
	model       *Model
	pcN         int
	feasUnknown bool

	// statistics / results
	instrs    int64
	res       *PathResult
	nondetSeq map[string]int
	nondets   []nondetVar
	funcsSeen map[string]bool
	stubsSeen map[string]bool

	// threads
	threads  []*Thread
	cur      *Thread
	over     bool
	preempts int
	chanSeq  int

	// models
	fs           *FS
	side         map[interface{}]interface{} // side tables (cond waiters, sync.Map, …)
	uuidSeq      int
	inInit       int
	crashArmed   bool
	crashed      bool
	fsSteps      int
	tolerant     int
	crashAt      string
	fsFaults     int
	symPathHook  func(p Value, op string)
	fsClock      Value
	nowV         Value
	declCovers   map[string]bool
	crashPending bool
	overSignal   *pathEnd
	internalErr  string
	crcOrigin    map[*Term][]Value
	lastInstr    ssa.Instruction
	lastFn       *ssa.Function
	lastFrame    *frame
	opaqueFmt    int
	envPicks     int
	lastTimeCheck int64
}

type nondetVar struct {
	Name   string
	Kind   string // int, int64, uint64, byte, bool, ...
	t      *Term
	w      int
	signed bool
}

func (m *Machine) unsupported(format string, a ...interface{}) {
	panic(pathEnd{kind: "unsupported", msg: fmt.Sprintf(format, a...)})
}

func (m *Machine) info(fn *ssa.Function) *fnInfo {
	if fi, ok := m.infos[fn]; ok {
		return fi
	}
	fi := &fnInfo{slots: map[ssa.Value]int{}}
	n := 0
	for _, p := range fn.Params {
		fi.slots[p] = n
		n++
	}
	for _, fv := range fn.FreeVars {
		fi.slots[fv] = n
		n++
	}
	for _, b := range fn.Blocks {
		for _, in := range b.Instrs {
			if v, ok := in.(ssa.Value); ok {
				fi.slots[v] = n
				n++
			}
		}
	}
	fi.n = n
	fi.name = funcName(fn)
	m.infos[fn] = fi
	return fi
}

// funcName gives the canonical name used for intrinsic lookup: generic
// instantiations map to their origin.
func funcName(fn *ssa.Function) string {
	if o := fn.Origin(); o != nil {
		return o.String()
	}
	return fn.String()
}

func (fr *frame) get(v ssa.Value) Value {
	switch v := v.(type) {
	case *ssa.Const:
		return fr.m.constValue(v)
	case *ssa.Global:
		return fr.m.globalAddr(v)
	case *ssa.Function:
		return v
	case *ssa.Builtin:
		return v
	}
	i, ok := fr.info.slots[v]
	if !ok {
		panic(fmt.Sprintf("get: no slot for %T %s in %s", v, v.Name(), fr.fn))
	}
	return fr.locals[i]
}

func (fr *frame) set(v ssa.Value, x Value) {
	fr.locals[fr.info.slots[v]] = x
}

func (m *Machine) constValue(c *ssa.Const) Value {
	t := c.Type()
	if c.Value == nil {
		return zero(t)
	}
	if b, ok := under(t).(*types.Basic); ok {
		switch {
		case b.Info()&types.IsBoolean != 0:
			return constant.BoolVal(c.Value)
		case b.Info()&types.IsString != 0:
			if c.Value.Kind() == constant.String {
				return constant.StringVal(c.Value)
			}
			return string(rune(c.Int64()))
		case b.Info()&types.IsInteger != 0:
			w, signed, _ := intInfo(t)
			if signed {
				return canon(uint64(c.Int64()), w, true)
			}
			return canon(c.Uint64(), w, false)
		case b.Info()&types.IsFloat != 0:
			return c.Float64()
		case b.Info()&types.IsComplex != 0:
			return c.Complex128()
		}
	}
	if _, ok := under(t).(*types.TypeParam); ok {
		panic("const of type param")
	}
	panic(fmt.Sprintf("constValue: %v of type %v", c, t))
}

func (m *Machine) globalAddr(g *ssa.Global) *Value {
	if p, ok := m.globals[g]; ok {
		return p
	}
	p := new(Value)
	*p = zero(g.Type().(*types.Pointer).Elem())
	m.globals[g] = p
	// lazily initialise the owning package
	if g.Pkg != nil {
		m.ensureInit(g.Pkg)
		if q, ok := m.globals[g]; ok {
			return q // may have been replaced by a shared initialisation snapshot
		}
	}
	return p
}

// ---------------------------------------------------------------------------
// package initialisation (lazy, selective)

var noInitPkgs = map[string]bool{
	"runtime": true, "reflect": true, "net": true, "net/http": true, "syscall": true,
	"crypto/tls": true, "crypto/x509": true, "internal/godebug": true, "internal/cpu": true,
	"internal/poll": true, "os/signal": true, "runtime/debug": true, "internal/reflectlite": true,
	"sync": true, "internal/sync": true, "testing": true, "log": true, "flag": true, "os/exec": true, "os/user": true,
	"internal/syscall/unix": true, "internal/bytealg": true, "runtime/internal/sys": true,
	"crypto/rand": true, "math/rand": true, "math/rand/v2": true, "internal/testlog": true,
	"go.uber.org/zap": true, "go.uber.org/zap/zapcore": true, "github.com/uber-go/tally": true,
	"encoding/json": true, "golang.org/x/sys/unix": true, "golang.org/x/sys/cpu": true,
	"mime": true, "net/textproto": true, "internal/singleflight": true, "vendor/golang.org/x/net/http/httpguts": true,
	"crypto/sha256": true, "crypto/sha1": true, "crypto/md5": true, "crypto/sha512": true, "hash/crc32": true, "crypto": true,
	"internal/runtime/maps": true, "internal/abi": true, "unique": true, "weak": true, "iter": true,
	"github.com/uber/kraken/zzverif": true,
}

func (m *Machine) ensureInit(p *ssa.Package) {
	if p == nil || m.inited[p] != 0 {
		return
	}
	path := p.Pkg.Path()
	if sharedInitPkgs[path] {
		m.sharedInit(p) // model_sharedinit.go
		return
	}
	if noInitPkgs[path] || strings.HasPrefix(path, "runtime/") || strings.HasPrefix(path, "internal/runtime/") ||
		strings.HasPrefix(path, "google.golang.org/protobuf") || strings.HasPrefix(path, "github.com/aws/aws-sdk-go/aws/endpoints") ||
		strings.HasPrefix(path, "go.opentelemetry.io") || strings.HasPrefix(path, "golang.org/x/net") ||
		strings.HasPrefix(path, "google.golang.org/") || strings.HasPrefix(path, "crypto/") {
		m.inited[p] = 2
		return
	}
	init := p.Func("init")
	if init == nil || init.Blocks == nil {
		m.inited[p] = 2
		return
	}
	m.inited[p] = 1
	m.inInit++
	if tolerantInit[path] {
		m.tolerant++
	}
	m.callSSA(nil, init, nil, nil)
	if tolerantInit[path] {
		m.tolerant--
	}
	m.inInit--
	m.inited[p] = 2
}

// packages whose init may touch unmodelled functions: failures yield zero
// values instead of ending the path.
var tolerantInit = map[string]bool{
	"os": true, "time": true, "io/fs": true, "path/filepath": true, "fmt": true, "errors": true,
	"context": true, "strconv": true, "unicode": true, "bufio": true, "io": true, "bytes": true, "strings": true,
	"sort": true, "math": true, "math/big": true, "math/bits": true, "regexp": true, "regexp/syntax": true,
	"encoding/binary": true, "encoding/hex": true, "encoding/base64": true, "net/url": true, "internal/oserror": true,
	"hash": true, "hash/fnv": true, "compress/gzip": true, "compress/flate": true, "text/template": true,
	"html/template": true, "html": true, "encoding": true, "io/ioutil": true, "path": true, "container/list": true,
	"container/heap": true, "slices": true, "maps": true, "cmp": true, "unicode/utf8": true, "unicode/utf16": true,
}

// ---------------------------------------------------------------------------
// calls

func (m *Machine) call(caller *frame, fn Value, args []Value, instr ssa.Instruction) Value {
	switch f := fn.(type) {
	case *ssa.Function:
		if f == nil {
			m.throwRuntime("invalid memory address or nil pointer dereference (nil func)")
		}
		return m.callSSA(caller, f, args, nil)
	case *Closure:
		return m.callSSA(caller, f.fn, args, f.env)
	case *ssa.Builtin:
		return m.callBuiltin(caller, f, args, instr)
	case *GoFunc:
		return f.f(m, args)
	case nil:
		m.throwRuntime("invalid memory address or nil pointer dereference (call of nil func)")
	}
	panic(fmt.Sprintf("call: cannot call %T", fn))
}

func (m *Machine) lookupIntrinsic(fn *ssa.Function, fi *fnInfo) intrinsic {
	if fi.looked {
		return fi.intr
	}
	fi.looked = true
	if in, ok := intrinsics[fi.name]; ok {
		fi.intr = in
		return in
	}
	// package-level no-op rules
	if in := noopRule(fn, fi.name); in != nil {
		fi.intr = in
	}
	return fi.intr
}

const maxDepth = 400

func (m *Machine) callSSA(caller *frame, fn *ssa.Function, args []Value, env []Value) Value {
	fi := m.info(fn)
	if in := m.lookupIntrinsic(fn, fi); in != nil && !m.intrinsicGatedOff(fi.name) {
		m.stubsSeen[fi.name] = true
		fr := &frame{m: m, caller: caller, fn: fn, info: fi}
		return in(m, fr, args)
	}
	if fn.Blocks == nil {
		if m.tolerant > 0 {
			return zeroResults(fn.Signature)
		}
		m.lastFrame = caller
		m.unsupported("no code and no model for function %s (called from %s)", fi.name, m.targetStack())
	}
	if fn.Pkg != nil && m.inited[fn.Pkg] == 0 && fn.Name() != "init" {
		m.ensureInit(fn.Pkg)
	}
	// a package initialiser calling its imports' initialisers: lazy instead
	if fn.Name() == "init" && fn.Synthetic != "" && caller != nil && caller.fn.Name() == "init" && caller.fn.Synthetic != "" {
		return nil
	}
	fr := &frame{m: m, caller: caller, fn: fn, info: fi}
	if caller != nil {
		fr.depth = caller.depth + 1
		if fr.depth > maxDepth {
			panic(pathEnd{kind: "budget", msg: "call depth exceeded in " + fi.name})
		}
	}
	if !m.funcsSeen[fi.name] {
		m.funcsSeen[fi.name] = true
	}
	fr.locals = make([]Value, fi.n)
	n := 0
	for i := range fn.Params {
		fr.locals[n] = args[i]
		n++
	}
	for i := range fn.FreeVars {
		fr.locals[n] = env[i]
		n++
	}
	fr.block = fn.Blocks[0]
	for fr.block != nil {
		m.runFrame(fr)
	}
	return fr.result
}

func zeroResults(sig *types.Signature) Value {
	switch sig.Results().Len() {
	case 0:
		return nil
	case 1:
		return zero(sig.Results().At(0).Type())
	}
	return zero(sig.Results())
}

func (m *Machine) runFrame(fr *frame) {
	defer func() {
		if fr.block == nil {
			return // normal return
		}
		r := recover()
		if r == nil {
			return
		}
		tp, ok := r.(targetPanic)
		if !ok {
			// engine signal or interpreter bug: do not run target defers
			fr.block = nil
			panic(r)
		}
		fr.panicking = true
		fr.panic = tp
		fr.runDefers()
		fr.block = fr.fn.Recover
		if fr.block == nil {
			// recovered without named results: zero result
			fr.result = zeroResults(fr.fn.Signature)
		}
	}()
	for {
		blk := fr.block
		instrs := blk.Instrs
		// phis
		k := 0
		if fr.skipPhis > 0 {
			k = fr.skipPhis
			fr.skipPhis = 0
		} else if _, ok := instrs[0].(*ssa.Phi); ok {
			pred := -1
			for i, p := range blk.Preds {
				if p == fr.prevBlock {
					pred = i
					break
				}
			}
			fr.phitemps = fr.phitemps[:0]
			for k < len(instrs) {
				phi, ok := instrs[k].(*ssa.Phi)
				if !ok {
					break
				}
				fr.phitemps = append(fr.phitemps, fr.get(phi.Edges[pred]))
				k++
			}
			for i := 0; i < k; i++ {
				fr.set(instrs[i].(*ssa.Phi), fr.phitemps[i])
			}
		}
		m.instrs += int64(len(instrs))
		if m.instrs-m.lastTimeCheck > 2_000_000 {
			m.lastTimeCheck = m.instrs
			if !m.cfg.Deadline.IsZero() && time.Now().After(m.cfg.Deadline.Add(20*time.Second)) {
				panic(pathEnd{kind: "budget", msg: "wall-clock budget exhausted inside a path"})
			}
		}
		if m.instrs > m.cfg.MaxInstrs {
			panic(pathEnd{kind: "budget", msg: fmt.Sprintf("instruction budget %d exhausted in %s", m.cfg.MaxInstrs, fr.fn)})
		}
		jumped := false
		for _, instr := range instrs[k:] {
			m.lastInstr, m.lastFn, m.lastFrame = instr, fr.fn, fr
			var c cont
			if m.tolerant > 0 {
				c = m.visitTolerant(fr, instr)
			} else {
				c = m.visit(fr, instr)
			}
			switch c {
			case kReturn:
				return
			case kJump:
				jumped = true
			}
			if jumped {
				break
			}
		}
		if !jumped {
			panic("block fell through: " + fr.fn.String())
		}
	}
}

func (fr *frame) runDefers() {
	for d := fr.defers; d != nil; d = d.tail {
		fr.runDefer(d)
	}
	fr.defers = nil
	if fr.panicking {
		panic(fr.panic)
	}
}

func (fr *frame) runDefer(d *deferred) {
	var ok bool
	defer func() {
		if !ok {
			r := recover()
			if tp, is := r.(targetPanic); is {
				fr.panicking = true
				fr.panic = tp
			} else {
				panic(r)
			}
		}
	}()
	fr.m.call(fr, d.fn, d.args, d.instr)
	ok = true
}

func (m *Machine) doRecover(caller *frame) Value {
	if caller != nil && !caller.panicking && caller.caller != nil && caller.caller.panicking {
		caller.caller.panicking = false
		p := caller.caller.panic
		caller.caller.panic = nil
		if tp, ok := p.(targetPanic); ok {
			return tp.v
		}
		panic(fmt.Sprintf("unexpected panic type %T in recover", p))
	}
	return Iface{}
}

// throwRuntime raises a Go run-time panic in the target program.
func (m *Machine) throwRuntime(msg string) {
	m.res.noteRuntimePanic(msg)
	panic(targetPanic{v: Iface{t: m.w.runtimeErrT, v: msg}})
}

type cont int

const (
	kNext cont = iota
	kReturn
	kJump
)

func (m *Machine) visit(fr *frame, instr ssa.Instruction) cont {
	switch in := instr.(type) {
	case *ssa.DebugRef:
	case *ssa.UnOp:
		fr.set(in, m.unop(fr, in))
	case *ssa.BinOp:
		fr.set(in, m.binop(in.Op, in.X.Type(), fr.get(in.X), fr.get(in.Y), in.Y.Type()))
	case *ssa.Call:
		fn, args := m.prepareCall(fr, &in.Call)
		fr.set(in, m.call(fr, fn, args, in))
	case *ssa.ChangeInterface:
		fr.set(in, fr.get(in.X))
	case *ssa.ChangeType:
		fr.set(in, fr.get(in.X))
	case *ssa.Convert:
		fr.set(in, m.convert(in.X.Type(), in.Type(), fr.get(in.X)))
	case *ssa.MultiConvert:
		fr.set(in, m.convert(in.X.Type(), in.Type(), fr.get(in.X)))
	case *ssa.SliceToArrayPointer:
		s := fr.get(in.X).(Slice)
		n := int(in.Type().(*types.Pointer).Elem().Underlying().(*types.Array).Len())
		if len(s.a) < n {
			m.throwRuntime("cannot convert slice to array pointer: length too short")
		}
		if s.nil && n == 0 {
			fr.set(in, (*Value)(nil))
		} else {
			p := new(Value)
			*p = Array(s.a[:n:n])
			fr.set(in, p)
		}
	case *ssa.MakeInterface:
		fr.set(in, Iface{t: in.X.Type(), v: fr.get(in.X)})
	case *ssa.Extract:
		fr.set(in, fr.get(in.Tuple).(Tuple)[in.Index])
	case *ssa.Slice:
		fr.set(in, m.sliceOp(fr, in))
	case *ssa.Return:
		switch len(in.Results) {
		case 0:
		case 1:
			fr.result = fr.get(in.Results[0])
		default:
			res := make(Tuple, len(in.Results))
			for i, r := range in.Results {
				res[i] = fr.get(r)
			}
			fr.result = res
		}
		fr.block = nil
		return kReturn
	case *ssa.RunDefers:
		fr.runDefers()
	case *ssa.Panic:
		v := fr.get(in.X)
		m.res.noteExplicitPanic(fr.fn.String())
		panic(targetPanic{v: v})
	case *ssa.Send:
		m.chanSend(fr.get(in.Chan), fr.get(in.X))
	case *ssa.Store:
		m.store(fr.get(in.Addr), fr.get(in.Val))
	case *ssa.If:
		c := fr.get(in.Cond)
		succ := 1
		switch c := c.(type) {
		case bool:
			if c {
				succ = 0
			}
		case *Term:
			if m.tryMergeDiamond(fr, in, c) {
				return kJump
			}
			if m.decideBool(c, "if") {
				succ = 0
			}
		default:
			panic(fmt.Sprintf("If on %T", c))
		}
		fr.prevBlock, fr.block = fr.block, fr.block.Succs[succ]
		return kJump
	case *ssa.Jump:
		fr.prevBlock, fr.block = fr.block, fr.block.Succs[0]
		return kJump
	case *ssa.Defer:
		fn, args := m.prepareCall(fr, &in.Call)
		fr.defers = &deferred{fn: fn, args: args, instr: in, tail: fr.defers}
	case *ssa.Go:
		fn, args := m.prepareCall(fr, &in.Call)
		m.spawn(fn, args)
	case *ssa.MakeChan:
		sz := m.concretizeInt(fr.get(in.Size), "make(chan) size")
		m.chanSeq++
		fr.set(in, &Chan{id: m.chanSeq, cap: int(sz), et: in.Type().Underlying().(*types.Chan).Elem()})
	case *ssa.Alloc:
		p := new(Value)
		*p = zero(in.Type().(*types.Pointer).Elem())
		fr.set(in, p)
	case *ssa.MakeSlice:
		{
			_, lenSigned, _ := intInfo(in.Len.Type())
			m.symbolicMakeGuard(fr, fr.get(in.Len), lenSigned) // model_makeguard.go
		}
		ln := int64(m.concretizeInt(fr.get(in.Len), "make([]T) len"))
		cp := int64(m.concretizeInt(fr.get(in.Cap), "make([]T) cap"))
		if ln < 0 || cp < ln {
			m.throwRuntime("makeslice: len out of range")
		}
		if cp > m.cfg.MaxAlloc {
			m.res.noteHugeAlloc(fr.fn.String(), cp)
			panic(pathEnd{kind: "hugealloc", msg: fmt.Sprintf("make([]T, %d) in %s exceeds allocation cap %d", cp, fr.fn, m.cfg.MaxAlloc)})
		}
		et := in.Type().Underlying().(*types.Slice).Elem()
		a := make([]Value, ln, cp)
		z := zero(et)
		full := a[:cp] // the spare capacity is zeroed memory too (visible after re-slicing)
		for i := range full {
			full[i] = copyVal(z)
		}
		fr.set(in, Slice{a: a})
	case *ssa.MakeMap:
		mt := in.Type().Underlying().(*types.Map)
		fr.set(in, newMap(mt.Key(), mt.Elem()))
	case *ssa.Range:
		fr.set(in, m.rangeIter(fr.get(in.X)))
	case *ssa.Next:
		fr.set(in, m.next(fr.get(in.Iter), in))
	case *ssa.FieldAddr:
		p := m.cellPtr(fr.get(in.X))
		if p == nil {
			m.throwRuntime("invalid memory address or nil pointer dereference")
		}
		s := (*p).(Struct)
		fr.set(in, &s[in.Field])
	case *ssa.Field:
		fr.set(in, copyVal(fr.get(in.X).(Struct)[in.Field]))
	case *ssa.IndexAddr:
		fr.set(in, m.indexAddr(fr, in))
	case *ssa.Index:
		fr.set(in, m.indexOp(fr, in))
	case *ssa.Lookup:
		fr.set(in, m.lookup(fr, in))
	case *ssa.MapUpdate:
		m.mapUpdate(fr.get(in.Map), fr.get(in.Key), fr.get(in.Value))
	case *ssa.TypeAssert:
		fr.set(in, m.typeAssert(in, fr.get(in.X).(Iface)))
	case *ssa.MakeClosure:
		var env []Value
		for _, b := range in.Bindings {
			env = append(env, fr.get(b))
		}
		fr.set(in, &Closure{fn: in.Fn.(*ssa.Function), env: env})
	case *ssa.Phi:
		panic("unexpected phi")
	case *ssa.Select:
		fr.set(in, m.selectOp(fr, in))
	default:
		panic(fmt.Sprintf("unexpected instruction: %T", instr))
	}
	return kNext
}

func (m *Machine) prepareCall(fr *frame, call *ssa.CallCommon) (fn Value, args []Value) {
	v := fr.get(call.Value)
	if call.Method == nil {
		fn = v
	} else {
		recv := v.(Iface)
		if recv.t == nil {
			if call.Method.Pkg() != nil && noopPkgs[call.Method.Pkg().Path()] {
				sig := call.Method.Type().(*types.Signature)
				if g := m.noopIfaceCall(fr, call, sig); g != nil { // model_otel.go
					return g, nil
				}
				return &GoFunc{name: "noop", f: func(m *Machine, args []Value) Value { return zeroResults(sig) }}, nil
			}
			m.throwRuntime("invalid memory address or nil pointer dereference (method call on nil interface " + call.Method.Name() + ")")
		}
		f := m.lookupMethod(recv.t, call.Method)
		if f == nil {
			panic(fmt.Sprintf("method %s not found on %s", call.Method, recv.t))
		}
		fn = f
		args = append(args, recv.v)
	}
	for _, a := range call.Args {
		args = append(args, fr.get(a))
	}
	return
}

func (m *Machine) lookupMethod(t types.Type, meth *types.Func) *ssa.Function {
	return m.prog.LookupMethod(t, meth.Pkg(), meth.Name())
}

// callMethod invokes a named method on a value of dynamic type t (helper for
// models: Error(), String(), Read, Write …). ok=false if no such method.
func (m *Machine) callMethod(fr *frame, recv Iface, name string, args ...Value) (Value, bool) {
	if recv.t == nil {
		return nil, false
	}
	ms := m.prog.MethodSets.MethodSet(recv.t)
	for i := 0; i < ms.Len(); i++ {
		sel := ms.At(i)
		if sel.Obj().Name() == name {
			f := m.prog.MethodValue(sel)
			if f == nil {
				return nil, false
			}
			all := append([]Value{recv.v}, args...)
			return m.callSSA(fr, f, all, nil), true
		}
	}
	return nil, false
}

// cellPtr normalises pointer representations to *Value (resolving symbolic
// element references by case split).
func (m *Machine) cellPtr(p Value) *Value {
	switch p := p.(type) {
	case *Value:
		return p
	case *SymRef:
		i := m.concretize(p.idx, "element address")
		return &p.base[int(i)]
	case nil:
		return nil
	}
	panic(fmt.Sprintf("cellPtr: %T", p))
}

func (m *Machine) load(p Value) Value {
	switch p := p.(type) {
	case *Value:
		if p == nil {
			m.throwRuntime("invalid memory address or nil pointer dereference")
		}
		return copyVal(*p)
	case *SymRef:
		return m.symRead(p.base, p.idx, p.w, p.signed)
	}
	panic(fmt.Sprintf("load: %T", p))
}

func (m *Machine) store(p Value, v Value) {
	switch p := p.(type) {
	case *Value:
		if p == nil {
			m.throwRuntime("invalid memory address or nil pointer dereference")
		}
		storeInto(p, v)
	case *SymRef:
		m.symWrite(p.base, p.idx, v, p.w, p.signed)
	default:
		panic(fmt.Sprintf("store: %T", p))
	}
}

// storeInto assigns v to *dst keeping interior pointers of aggregates valid.
func storeInto(dst *Value, v Value) {
	switch nv := v.(type) {
	case Struct:
		if ov, ok := (*dst).(Struct); ok && len(ov) == len(nv) {
			for i := range nv {
				storeInto(&ov[i], nv[i])
			}
			return
		}
		*dst = copyVal(v)
	case Array:
		if ov, ok := (*dst).(Array); ok && len(ov) == len(nv) {
			for i := range nv {
				storeInto(&ov[i], nv[i])
			}
			return
		}
		*dst = copyVal(v)
	default:
		*dst = v
	}
}

// symRead builds an ite chain over base (scalars of width w; w==0: bool) for
// a symbolic index already known to be in range.
func (m *Machine) symRead(base []Value, idx *Term, w int, signed bool) Value {
	if len(base) == 0 {
		panic("symRead on empty base")
	}
	var acc *Term
	for i := len(base) - 1; i >= 0; i-- {
		e := m.scalarTerm(base[i], w)
		if acc == nil {
			acc = e
			continue
		}
		acc = m.tf.Ite(m.tf.Eq(idx, m.tf.BV(uint64(i), idx.w)), e, acc)
	}
	return lowerTerm(acc, signed)
}

func (m *Machine) symWrite(base []Value, idx *Term, v Value, w int, signed bool) {
	nv := m.scalarTerm(v, w)
	for i := range base {
		old := m.scalarTerm(base[i], w)
		t := m.tf.Ite(m.tf.Eq(idx, m.tf.BV(uint64(i), idx.w)), nv, old)
		base[i] = lowerTerm(t, signed)
	}
}

func (m *Machine) scalarTerm(v Value, w int) *Term {
	switch v := v.(type) {
	case *Term:
		return v
	case bool:
		return m.tf.Bool(v)
	case uint64:
		return m.tf.BV(v, w)
	}
	panic(fmt.Sprintf("scalarTerm: %T", v))
}

// lowerTerm turns constant terms back into concrete values.
func lowerTerm(t *Term, signed bool) Value {
	if t.isConst() {
		if t.w == 0 {
			return t.op == "true"
		}
		return canon(t.val, t.w, signed)
	}
	return t
}

func (m *Machine) indexAddr(fr *frame, in *ssa.IndexAddr) Value {
	x := fr.get(in.X)
	idx := fr.get(in.Index)
	var base []Value
	var et types.Type
	switch xv := x.(type) {
	case Slice:
		base = xv.a
		et = in.X.Type().Underlying().(*types.Slice).Elem()
	case *Value:
		if xv == nil {
			m.throwRuntime("invalid memory address or nil pointer dereference")
		}
		base = (*xv).(Array)
		et = in.X.Type().Underlying().(*types.Pointer).Elem().Underlying().(*types.Array).Elem()
	default:
		panic(fmt.Sprintf("indexAddr: %T", x))
	}
	switch i := idx.(type) {
	case uint64:
		ii := m.idxCanon(i, in.Index.Type())
		if ii < 0 || ii >= int64(len(base)) {
			m.throwRuntime(fmt.Sprintf("index out of range [%d] with length %d", ii, len(base)))
		}
		return &base[ii]
	case *Term:
		it := m.idxTerm(i, in.Index.Type())
		inb := m.tf.Cmp("bvult", it, m.tf.BV(uint64(len(base)), 64))
		if !m.decideBool(inb, "index in range") {
			m.throwRuntime(fmt.Sprintf("index out of range [symbolic] with length %d", len(base)))
		}
		if len(base) == 1 {
			return &base[0]
		}
		if w, s, ok := intInfo(et); ok {
			return &SymRef{base: base, idx: it, w: w, signed: s}
		}
		if isBoolT(et) {
			return &SymRef{base: base, idx: it}
		}
		k := m.concretize(it, "index of non-scalar element")
		return &base[k]
	}
	panic(fmt.Sprintf("indexAddr idx %T", idx))
}

// idxCanon interprets a concrete index of the given type as int64 (indices of
// unsigned types above MaxInt64 become negative → out of range either way).
func (m *Machine) idxCanon(i uint64, t types.Type) int64 {
	return int64(i)
}

// idxTerm widens a symbolic index to 64 bits according to its type.
func (m *Machine) idxTerm(i *Term, t types.Type) *Term {
	_, signed, _ := intInfo(t)
	return m.tf.Extend(i, 64, signed)
}

func (m *Machine) indexOp(fr *frame, in *ssa.Index) Value {
	x := fr.get(in.X)
	idx := fr.get(in.Index)
	switch xv := x.(type) {
	case Array:
		switch i := idx.(type) {
		case uint64:
			if int64(i) < 0 || int64(i) >= int64(len(xv)) {
				m.throwRuntime("index out of range")
			}
			return copyVal(xv[i])
		case *Term:
			it := m.idxTerm(i, in.Index.Type())
			if termUB(it) < uint64(len(xv)) {
				// statically in range
			} else if !m.decideBool(m.tf.Cmp("bvult", it, m.tf.BV(uint64(len(xv)), 64)), "index in range") {
				m.throwRuntime("index out of range")
			}
			if isScalarT(in.Type()) {
				w, sg, _ := intInfo(in.Type())
				return m.symRead(xv, it, w, sg)
			}
			k := m.concretize(it, "array index")
			return copyVal(xv[k])
		}
	case string, *SymStr:
		n := strLen(x)
		switch i := idx.(type) {
		case uint64:
			if int64(i) < 0 || int64(i) >= int64(n) {
				m.throwRuntime(fmt.Sprintf("index out of range [%d] with length %d", int64(i), n))
			}
			return strAt(x, int(i))
		case *Term:
			it := m.idxTerm(i, in.Index.Type())
			if termUB(it) < uint64(n) {
				// statically in range
			} else if !m.decideBool(m.tf.Cmp("bvult", it, m.tf.BV(uint64(n), 64)), "string index in range") {
				m.throwRuntime("index out of range")
			}
			return m.symRead(strBytes(x), it, 8, false)
		}
	}
	panic(fmt.Sprintf("indexOp: %T[%T]", x, idx))
}

func (m *Machine) sliceOp(fr *frame, in *ssa.Slice) Value {
	x := fr.get(in.X)
	var lo, hi, max int64 = 0, -1, -1
	get := func(v ssa.Value, what string) int64 {
		return int64(m.concretizeInt(fr.get(v), what))
	}
	if in.Low != nil {
		lo = get(in.Low, "slice low bound")
	}
	if in.High != nil {
		hi = get(in.High, "slice high bound")
	}
	if in.Max != nil {
		max = get(in.Max, "slice max bound")
	}
	switch xv := x.(type) {
	case string, *SymStr:
		n := int64(strLen(x))
		if hi < 0 && in.High == nil {
			hi = n
		}
		if lo < 0 || hi < lo || hi > n {
			m.throwRuntime(fmt.Sprintf("slice bounds out of range [%d:%d] with length %d", lo, hi, n))
		}
		return strSlice(x, int(lo), int(hi))
	case Slice:
		c := int64(cap(xv.a))
		if in.High == nil {
			hi = int64(len(xv.a))
		}
		if in.Max == nil {
			max = c
		}
		if lo < 0 || hi < lo || max < hi || max > c {
			m.throwRuntime(fmt.Sprintf("slice bounds out of range [%d:%d:%d] with capacity %d", lo, hi, max, c))
		}
		if xv.nil && lo == 0 && hi == 0 {
			return Slice{nil: true}
		}
		return Slice{a: xv.a[lo:hi:max]}
	case *Value:
		if xv == nil {
			m.throwRuntime("invalid memory address or nil pointer dereference")
		}
		arr := (*xv).(Array)
		c := int64(len(arr))
		if in.High == nil {
			hi = c
		}
		if in.Max == nil {
			max = c
		}
		if lo < 0 || hi < lo || max < hi || max > c {
			m.throwRuntime(fmt.Sprintf("slice bounds out of range [%d:%d:%d] with capacity %d", lo, hi, max, c))
		}
		return Slice{a: arr[lo:hi:max]}
	}
	panic(fmt.Sprintf("sliceOp: %T", x))
}

func (m *Machine) typeAssert(in *ssa.TypeAssert, x Iface) Value {
	ok := false
	var v Value
	if isInterface(in.AssertedType) {
		if x.t != nil {
			it := in.AssertedType.Underlying().(*types.Interface)
			ok = types.Implements(x.t, it)
			if !ok {
				// method sets of pointer receivers etc. are handled by Implements
			}
		}
		v = x
	} else {
		ok = x.t != nil && types.Identical(x.t, in.AssertedType)
		v = x.v
	}
	if in.CommaOk {
		if !ok {
			v = zero(in.AssertedType)
		}
		return Tuple{v, ok}
	}
	if !ok {
		from := "nil"
		if x.t != nil {
			from = x.t.String()
		}
		m.res.noteRuntimePanic("interface conversion")
		panic(targetPanic{v: Iface{t: m.w.runtimeErrT, v: fmt.Sprintf("interface conversion: interface is %s, not %s", from, in.AssertedType)}})
	}
	return v
}

// ---------------------------------------------------------------------------
// maps

// mapFind returns the position of key k, forking on symbolic comparisons.
func (m *Machine) mapFind(mp *Map, k Value) int {
	if mp == nil {
		return -1
	}
	if h, ok := hashKey(k); ok {
		if i, ok := mp.idx[h]; ok {
			return i
		}
		if !mp.hasSymKeys() {
			return -1
		}
		// compare against symbolic keys only
		for i := range mp.keys {
			if !mp.live[i] {
				continue
			}
			if _, conc := hashKey(mp.keys[i]); conc {
				continue
			}
			if m.truth(m.equals(mp.kt, mp.keys[i], k), "map key equal") {
				return i
			}
		}
		return -1
	}
	for i := range mp.keys {
		if !mp.live[i] {
			continue
		}
		if m.truth(m.equals(mp.kt, mp.keys[i], k), "map key equal") {
			return i
		}
	}
	return -1
}

func (m *Machine) lookup(fr *frame, in *ssa.Lookup) Value {
	x := fr.get(in.X)
	k := fr.get(in.Index)
	mp := x.(*Map)
	if kt, sym := k.(*Term); sym {
		if r, ok := m.lookupIte(mp, kt, in); ok { // model_maplookup.go
			return r
		}
	}
	i := m.mapFind(mp, k)
	var v Value
	if i >= 0 {
		v = copyVal(mp.vals[i])
	} else {
		v = zero(in.X.Type().Underlying().(*types.Map).Elem())
	}
	if in.CommaOk {
		return Tuple{v, i >= 0}
	}
	return v
}

func (m *Machine) mapUpdate(x Value, k, v Value) {
	mp := x.(*Map)
	if mp == nil {
		m.throwRuntime("assignment to entry in nil map")
	}
	i := m.mapFind(mp, k)
	if i >= 0 {
		mp.vals[i] = v
		return
	}
	mp.appendEntry(k, v)
}

func (m *Machine) mapDelete(mp *Map, k Value) {
	i := m.mapFind(mp, k)
	if i >= 0 {
		mp.removeAt(i)
	}
}

func (m *Machine) rangeIter(x Value) Value {
	switch x := x.(type) {
	case *Map:
		it := &mapIter{m: x}
		if x != nil {
			for i := range x.keys {
				if x.live[i] {
					it.perm = append(it.perm, i)
				}
			}
			if m.cfg.MapOrderSymbolic && len(it.perm) > 1 {
				it.perm = m.permute(it.perm)
			}
		}
		return it
	case string, *SymStr:
		return &strIter{s: x}
	}
	panic(fmt.Sprintf("rangeIter: %T", x))
}

func (m *Machine) permute(p []int) []int {
	// symbolic permutation: pick each next element among the remaining ones
	rest := append([]int(nil), p...)
	var out []int
	for len(rest) > 1 {
		k := m.pick(len(rest), "map iteration order")
		out = append(out, rest[k])
		rest = append(rest[:k], rest[k+1:]...)
	}
	return append(out, rest...)
}

func (m *Machine) next(it Value, in *ssa.Next) Value {
	switch it := it.(type) {
	case *mapIter:
		for it.pos < len(it.perm) {
			i := it.perm[it.pos]
			it.pos++
			if it.m.live[i] {
				return Tuple{true, it.m.keys[i], copyVal(it.m.vals[i])}
			}
		}
		mt := in.Iter.(*ssa.Range).X.Type().Underlying().(*types.Map)
		return Tuple{false, zero(mt.Key()), zero(mt.Elem())}
	case *strIter:
		n := strLen(it.s)
		if it.i >= n {
			return Tuple{false, uint64(0), uint64(0)}
		}
		if s, ok := it.s.(string); ok {
			r, sz := decodeRune(s[it.i:])
			k := it.i
			it.i += sz
			return Tuple{true, uint64(k), canon(uint64(r), 32, true)}
		}
		b := strAt(it.s, it.i)
		k := it.i
		if bt, ok := b.(*Term); ok {
			if m.decideBool(m.tf.Cmp("bvult", bt, m.tf.BV(0x80, 8)), "range string: ASCII byte") {
				it.i++
				return Tuple{true, uint64(k), m.tf.Extend(bt, 32, false)}
			}
			m.unsupported("range over string with symbolic non-ASCII byte")
		}
		bv := b.(uint64)
		if bv < 0x80 {
			it.i++
			return Tuple{true, uint64(k), bv}
		}
		// concrete lead byte with possibly symbolic continuation: decode if all concrete
		end := it.i + 4
		if end > n {
			end = n
		}
		sub := strSlice(it.s, it.i, end)
		if ss, ok := sub.(string); ok {
			r, sz := decodeRune(ss)
			it.i += sz
			return Tuple{true, uint64(k), canon(uint64(r), 32, true)}
		}
		m.unsupported("range over string with symbolic continuation bytes")
	}
	panic(fmt.Sprintf("next: %T", it))
}

func decodeRune(s string) (rune, int) {
	for _, r := range s {
		n := len(string(r))
		if r == 0xFFFD {
			// could be an invalid byte (size 1) or a real U+FFFD (size 3)
			if len(s) >= 3 && s[:3] == "�" {
				return r, 3
			}
			return r, 1
		}
		return r, n
	}
	return 0xFFFD, 0
}

// ---------------------------------------------------------------------------
// builtins

func (m *Machine) callBuiltin(fr *frame, b *ssa.Builtin, args []Value, instr ssa.Instruction) Value {
	switch b.Name() {
	case "append":
		if len(args) == 1 {
			return args[0]
		}
		dst := args[0].(Slice)
		var src []Value
		switch s := args[1].(type) {
		case Slice:
			src = s.a
		case string, *SymStr:
			src = strBytes(s)
		default:
			panic(fmt.Sprintf("append: %T", args[1]))
		}
		if len(src) == 0 {
			return dst
		}
		if int64(len(dst.a)+len(src)) > m.cfg.MaxAlloc {
			panic(pathEnd{kind: "hugealloc", msg: "append beyond allocation cap"})
		}
		na := dst.a
		for _, x := range src {
			na = append(na, copyVal(x))
		}
		return Slice{a: na}
	case "copy":
		dst := args[0].(Slice)
		var src []Value
		switch s := args[1].(type) {
		case Slice:
			src = s.a
		case string, *SymStr:
			src = strBytes(s)
		}
		n := len(dst.a)
		if len(src) < n {
			n = len(src)
		}
		// overlapping copy semantics like memmove
		tmp := make([]Value, n)
		for i := 0; i < n; i++ {
			tmp[i] = copyVal(src[i])
		}
		copy(dst.a, tmp)
		return uint64(n)
	case "close":
		m.chanClose(args[0])
		return nil
	case "delete":
		mp := args[0].(*Map)
		if mp != nil {
			m.mapDelete(mp, args[1])
		}
		return nil
	case "clear":
		switch x := args[0].(type) {
		case *Map:
			if x != nil {
				for i := range x.keys {
					x.removeAt(i)
				}
			}
		case Slice:
			var et types.Type
			if c, ok := instr.(ssa.CallInstruction); ok {
				et = c.Common().Args[0].Type().Underlying().(*types.Slice).Elem()
			}
			for i := range x.a {
				x.a[i] = zero(et)
			}
		}
		return nil
	case "print", "println":
		return nil
	case "len":
		switch x := args[0].(type) {
		case string, *SymStr:
			return uint64(strLen(x))
		case Slice:
			return uint64(len(x.a))
		case Array:
			return uint64(len(x))
		case *Value:
			if x == nil {
				// len of nil *array is the array length; need type
				c := instr.(ssa.CallInstruction).Common().Args[0].Type().Underlying().(*types.Pointer).Elem().Underlying().(*types.Array)
				return uint64(c.Len())
			}
			return uint64(len((*x).(Array)))
		case *Map:
			if x == nil {
				return uint64(0)
			}
			return uint64(x.n)
		case *Chan:
			if x == nil {
				return uint64(0)
			}
			return uint64(len(x.buf))
		}
		panic(fmt.Sprintf("len: %T", args[0]))
	case "cap":
		switch x := args[0].(type) {
		case Slice:
			return uint64(cap(x.a))
		case Array:
			return uint64(len(x))
		case *Value:
			return uint64(len((*x).(Array)))
		case *Chan:
			if x == nil {
				return uint64(0)
			}
			return uint64(x.cap)
		}
		panic(fmt.Sprintf("cap: %T", args[0]))
	case "min", "max":
		t := instr.(ssa.CallInstruction).Common().Args[0].Type()
		acc := args[0]
		for _, a := range args[1:] {
			var c Value
			if b.Name() == "min" {
				c = m.binop(token.LSS, t, a, acc, t)
			} else {
				c = m.binop(token.GTR, t, a, acc, t)
			}
			acc = m.iteValue(t, c, a, acc)
		}
		return acc
	case "panic":
		m.res.noteExplicitPanic(fr.fn.String())
		panic(targetPanic{v: args[0]})
	case "recover":
		return m.doRecover(fr)
	case "ssa:wrapnilchk":
		recv := args[0]
		if p, ok := recv.(*Value); ok && p == nil {
			m.throwRuntime(fmt.Sprintf("value method %s.%s called using nil pointer", args[1], args[2]))
		}
		return recv
	case "real", "imag", "complex":
		m.unsupported("complex builtin")
	}
	panic("unknown builtin " + b.Name())
}

// iteValue selects between two values of type t under a (possibly symbolic)
// condition.
func (m *Machine) iteValue(t types.Type, c Value, a, b Value) Value {
	switch cv := c.(type) {
	case bool:
		if cv {
			return a
		}
		return b
	case *Term:
		if isScalarT(t) {
			at, bt := m.toTerm(a, t), m.toTerm(b, t)
			return m.fromTerm(m.tf.Ite(cv, at, bt), t)
		}
		if m.decideBool(cv, "select value") {
			return a
		}
		return b
	}
	panic("iteValue")
}

// toTerm lifts a scalar value of static type t.
func (m *Machine) toTerm(v Value, t types.Type) *Term {
	switch v := v.(type) {
	case *Term:
		return v
	case bool:
		return m.tf.Bool(v)
	case uint64:
		w, _, ok := intInfo(t)
		if !ok {
			panic(fmt.Sprintf("toTerm: uint64 with non-int type %v", t))
		}
		return m.tf.BV(v, w)
	}
	panic(fmt.Sprintf("toTerm: %T (%v)", v, t))
}

// fromTerm lowers constant terms back to concrete values of type t.
func (m *Machine) fromTerm(x *Term, t types.Type) Value {
	if x.isConst() {
		if x.w == 0 {
			return x.op == "true"
		}
		w, signed, _ := intInfo(t)
		return canon(x.val, w, signed)
	}
	return x
}

func fatalf(format string, a ...interface{}) {
	fmt.Fprintf(os.Stderr, format+"\n", a...)
	os.Exit(3)
}

// visitTolerant executes an instruction of a package initialiser that may
// touch unmodelled runtime facilities (reflection, cpu feature detection …):
// an instruction that cannot be executed yields the zero value of its type.
func (m *Machine) visitTolerant(fr *frame, instr ssa.Instruction) (c cont) {
	defer func() {
		if r := recover(); r != nil {
			if pe, ok := r.(pathEnd); ok && pe.kind != "unsupported" {
				panic(r)
			}
			if _, ok := r.(crashSignal); ok {
				panic(r)
			}
			c = kNext
			if v, ok := instr.(ssa.Value); ok {
				func() {
					defer func() {
						if recover() != nil {
							fr.set(v, nil)
						}
					}()
					fr.set(v, zero(v.Type()))
				}()
			}
			switch instr.(type) {
			case *ssa.If, *ssa.Jump, *ssa.Return, *ssa.Panic:
				// control flow cannot be skipped: abandon this initialiser
				fr.block = nil
				c = kReturn
			}
		}
	}()
	return m.visit(fr, instr)
}
