package main

import "fmt"

// symbolicMakeGuard decides the two bad classes of a symbolic make([]T, n)
// size with one branch each instead of enumerating sizes: n < 0 (run-time
// panic) and n > allocation cap (hugealloc path end, a violation under
// alloc_is_violation). Afterwards 0 <= n <= cap holds on the path and the
// caller concretises n as before.
func (m *Machine) symbolicMakeGuard(fr *frame, n Value, signed bool) {
	t, ok := n.(*Term)
	if !ok {
		return
	}
	w := t.w
	lt := "bvult" // unsigned size types have no negative values
	if signed {
		lt = "bvslt"
		if m.decideBool(m.tf.Cmp("bvslt", t, m.tf.BV(0, w)), "make size < 0") {
			m.throwRuntime("makeslice: len out of range")
		}
	}
	if m.decideBool(m.tf.Cmp(lt, m.tf.BV(uint64(m.cfg.MaxAlloc), w), t), "make size > cap") {
		m.res.noteHugeAlloc(fr.fn.String(), m.cfg.MaxAlloc+1)
		panic(pathEnd{kind: "hugealloc", msg: fmt.Sprintf("make([]T, n) in %s: symbolic n can exceed allocation cap %d", fr.fn, m.cfg.MaxAlloc)})
	}
}
