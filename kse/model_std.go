package main

// Models of standard-library leaves: bytealg (assembly), unsafe string
// tricks, errors, fmt, sort.Slice, and packages reduced to no-ops (logging,
// metrics, tracing).

import (
	"fmt"
	"go/token"
	"go/types"
	"strconv"
	"strings"

	"golang.org/x/tools/go/ssa"
)

// GoFunc is a function value implemented by the engine.
type GoFunc struct {
	name string
	f    func(m *Machine, args []Value) Value
}

// sliceDataPtr is the result of unsafe.SliceData / unsafe.StringData.
type sliceDataPtr struct {
	a []Value
}

var noopPkgs = map[string]bool{
	"github.com/uber/kraken/utils/log":     true,
	"go.uber.org/zap":                      true,
	"go.uber.org/zap/zapcore":              true,
	"github.com/uber-go/tally":             true,
	"go.opentelemetry.io/otel":             true,
	"go.opentelemetry.io/otel/trace":       true,
	"go.opentelemetry.io/otel/attribute":   true,
	"go.opentelemetry.io/otel/codes":       true,
	"go.opentelemetry.io/otel/propagation": true,
	"log":                                  true,
	"runtime/debug":                        true,
	"runtime/trace":                        true,
	"runtime/pprof":                        true,
	"internal/race":                        true,
	"internal/godebug":                     true,
	"internal/testlog":                     true,
	"expvar":                               true,
}

// noopResult returns zero values; Fatal/Panic style functions abort.
func noopResult(m *Machine, fn *ssa.Function, args []Value) Value {
	n := fn.Name()
	if strings.HasPrefix(n, "Fatal") || (strings.HasPrefix(n, "Panic") && fn.Pkg != nil && fn.Pkg.Pkg.Path() != "go.uber.org/zap/zapcore") {
		panic(pathEnd{kind: "fatal", msg: "log." + n + " called (process abort)"})
	}
	return zeroResults(fn.Signature)
}

func sliceBytes(v Value) []Value {
	switch s := v.(type) {
	case Slice:
		return s.a
	case string, *SymStr:
		return strBytes(s)
	}
	panic(fmt.Sprintf("sliceBytes: %T", v))
}

func i64(v int) Value { return canon(uint64(int64(v)), 64, true) }

func (m *Machine) byteEq(a, b Value) Value {
	return m.equals(types.Typ[types.Uint8], a, b)
}

func (m *Machine) indexByte(b []Value, c Value) Value {
	for i, x := range b {
		if m.truth(m.byteEq(x, c), "IndexByte") {
			return i64(i)
		}
	}
	return i64(-1)
}

func (m *Machine) lastIndexByte(b []Value, c Value) Value {
	for i := len(b) - 1; i >= 0; i-- {
		if m.truth(m.byteEq(b[i], c), "LastIndexByte") {
			return i64(i)
		}
	}
	return i64(-1)
}

func (m *Machine) countByte(b []Value, c Value) Value {
	n := 0
	for _, x := range b {
		if m.truth(m.byteEq(x, c), "Count") {
			n++
		}
	}
	return i64(n)
}

func (m *Machine) indexSub(a, sep []Value) Value {
	n := len(sep)
	for i := 0; i+n <= len(a); i++ {
		var acc Value = true
		for j := 0; j < n; j++ {
			acc = m.and(acc, m.byteEq(a[i+j], sep[j]))
			if acc == false {
				break
			}
		}
		if m.truth(acc, "Index") {
			return i64(i)
		}
	}
	return i64(-1)
}

func (m *Machine) compareBytes(a, b []Value) Value {
	n := len(a)
	if len(b) < n {
		n = len(b)
	}
	u8 := types.Typ[types.Uint8]
	for i := 0; i < n; i++ {
		if m.truth(m.byteEq(a[i], b[i]), "Compare eq") {
			continue
		}
		if m.truth(m.binop(token.LSS, u8, a[i], b[i], u8), "Compare lt") {
			return i64(-1)
		}
		return i64(1)
	}
	switch {
	case len(a) < len(b):
		return i64(-1)
	case len(a) > len(b):
		return i64(1)
	}
	return i64(0)
}

func init() {
	ba := "internal/bytealg."
	reg(ba+"IndexByte", func(m *Machine, fr *frame, a []Value) Value { return m.indexByte(sliceBytes(a[0]), a[1]) })
	reg(ba+"IndexByteString", func(m *Machine, fr *frame, a []Value) Value { return m.indexByte(sliceBytes(a[0]), a[1]) })
	reg(ba+"LastIndexByte", func(m *Machine, fr *frame, a []Value) Value { return m.lastIndexByte(sliceBytes(a[0]), a[1]) })
	reg(ba+"LastIndexByteString", func(m *Machine, fr *frame, a []Value) Value { return m.lastIndexByte(sliceBytes(a[0]), a[1]) })
	reg(ba+"Count", func(m *Machine, fr *frame, a []Value) Value { return m.countByte(sliceBytes(a[0]), a[1]) })
	reg(ba+"CountString", func(m *Machine, fr *frame, a []Value) Value { return m.countByte(sliceBytes(a[0]), a[1]) })
	reg(ba+"Index", func(m *Machine, fr *frame, a []Value) Value { return m.indexSub(sliceBytes(a[0]), sliceBytes(a[1])) })
	reg(ba+"IndexString", func(m *Machine, fr *frame, a []Value) Value { return m.indexSub(sliceBytes(a[0]), sliceBytes(a[1])) })
	reg(ba+"Compare", func(m *Machine, fr *frame, a []Value) Value {
		return m.compareBytes(sliceBytes(a[0]), sliceBytes(a[1]))
	})
	reg(ba+"Cutover", func(m *Machine, fr *frame, a []Value) Value { return i64(64) })
	reg(ba+"MakeNoZero", func(m *Machine, fr *frame, a []Value) Value {
		n := concInt(m, a[0], "MakeNoZero")
		s := make([]Value, n)
		for i := range s {
			s[i] = uint64(0)
		}
		return Slice{a: s}
	})
	reg("strings.Index", func(m *Machine, fr *frame, a []Value) Value { return m.indexSub(sliceBytes(a[0]), sliceBytes(a[1])) })
	reg("bytes.Index", func(m *Machine, fr *frame, a []Value) Value { return m.indexSub(sliceBytes(a[0]), sliceBytes(a[1])) })
	reg("strings.Compare", func(m *Machine, fr *frame, a []Value) Value {
		return m.compareBytes(sliceBytes(a[0]), sliceBytes(a[1]))
	})
	reg("bytes.Compare", func(m *Machine, fr *frame, a []Value) Value {
		return m.compareBytes(sliceBytes(a[0]), sliceBytes(a[1]))
	})
	reg("internal/stringslite.Index", func(m *Machine, fr *frame, a []Value) Value { return m.indexSub(sliceBytes(a[0]), sliceBytes(a[1])) })
	reg("bytes.Equal", func(m *Machine, fr *frame, a []Value) Value {
		return m.strEq(mkStr(sliceBytes(a[0])), mkStr(sliceBytes(a[1])))
	})
	reg("(*strings.Builder).String", func(m *Machine, fr *frame, a []Value) Value {
		p := a[0].(*Value)
		st := (*p).(Struct)
		// fields: addr *Builder, buf []byte
		buf := st[len(st)-1].(Slice)
		return mkStr(buf.a)
	})
	reg("(*strings.Builder).copyCheck", func(m *Machine, fr *frame, a []Value) Value { return nil })
	reg("strings.Clone", func(m *Machine, fr *frame, a []Value) Value { return a[0] })
	reg("internal/stringslite.Clone", func(m *Machine, fr *frame, a []Value) Value { return a[0] })
	reg("internal/abi.NoEscape", func(m *Machine, fr *frame, a []Value) Value { return a[0] })
	reg("internal/abi.Escape", func(m *Machine, fr *frame, a []Value) Value { return a[0] })
	reg("runtime.KeepAlive", func(m *Machine, fr *frame, a []Value) Value { return nil })
	reg("runtime.SetFinalizer", func(m *Machine, fr *frame, a []Value) Value { return nil })
	reg("runtime.GC", func(m *Machine, fr *frame, a []Value) Value { return nil })
	reg("runtime.Gosched", func(m *Machine, fr *frame, a []Value) Value { m.yield("Gosched"); return nil })
	reg("runtime.NumCPU", func(m *Machine, fr *frame, a []Value) Value { return i64(4) })
	reg("runtime.GOMAXPROCS", func(m *Machine, fr *frame, a []Value) Value { return i64(4) })
	reg("runtime.Caller", func(m *Machine, fr *frame, a []Value) Value { return Tuple{uint64(0), "kse", i64(0), false} })
	reg("runtime.Callers", func(m *Machine, fr *frame, a []Value) Value { return i64(0) })
	reg("runtime.Stack", func(m *Machine, fr *frame, a []Value) Value { return i64(0) })
	reg("os.Getenv", func(m *Machine, fr *frame, a []Value) Value { return "" })
	reg("os.LookupEnv", func(m *Machine, fr *frame, a []Value) Value { return Tuple{"", false} })
	reg("os.Getpid", func(m *Machine, fr *frame, a []Value) Value { return i64(4242) })
	reg("os.Hostname", func(m *Machine, fr *frame, a []Value) Value { return Tuple{"kse-host", Iface{}} })
	reg("os.Exit", func(m *Machine, fr *frame, a []Value) Value {
		panic(pathEnd{kind: "fatal", msg: "os.Exit called"})
	})
	reg("math.Float64bits", func(m *Machine, fr *frame, a []Value) Value { return mathFloat64bits(a[0].(float64)) })
	reg("math.Float64frombits", func(m *Machine, fr *frame, a []Value) Value {
		x, ok := a[0].(uint64)
		if !ok {
			m.unsupported("Float64frombits of symbolic value")
		}
		return mathFloat64frombits(x)
	})
	reg("math.Float32bits", func(m *Machine, fr *frame, a []Value) Value { return uint64(mathFloat32bits(a[0].(float64))) })
	reg("math.Float32frombits", func(m *Machine, fr *frame, a []Value) Value {
		x, ok := a[0].(uint64)
		if !ok {
			m.unsupported("Float32frombits of symbolic value")
		}
		return mathFloat32frombits(uint32(x))
	})
	for _, n := range []string{"Log", "Sqrt", "Floor", "Ceil", "Exp", "Log2", "Log10", "Abs", "Trunc", "Round"} {
		n := n
		reg("math."+n, func(m *Machine, fr *frame, a []Value) Value { return mathFn1(n, a[0].(float64)) })
	}
	reg("math.Pow", func(m *Machine, fr *frame, a []Value) Value { return mathPow(a[0].(float64), a[1].(float64)) })
	reg("math.Mod", func(m *Machine, fr *frame, a []Value) Value { return mathMod(a[0].(float64), a[1].(float64)) })
	reg("math.IsNaN", func(m *Machine, fr *frame, a []Value) Value { f := a[0].(float64); return f != f })
	reg("math.IsInf", func(m *Machine, fr *frame, a []Value) Value {
		return mathIsInf(a[0].(float64), int(int64(a[1].(uint64))))
	})
	reg("math.Inf", func(m *Machine, fr *frame, a []Value) Value { return mathInf(int(int64(a[0].(uint64)))) })
	reg("math.NaN", func(m *Machine, fr *frame, a []Value) Value { return mathNaN() })

	// errors
	reg("errors.Is", func(m *Machine, fr *frame, a []Value) Value { return m.errorsIs(fr, a[0].(Iface), a[1].(Iface)) })
	reg("errors.As", func(m *Machine, fr *frame, a []Value) Value { return m.errorsAs(fr, a[0].(Iface), a[1].(Iface)) })
	// fmt
	reg("fmt.Sprintf", func(m *Machine, fr *frame, a []Value) Value {
		s, _ := m.format(fr, a[0], a[1].(Slice).a)
		return s
	})
	reg("fmt.Errorf", func(m *Machine, fr *frame, a []Value) Value {
		m.opaqueFmt++
		s, wrapped := m.format(fr, a[0], a[1].(Slice).a)
		m.opaqueFmt--
		return m.newFmtError(s, wrapped)
	})
	reg("fmt.Sprint", func(m *Machine, fr *frame, a []Value) Value { return m.sprint(fr, a[0].(Slice).a, false) })
	reg("fmt.Sprintln", func(m *Machine, fr *frame, a []Value) Value {
		return strConcat(m.sprint(fr, a[0].(Slice).a, true), "\n")
	})
	for _, n := range []string{"fmt.Printf", "fmt.Println", "fmt.Print"} {
		reg(n, func(m *Machine, fr *frame, a []Value) Value { return Tuple{i64(0), Iface{}} })
	}
	reg("fmt.Fprintf", func(m *Machine, fr *frame, a []Value) Value {
		s, _ := m.format(fr, a[1], a[2].(Slice).a)
		return m.writeTo(fr, a[0].(Iface), s)
	})
	reg("fmt.Fprint", func(m *Machine, fr *frame, a []Value) Value {
		return m.writeTo(fr, a[0].(Iface), m.sprint(fr, a[1].(Slice).a, false))
	})
	reg("fmt.Fprintln", func(m *Machine, fr *frame, a []Value) Value {
		return m.writeTo(fr, a[0].(Iface), strConcat(m.sprint(fr, a[1].(Slice).a, true), "\n"))
	})

	// sort.Slice family
	sortSlice := func(stable bool) intrinsic {
		return func(m *Machine, fr *frame, a []Value) Value {
			s := a[0].(Iface).v.(Slice)
			less := a[1]
			if stable {
				m.insertionSort(fr, s.a, less)
			} else {
				m.sortSliceUnstable(fr, s.a, less) // model_sort_pdq.go
			}
			return nil
		}
	}
	reg("sort.Slice", sortSlice(false))
	reg("sort.SliceStable", sortSlice(true))
	reg("sort.SliceIsSorted", func(m *Machine, fr *frame, a []Value) Value {
		s := a[0].(Iface).v.(Slice)
		for i := len(s.a) - 1; i > 0; i-- {
			if m.truth(m.call(fr, a[1], []Value{i64(i), i64(i - 1)}, nil), "SliceIsSorted") {
				return false
			}
		}
		return true
	})
	reg("github.com/pborman/uuid.New", func(m *Machine, fr *frame, a []Value) Value {
		m.uuidSeq++
		return fmt.Sprintf("00000000-0000-4000-8000-%012d", m.uuidSeq)
	})
	reg("github.com/google/uuid.NewString", func(m *Machine, fr *frame, a []Value) Value {
		m.uuidSeq++
		return fmt.Sprintf("00000000-0000-4000-8000-%012d", m.uuidSeq)
	})
}

// insertionSort sorts a (in place) with the less(i, j) callback operating on
// indices of the same slice (sort.Slice contract). A stable insertion sort is a
// valid implementation of both sort.Slice and sort.SliceStable.
func (m *Machine) insertionSort(fr *frame, a []Value, less Value) {
	for i := 1; i < len(a); i++ {
		for j := i; j > 0; j-- {
			if !m.truth(m.call(fr, less, []Value{i64(j), i64(j - 1)}, nil), "sort.Slice less") {
				break
			}
			a[j], a[j-1] = a[j-1], a[j]
		}
	}
}

// ---------------------------------------------------------------------------
// errors

func (m *Machine) errUnwrap(fr *frame, e Iface) []Iface {
	if e.t == nil {
		return nil
	}
	ms := m.prog.MethodSets.MethodSet(e.t)
	for i := 0; i < ms.Len(); i++ {
		sel := ms.At(i)
		if sel.Obj().Name() != "Unwrap" {
			continue
		}
		sig := sel.Type().(*types.Signature)
		if sig.Params().Len() != 0 || sig.Results().Len() != 1 {
			return nil
		}
		f := m.prog.MethodValue(sel)
		r := m.callSSA(fr, f, []Value{e.v}, nil)
		switch r := r.(type) {
		case Iface:
			if r.t == nil {
				return nil
			}
			return []Iface{r}
		case Slice:
			var out []Iface
			for _, x := range r.a {
				if xi := x.(Iface); xi.t != nil {
					out = append(out, xi)
				}
			}
			return out
		}
	}
	return nil
}

func (m *Machine) errorsIs(fr *frame, err, target Iface) Value {
	if err.t == nil || target.t == nil {
		return err.t == nil && target.t == nil
	}
	comparable := types.Comparable(target.t)
	var walk func(e Iface) Value
	walk = func(e Iface) Value {
		if comparable && types.Identical(e.t, target.t) {
			if m.truth(m.equals(e.t, e.v, target.v), "errors.Is equal") {
				return true
			}
		}
		// Is method
		ms := m.prog.MethodSets.MethodSet(e.t)
		for i := 0; i < ms.Len(); i++ {
			sel := ms.At(i)
			if sel.Obj().Name() == "Is" {
				sig := sel.Type().(*types.Signature)
				if sig.Params().Len() == 1 && sig.Results().Len() == 1 && isBoolT(sig.Results().At(0).Type()) && isInterface(sig.Params().At(0).Type()) {
					f := m.prog.MethodValue(sel)
					if m.truth(m.callSSA(fr, f, []Value{e.v, target}, nil), "errors.Is method") {
						return true
					}
				}
			}
		}
		for _, u := range m.errUnwrap(fr, e) {
			if walk(u) == true {
				return true
			}
		}
		return false
	}
	return walk(err)
}

func (m *Machine) errorsAs(fr *frame, err, target Iface) Value {
	if target.t == nil {
		m.throwRuntime("errors: target cannot be nil")
	}
	pt, ok := target.t.Underlying().(*types.Pointer)
	if !ok {
		m.throwRuntime("errors: target must be a non-nil pointer")
	}
	tt := pt.Elem()
	if err.t == nil {
		return false
	}
	var walk func(e Iface) bool
	walk = func(e Iface) bool {
		assignable := false
		if isInterface(tt) {
			assignable = types.Implements(e.t, tt.Underlying().(*types.Interface))
		} else {
			assignable = types.Identical(e.t, tt)
		}
		if assignable {
			if isInterface(tt) {
				m.store(target.v, e)
			} else {
				m.store(target.v, e.v)
			}
			return true
		}
		ms := m.prog.MethodSets.MethodSet(e.t)
		for i := 0; i < ms.Len(); i++ {
			sel := ms.At(i)
			if sel.Obj().Name() == "As" {
				f := m.prog.MethodValue(sel)
				if m.truth(m.callSSA(fr, f, []Value{e.v, target}, nil), "errors.As method") {
					return true
				}
			}
		}
		for _, u := range m.errUnwrap(fr, e) {
			if walk(u) {
				return true
			}
		}
		return false
	}
	return walk(err)
}

// ---------------------------------------------------------------------------
// fmt

func (m *Machine) newFmtError(s Value, wrapped []Iface) Value {
	fp := m.prog.ImportedPackage("fmt")
	if len(wrapped) == 0 || fp == nil || fp.Type("wrapError") == nil {
		ep := m.prog.ImportedPackage("errors")
		et := ep.Type("errorString").Type()
		p := new(Value)
		*p = Struct{s}
		return Iface{t: types.NewPointer(et), v: p}
	}
	if len(wrapped) == 1 {
		wt := fp.Type("wrapError").Type()
		p := new(Value)
		*p = Struct{s, wrapped[0]}
		return Iface{t: types.NewPointer(wt), v: p}
	}
	wt := fp.Type("wrapErrors").Type()
	p := new(Value)
	var errs []Value
	for _, w := range wrapped {
		errs = append(errs, w)
	}
	*p = Struct{s, Slice{a: errs}}
	return Iface{t: types.NewPointer(wt), v: p}
}

func (m *Machine) writeTo(fr *frame, w Iface, s Value) Value {
	b := strBytes(s)
	c := make([]Value, len(b))
	copy(c, b)
	r, ok := m.callMethod(fr, w, "Write", Slice{a: c})
	if !ok {
		m.throwRuntime("nil io.Writer")
	}
	return r
}

// argString renders one operand for %v / %s.
func (m *Machine) argString(fr *frame, a Value, verb byte, flags string) Value {
	ia, ok := a.(Iface)
	if !ok {
		return "?"
	}
	if ia.t == nil {
		if verb == 's' {
			return "%!s(<nil>)"
		}
		return "<nil>"
	}
	// error / Stringer
	if verb == 'v' || verb == 's' || verb == 'q' {
		if _, isPtr := ia.v.(*Value); isPtr && ia.v.(*Value) == nil {
			// nil pointer receiver: methods may still work; avoid crashes
		} else {
			for _, name := range []string{"Error", "String"} {
				if ms := m.prog.MethodSets.MethodSet(ia.t); ms != nil {
					for i := 0; i < ms.Len(); i++ {
						sel := ms.At(i)
						sig := sel.Type().(*types.Signature)
						if sel.Obj().Name() == name && sig.Params().Len() == 0 && sig.Results().Len() == 1 && isString(sig.Results().At(0).Type()) {
							f := m.prog.MethodValue(sel)
							if f != nil {
								r := m.callSSA(fr, f, []Value{ia.v}, nil)
								if verb == 'q' {
									if rs, ok := r.(string); ok {
										return strconv.Quote(rs)
									}
									return strConcat(strConcat("\"", r), "\"")
								}
								return r
							}
						}
					}
				}
			}
		}
	}
	t := ia.t
	switch v := ia.v.(type) {
	case string:
		if verb == 'q' {
			return strconv.Quote(v)
		}
		if verb == 'x' {
			return fmt.Sprintf("%"+flags+"x", v)
		}
		return fmt.Sprintf("%"+flags+"s", v)
	case *SymStr:
		if verb == 'q' {
			return strConcat(strConcat("\"", v), "\"")
		}
		return v
	case bool:
		return fmt.Sprintf("%"+flags+"v", v)
	case uint64:
		_, signed, _ := intInfo(t)
		vb := verb
		if vb == 's' {
			vb = 'v'
		}
		if signed {
			return fmt.Sprintf("%"+flags+string(vb), int64(v))
		}
		return fmt.Sprintf("%"+flags+string(vb), v)
	case float64:
		vb := verb
		if vb == 's' {
			vb = 'v'
		}
		return fmt.Sprintf("%"+flags+string(vb), v)
	case *Term:
		if v.w == 0 {
			if m.truth(v, "format bool") {
				return "true"
			}
			return "false"
		}
		if verb == 'd' || verb == 'v' {
			_, signed, _ := intInfo(t)
			if m.opaqueFmt > 0 {
				m.res.Notes["error messages: symbolic integers are rendered as a placeholder (message text is never compared)"] = true
				return "<sym>"
			}
			return m.formatSymInt(fr, v, signed)
		}
		m.res.Notes["symbolic integer under a non-decimal verb rendered as a placeholder"] = true
		return "<sym>"
	case Slice:
		if sl, ok := under(t).(*types.Slice); ok {
			if b, ok := under(sl.Elem()).(*types.Basic); ok && b.Kind() == types.Uint8 && (verb == 's' || verb == 'x' || verb == 'q') {
				s := mkStr(v.a)
				if cs, ok := s.(string); ok {
					return fmt.Sprintf("%"+flags+string(verb), cs)
				}
				return s
			}
			var parts Value = "["
			for i, e := range v.a {
				if i > 0 {
					parts = strConcat(parts, " ")
				}
				parts = strConcat(parts, m.argString(fr, Iface{t: sl.Elem(), v: e}, 'v', ""))
			}
			return strConcat(parts, "]")
		}
	case Array:
		if at, ok := under(t).(*types.Array); ok {
			if b, ok := under(at.Elem()).(*types.Basic); ok && b.Kind() == types.Uint8 && (verb == 'x' || verb == 's') {
				s := mkStr(v)
				if cs, ok := s.(string); ok {
					return fmt.Sprintf("%"+flags+string(verb), cs)
				}
			}
		}
	case *Value:
		if v == nil {
			return "<nil>"
		}
		return "0xc000000000"
	}
	return fmt.Sprintf("{%s}", types.TypeString(t, func(p *types.Package) string { return p.Name() }))
}

func (m *Machine) formatSymInt(fr *frame, v *Term, signed bool) Value {
	sp := m.prog.ImportedPackage("strconv")
	if sp == nil {
		m.unsupported("strconv not loaded for symbolic %%d")
	}
	if signed {
		x := m.tf.Extend(v, 64, true)
		return m.callSSA(fr, sp.Func("FormatInt"), []Value{x, i64(10)}, nil)
	}
	x := m.tf.Extend(v, 64, false)
	return m.callSSA(fr, sp.Func("FormatUint"), []Value{x, i64(10)}, nil)
}

// format implements the Printf family. Returns the string and the operands of
// %w verbs.
func (m *Machine) format(fr *frame, f Value, args []Value) (Value, []Iface) {
	fs, ok := f.(string)
	if !ok {
		m.unsupported("format string must be concrete")
	}
	var out Value = ""
	var wrapped []Iface
	ai := 0
	i := 0
	lit := 0
	for i < len(fs) {
		if fs[i] != '%' {
			i++
			continue
		}
		out = strConcat(out, fs[lit:i])
		i++
		if i >= len(fs) {
			out = strConcat(out, "%!(NOVERB)")
			lit = i
			break
		}
		start := i
		for i < len(fs) && strings.IndexByte("+-# 0123456789.*", fs[i]) >= 0 {
			i++
		}
		flags := fs[start:i]
		if i >= len(fs) {
			lit = i
			break
		}
		verb := fs[i]
		i++
		lit = i
		if verb == '%' {
			out = strConcat(out, "%")
			continue
		}
		if strings.Contains(flags, "*") {
			// width from args
			if ai < len(args) {
				if wv, ok := args[ai].(Iface).v.(uint64); ok {
					flags = strings.Replace(flags, "*", strconv.Itoa(int(int64(wv))), 1)
				}
				ai++
			}
		}
		if ai >= len(args) {
			out = strConcat(out, "%!"+string(verb)+"(MISSING)")
			continue
		}
		a := args[ai]
		ai++
		switch verb {
		case 'w':
			if ia, ok := a.(Iface); ok && ia.t != nil {
				wrapped = append(wrapped, ia)
			}
			out = strConcat(out, m.argString(fr, a, 'v', ""))
		case 'T':
			if ia, ok := a.(Iface); ok && ia.t != nil {
				out = strConcat(out, ia.t.String())
			} else {
				out = strConcat(out, "<nil>")
			}
		default:
			out = strConcat(out, m.argString(fr, a, verb, flags))
		}
	}
	out = strConcat(out, fs[lit:])
	return out, wrapped
}

func (m *Machine) sprint(fr *frame, args []Value, spaces bool) Value {
	var out Value = ""
	for i, a := range args {
		if i > 0 && spaces {
			out = strConcat(out, " ")
		}
		out = strConcat(out, m.argString(fr, a, 'v', ""))
	}
	return out
}
