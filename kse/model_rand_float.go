package main

// math/rand.Float64 / Float32: floats are concrete in the engine, so the draw
// is the fixed mid-point 0.5 (a recorded modelling cut). The only kraken-side
// consumers are jittered delays (cenkalti/backoff intervals, randomised
// sleeps); code that branches on the draw itself is under-approximated.

func init() {
	const note = "math/rand.Float64 modelled as the constant 0.5 (floats are concrete): jitter is not explored"
	regIfAbsent("math/rand.Float64", func(m *Machine, fr *frame, a []Value) Value {
		m.res.Notes[note] = true
		return float64(0.5)
	})
	regIfAbsent("math/rand.Float32", func(m *Machine, fr *frame, a []Value) Value {
		m.res.Notes[note] = true
		return float64(0.5)
	})
}
