package main

// Non-forking map lookup: m[k] with a symbolic integer key k over a map whose
// keys are all concrete and whose values are booleans or integers (or any
// value type when only the ",ok" result can differ from the zero value, i.e.
// set-like maps with empty-struct values) is the if-then-else chain
//   ite(k == k1, v1, ite(k == k2, v2, … zero))      ok = (k == k1) ∨ (k == k2) ∨ …
// instead of one path per key. Semantically identical to the forking lookup;
// returns ok == false when the shape does not fit (caller forks as before).

import (
	"go/types"

	"golang.org/x/tools/go/ssa"
)

func (m *Machine) lookupIte(mp *Map, k *Term, in *ssa.Lookup) (Value, bool) {
	if mp == nil || mp.hasSymKeys() || k.w == 0 {
		return nil, false
	}
	et := in.X.Type().Underlying().(*types.Map).Elem()
	w, signed, isInt := intInfo(et)
	isBool := false
	if b, ok := under(et).(*types.Basic); ok && b.Kind() == types.Bool {
		isBool = true
	}
	emptyStruct := false
	if st, ok := under(et).(*types.Struct); ok && st.NumFields() == 0 {
		emptyStruct = true
	}
	if !isInt && !isBool && !(emptyStruct && in.CommaOk) {
		return nil, false
	}
	var hit *Term = m.tf.Bool(false)
	var val *Term
	if isBool {
		val = m.tf.Bool(false)
	} else if isInt {
		val = m.tf.BV(0, w)
	}
	for i := len(mp.keys) - 1; i >= 0; i-- {
		if !mp.live[i] {
			continue
		}
		kc, ok := mp.keys[i].(uint64)
		if !ok {
			return nil, false
		}
		eq := m.tf.Eq(k, m.tf.BV(kc, k.w))
		hit = m.tf.Or(hit, eq)
		if val != nil {
			var vt *Term
			switch v := mp.vals[i].(type) {
			case bool:
				vt = m.tf.Bool(v)
			case uint64:
				vt = m.tf.BV(v, w)
			case *Term:
				vt = v
			default:
				return nil, false
			}
			if vt.w != val.w {
				return nil, false
			}
			val = m.tf.Ite(eq, vt, val)
		}
	}
	var v Value
	switch {
	case isBool:
		v = lowerBool(val)
	case isInt:
		v = lowerTerm(val, signed)
	default:
		v = zero(et)
	}
	if in.CommaOk {
		return Tuple{v, lowerBool(hit)}, true
	}
	return v, true
}
