package main

// implicitObligations turns path endings that the harness declared forbidden
// (panic, fatal, unbounded allocation) or that are always forbidden (deadlock
// of the main thread) into violations.
func (m *Machine) implicitObligations() {
	switch m.res.Status {
	case "panic":
		if m.cfg.PanicIsViolation {
			m.violation("no-panic", "panic", m.res.Msg)
		}
	case "deadlock":
		m.violation("no-deadlock", "deadlock", m.res.Msg)
	case "hugealloc":
		if m.cfg.AllocIsViolation {
			m.violation("bounded-alloc", "hugealloc", m.res.Msg)
		}
	case "fatal":
		if m.cfg.PanicIsViolation {
			m.violation("no-fatal", "fatal", m.res.Msg)
		}
	}
}
