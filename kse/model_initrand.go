package main

// utils/randutil.choose during PACKAGE INITIALISATION only.
//
// lib/backend's initialiser draws a random readiness-check namespace and a
// 256-byte random blob (core.NamespaceFixture / core.DigestFixture), i.e. ~270
// rand.Intn unknowns with a range assumption and an index check each, on every
// explored path of every harness that touches lib/backend. Those values are
// process-start constants that no property quantifies over, so while a package
// initialiser is running choose returns a fixed concrete text. Outside of
// initialisers the real body is interpreted (unknowns as before).

func init() {
	const name = "github.com/uber/kraken/utils/randutil.choose"
	regIfAbsent(name, func(m *Machine, fr *frame, a []Value) Value {
		if m.inInit == 0 {
			// run the real function: hide this intrinsic for the nested call
			fi := m.info(fr.fn)
			saved := fi.intr
			fi.intr = nil
			defer func() { fi.intr = saved }()
			return m.callSSA(fr.caller, fr.fn, a, nil)
		}
		n := int(m.concretizeInt(a[0], "randutil.choose n"))
		choices, ok := a[1].(string)
		if !ok || len(choices) == 0 {
			m.unsupported("randutil.choose in a package initialiser with symbolic or empty choices")
		}
		m.res.Notes["random text drawn inside package initialisers (lib/backend readiness-check names) is a fixed concrete value"] = true
		out := make([]Value, n)
		for i := range out {
			out[i] = uint64(choices[(7*i+3)%len(choices)])
		}
		return Slice{a: out}
	})
}
