package main

// Model of package time (DESIGN §4.2). time.Time keeps its three-field layout
// {wall, ext, loc} but with the engine's own meaning: wall == 1 marks a
// non-zero time whose ext is nanoseconds since the Unix epoch (possibly a
// term); wall == 0 is the zero Time. No monotonic clock, no locations.

import (
	"go/token"
	"go/types"
	"time"
)

const zeroTimeNs = -(int64(1) << 62)

var i64T = types.Typ[types.Int64]

func (m *Machine) timeFromNs(ns Value) Value {
	return Struct{uint64(1), ns, (*Value)(nil)}
}

func timeIsZero(t Value) bool {
	return t.(Struct)[0].(uint64) == 0
}

// timeNs returns ns since epoch of a Time value (zero Time: a very small
// number).
func (m *Machine) timeNs(t Value) Value {
	st := t.(Struct)
	if st[0].(uint64) == 0 {
		z := int64(zeroTimeNs)
		return uint64(z)
	}
	if st[0].(uint64) == 2 {
		// whole seconds (time.Unix(sec, 0)): ns = sec * 1e9
		return m.binop(token.MUL, i64T, st[1], uint64(1_000_000_000), i64T)
	}
	if st[0].(uint64) != 1 {
		m.unsupported("time.Time value not produced by the time model (wall=%d)", st[0].(uint64))
	}
	return st[1]
}

// timeSecs returns (seconds, true) for times known to be whole seconds.
func timeSecs(t Value) (Value, bool) {
	st := t.(Struct)
	if st[0].(uint64) == 2 {
		return st[1], true
	}
	return nil, false
}

// timeCmp applies a comparison to two times, on seconds when both are whole
// seconds (avoids multiplying symbolic values by 1e9).
func (m *Machine) timeCmp(op token.Token, a, b Value) Value {
	if x, ok := timeSecs(a); ok {
		if y, ok := timeSecs(b); ok {
			return m.binop(op, i64T, x, y, i64T)
		}
	}
	return m.binop(op, i64T, m.timeNs(a), m.timeNs(b), i64T)
}

func (m *Machine) now() Value {
	if m.nowV != nil {
		return m.nowV
	}
	return uint64(1_600_000_000_000_000_000)
}

func newTimerChan(m *Machine) *Chan {
	m.chanSeq++
	return &Chan{id: m.chanSeq, cap: 1, et: nil}
}

func init() {
	tm := func(name string, f intrinsic) { reg("(time.Time)."+name, f) }
	reg("time.Now", func(m *Machine, fr *frame, a []Value) Value { return m.timeFromNs(m.now()) })
	reg("time.Since", func(m *Machine, fr *frame, a []Value) Value {
		return m.timeSub(m.timeFromNs(m.now()), a[0])
	})
	reg("time.Until", func(m *Machine, fr *frame, a []Value) Value {
		return m.timeSub(a[0], m.timeFromNs(m.now()))
	})
	reg("time.Unix", func(m *Machine, fr *frame, a []Value) Value {
		if z, ok := a[1].(uint64); ok && z == 0 {
			return Struct{uint64(2), a[0], (*Value)(nil)}
		}
		ns := m.binop(token.ADD, i64T, m.binop(token.MUL, i64T, a[0], uint64(1_000_000_000), i64T), a[1], i64T)
		return m.timeFromNs(ns)
	})
	reg("time.UnixMilli", func(m *Machine, fr *frame, a []Value) Value {
		return m.timeFromNs(m.binop(token.MUL, i64T, a[0], uint64(1_000_000), i64T))
	})
	reg("time.UnixMicro", func(m *Machine, fr *frame, a []Value) Value {
		return m.timeFromNs(m.binop(token.MUL, i64T, a[0], uint64(1_000), i64T))
	})
	tm("Add", func(m *Machine, fr *frame, a []Value) Value {
		return m.timeFromNs(m.binop(token.ADD, i64T, m.timeNs(a[0]), a[1], i64T))
	})
	tm("Sub", func(m *Machine, fr *frame, a []Value) Value { return m.timeSub(a[0], a[1]) })
	tm("After", func(m *Machine, fr *frame, a []Value) Value {
		return m.timeCmp(token.GTR, a[0], a[1])
	})
	tm("Before", func(m *Machine, fr *frame, a []Value) Value {
		return m.timeCmp(token.LSS, a[0], a[1])
	})
	tm("Equal", func(m *Machine, fr *frame, a []Value) Value {
		return m.timeCmp(token.EQL, a[0], a[1])
	})
	tm("Compare", func(m *Machine, fr *frame, a []Value) Value {
		x, y := m.timeNs(a[0]), m.timeNs(a[1])
		if m.truth(m.binop(token.LSS, i64T, x, y, i64T), "Time.Compare <") {
			return i64(-1)
		}
		if m.truth(m.binop(token.GTR, i64T, x, y, i64T), "Time.Compare >") {
			return i64(1)
		}
		return i64(0)
	})
	tm("IsZero", func(m *Machine, fr *frame, a []Value) Value { return timeIsZero(a[0]) })
	tm("UnixNano", func(m *Machine, fr *frame, a []Value) Value { return m.timeNs(a[0]) })
	tm("Unix", func(m *Machine, fr *frame, a []Value) Value {
		if timeIsZero(a[0]) {
			z := int64(-62135596800)
			return uint64(z)
		}
		if sv, ok := timeSecs(a[0]); ok {
			return sv
		}
		return m.floorDiv(m.timeNs(a[0]), 1_000_000_000)
	})
	tm("UnixMilli", func(m *Machine, fr *frame, a []Value) Value { return m.floorDiv(m.timeNs(a[0]), 1_000_000) })
	tm("UnixMicro", func(m *Machine, fr *frame, a []Value) Value { return m.floorDiv(m.timeNs(a[0]), 1_000) })
	tm("Nanosecond", func(m *Machine, fr *frame, a []Value) Value {
		ns := m.timeNs(a[0])
		if c, ok := ns.(uint64); ok {
			r := int64(c) % 1_000_000_000
			if r < 0 {
				r += 1_000_000_000
			}
			return i64(int(r))
		}
		m.unsupported("Nanosecond of symbolic time")
		return nil
	})
	for _, n := range []string{"UTC", "Local", "Round", "Truncate", "In"} {
		n := n
		tm(n, func(m *Machine, fr *frame, a []Value) Value {
			if n == "Round" || n == "Truncate" {
				// drops the monotonic reading when d <= 0; otherwise rounding: only d == 0 supported
				if d, ok := a[1].(uint64); !ok || d != 0 {
					ns, ok1 := m.timeNs(a[0]).(uint64)
					dd, ok2 := a[1].(uint64)
					if ok1 && ok2 && dd > 0 {
						t := time.Unix(0, int64(ns))
						if n == "Round" {
							t = t.Round(time.Duration(dd))
						} else {
							t = t.Truncate(time.Duration(dd))
						}
						return m.timeFromNs(canon(uint64(t.UnixNano()), 64, true))
					}
					m.unsupported("Time.%s with symbolic operands", n)
				}
			}
			return a[0]
		})
	}
	strfn := func(m *Machine, fr *frame, a []Value) Value {
		if timeIsZero(a[0]) {
			return "0001-01-01 00:00:00 +0000 UTC"
		}
		if ns, ok := m.timeNs(a[0]).(uint64); ok {
			return time.Unix(0, int64(ns)).UTC().String()
		}
		return "<symbolic time>"
	}
	tm("String", strfn)
	tm("GoString", strfn)
	tm("Format", func(m *Machine, fr *frame, a []Value) Value {
		if ns, ok := m.timeNs(a[0]).(uint64); ok {
			if l, ok := a[1].(string); ok {
				return time.Unix(0, int64(ns)).UTC().Format(l)
			}
		}
		return "<symbolic time>"
	})
	reg("time.Date", func(m *Machine, fr *frame, a []Value) Value {
		var v [7]int
		for i := 0; i < 7; i++ {
			x, ok := a[i].(uint64)
			if !ok {
				m.unsupported("time.Date with symbolic operands")
			}
			v[i] = int(int64(x))
		}
		t := time.Date(v[0], time.Month(v[1]), v[2], v[3], v[4], v[5], v[6], time.UTC)
		return m.timeFromNs(canon(uint64(t.UnixNano()), 64, true))
	})
	reg("time.Sleep", func(m *Machine, fr *frame, a []Value) Value {
		// the modelled wall clock (time.Now) advances by exactly d for d > 0
		switch d := a[0].(type) {
		case uint64:
			if int64(d) > 0 {
				m.nowV = m.binop(token.ADD, i64T, m.now(), d, i64T)
			}
		case *Term:
			pos := m.tf.Cmp("bvslt", m.tf.BV(0, 64), d)
			m.nowV = m.binop(token.ADD, i64T, m.now(), lowerTerm(m.tf.Ite(pos, d, m.tf.BV(0, 64)), true), i64T)
		}
		m.yield("time.Sleep")
		return nil
	})
	reg("time.After", func(m *Machine, fr *frame, a []Value) Value { return newTimerChan(m) })
	reg("time.Tick", func(m *Machine, fr *frame, a []Value) Value { return newTimerChan(m) })
	mkTimer := func(m *Machine, pkgType string) Value {
		tp := m.prog.ImportedPackage("time").Type(pkgType).Type()
		st := zero(tp).(Struct)
		sti := tp.Underlying().(*types.Struct)
		for i := 0; i < sti.NumFields(); i++ {
			if sti.Field(i).Name() == "C" {
				st[i] = newTimerChan(m)
			}
		}
		p := new(Value)
		*p = st
		return p
	}
	reg("time.NewTimer", func(m *Machine, fr *frame, a []Value) Value { return mkTimer(m, "Timer") })
	reg("time.AfterFunc", func(m *Machine, fr *frame, a []Value) Value { return mkTimer(m, "Timer") })
	reg("time.NewTicker", func(m *Machine, fr *frame, a []Value) Value { return mkTimer(m, "Ticker") })
	reg("(*time.Timer).Stop", func(m *Machine, fr *frame, a []Value) Value { return true })
	reg("(*time.Timer).Reset", func(m *Machine, fr *frame, a []Value) Value { return true })
	reg("(*time.Ticker).Stop", func(m *Machine, fr *frame, a []Value) Value { return nil })
	reg("(*time.Ticker).Reset", func(m *Machine, fr *frame, a []Value) Value { return nil })
}

func (m *Machine) timeSub(t, u Value) Value {
	tz, uz := timeIsZero(t), timeIsZero(u)
	switch {
	case tz && uz:
		return uint64(0)
	case tz:
		z := int64(-1 << 63)
		return uint64(z)
	case uz:
		return canon(uint64(int64(1<<63-1)), 64, true)
	}
	if x, ok := timeSecs(t); ok {
		if y, ok := timeSecs(u); ok {
			// whole seconds: (x - y) * 1e9, one multiplication of the difference
			return m.binop(token.MUL, i64T, m.binop(token.SUB, i64T, x, y, i64T), uint64(1_000_000_000), i64T)
		}
	}
	return m.binop(token.SUB, i64T, m.timeNs(t), m.timeNs(u), i64T)
}

// floorDiv divides by a positive constant rounding toward negative infinity.
func (m *Machine) floorDiv(x Value, k int64) Value {
	if c, ok := x.(uint64); ok {
		v := int64(c)
		q := v / k
		if v%k < 0 {
			q--
		}
		return canon(uint64(q), 64, true)
	}
	m.res.Notes["symbolic time divided by a constant: truncated division (exact for times ≥ 1970)"] = true
	return m.binop(token.QUO, i64T, x, canon(uint64(k), 64, true), i64T)
}
