package main

// encoding/binary.Write / Read of an EMPTY slice of a fixed-size basic type
// ([]uint64{} is what willf/bitset writes and reads for a bitset of 0 bits).
// The real functions take their fast path only when intDataSize(data) != 0;
// for an empty slice they fall back to reflection, which is not interpreted.
// What the fallback does for an empty slice is fixed by the source
// (go1.24 encoding/binary/binary.go): dataSize = 0, Write calls
// w.Write(make([]byte, 0)) once and returns its error; Read calls
// io.ReadFull(r, make([]byte, 0)), which returns (0, nil) without touching the
// reader, decodes nothing and returns nil. Everything else runs the real
// (interpreted) body.

import "go/types"

func emptyFixedSlice(v Value) bool {
	ia, ok := v.(Iface)
	if !ok || ia.t == nil {
		return false
	}
	st, ok := ia.t.(*types.Slice) // unnamed slice types only, as in intDataSize
	if !ok {
		return false
	}
	eb, ok := st.Elem().(*types.Basic)
	if !ok {
		return false
	}
	switch eb.Kind() {
	case types.Bool, types.Int8, types.Uint8, types.Int16, types.Uint16, types.Int32, types.Uint32,
		types.Int64, types.Uint64, types.Float32, types.Float64:
	default:
		return false
	}
	sl, ok := ia.v.(Slice)
	return ok && len(sl.a) == 0
}

func init() {
	runReal := func(m *Machine, fr *frame, a []Value) Value {
		fi := m.info(fr.fn)
		saved := fi.intr
		fi.intr = nil
		defer func() { fi.intr = saved }()
		return m.callSSA(fr.caller, fr.fn, a, nil)
	}
	reg("encoding/binary.Write", func(m *Machine, fr *frame, a []Value) Value {
		if !emptyFixedSlice(a[2]) {
			return runReal(m, fr, a)
		}
		w, _ := a[0].(Iface)
		r := m.writeTo(fr, w, "")
		if t, ok := r.(Tuple); ok && len(t) == 2 {
			return t[1]
		}
		return Iface{}
	})
	reg("encoding/binary.Read", func(m *Machine, fr *frame, a []Value) Value {
		if !emptyFixedSlice(a[2]) {
			return runReal(m, fr, a)
		}
		return Iface{}
	})
}
