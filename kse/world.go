package main

// Loading /repo's current working tree (plus harness overlay) into SSA.

import (
	"encoding/json"
	"fmt"
	"go/types"
	"os"
	"path/filepath"
	"sort"
	"strings"
	"sync"
	"time"

	"golang.org/x/tools/go/packages"
	"golang.org/x/tools/go/ssa"
	"golang.org/x/tools/go/ssa/ssautil"
)

const modPath = "github.com/uber/kraken"

type World struct {
	prog        *ssa.Program
	pkgs        []*packages.Package
	spkgs       []*ssa.Package
	runtimeErrT types.Type
	errorT      types.Type
	repo        string
	overlay     map[string][]byte
	overlayReal map[string]string // virtual path → real file (for go test -overlay)
	loadSecs    float64
	harnessPkgs map[string]bool // import paths that received harness files
	scratch     string
	coverMu     sync.Mutex
	coverDone   map[string]bool
	dropped     []string // harness files that do not compile against this tree
}

// harnessFile describes one overlay file: real path and the /repo-relative
// package directory named on its "//kse:pkg <dir>" line.
type harnessFile struct {
	real string
	pkg  string
}

func scanHarnessDir(dir string) ([]harnessFile, error) {
	ents, err := os.ReadDir(dir)
	if err != nil {
		return nil, err
	}
	var out []harnessFile
	for _, e := range ents {
		if e.IsDir() || !strings.HasSuffix(e.Name(), ".go") {
			continue
		}
		p := filepath.Join(dir, e.Name())
		b, err := os.ReadFile(p)
		if err != nil {
			return nil, err
		}
		pkg := ""
		for _, line := range strings.Split(string(b), "\n") {
			line = strings.TrimSpace(line)
			if strings.HasPrefix(line, "//kse:pkg ") {
				pkg = strings.TrimSpace(strings.TrimPrefix(line, "//kse:pkg "))
				break
			}
		}
		if pkg == "" {
			return nil, fmt.Errorf("%s: missing //kse:pkg line", p)
		}
		out = append(out, harnessFile{real: p, pkg: pkg})
	}
	sort.Slice(out, func(i, j int) bool { return out[i].real < out[j].real })
	return out, nil
}

// scratchMod copies go.mod/go.sum so that -mod=mod never rewrites /repo.
func scratchMod(repo string) (string, error) {
	dir, err := os.MkdirTemp("", "kse-mod-")
	if err != nil {
		return "", err
	}
	for _, f := range []string{"go.mod", "go.sum"} {
		b, err := os.ReadFile(filepath.Join(repo, f))
		if err != nil {
			return "", err
		}
		if err := os.WriteFile(filepath.Join(dir, f), b, 0o644); err != nil {
			return "", err
		}
	}
	return dir, nil
}

func loadWorld(repo, verifRoot string, hfiles []harnessFile, extraPkgs []string) (*World, error) {
	t0 := time.Now()
	w := &World{repo: repo, overlay: map[string][]byte{}, overlayReal: map[string]string{}, harnessPkgs: map[string]bool{}}
	// zzverif API package (engine intercepts every function in it)
	api := filepath.Join(verifRoot, "harness", "zzverif", "verif.go")
	b, err := os.ReadFile(api)
	if err != nil {
		return nil, err
	}
	w.overlay[filepath.Join(repo, "zzverif", "verif.go")] = b
	w.overlayReal[filepath.Join(repo, "zzverif", "verif.go")] = api
	roots := map[string]bool{}
	for _, hf := range hfiles {
		b, err := os.ReadFile(hf.real)
		if err != nil {
			return nil, err
		}
		virt := filepath.Join(repo, hf.pkg, "zz_verif_"+filepath.Base(hf.real))
		w.overlay[virt] = b
		w.overlayReal[virt] = hf.real
		ip := modPath + "/" + hf.pkg
		roots[ip] = true
		w.harnessPkgs[ip] = true
	}
	for _, p := range extraPkgs {
		roots[p] = true
	}
	var patterns []string
	for p := range roots {
		patterns = append(patterns, p)
	}
	sort.Strings(patterns)
	scratch, err := scratchMod(repo)
	if err != nil {
		return nil, err
	}
	w.scratch = scratch
	cfg := &packages.Config{
		Mode: packages.NeedName | packages.NeedFiles | packages.NeedCompiledGoFiles | packages.NeedImports |
			packages.NeedDeps | packages.NeedTypes | packages.NeedSyntax | packages.NeedTypesInfo | packages.NeedTypesSizes | packages.NeedModule,
		Dir:        repo,
		Overlay:    w.overlay,
		BuildFlags: []string{"-modfile=" + filepath.Join(scratch, "go.mod"), "-tags=verif"},
		Env:        append(os.Environ(), "GOFLAGS=-mod=mod", "GOPROXY=off", "GOSUMDB=off", "GOTOOLCHAIN=local", "CGO_ENABLED=1"),
	}
	pkgs, err := packages.Load(cfg, patterns...)
	if err != nil {
		return nil, err
	}
	nerr := 0
	badHarness := map[string]bool{}
	packages.Visit(pkgs, nil, func(p *packages.Package) {
		for _, e := range p.Errors {
			if nerr < 20 {
				fmt.Fprintf(os.Stderr, "load error: %s: %v\n", p.PkgPath, e)
			}
			nerr++
			for virt := range w.overlayReal {
				if strings.HasPrefix(e.Pos, virt+":") && strings.Contains(virt, "zz_verif_") {
					badHarness[virt] = true
				}
			}
		}
	})
	if nerr > 0 && len(badHarness) > 0 && len(badHarness) < len(hfiles) {
		// Some harness files do not compile against this tree (they look at
		// internals that a change renamed or retyped). Drop them and decide the
		// property with the remaining harnesses; the dropped files are reported
		// as inconclusive by the caller.
		var keep []harnessFile
		var dropped []string
		for _, hf := range hfiles {
			virt := filepath.Join(repo, hf.pkg, "zz_verif_"+filepath.Base(hf.real))
			if badHarness[virt] {
				dropped = append(dropped, filepath.Base(hf.real))
			} else {
				keep = append(keep, hf)
			}
		}
		os.RemoveAll(scratch)
		w2, err := loadWorld(repo, verifRoot, keep, extraPkgs)
		if err != nil {
			return nil, err
		}
		w2.dropped = append(w2.dropped, dropped...)
		return w2, nil
	}
	if nerr > 0 {
		return nil, fmt.Errorf("%d package load errors", nerr)
	}
	prog, _ := ssautil.AllPackages(pkgs, ssa.InstantiateGenerics)
	prog.Build()
	w.prog = prog
	w.pkgs = pkgs
	for _, p := range pkgs {
		w.spkgs = append(w.spkgs, prog.Package(p.Types))
	}
	if rt := prog.ImportedPackage("runtime"); rt != nil {
		if t := rt.Type("errorString"); t != nil {
			w.runtimeErrT = t.Type()
		}
	}
	if w.runtimeErrT == nil {
		return nil, fmt.Errorf("runtime.errorString not found")
	}
	w.errorT = types.Universe.Lookup("error").Type()
	w.loadSecs = time.Since(t0).Seconds()
	return w, nil
}

func (w *World) cleanup() {
	if w.scratch != "" {
		os.RemoveAll(w.scratch)
	}
}

// harnesses lists the Verif* entry points in the harness packages.
func (w *World) harnesses() []*ssa.Function {
	var out []*ssa.Function
	for _, sp := range w.spkgs {
		if sp == nil || !w.harnessPkgs[sp.Pkg.Path()] {
			continue
		}
		for name, mem := range sp.Members {
			f, ok := mem.(*ssa.Function)
			if !ok || !strings.HasPrefix(name, "Verif") {
				continue
			}
			if f.Signature.Params().Len() != 0 || f.Signature.Recv() != nil {
				continue
			}
			out = append(out, f)
		}
	}
	sort.Slice(out, func(i, j int) bool { return out[i].String() < out[j].String() })
	return out
}

func (w *World) writeOverlayJSON(path string, extra map[string]string) error {
	rep := map[string]string{}
	for k, v := range w.overlayReal {
		rep[k] = v
	}
	for k, v := range extra {
		rep[k] = v
	}
	b, _ := json.MarshalIndent(map[string]interface{}{"Replace": rep}, "", " ")
	return os.WriteFile(path, b, 0o644)
}
