package main

// In-engine POSIX-like file system with system-call granular crash points
// (DESIGN §4.1). Paths are concrete; file contents and mtimes may be symbolic.

import (
	"fmt"
	"go/types"
	"sort"
	"strings"
)

const fsRoot = "/kse"

const (
	ENOENT    = 2
	EIO       = 5
	EBADF     = 9
	EEXIST    = 17
	ENOTDIR   = 20
	EISDIR    = 21
	EINVAL    = 22
	ENOSPC    = 28
	ELOOP     = 40
	ENOTEMPTY = 39
	EXDEV     = 18
)

const (
	oRDONLY = 0x0
	oWRONLY = 0x1
	oRDWR   = 0x2
	oAPPEND = 0x400
	oCREATE = 0x40
	oEXCL   = 0x80
	oTRUNC  = 0x200
)

type inode struct {
	kind     byte // 'f', 'd', 'l'
	data     []Value
	children map[string]*inode
	target   string
	mtime    Value
	ino      int
	mode     uint64
}

type FS struct {
	root    *inode
	nextIno int
	log     []string
	access  []Value // every path handed to the model (for containment oracles)
}

type FSEntry struct {
	Path    string `json:"path"`
	Kind    string `json:"kind"`
	Data    []int  `json:"data,omitempty"`
	Target  string `json:"target,omitempty"`
	ModTime int64  `json:"mtime,omitempty"`
}

type openFile struct {
	node   *inode
	path   string
	off    int64
	flags  int
	closed bool
	dirPos int
	dirEnt []string
}

func newFS() *FS {
	fs := &FS{}
	fs.root = fs.newNode('d')
	for _, d := range []string{"kse", "tmp"} {
		fs.root.children[d] = fs.newNode('d')
	}
	return fs
}

func (fs *FS) newNode(kind byte) *inode {
	fs.nextIno++
	n := &inode{kind: kind, ino: fs.nextIno, mtime: uint64(1_600_000_000_000_000_000)}
	if kind == 'd' {
		n.children = map[string]*inode{}
		n.mode = 0o755
	} else {
		n.mode = 0o644
	}
	return n
}

func splitPath(p string) []string {
	var out []string
	for _, c := range strings.Split(p, "/") {
		switch c {
		case "", ".":
		case "..":
			if len(out) > 0 {
				out = out[:len(out)-1]
			}
		default:
			out = append(out, c)
		}
	}
	return out
}

// walk resolves path. Returns parent directory, final name and node (nil if
// the last component does not exist). errno != 0 on failure of an
// intermediate component.
func (fs *FS) walk(path string, followLast bool, depth int) (parent *inode, name string, node *inode, errno int) {
	if depth > 8 {
		return nil, "", nil, ELOOP
	}
	if path == "" {
		return nil, "", nil, ENOENT
	}
	if !strings.HasPrefix(path, "/") {
		path = fsRoot + "/" + path // cwd
	}
	// ".." must be resolved against symlinks properly; the stores never rely
	// on that, so lexical processing of ".." is applied per component below.
	comps := []string{}
	for _, c := range strings.Split(path, "/") {
		if c == "" || c == "." {
			continue
		}
		comps = append(comps, c)
	}
	cur := fs.root
	var stack []*inode
	if len(comps) == 0 {
		return nil, "/", fs.root, 0
	}
	for i, c := range comps {
		last := i == len(comps)-1
		if cur.kind != 'd' {
			return nil, "", nil, ENOTDIR
		}
		if c == ".." {
			if len(stack) > 0 {
				cur = stack[len(stack)-1]
				stack = stack[:len(stack)-1]
			}
			if last {
				return nil, "..", cur, 0
			}
			continue
		}
		ch := cur.children[c]
		if ch == nil {
			if last {
				return cur, c, nil, 0
			}
			return nil, "", nil, ENOENT
		}
		if ch.kind == 'l' && (!last || followLast) {
			tgt := ch.target
			if !strings.HasPrefix(tgt, "/") {
				// relative to the directory containing the link
				tgt = fs.pathOf(cur) + "/" + tgt
			}
			rest := strings.Join(comps[i+1:], "/")
			full := tgt
			if rest != "" {
				full = tgt + "/" + rest
			}
			return fs.walk(full, followLast, depth+1)
		}
		if last {
			return cur, c, ch, 0
		}
		stack = append(stack, cur)
		cur = ch
	}
	return nil, "", nil, ENOENT
}

// pathOf finds the absolute path of a directory node (linear search; small trees).
func (fs *FS) pathOf(n *inode) string {
	var rec func(d *inode, p string) (string, bool)
	rec = func(d *inode, p string) (string, bool) {
		if d == n {
			return p, true
		}
		for name, ch := range d.children {
			if ch.kind == 'd' {
				if r, ok := rec(ch, p+"/"+name); ok {
					return r, true
				}
			}
		}
		return "", false
	}
	r, _ := rec(fs.root, "")
	if r == "" {
		return "/"
	}
	return r
}

func (fs *FS) snapshot(mo *Model) []FSEntry {
	var out []FSEntry
	memo := map[*Term]uint64{}
	var rec func(d *inode, p string)
	rec = func(d *inode, p string) {
		names := make([]string, 0, len(d.children))
		for n := range d.children {
			names = append(names, n)
		}
		sort.Strings(names)
		for _, n := range names {
			ch := d.children[n]
			cp := p + "/" + n
			rel := strings.TrimPrefix(cp, fsRoot)
			if !strings.HasPrefix(cp, fsRoot) {
				continue
			}
			switch ch.kind {
			case 'd':
				if rel != "" {
					out = append(out, FSEntry{Path: rel, Kind: "dir"})
				}
				rec(ch, cp)
			case 'f':
				e := FSEntry{Path: rel, Kind: "file"}
				for _, b := range ch.data {
					switch b := b.(type) {
					case uint64:
						e.Data = append(e.Data, int(b&0xff))
					case *Term:
						v := uint64(0)
						if mo != nil {
							v, _ = mo.eval(b, memo)
						}
						e.Data = append(e.Data, int(v&0xff))
					}
				}
				out = append(out, e)
			case 'l':
				tgt := ch.target
				out = append(out, FSEntry{Path: rel, Kind: "symlink", Target: tgt})
			}
		}
	}
	if k := fs.root.children["kse"]; k != nil {
		rec(k, fsRoot)
	}
	return out
}

// ---------------------------------------------------------------------------

func (m *Machine) errnoIface(e int) Iface {
	sp := m.prog.ImportedPackage("syscall")
	return Iface{t: sp.Type("Errno").Type(), v: uint64(e)}
}

func (m *Machine) pathError(op, path string, e int) Iface {
	fp := m.prog.ImportedPackage("io/fs")
	p := new(Value)
	*p = Struct{op, path, m.errnoIface(e)}
	return Iface{t: types.NewPointer(fp.Type("PathError").Type()), v: p}
}

func (m *Machine) pathErrorV(op, path string, err Iface) Iface {
	fp := m.prog.ImportedPackage("io/fs")
	p := new(Value)
	*p = Struct{op, path, err}
	return Iface{t: types.NewPointer(fp.Type("PathError").Type()), v: p}
}

func (m *Machine) linkError(op, old, nw string, e int) Iface {
	op_ := m.prog.ImportedPackage("os")
	p := new(Value)
	*p = Struct{op, old, nw, m.errnoIface(e)}
	return Iface{t: types.NewPointer(op_.Type("LinkError").Type()), v: p}
}

func (m *Machine) globalErr(pkg, name string) Iface {
	p := m.prog.ImportedPackage(pkg)
	g := p.Var(name)
	return (*m.globalAddr(g)).(Iface)
}

// fsStep is called before every mutating file-system step: a crash point.
func (m *Machine) fsStep(what string) {
	m.yield("fs:" + what)
	m.fsSteps++
	if m.crashArmed && !m.crashed {
		if m.pick(2, "crash before "+what) == 1 {
			m.crashed = true
			m.res.Notes[""] = false
			delete(m.res.Notes, "")
			m.crashAt = fmt.Sprintf("step %d: before %s", m.fsSteps, what)
			panic(crashSignal{})
		}
	}
	if m.fsFaults > 0 {
		// symbolic I/O fault injection (enabled by the harness)
	}
}

func (m *Machine) crashScope(fr *frame, f Value) Value {
	if m.crashed {
		m.unsupported("second CrashScope after a crash")
	}
	m.crashArmed = true
	crashed := false
	func() {
		defer func() {
			if r := recover(); r != nil {
				if _, ok := r.(crashSignal); ok {
					crashed = true
					return
				}
				panic(r)
			}
		}()
		m.call(fr, f, nil, nil)
	}()
	m.crashArmed = false
	if crashed {
		m.rememberCrashFS() // model_fs_crashsnap.go
		m.killOthers(nil)
		// all descriptors are gone; locks, channels etc. belonged to the dead process
		for k, v := range m.side {
			if of, ok := v.(*openFile); ok {
				of.closed = true
				delete(m.side, k)
			}
		}
		m.res.Tags = append(m.res.Tags, "crash")
		m.res.Covers["crash"] = true
	}
	return crashed
}

func (m *Machine) cpath(v Value, op string) string {
	m.fs.access = append(m.fs.access, v)
	s, ok := v.(string)
	if ss, isSym := v.(*SymStr); isSym && !ok {
		// symbolic path bytes are resolved by case split (model_zz_grpa.go)
		s = m.cpathSym(ss, op)
		m.fs.access[len(m.fs.access)-1] = s
		return s
	}
	if !ok {
		if m.symPathHook != nil {
			m.symPathHook(v, op)
		}
		m.unsupported("file-system %s with a symbolic path", op)
	}
	return s
}

func (m *Machine) newFile(node *inode, path string, flags int) Value {
	p := new(Value)
	*p = Struct{(*Value)(nil)}
	m.side[sideKey{p, "file"}] = &openFile{node: node, path: path, flags: flags}
	op := m.prog.ImportedPackage("os")
	_ = op
	return p
}

func (m *Machine) fileOf(v Value) *openFile {
	p := m.cellPtr(v)
	if p == nil {
		return nil
	}
	of, _ := m.side[sideKey{p, "file"}].(*openFile)
	return of
}

func (m *Machine) fileInfo(name string, n *inode) Iface {
	op := m.prog.ImportedPackage("os")
	ft := op.Type("fileStat").Type()
	st := zero(ft).(Struct)
	sti := ft.Underlying().(*types.Struct)
	for i := 0; i < sti.NumFields(); i++ {
		switch sti.Field(i).Name() {
		case "name":
			st[i] = name
		case "size":
			if n.kind == 'f' {
				st[i] = uint64(len(n.data))
			} else {
				st[i] = uint64(4096)
			}
		case "mode":
			mode := n.mode
			switch n.kind {
			case 'd':
				mode |= 1 << 31
			case 'l':
				mode |= 1 << 27
			}
			st[i] = mode
		case "modTime":
			st[i] = m.timeFromNs(n.mtime)
		}
	}
	p := new(Value)
	*p = st
	return Iface{t: types.NewPointer(ft), v: p}
}

func base(p string) string {
	p = strings.TrimRight(p, "/")
	if i := strings.LastIndex(p, "/"); i >= 0 {
		return p[i+1:]
	}
	return p
}

func errTuple(vals ...Value) Value { return Tuple(vals) }

func init() {
	reg("os.Stat", func(m *Machine, fr *frame, a []Value) Value {
		p := m.cpath(a[0], "stat")
		_, _, n, e := m.fs.walk(p, true, 0)
		if e != 0 {
			return Tuple{Iface{}, m.pathError("stat", p, e)}
		}
		if n == nil {
			return Tuple{Iface{}, m.pathError("stat", p, ENOENT)}
		}
		return Tuple{m.fileInfo(base(p), n), Iface{}}
	})
	reg("os.Lstat", func(m *Machine, fr *frame, a []Value) Value {
		p := m.cpath(a[0], "lstat")
		_, _, n, e := m.fs.walk(p, false, 0)
		if e != 0 {
			return Tuple{Iface{}, m.pathError("lstat", p, e)}
		}
		if n == nil {
			return Tuple{Iface{}, m.pathError("lstat", p, ENOENT)}
		}
		return Tuple{m.fileInfo(base(p), n), Iface{}}
	})
	reg("os.Mkdir", func(m *Machine, fr *frame, a []Value) Value {
		p := m.cpath(a[0], "mkdir")
		m.fsStep("mkdir " + p)
		par, name, n, e := m.fs.walk(p, false, 0)
		if e != 0 {
			return m.pathError("mkdir", p, e)
		}
		if n != nil {
			return m.pathError("mkdir", p, EEXIST)
		}
		if par == nil {
			return m.pathError("mkdir", p, ENOENT)
		}
		par.children[name] = m.fs.newNode('d')
		par.children[name].mtime = m.fsNow()
		return Iface{}
	})
	reg("os.OpenFile", func(m *Machine, fr *frame, a []Value) Value {
		p := m.cpath(a[0], "open")
		flags := concInt(m, a[1], "open flags")
		ft := types.NewPointer(m.prog.ImportedPackage("os").Type("File").Type())
		nilFile := (*Value)(nil)
		mutating := flags&(oCREATE|oTRUNC) != 0
		if mutating {
			m.fsStep("open(O_CREAT/O_TRUNC) " + p)
		}
		par, name, n, e := m.fs.walk(p, true, 0)
		if e != 0 {
			return Tuple{nilFile, m.pathError("open", p, e)}
		}
		if n == nil {
			if flags&oCREATE == 0 {
				return Tuple{nilFile, m.pathError("open", p, ENOENT)}
			}
			if par == nil {
				return Tuple{nilFile, m.pathError("open", p, ENOENT)}
			}
			n = m.fs.newNode('f')
			n.mtime = m.fsNow()
			par.children[name] = n
		} else {
			if flags&oCREATE != 0 && flags&oEXCL != 0 {
				return Tuple{nilFile, m.pathError("open", p, EEXIST)}
			}
			if n.kind == 'd' && flags&(oWRONLY|oRDWR) != 0 {
				return Tuple{nilFile, m.pathError("open", p, EISDIR)}
			}
			if flags&oTRUNC != 0 && n.kind == 'f' {
				n.data = nil
				n.mtime = m.fsNow()
			}
		}
		_ = ft
		return Tuple{m.newFile(n, p, flags), Iface{}}
	})
	reg("os.Remove", func(m *Machine, fr *frame, a []Value) Value {
		p := m.cpath(a[0], "remove")
		m.fsStep("remove " + p)
		par, name, n, e := m.fs.walk(p, false, 0)
		if e != 0 {
			return m.pathError("remove", p, e)
		}
		if n == nil || par == nil {
			return m.pathError("remove", p, ENOENT)
		}
		if n.kind == 'd' && len(n.children) > 0 {
			return m.pathError("remove", p, ENOTEMPTY)
		}
		delete(par.children, name)
		return Iface{}
	})
	reg("os.RemoveAll", func(m *Machine, fr *frame, a []Value) Value {
		p := m.cpath(a[0], "removeall")
		if p == "" {
			return Iface{}
		}
		if strings.HasSuffix(p, "/.") || p == "." {
			return m.pathError("RemoveAll", p, EINVAL)
		}
		par, name, n, e := m.fs.walk(p, false, 0)
		if e != 0 || n == nil || par == nil {
			return Iface{}
		}
		var rm func(par *inode, name string, n *inode, path string)
		rm = func(par *inode, name string, n *inode, path string) {
			if n.kind == 'd' {
				names := make([]string, 0, len(n.children))
				for c := range n.children {
					names = append(names, c)
				}
				sort.Strings(names)
				if m.cfg.MapOrderSymbolic && len(names) > 1 {
					idx := make([]int, len(names))
					for i := range idx {
						idx[i] = i
					}
					idx = m.permute(idx)
					nn := make([]string, len(names))
					for i, k := range idx {
						nn[i] = names[k]
					}
					names = nn
				}
				for _, c := range names {
					rm(n, c, n.children[c], path+"/"+c)
				}
			}
			m.fsStep("unlink " + path)
			delete(par.children, name)
		}
		rm(par, name, n, strings.TrimRight(p, "/"))
		return Iface{}
	})
	reg("os.Rename", func(m *Machine, fr *frame, a []Value) Value {
		op, np := m.cpath(a[0], "rename"), m.cpath(a[1], "rename")
		m.fsStep("rename " + op + " -> " + np)
		opar, oname, on, e := m.fs.walk(op, false, 0)
		if e != 0 {
			return m.linkError("rename", op, np, e)
		}
		if on == nil || opar == nil {
			return m.linkError("rename", op, np, ENOENT)
		}
		npar, nname, nn, e := m.fs.walk(np, false, 0)
		if e != 0 {
			return m.linkError("rename", op, np, e)
		}
		if npar == nil {
			return m.linkError("rename", op, np, ENOENT)
		}
		if nn != nil {
			if nn == on {
				return Iface{}
			}
			if on.kind == 'd' {
				if nn.kind != 'd' {
					return m.linkError("rename", op, np, ENOTDIR)
				}
				if len(nn.children) > 0 {
					return m.linkError("rename", op, np, ENOTEMPTY)
				}
			} else if nn.kind == 'd' {
				return m.linkError("rename", op, np, EISDIR)
			}
		}
		delete(opar.children, oname)
		npar.children[nname] = on
		return Iface{}
	})
	reg("os.Link", func(m *Machine, fr *frame, a []Value) Value {
		op, np := m.cpath(a[0], "link"), m.cpath(a[1], "link")
		m.fsStep("link " + op + " -> " + np)
		_, _, on, e := m.fs.walk(op, false, 0)
		if e != 0 || on == nil {
			if e == 0 {
				e = ENOENT
			}
			return m.linkError("link", op, np, e)
		}
		npar, nname, nn, e := m.fs.walk(np, false, 0)
		if e != 0 || npar == nil {
			if e == 0 {
				e = ENOENT
			}
			return m.linkError("link", op, np, e)
		}
		if nn != nil {
			return m.linkError("link", op, np, EEXIST)
		}
		npar.children[nname] = on
		return Iface{}
	})
	reg("os.Symlink", func(m *Machine, fr *frame, a []Value) Value {
		tgt, np := m.cpath(a[0], "symlink"), m.cpath(a[1], "symlink")
		m.fsStep("symlink " + np)
		npar, nname, nn, e := m.fs.walk(np, false, 0)
		if e != 0 || npar == nil {
			if e == 0 {
				e = ENOENT
			}
			return m.linkError("symlink", tgt, np, e)
		}
		if nn != nil {
			return m.linkError("symlink", tgt, np, EEXIST)
		}
		l := m.fs.newNode('l')
		l.target = tgt
		npar.children[nname] = l
		return Iface{}
	})
	reg("os.Readlink", func(m *Machine, fr *frame, a []Value) Value {
		p := m.cpath(a[0], "readlink")
		_, _, n, e := m.fs.walk(p, false, 0)
		if e != 0 || n == nil {
			if e == 0 {
				e = ENOENT
			}
			return Tuple{"", m.pathError("readlink", p, e)}
		}
		if n.kind != 'l' {
			return Tuple{"", m.pathError("readlink", p, EINVAL)}
		}
		return Tuple{n.target, Iface{}}
	})
	reg("os.Chtimes", func(m *Machine, fr *frame, a []Value) Value {
		p := m.cpath(a[0], "chtimes")
		_, _, n, e := m.fs.walk(p, true, 0)
		if e != 0 || n == nil {
			if e == 0 {
				e = ENOENT
			}
			return m.pathError("chtimes", p, e)
		}
		n.mtime = m.timeNs(a[2])
		return Iface{}
	})
	reg("os.Chmod", func(m *Machine, fr *frame, a []Value) Value { return Iface{} })
	reg("os.Truncate", func(m *Machine, fr *frame, a []Value) Value {
		p := m.cpath(a[0], "truncate")
		m.fsStep("truncate " + p)
		_, _, n, e := m.fs.walk(p, true, 0)
		if e != 0 || n == nil {
			if e == 0 {
				e = ENOENT
			}
			return m.pathError("truncate", p, e)
		}
		m.truncate(n, int64(m.concretizeInt(a[1], "truncate size")))
		return Iface{}
	})
	reg("os.nextRandom", func(m *Machine, fr *frame, a []Value) Value {
		m.uuidSeq++
		return fmt.Sprintf("%09d", m.uuidSeq)
	})
	reg("os.Getwd", func(m *Machine, fr *frame, a []Value) Value { return Tuple{fsRoot, Iface{}} })
	reg("os.TempDir", func(m *Machine, fr *frame, a []Value) Value { return "/tmp" })
	reg("os.Getpagesize", func(m *Machine, fr *frame, a []Value) Value { return i64(4096) })

	// *os.File methods
	closedErr := func(m *Machine, op string, of *openFile) Iface {
		path := ""
		if of != nil {
			path = of.path
		}
		return m.pathErrorV(op, path, m.globalErr("io/fs", "ErrClosed"))
	}
	chk := func(m *Machine, a []Value, op string) (*openFile, Iface) {
		p := m.cellPtr(a[0])
		if p == nil {
			return nil, m.globalErr("os", "ErrInvalid")
		}
		of := m.fileOf(a[0])
		if of == nil || of.closed {
			return nil, closedErr(m, op, of)
		}
		return of, Iface{}
	}
	reg("(*os.File).Name", func(m *Machine, fr *frame, a []Value) Value {
		of := m.fileOf(a[0])
		if of == nil {
			return ""
		}
		return of.path
	})
	reg("(*os.File).Fd", func(m *Machine, fr *frame, a []Value) Value { return uint64(3) })
	reg("(*os.File).Close", func(m *Machine, fr *frame, a []Value) Value {
		of, err := chk(m, a, "close")
		if of == nil {
			return err
		}
		of.closed = true
		return Iface{}
	})
	reg("(*os.File).Sync", func(m *Machine, fr *frame, a []Value) Value {
		of, err := chk(m, a, "sync")
		if of == nil {
			return err
		}
		return Iface{}
	})
	reg("(*os.File).Chmod", func(m *Machine, fr *frame, a []Value) Value { return Iface{} })
	reg("(*os.File).Stat", func(m *Machine, fr *frame, a []Value) Value {
		of, err := chk(m, a, "stat")
		if of == nil {
			return Tuple{Iface{}, err}
		}
		return Tuple{m.fileInfo(base(of.path), of.node), Iface{}}
	})
	read := func(m *Machine, of *openFile, buf Slice, off int64) (int, Iface) {
		if of.node.kind == 'd' {
			return 0, m.pathError("read", of.path, EISDIR)
		}
		if of.flags&3 == oWRONLY {
			return 0, m.pathError("read", of.path, EBADF)
		}
		n := 0
		for n < len(buf.a) && off+int64(n) < int64(len(of.node.data)) {
			buf.a[n] = of.node.data[off+int64(n)]
			n++
		}
		return n, Iface{}
	}
	reg("(*os.File).Read", func(m *Machine, fr *frame, a []Value) Value {
		of, err := chk(m, a, "read")
		if of == nil {
			return Tuple{i64(0), err}
		}
		buf := a[1].(Slice)
		n, e := read(m, of, buf, of.off)
		if e.t != nil {
			return Tuple{i64(0), e}
		}
		of.off += int64(n)
		if n == 0 && len(buf.a) > 0 {
			return Tuple{i64(0), m.globalErr("io", "EOF")}
		}
		return Tuple{i64(n), Iface{}}
	})
	reg("(*os.File).ReadAt", func(m *Machine, fr *frame, a []Value) Value {
		of, err := chk(m, a, "read")
		if of == nil {
			return Tuple{i64(0), err}
		}
		buf := a[1].(Slice)
		off := int64(m.concretizeInt(a[2], "ReadAt offset"))
		if off < 0 {
			return Tuple{i64(0), m.pathErrorV("readat", of.path, m.newFmtError("negative offset", nil).(Iface))}
		}
		n, e := read(m, of, buf, off)
		if e.t != nil {
			return Tuple{i64(0), e}
		}
		if n < len(buf.a) {
			return Tuple{i64(n), m.globalErr("io", "EOF")}
		}
		return Tuple{i64(n), Iface{}}
	})
	write := func(m *Machine, of *openFile, data []Value, off int64) (int, Iface) {
		if of.flags&3 == oRDONLY {
			return 0, m.pathError("write", of.path, EBADF)
		}
		if len(data) == 0 {
			return 0, Iface{}
		}
		m.fsStep(fmt.Sprintf("write %s @%d len %d", of.path, off, len(data)))
		for int64(len(of.node.data)) < off {
			of.node.data = append(of.node.data, uint64(0))
		}
		for i, b := range data {
			pos := off + int64(i)
			if pos < int64(len(of.node.data)) {
				of.node.data[pos] = b
			} else {
				of.node.data = append(of.node.data, b)
			}
		}
		of.node.mtime = m.fsNow()
		return len(data), Iface{}
	}
	reg("(*os.File).Write", func(m *Machine, fr *frame, a []Value) Value {
		of, err := chk(m, a, "write")
		if of == nil {
			return Tuple{i64(0), err}
		}
		off := of.off
		if of.flags&oAPPEND != 0 {
			off = int64(len(of.node.data))
		}
		n, e := write(m, of, a[1].(Slice).a, off)
		if e.t != nil {
			return Tuple{i64(0), e}
		}
		of.off = off + int64(n)
		return Tuple{i64(n), Iface{}}
	})
	reg("(*os.File).WriteString", func(m *Machine, fr *frame, a []Value) Value {
		of, err := chk(m, a, "write")
		if of == nil {
			return Tuple{i64(0), err}
		}
		off := of.off
		if of.flags&oAPPEND != 0 {
			off = int64(len(of.node.data))
		}
		n, e := write(m, of, strBytes(a[1]), off)
		if e.t != nil {
			return Tuple{i64(0), e}
		}
		of.off = off + int64(n)
		return Tuple{i64(n), Iface{}}
	})
	reg("(*os.File).WriteAt", func(m *Machine, fr *frame, a []Value) Value {
		of, err := chk(m, a, "write")
		if of == nil {
			return Tuple{i64(0), err}
		}
		if of.flags&oAPPEND != 0 {
			return Tuple{i64(0), m.newFmtError("os: invalid use of WriteAt on file opened with O_APPEND", nil)}
		}
		off := int64(m.concretizeInt(a[2], "WriteAt offset"))
		if off < 0 {
			return Tuple{i64(0), m.pathErrorV("writeat", of.path, m.newFmtError("negative offset", nil).(Iface))}
		}
		n, e := write(m, of, a[1].(Slice).a, off)
		if e.t != nil {
			return Tuple{i64(0), e}
		}
		return Tuple{i64(n), Iface{}}
	})
	reg("(*os.File).Seek", func(m *Machine, fr *frame, a []Value) Value {
		of, err := chk(m, a, "seek")
		if of == nil {
			return Tuple{i64(0), err}
		}
		off := int64(m.concretizeInt(a[1], "Seek offset"))
		wh := concInt(m, a[2], "Seek whence")
		var np int64
		switch wh {
		case 0:
			np = off
		case 1:
			np = of.off + off
		case 2:
			np = int64(len(of.node.data)) + off
		default:
			return Tuple{i64(0), m.pathError("seek", of.path, EINVAL)}
		}
		if np < 0 {
			return Tuple{i64(0), m.pathError("seek", of.path, EINVAL)}
		}
		of.off = np
		return Tuple{canon(uint64(np), 64, true), Iface{}}
	})
	reg("(*os.File).Truncate", func(m *Machine, fr *frame, a []Value) Value {
		of, err := chk(m, a, "truncate")
		if of == nil {
			return err
		}
		if of.flags&3 == oRDONLY {
			return m.pathError("truncate", of.path, EINVAL)
		}
		sz := int64(m.concretizeInt(a[1], "Truncate size"))
		if sz < 0 {
			return m.pathError("truncate", of.path, EINVAL)
		}
		m.fsStep(fmt.Sprintf("ftruncate %s %d", of.path, sz))
		m.truncate(of.node, sz)
		return Iface{}
	})
	reg("(*os.File).ReadDir", func(m *Machine, fr *frame, a []Value) Value {
		of, err := chk(m, a, "readdir")
		if of == nil {
			return Tuple{Slice{nil: true}, err}
		}
		if of.node.kind != 'd' {
			return Tuple{Slice{nil: true}, m.pathError("readdirent", of.path, ENOTDIR)}
		}
		n := concInt(m, a[1], "ReadDir n")
		if of.dirEnt == nil {
			for c := range of.node.children {
				of.dirEnt = append(of.dirEnt, c)
			}
			sort.Strings(of.dirEnt)
		}
		var out []Value
		op := m.prog.ImportedPackage("os")
		dt := op.Type("unixDirent").Type()
		dti := dt.Underlying().(*types.Struct)
		for of.dirPos < len(of.dirEnt) && (n <= 0 || len(out) < n) {
			name := of.dirEnt[of.dirPos]
			of.dirPos++
			ch := of.node.children[name]
			if ch == nil {
				continue
			}
			st := zero(dt).(Struct)
			for i := 0; i < dti.NumFields(); i++ {
				switch dti.Field(i).Name() {
				case "parent":
					st[i] = of.path
				case "name":
					st[i] = name
				case "typ":
					switch ch.kind {
					case 'd':
						st[i] = uint64(1 << 31)
					case 'l':
						st[i] = uint64(1 << 27)
					default:
						st[i] = uint64(0)
					}
				case "info":
					st[i] = m.fileInfo(name, ch)
				}
			}
			p := new(Value)
			*p = st
			out = append(out, Iface{t: types.NewPointer(dt), v: p})
		}
		if n > 0 && len(out) == 0 {
			return Tuple{Slice{nil: true}, m.globalErr("io", "EOF")}
		}
		return Tuple{Slice{a: out}, Iface{}}
	})
	reg("(*os.File).Readdirnames", func(m *Machine, fr *frame, a []Value) Value {
		of, err := chk(m, a, "readdir")
		if of == nil {
			return Tuple{Slice{nil: true}, err}
		}
		if of.node.kind != 'd' {
			return Tuple{Slice{nil: true}, m.pathError("readdirent", of.path, ENOTDIR)}
		}
		var names []string
		for c := range of.node.children {
			names = append(names, c)
		}
		sort.Strings(names)
		var out []Value
		for _, n := range names {
			out = append(out, n)
		}
		return Tuple{Slice{a: out}, Iface{}}
	})
	reg("(*os.File).Readdir", func(m *Machine, fr *frame, a []Value) Value {
		of, err := chk(m, a, "readdir")
		if of == nil {
			return Tuple{Slice{nil: true}, err}
		}
		var names []string
		for c := range of.node.children {
			names = append(names, c)
		}
		sort.Strings(names)
		var out []Value
		for _, n := range names {
			out = append(out, m.fileInfo(n, of.node.children[n]))
		}
		return Tuple{Slice{a: out}, Iface{}}
	})
	copyLoop := func(m *Machine, fr *frame, dst Iface, src Iface) Value {
		total := int64(0)
		for it := 0; ; it++ {
			if it > 4096 {
				panic(pathEnd{kind: "budget", msg: "copy loop bound"})
			}
			buf := make([]Value, 64)
			for i := range buf {
				buf[i] = uint64(0)
			}
			r, ok := m.callMethod(fr, src, "Read", Slice{a: buf})
			if !ok {
				m.throwRuntime("nil reader")
			}
			rt := r.(Tuple)
			n := int(int64(m.concretizeInt(rt[0], "Read count")))
			if n > 0 {
				w, _ := m.callMethod(fr, dst, "Write", Slice{a: buf[:n]})
				wt := w.(Tuple)
				wn := int(int64(m.concretizeInt(wt[0], "Write count")))
				total += int64(wn)
				if e := wt[1].(Iface); e.t != nil {
					return Tuple{canon(uint64(total), 64, true), e}
				}
				if wn != n {
					return Tuple{canon(uint64(total), 64, true), m.globalErr("io", "ErrShortWrite")}
				}
			}
			if e := rt[1].(Iface); e.t != nil {
				if m.truth(m.equals(m.w.errorT, e, m.globalErr("io", "EOF")), "copy: EOF") {
					return Tuple{canon(uint64(total), 64, true), Iface{}}
				}
				return Tuple{canon(uint64(total), 64, true), e}
			}
		}
	}
	reg("(*os.File).ReadFrom", func(m *Machine, fr *frame, a []Value) Value {
		ft := types.NewPointer(m.prog.ImportedPackage("os").Type("File").Type())
		return copyLoop(m, fr, Iface{t: ft, v: a[0]}, a[1].(Iface))
	})
	reg("(*os.File).WriteTo", func(m *Machine, fr *frame, a []Value) Value {
		ft := types.NewPointer(m.prog.ImportedPackage("os").Type("File").Type())
		return copyLoop(m, fr, a[1].(Iface), Iface{t: ft, v: a[0]})
	})
}

func (m *Machine) truncate(n *inode, sz int64) {
	if sz < int64(len(n.data)) {
		n.data = n.data[:sz]
	}
	for int64(len(n.data)) < sz {
		n.data = append(n.data, uint64(0))
	}
	n.mtime = m.fsNow()
}

func (m *Machine) fsNow() Value {
	if m.fsClock != nil {
		return m.fsClock
	}
	return uint64(1_600_000_000_000_000_000)
}
