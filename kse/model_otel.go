package main

// OpenTelemetry is a no-op under the engine (noopPkgs): calls return zero
// values. One exception is needed for faithfulness: Tracer.Start(ctx, …) on the
// nil (no-op) tracer must hand back a usable context — the real no-op tracer
// returns a context derived from the one it was given — otherwise code that
// passes the returned ctx on (http request contexts, nested spans) would see a
// nil context that does not exist natively. The span result stays nil (its
// methods are no-ops as well).

import (
	"go/types"

	"golang.org/x/tools/go/ssa"
)

func (m *Machine) noopIfaceCall(fr *frame, call *ssa.CallCommon, sig *types.Signature) *GoFunc {
	if call.Method.Name() != "Start" || sig.Results().Len() != 2 || len(call.Args) < 1 {
		return nil
	}
	if types.TypeString(sig.Results().At(0).Type(), nil) != "context.Context" {
		return nil
	}
	ctx := fr.get(call.Args[0])
	spanT := sig.Results().At(1).Type()
	return &GoFunc{name: "noop-tracer-start", f: func(m *Machine, args []Value) Value {
		return Tuple{ctx, zero(spanT)}
	}}
}
