package main

// Value domain of the interpreter.
//
//   bool            bool | *Term (w == 0)
//   integers        uint64 in canonical 64-bit form (sign-extended for signed
//                   types, zero-extended for unsigned) | *Term (w == width)
//   floats          float64 (concrete only), complex128
//   string          string | *SymStr (bytes may be terms; length concrete)
//   pointer         *Value (cell) | *SymRef (element of a scalar slice/array at
//                   a symbolic index) | *FuncPtr-like values below
//   struct/array    Struct / Array (value semantics: copied on load/store)
//   slice           Slice (shares backing array)
//   map             *Map (insertion ordered)
//   interface       Iface{t, v}; nil interface is Iface{}
//   func            *ssa.Function | *ssa.Builtin | *Closure | *Bound | nil
//   chan            *Chan
//   tuple           Tuple

import (
	"fmt"
	"go/types"
	"strings"

	"golang.org/x/tools/go/ssa"
)

type Value = interface{}

type Struct []Value
type Array []Value
type Tuple []Value

type Slice struct {
	a   []Value // backing storage, a[:len] visible, cap(a) is the capacity
	nil bool
}

type SymStr struct {
	b []Value
}

type SymRef struct {
	base   []Value
	idx    *Term // width 64
	w      int   // element width (0: bool)
	signed bool
}

type Iface struct {
	t types.Type
	v Value
}

type Closure struct {
	fn  *ssa.Function
	env []Value
}

type Map struct {
	kt    types.Type
	vt    types.Type
	keys  []Value
	vals  []Value
	live  []bool
	idx   map[string]int // concrete keys → position
	n     int            // live entries
	order []int          // optional explicit iteration order (nil: insertion)
}

type Chan struct {
	id     int
	cap    int
	buf    []Value
	closed bool
	et     types.Type
	// rendezvous for unbuffered channels
	recvWaiting int
	sendSeq     int
	recvSeq     int
}

// iterators for Range/Next
type mapIter struct {
	m    *Map
	pos  int
	perm []int
}
type strIter struct {
	s Value
	i int
}

// ---------------------------------------------------------------------------
// type helpers

func under(t types.Type) types.Type { return t.Underlying() }

func intInfo(t types.Type) (w int, signed bool, ok bool) {
	b, isb := under(t).(*types.Basic)
	if !isb {
		return 0, false, false
	}
	switch b.Kind() {
	case types.Int8:
		return 8, true, true
	case types.Int16:
		return 16, true, true
	case types.Int32, types.UntypedRune:
		return 32, true, true
	case types.Int64, types.Int, types.UntypedInt:
		return 64, true, true
	case types.Uint8:
		return 8, false, true
	case types.Uint16:
		return 16, false, true
	case types.Uint32:
		return 32, false, true
	case types.Uint64, types.Uint, types.Uintptr:
		return 64, false, true
	}
	return 0, false, false
}

func isFloat(t types.Type) bool {
	b, ok := under(t).(*types.Basic)
	return ok && b.Info()&types.IsFloat != 0
}
func isComplex(t types.Type) bool {
	b, ok := under(t).(*types.Basic)
	return ok && b.Info()&types.IsComplex != 0
}
func isString(t types.Type) bool {
	b, ok := under(t).(*types.Basic)
	return ok && b.Info()&types.IsString != 0
}
func isBoolT(t types.Type) bool {
	b, ok := under(t).(*types.Basic)
	return ok && b.Info()&types.IsBoolean != 0
}
func isInterface(t types.Type) bool {
	_, ok := under(t).(*types.Interface)
	return ok
}
func isScalarT(t types.Type) bool {
	if _, _, ok := intInfo(t); ok {
		return true
	}
	return isBoolT(t)
}

func canon(v uint64, w int, signed bool) uint64 {
	if w >= 64 {
		return v
	}
	if signed {
		return uint64(sext(v, w))
	}
	return v & mask(w)
}

// zero returns the zero value of t.
func zero(t types.Type) Value {
	switch t := t.(type) {
	case *types.Named, *types.Alias:
		return zero(t.Underlying())
	case *types.Basic:
		switch {
		case t.Kind() == types.UntypedNil:
			return nil
		case t.Info()&types.IsBoolean != 0:
			return false
		case t.Info()&types.IsString != 0:
			return ""
		case t.Info()&types.IsFloat != 0:
			return float64(0)
		case t.Info()&types.IsComplex != 0:
			return complex128(0)
		case t.Kind() == types.UnsafePointer:
			return (*Value)(nil)
		}
		return uint64(0)
	case *types.Pointer:
		return (*Value)(nil)
	case *types.Struct:
		s := make(Struct, t.NumFields())
		for i := range s {
			s[i] = zero(t.Field(i).Type())
		}
		return s
	case *types.Array:
		a := make(Array, t.Len())
		if t.Len() > 0 {
			z := zero(t.Elem())
			for i := range a {
				a[i] = copyVal(z)
			}
		}
		return a
	case *types.Slice:
		return Slice{nil: true}
	case *types.Map:
		return (*Map)(nil)
	case *types.Chan:
		return (*Chan)(nil)
	case *types.Interface:
		return Iface{}
	case *types.Signature:
		return nil
	case *types.Tuple:
		tu := make(Tuple, t.Len())
		for i := range tu {
			tu[i] = zero(t.At(i).Type())
		}
		return tu
	case *types.TypeParam:
		panic("zero of type parameter " + t.String())
	}
	panic(fmt.Sprintf("zero: unhandled type %T %v", t, t))
}

// copyVal copies aggregates (value semantics).
func copyVal(v Value) Value {
	switch v := v.(type) {
	case Struct:
		c := make(Struct, len(v))
		for i, x := range v {
			c[i] = copyVal(x)
		}
		return c
	case Array:
		c := make(Array, len(v))
		for i, x := range v {
			c[i] = copyVal(x)
		}
		return c
	case Tuple:
		c := make(Tuple, len(v))
		for i, x := range v {
			c[i] = copyVal(x)
		}
		return c
	}
	return v
}

func isSym(v Value) bool {
	switch v := v.(type) {
	case *Term:
		return true
	case *SymStr:
		return true
	case Struct:
		for _, x := range v {
			if isSym(x) {
				return true
			}
		}
	case Array:
		for _, x := range v {
			if isSym(x) {
				return true
			}
		}
	case Iface:
		return isSym(v.v)
	}
	return false
}

// ---------------------------------------------------------------------------
// strings

func strLen(v Value) int {
	switch s := v.(type) {
	case string:
		return len(s)
	case *SymStr:
		return len(s.b)
	}
	panic(fmt.Sprintf("strLen of %T", v))
}

func strBytes(v Value) []Value {
	switch s := v.(type) {
	case string:
		b := make([]Value, len(s))
		for i := 0; i < len(s); i++ {
			b[i] = uint64(s[i])
		}
		return b
	case *SymStr:
		return s.b
	}
	panic(fmt.Sprintf("strBytes of %T", v))
}

// mkStr builds a string value from bytes, normalising to a Go string when all
// bytes are concrete. The slice is copied.
func mkStr(b []Value) Value {
	conc := true
	for _, x := range b {
		if _, ok := x.(*Term); ok {
			conc = false
			break
		}
	}
	if conc {
		bs := make([]byte, len(b))
		for i, x := range b {
			bs[i] = byte(x.(uint64))
		}
		return string(bs)
	}
	c := make([]Value, len(b))
	copy(c, b)
	return &SymStr{b: c}
}

func strAt(v Value, i int) Value {
	switch s := v.(type) {
	case string:
		return uint64(s[i])
	case *SymStr:
		return s.b[i]
	}
	panic("strAt")
}

func strSlice(v Value, lo, hi int) Value {
	switch s := v.(type) {
	case string:
		return s[lo:hi]
	case *SymStr:
		return mkStr(s.b[lo:hi])
	}
	panic("strSlice")
}

func strConcat(a, b Value) Value {
	if x, ok := a.(string); ok {
		if y, ok := b.(string); ok {
			return x + y
		}
	}
	ab, bb := strBytes(a), strBytes(b)
	c := make([]Value, 0, len(ab)+len(bb))
	c = append(c, ab...)
	c = append(c, bb...)
	return mkStr(c)
}

// ---------------------------------------------------------------------------
// maps

func newMap(kt, vt types.Type) *Map {
	return &Map{kt: kt, vt: vt, idx: map[string]int{}}
}

// hashKey returns a canonical string for a concrete key, ok=false if the key
// contains symbolic parts.
func hashKey(v Value) (string, bool) {
	var sb strings.Builder
	if !writeKey(&sb, v) {
		return "", false
	}
	return sb.String(), true
}

func writeKey(sb *strings.Builder, v Value) bool {
	switch v := v.(type) {
	case nil:
		sb.WriteString("nil;")
	case bool:
		if v {
			sb.WriteString("T;")
		} else {
			sb.WriteString("F;")
		}
	case uint64:
		fmt.Fprintf(sb, "i%d;", v)
	case float64:
		fmt.Fprintf(sb, "f%v;", v)
	case complex128:
		fmt.Fprintf(sb, "c%v;", v)
	case string:
		fmt.Fprintf(sb, "s%d:%s;", len(v), v)
	case *Term, *SymStr:
		return false
	case *Value:
		fmt.Fprintf(sb, "p%p;", v)
	case *Map:
		fmt.Fprintf(sb, "m%p;", v)
	case *Chan:
		fmt.Fprintf(sb, "ch%p;", v)
	case Struct:
		sb.WriteString("{")
		for _, x := range v {
			if !writeKey(sb, x) {
				return false
			}
		}
		sb.WriteString("}")
	case Array:
		sb.WriteString("[")
		for _, x := range v {
			if !writeKey(sb, x) {
				return false
			}
		}
		sb.WriteString("]")
	case Iface:
		if v.t == nil {
			sb.WriteString("nilI;")
		} else {
			fmt.Fprintf(sb, "I<%s>", types.TypeString(v.t, nil))
			if !writeKey(sb, v.v) {
				return false
			}
		}
	case *ssa.Function:
		fmt.Fprintf(sb, "fn%p;", v)
	case *Closure:
		fmt.Fprintf(sb, "cl%p;", v)
	default:
		panic(fmt.Sprintf("hashKey: unhandled %T", v))
	}
	return true
}

func (m *Map) hasSymKeys() bool { return len(m.idx) != m.n }

func (m *Map) appendEntry(k, v Value) {
	m.keys = append(m.keys, k)
	m.vals = append(m.vals, v)
	m.live = append(m.live, true)
	m.n++
	if h, ok := hashKey(k); ok {
		m.idx[h] = len(m.keys) - 1
	}
}

func (m *Map) removeAt(i int) {
	if !m.live[i] {
		return
	}
	m.live[i] = false
	m.n--
	if h, ok := hashKey(m.keys[i]); ok {
		delete(m.idx, h)
	}
}
