package main

import (
	"sync"

	"golang.org/x/tools/go/ssa"
)

// Packages whose initialiser only builds large immutable tables (no symbolic
// data, never written afterwards). Their initialiser is interpreted once per
// process; every later path shares the resulting global cells read-only.
// Without this, every explored path pays ~100 ms to rebuild unicode's tables as
// soon as regexp is touched.
var sharedInitPkgs = map[string]bool{"unicode": true}

var (
	sharedInitMu   sync.Mutex
	sharedInitSnap = map[*ssa.Package]map[*ssa.Global]*Value{}
)

// sharedInit initialises p from the process-wide snapshot, creating the
// snapshot on first use.
func (m *Machine) sharedInit(p *ssa.Package) {
	sharedInitMu.Lock()
	defer sharedInitMu.Unlock()
	if snap, ok := sharedInitSnap[p]; ok {
		for g, c := range snap {
			m.globals[g] = c
		}
		m.inited[p] = 2
		return
	}
	init := p.Func("init")
	if init == nil || init.Blocks == nil {
		m.inited[p] = 2
		return
	}
	path := p.Pkg.Path()
	m.inited[p] = 1
	m.inInit++
	if tolerantInit[path] {
		m.tolerant++
	}
	m.callSSA(nil, init, nil, nil)
	if tolerantInit[path] {
		m.tolerant--
	}
	m.inInit--
	m.inited[p] = 2
	snap := map[*ssa.Global]*Value{}
	for _, mem := range p.Members {
		if g, ok := mem.(*ssa.Global); ok {
			snap[g] = m.globalAddr(g)
		}
	}
	sharedInitSnap[p] = snap
}
