package main

// math/rand (package-level functions): every draw is a fresh unknown in the
// function's documented range, so the solver considers every outcome of the
// generator. The unknowns are named "rand.<Func>#k" in counterexamples. Native
// replay cannot force the real generator to these values: a counterexample
// that depends on a particular draw may fail to reproduce natively.

func init() {
	ranged := func(name string, w int) intrinsic {
		return func(m *Machine, fr *frame, a []Value) Value {
			n := m.scalarTerm(a[0], w)
			// n <= 0 panics in the real function
			if m.decideBool(m.tf.Cmp("bvsle", n, m.tf.BV(0, w)), "rand."+name+" n<=0") {
				m.throwRuntime("invalid argument to rand." + name)
			}
			m.envPicks++ // the native generator cannot be forced to this draw
			t := m.fresh("rand."+name, "int", w, true)
			m.assume(m.tf.And(m.tf.Cmp("bvsle", m.tf.BV(0, w), t), m.tf.Cmp("bvslt", t, n)))
			return t
		}
	}
	regIfAbsent("math/rand.Intn", ranged("Intn", 64))
	regIfAbsent("math/rand.Int63n", ranged("Int63n", 64))
	regIfAbsent("math/rand.Int31n", ranged("Int31n", 32))
	nonneg := func(name string, w int) intrinsic {
		return func(m *Machine, fr *frame, a []Value) Value {
			m.envPicks++
			t := m.fresh("rand."+name, "int", w, true)
			m.assume(m.tf.Cmp("bvsle", m.tf.BV(0, w), t))
			return t
		}
	}
	regIfAbsent("math/rand.Int", nonneg("Int", 64))
	regIfAbsent("math/rand.Int63", nonneg("Int63", 64))
	regIfAbsent("math/rand.Int31", nonneg("Int31", 32))
	regIfAbsent("math/rand.Uint32", func(m *Machine, fr *frame, a []Value) Value {
		m.envPicks++
		return m.fresh("rand.Uint32", "uint32", 32, false)
	})
	regIfAbsent("math/rand.Uint64", func(m *Machine, fr *frame, a []Value) Value {
		m.envPicks++
		return m.fresh("rand.Uint64", "uint64", 64, false)
	})
	regIfAbsent("math/rand.Seed", func(m *Machine, fr *frame, a []Value) Value { return nil })
}
