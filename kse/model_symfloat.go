package main

// Order-only symbolic floats and the uninterpreted rendezvous score.
//
// SymFloat is a float64 of which only the ORDER is known: k is a signed 64-bit
// "order key", the image of the float under the standard monotone embedding of
// the non-NaN float64 values into int64 (sign-magnitude bits; -0 and +0 both
// map to 0). Comparisons (< <= > >= == !=) between SymFloats, and between a
// SymFloat and a concrete float64, are exact on keys. Any other use (arithmetic,
// conversion, formatting) is not given a meaning: it ends the path as
// unsupported / internal error (inconclusive), never as a wrong verdict.
//
// With option "hrw_score_uninterpreted" the method
// (*hrw.RendezvousHashNode).Score is replaced by an uninterpreted function of
// (Label, Weight, key): one fresh order key per distinct argument triple,
// non-NaN, and pairwise distinct for distinct labels under the same key (no
// score ties). This is sound for every property that depends on the scores
// only through comparisons: whatever the hash, the score function and the
// float arithmetic inside Score are, Score is a deterministic function of its
// arguments, so some assignment of order keys describes it. What is cut: score
// ties between distinct labels, and NaN scores (keys that are not valid hex
// still give the concrete NaN of the real code).

import (
	"encoding/hex"
	"fmt"
	"go/token"
	"math"
)

type SymFloat struct{ k *Term }

const hrwScoreFn = "(*github.com/uber/kraken/lib/hrw.RendezvousHashNode).Score"

// gatedIntrinsics are intrinsics that replace real, interpretable code and
// are therefore active only when the harness asks for them.
var gatedIntrinsics = map[string]func(c *RunConfig) bool{
	hrwScoreFn: func(c *RunConfig) bool { return c.HrwScoreUF },
}

// intrinsicGatedOff reports whether the intrinsic registered under name must
// be ignored (the real body is interpreted instead) for this path.
func (m *Machine) intrinsicGatedOff(name string) bool {
	g, ok := gatedIntrinsics[name]
	return ok && !g(m.cfg)
}

func isSymFloat(v Value) bool {
	_, ok := v.(SymFloat)
	return ok
}

const floatKeyInf = int64(0x7FF0000000000000)

// floatOrderKey is the monotone embedding of non-NaN floats into int64.
func floatOrderKey(f float64) int64 {
	b := math.Float64bits(f)
	if b>>63 == 1 {
		return -int64(b & 0x7FFFFFFFFFFFFFFF)
	}
	return int64(b)
}

func (m *Machine) symFloatKey(v Value) (*Term, bool) {
	switch x := v.(type) {
	case SymFloat:
		return x.k, true
	case float64:
		if math.IsNaN(x) {
			return nil, false
		}
		return m.tf.BV(uint64(floatOrderKey(x)), 64), true
	}
	m.unsupported("order-only symbolic float combined with %T", v)
	return nil, false
}

// symFloatBinop implements comparisons with at least one SymFloat operand.
func (m *Machine) symFloatBinop(op token.Token, x, y Value) Value {
	a, okA := m.symFloatKey(x)
	b, okB := m.symFloatKey(y)
	if !okA || !okB {
		// comparison with NaN
		return op == token.NEQ
	}
	switch op {
	case token.LSS:
		return lowerBool(m.tf.Cmp("bvslt", a, b))
	case token.LEQ:
		return lowerBool(m.tf.Cmp("bvsle", a, b))
	case token.GTR:
		return lowerBool(m.tf.Cmp("bvslt", b, a))
	case token.GEQ:
		return lowerBool(m.tf.Cmp("bvsle", b, a))
	case token.EQL:
		return lowerBool(m.tf.Eq(a, b))
	case token.NEQ:
		return lowerBool(m.tf.Not(m.tf.Eq(a, b)))
	}
	m.unsupported("arithmetic (%s) on an order-only symbolic float", op)
	return nil
}

type hrwScoreEntry struct {
	label, key string
	k          *Term
}

type hrwScoreTable struct {
	memo map[string]*Term
	all  []hrwScoreEntry
}

func init() {
	reg(hrwScoreFn, func(m *Machine, fr *frame, a []Value) Value {
		p, ok := a[0].(*Value)
		if !ok || p == nil {
			m.throwRuntime("invalid memory address or nil pointer dereference")
		}
		node := (*p).(Struct) // {RHash, Label, Weight}
		label, ok := node[1].(string)
		if !ok {
			m.unsupported("uninterpreted hrw score: node label must be concrete")
		}
		key, ok := a[1].(string)
		if !ok {
			m.unsupported("uninterpreted hrw score: key must be concrete (its value is irrelevant under the abstraction)")
		}
		if _, err := hex.DecodeString(key); err != nil {
			return math.NaN() // as the real code
		}
		var wcanon string
		switch w := node[2].(type) {
		case uint64:
			wcanon = fmt.Sprintf("%d", int64(w))
		case *Term:
			wcanon = fmt.Sprintf("t%p", w)
		default:
			m.unsupported("uninterpreted hrw score: weight %T", node[2])
		}
		tab, _ := m.side["hrwscore"].(*hrwScoreTable)
		if tab == nil {
			tab = &hrwScoreTable{memo: map[string]*Term{}}
			m.side["hrwscore"] = tab
			m.res.Notes["hrw Score is an uninterpreted function of (label, weight, key): non-NaN, no ties between distinct labels; only comparisons of scores are given a meaning"] = true
		}
		mk := label + "\x00" + wcanon + "\x00" + key
		if k, ok := tab.memo[mk]; ok {
			return SymFloat{k}
		}
		kt := m.fresh("hrwscore:"+label+":"+key, "int64", 64, true)
		inf := m.tf.BV(uint64(floatKeyInf), 64)
		negInf := -floatKeyInf
		ninf := m.tf.BV(uint64(negInf), 64)
		m.assume(m.tf.And(m.tf.Cmp("bvsle", ninf, kt), m.tf.Cmp("bvsle", kt, inf)))
		for _, e := range tab.all {
			if e.key == key && e.label != label {
				m.assume(m.tf.Not(m.tf.Eq(e.k, kt)))
			}
		}
		tab.memo[mk] = kt
		tab.all = append(tab.all, hrwScoreEntry{label: label, key: key, k: kt})
		return SymFloat{kt}
	})
}
