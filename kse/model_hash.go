package main

// Hash functions as uninterpreted functions of their input bytes (DESIGN
// §4.4): for every input length n, sha256 is 32 arbitrary functions
// (BV8)^n → BV8 and crc32 one arbitrary function (BV8)^n → BV32. Fully concrete
// inputs are hashed for real.

import (
	"crypto/md5"
	"crypto/sha1"
	"crypto/sha256"
	"fmt"
	"go/types"
	"hash/crc32"
)

type hashSt struct {
	bytes []Value
}

func allConcrete(b []Value) ([]byte, bool) {
	out := make([]byte, len(b))
	for i, x := range b {
		c, ok := x.(uint64)
		if !ok {
			return nil, false
		}
		out[i] = byte(c)
	}
	return out, true
}

func (m *Machine) ufBytes(name string, in []Value, outBytes int) []Value {
	if cb, ok := allConcrete(in); ok {
		var sum []byte
		switch name {
		case "sha256":
			s := sha256.Sum256(cb)
			sum = s[:]
		case "sha1":
			s := sha1.Sum(cb)
			sum = s[:]
		case "md5":
			s := md5.Sum(cb)
			sum = s[:]
		}
		out := make([]Value, len(sum))
		for i, b := range sum {
			out[i] = uint64(b)
		}
		m.hashLinkConcrete(name, cb, out)
		return out
	}
	args := make([]*Term, len(in))
	for i, x := range in {
		args[i] = m.scalarTerm(x, 8)
	}
	out := make([]Value, outBytes)
	for j := range out {
		out[j] = m.tf.UF(fmt.Sprintf("%s_%d_%d", name, len(in), j), 8, args...)
	}
	m.res.Notes[name+" modelled as an uninterpreted function of the input bytes (per input length)"] = true
	m.hashLinkSymbolic(name, args, out)
	return out
}

func (m *Machine) crcOf(in []Value) Value {
	if cb, ok := allConcrete(in); ok {
		r := uint64(crc32.ChecksumIEEE(cb))
		m.hashLinkConcrete("crc32", cb, []Value{r})
		return r
	}
	args := make([]*Term, len(in))
	for i, x := range in {
		args[i] = m.scalarTerm(x, 8)
	}
	m.res.Notes["crc32 modelled as an uninterpreted function of the input bytes (per input length)"] = true
	t := m.tf.UF(fmt.Sprintf("crc32_%d", len(in)), 32, args...)
	if m.crcOrigin == nil {
		m.crcOrigin = map[*Term][]Value{}
	}
	m.crcOrigin[t] = append([]Value(nil), in...)
	m.hashLinkSymbolic("crc32", args, []Value{t})
	return t
}

func (m *Machine) hashState(p Value) *hashSt {
	return sideGet(m, sideKey{m.cellPtr(p), "hash"}, func() *hashSt { return &hashSt{} })
}

func init() {
	const fp = "crypto/internal/fips140/sha256"
	newSha := func(m *Machine, fr *frame, a []Value) Value {
		pk := m.prog.ImportedPackage(fp)
		dt := pk.Type("Digest").Type()
		p := new(Value)
		*p = zero(dt)
		return p
	}
	reg("crypto/sha256.New", func(m *Machine, fr *frame, a []Value) Value {
		pk := m.prog.ImportedPackage(fp)
		return Iface{t: types.NewPointer(pk.Type("Digest").Type()), v: newSha(m, fr, a)}
	})
	reg(fp+".New", newSha)
	reg("(*"+fp+".Digest).Reset", func(m *Machine, fr *frame, a []Value) Value {
		m.hashState(a[0]).bytes = nil
		return nil
	})
	reg("(*"+fp+".Digest).Write", func(m *Machine, fr *frame, a []Value) Value {
		st := m.hashState(a[0])
		b := a[1].(Slice).a
		st.bytes = append(st.bytes, b...)
		return Tuple{i64(len(b)), Iface{}}
	})
	reg("(*"+fp+".Digest).Sum", func(m *Machine, fr *frame, a []Value) Value {
		st := m.hashState(a[0])
		sum := m.ufBytes("sha256", st.bytes, 32)
		in := a[1].(Slice)
		out := append(append([]Value(nil), in.a...), sum...)
		return Slice{a: out}
	})
	reg("crypto/sha256.Sum256", func(m *Machine, fr *frame, a []Value) Value {
		return Array(m.ufBytes("sha256", a[0].(Slice).a, 32))
	})
	reg("crypto/sha1.Sum", func(m *Machine, fr *frame, a []Value) Value {
		return Array(m.ufBytes("sha1", a[0].(Slice).a, 20))
	})
	reg("crypto/md5.Sum", func(m *Machine, fr *frame, a []Value) Value {
		return Array(m.ufBytes("md5", a[0].(Slice).a, 16))
	})

	// crc32
	reg("hash/crc32.New", func(m *Machine, fr *frame, a []Value) Value {
		pk := m.prog.ImportedPackage("hash/crc32")
		dt := pk.Type("digest").Type()
		p := new(Value)
		*p = zero(dt)
		return Iface{t: types.NewPointer(dt), v: p}
	})
	reg("hash/crc32.NewIEEE", func(m *Machine, fr *frame, a []Value) Value {
		pk := m.prog.ImportedPackage("hash/crc32")
		dt := pk.Type("digest").Type()
		p := new(Value)
		*p = zero(dt)
		return Iface{t: types.NewPointer(dt), v: p}
	})
	reg("(*hash/crc32.digest).Reset", func(m *Machine, fr *frame, a []Value) Value {
		m.hashState(a[0]).bytes = nil
		return nil
	})
	reg("(*hash/crc32.digest).Write", func(m *Machine, fr *frame, a []Value) Value {
		st := m.hashState(a[0])
		b := a[1].(Slice).a
		st.bytes = append(st.bytes, b...)
		return Tuple{i64(len(b)), Iface{}}
	})
	reg("(*hash/crc32.digest).Sum32", func(m *Machine, fr *frame, a []Value) Value {
		return m.crcOf(m.hashState(a[0]).bytes)
	})
	reg("(*hash/crc32.digest).Sum", func(m *Machine, fr *frame, a []Value) Value {
		s := m.crcOf(m.hashState(a[0]).bytes)
		in := a[1].(Slice)
		out := append([]Value(nil), in.a...)
		switch s := s.(type) {
		case uint64:
			out = append(out, uint64(byte(s>>24)), uint64(byte(s>>16)), uint64(byte(s>>8)), uint64(byte(s)))
		case *Term:
			for k := 3; k >= 0; k-- {
				out = append(out, m.tf.Extract(s, k*8+7, k*8))
			}
		}
		return Slice{a: out}
	})
	reg("hash/crc32.ChecksumIEEE", func(m *Machine, fr *frame, a []Value) Value { return m.crcOf(a[0].(Slice).a) })
	reg("hash/crc32.Checksum", func(m *Machine, fr *frame, a []Value) Value { return m.crcOf(a[0].(Slice).a) })
	reg("hash/crc32.Update", func(m *Machine, fr *frame, a []Value) Value {
		p := a[2].(Slice).a
		switch c := a[0].(type) {
		case uint64:
			if c == 0 {
				return m.crcOf(p)
			}
			if cb, ok := allConcrete(p); ok {
				return uint64(crc32.Update(uint32(c), crc32.IEEETable, cb))
			}
		case *Term:
			if prev, ok := m.crcOrigin[c]; ok {
				return m.crcOf(append(append([]Value(nil), prev...), p...))
			}
		}
		m.unsupported("crc32.Update from a checksum of unknown origin")
		return nil
	})
}
