package main

// opaqueFloat is the result of converting a symbolic integer to a float. It
// may be stored and passed to functions that ignore it (metrics gauges).
// + - * / with it stay opaque, converting it to an integer type yields a fresh
// unconstrained unknown of that type (over-approximation); any comparison or
// other use ends the path as an internal error (inconclusive), never as a
// wrong result.
type opaqueFloat struct{}

func isOpaqueFloat(v Value) bool {
	_, ok := v.(opaqueFloat)
	return ok
}
