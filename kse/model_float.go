package main

// opaqueFloat is the result of converting a symbolic integer to a float. It
// may be stored and passed to functions that ignore it (metrics gauges); any
// arithmetic, comparison or conversion on it ends the path as an internal
// error (inconclusive), never as a wrong result.
type opaqueFloat struct{}
