package main

// Per-variable small domains: a sound shortcut for the very frequent queries
// of the form "PC ∧ c" where c mentions exactly one unknown of at most 8 bits
// (a symbolic byte compared with constants inside strings/regexp/utf8 code).
//
// For each such unknown v the set allowed[v] ⊇ {values of v in models of PC}
// is maintained from the conjuncts of the path condition that mention only v
// (conjuncts over several unknowns are ignored, which only enlarges the set).
// If c is false for every value in allowed[v], PC ∧ c is unsatisfiable and the
// solver is not asked. Nothing is ever concluded in the "sat" direction.
//
// KSE_DOMCHECK=1 re-asks the solver for every shortcut verdict and aborts on a
// disagreement (self-check of this file).

import (
	"os"
)

type byteDom struct {
	allowed map[*Term]*[4]uint64 // var -> bitset over 0..2^w-1
	single  map[*Term]*Term      // memo: term -> its only variable, nil (none) or domMany
	hits    int
}

var domMany = &Term{op: "many"}

var domSelfCheck = os.Getenv("KSE_DOMCHECK") != ""
var domDisabled = os.Getenv("KSE_NODOM") != ""

func newByteDom() *byteDom {
	return &byteDom{allowed: map[*Term]*[4]uint64{}, single: map[*Term]*Term{}}
}

// onlyVar returns the single variable of t, nil when t is closed, or domMany
// when t has several variables, an uninterpreted application or a variable
// wider than 8 bits.
func (d *byteDom) onlyVar(t *Term) *Term {
	if r, ok := d.single[t]; ok {
		return r
	}
	var r *Term
	switch t.op {
	case "true", "false", "const":
		r = nil
	case "var":
		if t.w <= 8 {
			r = t
		} else {
			r = domMany
		}
	case "uf":
		r = domMany
	default:
		for _, a := range t.args {
			x := d.onlyVar(a)
			if x == nil {
				continue
			}
			if x == domMany || (r != nil && r != x) {
				r = domMany
				break
			}
			r = x
		}
	}
	d.single[t] = r
	return r
}

func domSize(v *Term) int {
	if v.w == 0 {
		return 2
	}
	return 1 << uint(v.w)
}

func (d *byteDom) set(v *Term) *[4]uint64 {
	s, ok := d.allowed[v]
	if !ok {
		s = new([4]uint64)
		n := domSize(v)
		for i := 0; i < n; i++ {
			s[i>>6] |= 1 << uint(i&63)
		}
		d.allowed[v] = s
	}
	return s
}

func domEval(t *Term, v *Term, x uint64) (bool, bool) {
	mo := &Model{vars: map[string]uint64{v.name: x}}
	r, ok := mo.eval(t, map[*Term]uint64{})
	return r != 0, ok
}

// record narrows the domains with a new conjunct of the path condition.
func (d *byteDom) record(t *Term) {
	if t.op == "and" {
		for _, a := range t.args {
			d.record(a)
		}
		return
	}
	if !t.isBool() {
		return
	}
	v := d.onlyVar(t)
	if v == nil || v == domMany {
		return
	}
	s := d.set(v)
	n := domSize(v)
	for i := 0; i < n; i++ {
		if s[i>>6]&(1<<uint(i&63)) == 0 {
			continue
		}
		r, ok := domEval(t, v, uint64(i))
		if ok && !r {
			s[i>>6] &^= 1 << uint(i&63)
		}
	}
}

// refutes reports whether c is false for every allowed value of its only
// variable (so PC ∧ c is unsatisfiable). false means "do not know".
func (d *byteDom) refutes(c *Term) bool {
	if !c.isBool() {
		return false
	}
	v := d.onlyVar(c)
	if v == nil || v == domMany {
		return false
	}
	s := d.set(v)
	n := domSize(v)
	for i := 0; i < n; i++ {
		if s[i>>6]&(1<<uint(i&63)) == 0 {
			continue
		}
		r, ok := domEval(c, v, uint64(i))
		if !ok || r {
			return false
		}
	}
	return true
}
