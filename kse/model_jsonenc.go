package main

// (*encoding/json.Encoder).Encode for a []string / *[]string of concrete
// strings (lib/backend/testfs listHandler writes its listing this way). The
// real encoding/json is reflection driven and not interpreted; the encoding
// is produced by the real json.Marshal on the concrete value and written to
// the Encoder's writer through its (interpreted) Write method. Anything else
// is reported as unsupported.

import (
	"encoding/json"
)

func init() {
	reg("(*encoding/json.Encoder).Encode", func(m *Machine, fr *frame, a []Value) Value {
		enc := (*m.cellPtr(a[0])).(Struct)
		w, _ := enc[0].(Iface)
		v, _ := a[1].(Iface)
		var sl Slice
		switch {
		case v.t != nil && v.t.String() == "*[]string":
			sl, _ = (*m.cellPtr(v.v)).(Slice)
		case v.t != nil && v.t.String() == "[]string":
			sl, _ = v.v.(Slice)
		default:
			m.unsupported("(*encoding/json.Encoder).Encode of %v (only []string / *[]string are modelled)", v.t)
		}
		var strs []string
		if !sl.nil {
			strs = []string{}
		}
		for _, e := range sl.a {
			strs = append(strs, concStr(m, e, "element of a JSON-encoded []string"))
		}
		b, err := json.Marshal(strs)
		if err != nil {
			m.unsupported("json model: %v", err)
		}
		r := m.writeTo(fr, w, string(b)+"\n")
		if t, ok := r.(Tuple); ok && len(t) == 2 {
			return t[1]
		}
		return Iface{}
	})
}
