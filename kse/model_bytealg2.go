package main

// internal/bytealg.CompareString (used by strings.Compare / cmp of strings in
// newer toolchains, e.g. os.ReadDir's sort) is assembly-backed.
func init() {
	reg("internal/bytealg.CompareString", func(m *Machine, fr *frame, a []Value) Value {
		return m.compareBytes(sliceBytes(a[0]), sliceBytes(a[1]))
	})
}
