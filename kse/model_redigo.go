package main

// github.com/gomodule/redigo/redis: the package initialiser computes
// reflect.TypeOf values used only by the Scan helpers (not reachable from
// kraken's peer store, which uses Pool, Conn and redis.Strings). The
// initialiser runs in tolerant mode: un-interpretable initialiser expressions
// yield zero values instead of ending the path. The connection itself is always
// a harness-side model behind redis.Pool.Dial (C28).
func init() {
	tolerantInit["github.com/gomodule/redigo/redis"] = true
}
