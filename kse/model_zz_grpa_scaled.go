package main

import (
	"sync"
)

// Scaled terms: seconds * 1e9 (time.Duration(x) * time.Second, differences of
// whole-second instants). Bit-blasting 64-bit multiplications by 1e9 under
// comparisons makes the solver give up, so
//   * sums / differences / negations of terms scaled by the same constant are
//     re-associated to one scaled term (exact in modular arithmetic), and
//   * signed comparisons between scaled terms, or a scaled term and a constant,
//     are decided on the unscaled operands when these are small enough for the
//     product not to overflow (|x| <= 2^33 for 1e9); outside that range the
//     original comparison is kept:  (small ∧ simple) ∨ (¬small ∧ original).

var scaleConsts = map[uint64]uint64{1_000_000_000: 1 << 33, 1_000_000: 1 << 43, 1_000: 1 << 53}

func scaledOf(t *Term) (x *Term, k uint64, ok bool) {
	if t.op != "bvmul" || t.w != 64 || len(t.args) != 2 {
		return nil, 0, false
	}
	a, b := t.args[0], t.args[1]
	if b.isConst() && !a.isConst() {
		if _, ok := scaleConsts[b.val]; ok {
			return a, b.val, true
		}
	}
	if a.isConst() && !b.isConst() {
		if _, ok := scaleConsts[a.val]; ok {
			return b, a.val, true
		}
	}
	return nil, 0, false
}

func (f *TermFactory) binScaled(op string, a, b *Term) *Term {
	if a.w != 64 {
		return nil
	}
	switch op {
	case "bvadd", "bvsub":
		x, k1, ok1 := scaledOf(a)
		y, k2, ok2 := scaledOf(b)
		if ok1 && ok2 && k1 == k2 {
			return f.Bin("bvmul", f.Bin(op, x, y), f.BV(k1, 64))
		}
		if op == "bvsub" && ok2 && a.isConst() && a.val == 0 {
			return f.Bin("bvmul", f.Bin("bvsub", f.BV(0, 64), y), f.BV(k2, 64))
		}
	}
	return nil
}

func floorDivI(c, k int64) int64 {
	q := c / k
	if c%k != 0 && (c < 0) != (k < 0) {
		q--
	}
	return q
}

func ceilDivI(c, k int64) int64 {
	q := c / k
	if c%k != 0 && (c < 0) == (k < 0) {
		q++
	}
	return q
}

func (f *TermFactory) smallFor(x *Term, k uint64) *Term {
	lim := int64(scaleConsts[k])
	return f.And(
		f.mk(&Term{op: "bvsle", args: []*Term{f.BV(uint64(-lim), 64), x}}),
		f.mk(&Term{op: "bvsle", args: []*Term{x, f.BV(uint64(lim), 64)}}))
}

func (f *TermFactory) rawCmp(op string, a, b *Term) *Term {
	if a.isConst() && b.isConst() {
		return f.Bool(evalCmp(op, a.val, b.val, a.w))
	}
	if a == b {
		return f.Bool(op == "bvsle")
	}
	return f.mk(&Term{op: op, args: []*Term{a, b}})
}

func (f *TermFactory) cmpScaled(op string, a, b *Term) *Term {
	if a.w != 64 || (op != "bvslt" && op != "bvsle") {
		return nil
	}
	x, k1, ok1 := scaledOf(a)
	y, k2, ok2 := scaledOf(b)
	orig := f.mk(&Term{op: op, args: []*Term{a, b}})
	var guard, simple *Term
	switch {
	case ok1 && ok2 && k1 == k2:
		guard = f.And(f.smallFor(x, k1), f.smallFor(y, k1))
		simple = f.rawCmp(op, x, y)
	case ok1 && b.isConst():
		c, k := int64(b.val), int64(k1)
		guard = f.smallFor(x, k1)
		if op == "bvslt" { // x*k < c  <=>  x < ceil(c/k)
			simple = f.rawCmp("bvslt", x, f.BV(uint64(ceilDivI(c, k)), 64))
		} else { // x*k <= c  <=>  x <= floor(c/k)
			simple = f.rawCmp("bvsle", x, f.BV(uint64(floorDivI(c, k)), 64))
		}
	case ok2 && a.isConst():
		c, k := int64(a.val), int64(k2)
		guard = f.smallFor(y, k2)
		if op == "bvslt" { // c < y*k  <=>  floor(c/k) < y
			simple = f.rawCmp("bvslt", f.BV(uint64(floorDivI(c, k)), 64), y)
		} else { // c <= y*k  <=>  ceil(c/k) <= y
			simple = f.rawCmp("bvsle", f.BV(uint64(ceilDivI(c, k)), 64), y)
		}
	default:
		return nil
	}
	if guard.op == "true" {
		return simple
	}
	if f.scaledRegister(guard) {
		// the machine proves the guard under the path condition before the
		// solver sees any term built from it (flushScaled)
		return simple
	}
	return f.Or(f.And(guard, simple), f.And(f.Not(guard), orig))
}

// eqScaled: x*k == c  <=>  k | c  and  x == c/k ;  x*k == y*k  <=>  x == y
// (operands small, same obligation as for the comparisons).
func (f *TermFactory) eqScaled(a, b *Term) *Term {
	if a.w != 64 {
		return nil
	}
	x, k1, ok1 := scaledOf(a)
	y, k2, ok2 := scaledOf(b)
	var guard, simple *Term
	switch {
	case ok1 && ok2 && k1 == k2:
		guard = f.And(f.smallFor(x, k1), f.smallFor(y, k1))
		simple = f.Eq(x, y)
	case ok1 && b.isConst(), ok2 && a.isConst():
		v, k, c := x, k1, b
		if !ok1 || !b.isConst() {
			v, k, c = y, k2, a
		}
		guard = f.smallFor(v, k)
		ci, ki := int64(c.val), int64(k)
		if ci%ki != 0 {
			simple = f.Bool(false)
		} else {
			simple = f.Eq(v, f.BV(uint64(ci/ki), 64))
		}
	default:
		return nil
	}
	if guard.op == "true" || f.scaledRegister(guard) {
		return simple
	}
	return nil
}

// Proof obligations for the multiplication-free form: a comparison rewritten
// to its unscaled operands is only valid when the guard (operands small) holds.
// The factory queues the guard; the machine's solver pre-hook proves every
// queued guard from the current path condition before the next assertion or
// query, and ends the path as unsupported otherwise. So the solver never
// reasons about a rewritten comparison whose guard is not implied.

var (
	scaledMu      sync.Mutex
	scaledPending = map[*TermFactory][]*Term{}
	scaledActive  = map[*TermFactory]bool{}
)

func (f *TermFactory) scaledRegister(guard *Term) bool {
	scaledMu.Lock()
	defer scaledMu.Unlock()
	if !scaledActive[f] {
		return false
	}
	scaledPending[f] = append(scaledPending[f], guard)
	return true
}

func (m *Machine) installScaledHook() {
	scaledMu.Lock()
	// factories of finished paths are dropped here (one live factory per solver)
	for f := range scaledActive {
		if f.owner == m.solver {
			delete(scaledActive, f)
			delete(scaledPending, f)
		}
	}
	m.tf.owner = m.solver
	scaledActive[m.tf] = true
	scaledMu.Unlock()
	proved := map[*Term]bool{}
	busy := false
	m.solver.preHook = func() {
		if busy {
			return
		}
		scaledMu.Lock()
		pend := scaledPending[m.tf]
		scaledPending[m.tf] = nil
		scaledMu.Unlock()
		if len(pend) == 0 {
			return
		}
		busy = true
		defer func() { busy = false }()
		for _, g := range pend {
			if proved[g] {
				continue
			}
			r, _ := m.solver.Check(m.tf.Not(g), false)
			if r != "unsat" {
				m.unsupported("a whole-second quantity compared after scaling by 1e9 is not provably within ±2^33 s on this path (add an Assume bounding it)")
			}
			proved[g] = true
		}
	}
}

func (s *Solver) runPreHook() {
	if s.preHook != nil {
		s.preHook()
	}
}
