package main

import "os"

// Scaled terms: seconds * 1e9 (time.Duration(x) * time.Second, differences of
// whole-second instants). Bit-blasting 64-bit multiplications by 1e9 under
// comparisons makes the solver give up, so
//   * sums / differences / negations of terms scaled by the same constant are
//     re-associated to one scaled term (exact in modular arithmetic), and
//   * signed comparisons between scaled terms, or a scaled term and a constant,
//     are decided on the unscaled operands when these are small enough for the
//     product not to overflow (|x| <= 2^33 for 1e9); outside that range the
//     original comparison is kept:  (small ∧ simple) ∨ (¬small ∧ original).

var scaleConsts = map[uint64]uint64{1_000_000_000: 1 << 33, 1_000_000: 1 << 43, 1_000: 1 << 53}

func scaledOf(t *Term) (x *Term, k uint64, ok bool) {
	if t.op != "bvmul" || t.w != 64 || len(t.args) != 2 {
		return nil, 0, false
	}
	a, b := t.args[0], t.args[1]
	if b.isConst() && !a.isConst() {
		if _, ok := scaleConsts[b.val]; ok {
			return a, b.val, true
		}
	}
	if a.isConst() && !b.isConst() {
		if _, ok := scaleConsts[a.val]; ok {
			return b, a.val, true
		}
	}
	return nil, 0, false
}

func (f *TermFactory) binScaled(op string, a, b *Term) *Term {
	if a.w != 64 {
		return nil
	}
	switch op {
	case "bvadd", "bvsub":
		x, k1, ok1 := scaledOf(a)
		y, k2, ok2 := scaledOf(b)
		if ok1 && ok2 && k1 == k2 {
			return f.Bin("bvmul", f.Bin(op, x, y), f.BV(k1, 64))
		}
		if op == "bvsub" && ok2 && a.isConst() && a.val == 0 {
			return f.Bin("bvmul", f.Bin("bvsub", f.BV(0, 64), y), f.BV(k2, 64))
		}
	}
	return nil
}

func floorDivI(c, k int64) int64 {
	q := c / k
	if c%k != 0 && (c < 0) != (k < 0) {
		q--
	}
	return q
}

func ceilDivI(c, k int64) int64 {
	q := c / k
	if c%k != 0 && (c < 0) == (k < 0) {
		q++
	}
	return q
}

func (f *TermFactory) smallFor(x *Term, k uint64) *Term {
	lim := int64(scaleConsts[k])
	return f.And(
		f.mk(&Term{op: "bvsle", args: []*Term{f.BV(uint64(-lim), 64), x}}),
		f.mk(&Term{op: "bvsle", args: []*Term{x, f.BV(uint64(lim), 64)}}))
}

func (f *TermFactory) rawCmp(op string, a, b *Term) *Term {
	if a.isConst() && b.isConst() {
		return f.Bool(evalCmp(op, a.val, b.val, a.w))
	}
	if a == b {
		return f.Bool(op == "bvsle")
	}
	return f.mk(&Term{op: op, args: []*Term{a, b}})
}

func (f *TermFactory) cmpScaled(op string, a, b *Term) *Term {
	if a.w != 64 || (op != "bvslt" && op != "bvsle") {
		return nil
	}
	x, k1, ok1 := scaledOf(a)
	y, k2, ok2 := scaledOf(b)
	orig := f.mk(&Term{op: op, args: []*Term{a, b}})
	var guard, simple *Term
	switch {
	case ok1 && ok2 && k1 == k2:
		guard = f.And(f.smallFor(x, k1), f.smallFor(y, k1))
		simple = f.rawCmp(op, x, y)
	case ok1 && b.isConst():
		c, k := int64(b.val), int64(k1)
		guard = f.smallFor(x, k1)
		if op == "bvslt" { // x*k < c  <=>  x < ceil(c/k)
			simple = f.rawCmp("bvslt", x, f.BV(uint64(ceilDivI(c, k)), 64))
		} else { // x*k <= c  <=>  x <= floor(c/k)
			simple = f.rawCmp("bvsle", x, f.BV(uint64(floorDivI(c, k)), 64))
		}
	case ok2 && a.isConst():
		c, k := int64(a.val), int64(k2)
		guard = f.smallFor(y, k2)
		if op == "bvslt" { // c < y*k  <=>  floor(c/k) < y
			simple = f.rawCmp("bvslt", f.BV(uint64(floorDivI(c, k)), 64), y)
		} else { // c <= y*k  <=>  ceil(c/k) <= y
			simple = f.rawCmp("bvsle", f.BV(uint64(ceilDivI(c, k)), 64), y)
		}
	default:
		return nil
	}
	if os.Getenv("KSE_SCALED_EXPERIMENT") != "" {
		return simple
	}
	return f.Or(f.And(guard, simple), f.And(f.Not(guard), orig))
}
