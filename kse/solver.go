package main

// One long-lived `z3 -in` per worker. No set-logic (see DESIGN §3.5). Any
// "(error" line makes the current query inconclusive.

import (
	"bufio"
	"fmt"
	"io"
	"os"
	"os/exec"
	"strconv"
	"strings"
	"time"
)

type SolverStats struct {
	Queries  int     `json:"queries"`
	Sat      int     `json:"sat"`
	Unsat    int     `json:"unsat"`
	Unknown  int     `json:"unknown"`
	Errors   int     `json:"errors"`
	Seconds  float64 `json:"solver_seconds"`
	ModelHit int     `json:"decided_by_cached_model"`
	DomUnsat int     `json:"unsat_by_byte_domain"`
	CrossAgree    int `json:"second_solver_agrees"`
	CrossDisagree int `json:"second_solver_disagrees"`
	CrossUnknown  int `json:"second_solver_unknown"`
	Retried       int `json:"assertion_queries_retried_with_longer_timeout"`
}

func (a *SolverStats) add(b SolverStats) {
	a.Queries += b.Queries
	a.Sat += b.Sat
	a.Unsat += b.Unsat
	a.Unknown += b.Unknown
	a.Errors += b.Errors
	a.Seconds += b.Seconds
	a.ModelHit += b.ModelHit
	a.DomUnsat += b.DomUnsat
	a.CrossAgree += b.CrossAgree
	a.CrossDisagree += b.CrossDisagree
	a.CrossUnknown += b.CrossUnknown
	a.Retried += b.Retried
}

type Solver struct {
	bin       string
	args      []string
	cmd       *exec.Cmd
	in        io.WriteCloser
	out       *bufio.Reader
	stats     SolverStats
	timeoutMs int
	declared  map[string]bool
	ufApps    []*Term
	vars      []*Term
	log       *bufio.Writer
	logf      *os.File
	depth     int
	lastErr   string
	shadow    *Solver // second solver mirrored for cross-checking assertion verdicts
	dom       *byteDom // small-domain shortcut for single-byte queries (bytedom.go)
	preHook   func()   // run before every Assert/Check (model_zz_grpa_scaled.go)
	desync    bool     // (shadow solver only) restarted mid-path: ignore until the next PathBegin (shadowtimeout.go)
	retryUnknown bool  // set around the re-check of an assertion: an unknown verdict is retried with 4x the timeout
	tactic    string   // option solver_bv_tactic: try (check-sat-using …) first (solver_tactic.go)
}

func newSolver(bin string, timeoutMs int, logPath string) (*Solver, error) {
	s := &Solver{bin: bin, timeoutMs: timeoutMs}
	switch {
	case strings.Contains(bin, "cvc5"):
		s.args = []string{"--incremental", "--produce-models", "--lang=smt2", fmt.Sprintf("--tlimit-per=%d", timeoutMs)}
	default:
		s.args = []string{"-in", "-smt2"}
	}
	if logPath != "" {
		f, err := os.Create(logPath)
		if err == nil {
			s.logf = f
			s.log = bufio.NewWriter(f)
		}
	}
	if err := s.start(); err != nil {
		return nil, err
	}
	return s, nil
}

func (s *Solver) start() error {
	s.cmd = exec.Command(s.bin, s.args...)
	in, err := s.cmd.StdinPipe()
	if err != nil {
		return err
	}
	out, err := s.cmd.StdoutPipe()
	if err != nil {
		return err
	}
	s.cmd.Stderr = nil
	if err := s.cmd.Start(); err != nil {
		return err
	}
	s.in = in
	s.out = bufio.NewReaderSize(out, 1<<16)
	if !strings.Contains(s.bin, "cvc5") {
		s.send(fmt.Sprintf("(set-option :timeout %d)", s.timeoutMs))
		s.send("(set-option :model.completion true)")
	} else {
		s.send("(set-logic ALL)")
	}
	s.depth = 0
	return nil
}

func (s *Solver) Close() {
	if s.cmd != nil {
		s.in.Close()
		done := make(chan struct{})
		go func() { s.cmd.Wait(); close(done) }()
		select {
		case <-done:
		case <-time.After(2 * time.Second):
			s.cmd.Process.Kill()
		}
	}
	if s.log != nil {
		s.log.Flush()
		s.logf.Close()
	}
}

func (s *Solver) restart() {
	if s.cmd != nil && s.cmd.Process != nil {
		s.cmd.Process.Kill()
		s.cmd.Wait()
	}
	s.start()
}

func (s *Solver) send(line string) {
	if s.log != nil {
		s.log.WriteString(line)
		s.log.WriteByte('\n')
	}
	io.WriteString(s.in, line)
	io.WriteString(s.in, "\n")
	if s.shadow != nil && !s.shadow.desync && !strings.HasPrefix(line, "(check-sat") && !strings.HasPrefix(line, "(get-value") && !strings.HasPrefix(line, "(set-option") {
		s.shadow.send(shadowLine(line))
	}
}

func (s *Solver) PathBegin() {
	if s.shadow != nil {
		s.shadow.desync = false
	}
	s.send("(push 1)")
	s.depth++
	s.declared = map[string]bool{}
	s.ufApps = nil
	s.vars = nil
	s.dom = newByteDom()
}

func (s *Solver) PathEnd() {
	for s.depth > 0 {
		s.send("(pop 1)")
		s.depth--
	}
	if s.log != nil {
		s.log.Flush()
	}
}

// define emits declarations / definitions for t and its sub-terms.
func (s *Solver) define(t *Term) {
	if t.def {
		return
	}
	// iterative post-order to avoid deep recursion on long chains
	type item struct {
		t *Term
		i int
	}
	stack := []item{{t, 0}}
	for len(stack) > 0 {
		top := &stack[len(stack)-1]
		if top.t.def {
			stack = stack[:len(stack)-1]
			continue
		}
		if top.i < len(top.t.args) {
			a := top.t.args[top.i]
			top.i++
			if !a.def {
				stack = append(stack, item{a, 0})
			}
			continue
		}
		u := top.t
		stack = stack[:len(stack)-1]
		u.def = true
		switch u.op {
		case "true", "false", "const":
		case "var":
			if !s.declared[u.name] {
				s.declared[u.name] = true
				s.send(fmt.Sprintf("(declare-const %s %s)", u.name, sortStr(u.w)))
				s.vars = append(s.vars, u)
			}
		case "uf":
			if !s.declared[u.name] {
				s.declared[u.name] = true
				var sb strings.Builder
				for i, a := range u.args {
					if i > 0 {
						sb.WriteByte(' ')
					}
					sb.WriteString(sortStr(a.w))
				}
				s.send(fmt.Sprintf("(declare-fun %s (%s) %s)", u.name, sb.String(), sortStr(u.w)))
			}
			s.send(fmt.Sprintf("(define-fun t%d () %s %s)", u.id, sortStr(u.w), u.body()))
			s.ufApps = append(s.ufApps, u)
		default:
			s.send(fmt.Sprintf("(define-fun t%d () %s %s)", u.id, sortStr(u.w), u.body()))
		}
	}
}

func (s *Solver) Assert(t *Term) {
	if t.op == "true" {
		return
	}
	s.runPreHook()
	s.define(t)
	s.send("(assert " + t.ref() + ")")
	if s.dom != nil && !domDisabled {
		s.dom.record(t)
	}
}

func (s *Solver) readLine() (string, error) {
	line, err := s.out.ReadString('\n')
	return strings.TrimSpace(line), err
}

// readSexp reads a balanced s-expression (possibly multi-line).
func (s *Solver) readSexp() (string, error) {
	var sb strings.Builder
	depth := 0
	started := false
	for {
		line, err := s.out.ReadString('\n')
		if err != nil {
			return sb.String(), err
		}
		for _, c := range line {
			if c == '(' {
				depth++
				started = true
			} else if c == ')' {
				depth--
			}
		}
		sb.WriteString(line)
		if started && depth <= 0 {
			return sb.String(), nil
		}
		if !started && strings.TrimSpace(line) != "" {
			return sb.String(), nil
		}
	}
}

// Check decides PC ∧ extra. Returns "sat", "unsat" or "unknown"; with a model
// on sat when wantModel.
func (s *Solver) Check(extra *Term, wantModel bool) (string, *Model) {
	s.runPreHook()
	if extra != nil {
		if extra.op == "false" {
			return "unsat", nil
		}
		s.define(extra)
		if s.dom != nil && !domDisabled && s.dom.refutes(extra) {
			s.stats.DomUnsat++
			if !domSelfCheck {
				return "unsat", nil
			}
			saved := s.dom
			s.dom = nil
			r, _ := s.Check(extra, false)
			s.dom = saved
			if r != "unsat" {
				panic("bytedom self-check: domain says unsat, solver says " + r + " for " + extra.String())
			}
			return "unsat", nil
		}
	}
	t0 := time.Now()
	s.stats.Queries++
	// The query frame (push / assert extra / pop) is private to this solver:
	// mirroring it made the cross-checking solver re-process its whole
	// assertion stack on every feasibility query of the main solver.
	if sh := s.shadow; sh != nil {
		s.shadow = nil
		defer func() { s.shadow = sh }()
	}
	s.send("(push 1)")
	if extra != nil && extra.op != "true" {
		s.send("(assert " + extra.ref() + ")")
	}
	res := ""
	if s.tactic != "" {
		res = s.checkWithTactic() // solver_tactic.go; "" = no verdict, fall back
	}
	if res == "" {
		s.send("(check-sat)")
	}
	for res == "" || res == "error" {
		line, err := s.readLine()
		if err != nil {
			s.stats.Errors++
			s.lastErr = "solver died: " + err.Error()
			s.stats.Seconds += time.Since(t0).Seconds()
			res = "dead"
			break
		}
		if line == "" {
			continue
		}
		if strings.HasPrefix(line, "(error") {
			s.stats.Errors++
			s.lastErr = line
			res = "error"
			continue
		}
		if line == "sat" || line == "unsat" || line == "unknown" || line == "timeout" {
			if res == "error" {
				res = "unknown"
			} else {
				res = line
			}
			break
		}
		if strings.HasPrefix(line, "unsupported") {
			continue
		}
	}
	if res == "dead" {
		return "dead", nil
	}
	if res == "timeout" {
		res = "unknown"
	}
	if res == "unknown" && s.retryUnknown && !strings.Contains(s.bin, "cvc5") {
		// The timeout is wall-clock: on a loaded machine a query that needs a
		// few seconds can time out. One more attempt in the same frame with four
		// times the budget before the verdict "unknown" is final.
		s.stats.Retried++
		s.send(fmt.Sprintf("(set-option :timeout %d)", 4*s.timeoutMs))
		s.send("(check-sat)")
		for {
			line, err := s.readLine()
			if err != nil {
				s.stats.Errors++
				s.lastErr = "solver died: " + err.Error()
				s.stats.Seconds += time.Since(t0).Seconds()
				return "dead", nil
			}
			if line == "sat" || line == "unsat" {
				res = line
				break
			}
			if line == "unknown" || line == "timeout" || strings.HasPrefix(line, "(error") {
				break
			}
		}
		s.send(fmt.Sprintf("(set-option :timeout %d)", s.timeoutMs))
	}
	var mo *Model
	if res == "sat" && wantModel {
		mo = s.getModel()
	}
	s.send("(pop 1)")
	s.stats.Seconds += time.Since(t0).Seconds()
	switch res {
	case "sat":
		s.stats.Sat++
	case "unsat":
		s.stats.Unsat++
	default:
		s.stats.Unknown++
	}
	return res, mo
}

func (s *Solver) getModel() *Model {
	mo := &Model{vars: map[string]uint64{}, ufs: map[string]uint64{}}
	var names []string
	for _, v := range s.vars {
		names = append(names, v.name)
	}
	for _, u := range s.ufApps {
		names = append(names, fmt.Sprintf("t%d", u.id))
	}
	// chunk to keep lines reasonable
	for i := 0; i < len(names); i += 200 {
		j := i + 200
		if j > len(names) {
			j = len(names)
		}
		s.send("(get-value (" + strings.Join(names[i:j], " ") + "))")
		txt, err := s.readSexp()
		if err != nil || strings.HasPrefix(strings.TrimSpace(txt), "(error") {
			s.stats.Errors++
			s.lastErr = "get-value: " + txt
			return nil
		}
		parseValues(txt, mo)
	}
	return mo
}

// parseValues parses ((name value) ...) with values #x.., #b.., true, false,
// (_ bvN w).
func parseValues(txt string, mo *Model) {
	toks := tokenize(txt)
	// expect ( ( name val ) ( name val ) ... )
	i := 0
	next := func() string {
		if i < len(toks) {
			t := toks[i]
			i++
			return t
		}
		return ""
	}
	if next() != "(" {
		return
	}
	for i < len(toks) {
		t := next()
		if t == ")" {
			return
		}
		if t != "(" {
			return
		}
		name := next()
		v := next()
		var val uint64
		switch {
		case v == "true":
			val = 1
		case v == "false":
			val = 0
		case strings.HasPrefix(v, "#x"):
			val, _ = strconv.ParseUint(v[2:], 16, 64)
		case strings.HasPrefix(v, "#b"):
			val, _ = strconv.ParseUint(v[2:], 2, 64)
		case v == "(":
			// (_ bvN w)
			next() // _
			bv := next()
			next() // w
			next() // )
			val, _ = strconv.ParseUint(strings.TrimPrefix(bv, "bv"), 10, 64)
		}
		next() // )
		if strings.HasPrefix(name, "t") && isDigits(name[1:]) {
			mo.ufs["#"+name[1:]] = val
		} else {
			mo.vars[name] = val
		}
	}
}

func isDigits(s string) bool {
	if s == "" {
		return false
	}
	for _, c := range s {
		if c < '0' || c > '9' {
			return false
		}
	}
	return true
}

func tokenize(s string) []string {
	var toks []string
	cur := strings.Builder{}
	flush := func() {
		if cur.Len() > 0 {
			toks = append(toks, cur.String())
			cur.Reset()
		}
	}
	for _, c := range s {
		switch c {
		case '(', ')':
			flush()
			toks = append(toks, string(c))
		case ' ', '\n', '\t', '\r':
			flush()
		default:
			cur.WriteRune(c)
		}
	}
	flush()
	return toks
}

// defaultSolver prefers z3 5.1.0 (z3-new): on the ite-chain heavy queries the
// interpreter produces it is two orders of magnitude faster in incremental
// mode than z3 4.8.12 and cvc5 1.0 (measured on the C39 hex round trip).
func defaultSolver() string {
	if s := os.Getenv("KSE_SOLVER"); s != "" {
		return s
	}
	if p, err := exec.LookPath("z3-new"); err == nil {
		return p
	}
	return "z3"
}
