package main

// SMT terms: bit-vectors (width 1..64) and booleans (w == 0), hash-consed per
// machine, with constant folding and a concrete evaluator (used for model
// caching and for replaying counterexamples).

import (
	"fmt"
	"math/bits"
	"strings"
)

type Term struct {
	id   int
	op   string
	args []*Term
	w    int    // 0: Bool; >0: BitVec width
	val  uint64 // op == "const" (bv, masked) or "true"/"false" through op
	name string // op == "var"
	p1   int    // extract hi / extend amount
	p2   int    // extract lo
	def  bool   // emitted to the solver in the current path
}

func (t *Term) isBool() bool  { return t.w == 0 }
func (t *Term) isConst() bool { return t.op == "const" || t.op == "true" || t.op == "false" }

type TermFactory struct {
	next  int
	table map[string]*Term
	vars  []*Term
	tt    *Term
	ff    *Term
	owner *Solver // solver of the machine that owns this factory (model_zz_grpa_scaled.go)
}

func newTermFactory() *TermFactory {
	f := &TermFactory{table: map[string]*Term{}}
	f.tt = f.mk(&Term{op: "true"})
	f.ff = f.mk(&Term{op: "false"})
	return f
}

func (f *TermFactory) mk(t *Term) *Term {
	var sb strings.Builder
	sb.WriteString(t.op)
	fmt.Fprintf(&sb, "/%d/%d/%d/%d/%s", t.w, t.val, t.p1, t.p2, t.name)
	for _, a := range t.args {
		fmt.Fprintf(&sb, ",%d", a.id)
	}
	k := sb.String()
	if o, ok := f.table[k]; ok {
		return o
	}
	f.next++
	t.id = f.next
	f.table[k] = t
	return t
}

func mask(w int) uint64 {
	if w >= 64 {
		return ^uint64(0)
	}
	return (uint64(1) << uint(w)) - 1
}

func sext(v uint64, w int) int64 {
	if w >= 64 {
		return int64(v)
	}
	s := uint(64 - w)
	return int64(v<<s) >> s
}

func (f *TermFactory) Var(name string, w int) *Term {
	t := f.mk(&Term{op: "var", name: name, w: w})
	if len(f.vars) == 0 || f.vars[len(f.vars)-1] != t {
		found := false
		for _, v := range f.vars {
			if v == t {
				found = true
				break
			}
		}
		if !found {
			f.vars = append(f.vars, t)
		}
	}
	return t
}

func (f *TermFactory) BV(v uint64, w int) *Term {
	return f.mk(&Term{op: "const", val: v & mask(w), w: w})
}

func (f *TermFactory) Bool(b bool) *Term {
	if b {
		return f.tt
	}
	return f.ff
}

func (f *TermFactory) Not(a *Term) *Term {
	switch a.op {
	case "true":
		return f.ff
	case "false":
		return f.tt
	case "not":
		return a.args[0]
	}
	return f.mk(&Term{op: "not", args: []*Term{a}})
}

func (f *TermFactory) And(a, b *Term) *Term {
	if a.op == "false" || b.op == "false" {
		return f.ff
	}
	if a.op == "true" {
		return b
	}
	if b.op == "true" {
		return a
	}
	if a == b {
		return a
	}
	return f.mk(&Term{op: "and", args: []*Term{a, b}})
}

func (f *TermFactory) Or(a, b *Term) *Term {
	if a.op == "true" || b.op == "true" {
		return f.tt
	}
	if a.op == "false" {
		return b
	}
	if b.op == "false" {
		return a
	}
	if a == b {
		return a
	}
	return f.mk(&Term{op: "or", args: []*Term{a, b}})
}

func (f *TermFactory) Ite(c, a, b *Term) *Term {
	if c.op == "true" {
		return a
	}
	if c.op == "false" {
		return b
	}
	if a == b {
		return a
	}
	if a.w == 0 {
		if a.op == "true" && b.op == "false" {
			return c
		}
		if a.op == "false" && b.op == "true" {
			return f.Not(c)
		}
	}
	return f.mk(&Term{op: "ite", args: []*Term{c, a, b}, w: a.w})
}

func (f *TermFactory) Eq(a, b *Term) *Term {
	if a == b {
		return f.tt
	}
	if a.isConst() && b.isConst() {
		if a.w == 0 {
			return f.Bool(a.op == b.op)
		}
		return f.Bool(a.val == b.val)
	}
	if a.w != b.w {
		panic(fmt.Sprintf("Eq width mismatch %d %d (%s, %s)", a.w, b.w, a.op, b.op))
	}
	if a.w == 0 {
		if a.op == "true" {
			return b
		}
		if b.op == "true" {
			return a
		}
		if a.op == "false" {
			return f.Not(b)
		}
		if b.op == "false" {
			return f.Not(a)
		}
	}
	if a.id > b.id {
		a, b = b, a
	}
	if r := f.eqScaled(a, b); r != nil {
		return r // model_zz_grpa_scaled.go
	}
	return f.mk(&Term{op: "=", args: []*Term{a, b}})
}

// evalBin computes a binary bv op on concrete values.
func evalBin(op string, x, y uint64, w int) (uint64, bool) {
	m := mask(w)
	switch op {
	case "bvadd":
		return (x + y) & m, true
	case "bvsub":
		return (x - y) & m, true
	case "bvmul":
		return (x * y) & m, true
	case "bvand":
		return x & y, true
	case "bvor":
		return x | y, true
	case "bvxor":
		return x ^ y, true
	case "bvudiv":
		if y == 0 {
			return m, true
		}
		return x / y, true
	case "bvurem":
		if y == 0 {
			return x, true
		}
		return x % y, true
	case "bvsdiv":
		sx, sy := sext(x, w), sext(y, w)
		if sy == 0 {
			if sx < 0 {
				return 1, true
			}
			return m, true
		}
		if sy == -1 {
			return uint64(-sx) & m, true
		}
		return uint64(sx/sy) & m, true
	case "bvsrem":
		sx, sy := sext(x, w), sext(y, w)
		if sy == 0 {
			return x, true
		}
		if sy == -1 {
			return 0, true
		}
		return uint64(sx%sy) & m, true
	case "bvshl":
		if y >= uint64(w) {
			return 0, true
		}
		return (x << y) & m, true
	case "bvlshr":
		if y >= uint64(w) {
			return 0, true
		}
		return x >> y, true
	case "bvashr":
		sx := sext(x, w)
		if y >= uint64(w) {
			if sx < 0 {
				return m, true
			}
			return 0, true
		}
		return uint64(sx>>y) & m, true
	}
	return 0, false
}

func evalCmp(op string, x, y uint64, w int) bool {
	switch op {
	case "bvult":
		return x < y
	case "bvule":
		return x <= y
	case "bvslt":
		return sext(x, w) < sext(y, w)
	case "bvsle":
		return sext(x, w) <= sext(y, w)
	}
	panic("evalCmp " + op)
}

func (f *TermFactory) Bin(op string, a, b *Term) *Term {
	if a.w != b.w || a.w == 0 {
		panic(fmt.Sprintf("Bin %s width mismatch %d %d", op, a.w, b.w))
	}
	if a.isConst() && b.isConst() {
		v, ok := evalBin(op, a.val, b.val, a.w)
		if ok {
			return f.BV(v, a.w)
		}
	}
	if r := f.binScaled(op, a, b); r != nil {
		return r // model_zz_grpa_scaled.go
	}
	switch op {
	case "bvadd", "bvor", "bvxor":
		if a.isConst() && a.val == 0 {
			return b
		}
		if b.isConst() && b.val == 0 {
			return a
		}
	case "bvsub", "bvshl", "bvlshr", "bvashr":
		if b.isConst() && b.val == 0 {
			return a
		}
	case "bvmul":
		if a.isConst() && a.val == 1 {
			return b
		}
		if b.isConst() && b.val == 1 {
			return a
		}
		if (a.isConst() && a.val == 0) || (b.isConst() && b.val == 0) {
			return f.BV(0, a.w)
		}
	case "bvand":
		if (a.isConst() && a.val == 0) || (b.isConst() && b.val == 0) {
			return f.BV(0, a.w)
		}
		if a.isConst() && a.val == mask(a.w) {
			return b
		}
		if b.isConst() && b.val == mask(a.w) {
			return a
		}
	}
	return f.mk(&Term{op: op, args: []*Term{a, b}, w: a.w})
}

func (f *TermFactory) Cmp(op string, a, b *Term) *Term {
	if a.w != b.w || a.w == 0 {
		panic(fmt.Sprintf("Cmp %s width mismatch %d %d", op, a.w, b.w))
	}
	if a.isConst() && b.isConst() {
		return f.Bool(evalCmp(op, a.val, b.val, a.w))
	}
	if a == b {
		return f.Bool(op == "bvule" || op == "bvsle")
	}
	if r := f.cmpScaled(op, a, b); r != nil {
		return r // model_zz_grpa_scaled.go
	}
	return f.mk(&Term{op: op, args: []*Term{a, b}})
}

func (f *TermFactory) Neg(a *Term) *Term {
	return f.Bin("bvsub", f.BV(0, a.w), a)
}

func (f *TermFactory) BvNot(a *Term) *Term {
	if a.isConst() {
		return f.BV(^a.val, a.w)
	}
	return f.mk(&Term{op: "bvnot", args: []*Term{a}, w: a.w})
}

func (f *TermFactory) Extract(a *Term, hi, lo int) *Term {
	if lo == 0 && hi == a.w-1 {
		return a
	}
	if a.isConst() {
		return f.BV(a.val>>uint(lo), hi-lo+1)
	}
	if (a.op == "zero_extend" || a.op == "sign_extend") && lo == 0 {
		in := a.args[0]
		if hi == in.w-1 {
			return in
		}
		if hi < in.w-1 {
			return f.Extract(in, hi, 0)
		}
	}
	if a.op == "concat" && lo == 0 && hi == a.args[1].w-1 {
		return a.args[1]
	}
	return f.mk(&Term{op: "extract", args: []*Term{a}, w: hi - lo + 1, p1: hi, p2: lo})
}

func (f *TermFactory) Extend(a *Term, to int, signed bool) *Term {
	if to == a.w {
		return a
	}
	if to < a.w {
		return f.Extract(a, to-1, 0)
	}
	if a.isConst() {
		if signed {
			return f.BV(uint64(sext(a.val, a.w)), to)
		}
		return f.BV(a.val, to)
	}
	op := "zero_extend"
	if signed {
		op = "sign_extend"
	}
	return f.mk(&Term{op: op, args: []*Term{a}, w: to, p1: to - a.w})
}

func (f *TermFactory) Concat(hi, lo *Term) *Term {
	if hi.isConst() && lo.isConst() {
		return f.BV(hi.val<<uint(lo.w)|lo.val, hi.w+lo.w)
	}
	return f.mk(&Term{op: "concat", args: []*Term{hi, lo}, w: hi.w + lo.w})
}

// Uninterpreted function application. Sorts are inferred from the arguments;
// result width rw (0 = Bool).
func (f *TermFactory) UF(name string, rw int, args ...*Term) *Term {
	return f.mk(&Term{op: "uf", name: name, args: args, w: rw})
}

func sortStr(w int) string {
	if w == 0 {
		return "Bool"
	}
	return fmt.Sprintf("(_ BitVec %d)", w)
}

func bvLit(v uint64, w int) string {
	if w%4 == 0 {
		return fmt.Sprintf("#x%0*x", w/4, v&mask(w))
	}
	return fmt.Sprintf("#b%0*b", w, v&mask(w))
}

func (t *Term) ref() string {
	switch t.op {
	case "true", "false":
		return t.op
	case "const":
		return bvLit(t.val, t.w)
	case "var":
		return t.name
	}
	return fmt.Sprintf("t%d", t.id)
}

func (t *Term) body() string {
	var sb strings.Builder
	switch t.op {
	case "extract":
		fmt.Fprintf(&sb, "((_ extract %d %d) %s)", t.p1, t.p2, t.args[0].ref())
	case "zero_extend", "sign_extend":
		fmt.Fprintf(&sb, "((_ %s %d) %s)", t.op, t.p1, t.args[0].ref())
	case "uf":
		if len(t.args) == 0 {
			return t.name
		}
		sb.WriteString("(" + t.name)
		for _, a := range t.args {
			sb.WriteString(" " + a.ref())
		}
		sb.WriteString(")")
	default:
		sb.WriteString("(" + t.op)
		for _, a := range t.args {
			sb.WriteString(" " + a.ref())
		}
		sb.WriteString(")")
	}
	return sb.String()
}

// String renders the full expression (for diagnostics; may be large).
func (t *Term) String() string {
	return t.strDepth(6)
}

func (t *Term) strDepth(d int) string {
	switch t.op {
	case "true", "false", "const", "var":
		return t.ref()
	}
	if d == 0 {
		return "…"
	}
	var sb strings.Builder
	switch t.op {
	case "extract":
		fmt.Fprintf(&sb, "((_ extract %d %d) %s)", t.p1, t.p2, t.args[0].strDepth(d-1))
	case "zero_extend", "sign_extend":
		fmt.Fprintf(&sb, "((_ %s %d) %s)", t.op, t.p1, t.args[0].strDepth(d-1))
	case "uf":
		sb.WriteString("(" + t.name)
		for _, a := range t.args {
			sb.WriteString(" " + a.strDepth(d-1))
		}
		sb.WriteString(")")
	default:
		sb.WriteString("(" + t.op)
		for _, a := range t.args {
			sb.WriteString(" " + a.strDepth(d-1))
		}
		sb.WriteString(")")
	}
	return sb.String()
}

// Model: values of variables and of uninterpreted applications.
type Model struct {
	vars map[string]uint64 // bool as 0/1
	// uninterpreted functions are evaluated through ufs: key = name(args...)
	ufs map[string]uint64
	// ufDefault is used when an application is not in ufs: evaluation fails.
}

// eval evaluates t under the model; ok=false when it contains an
// uninterpreted application without a recorded value.
func (mo *Model) eval(t *Term, memo map[*Term]uint64) (uint64, bool) {
	if v, ok := memo[t]; ok {
		return v, true
	}
	var r uint64
	b2u := func(b bool) uint64 {
		if b {
			return 1
		}
		return 0
	}
	switch t.op {
	case "true":
		r = 1
	case "false":
		r = 0
	case "const":
		r = t.val
	case "var":
		r = mo.vars[t.name] & mask64(t.w)
	case "uf":
		v, ok := mo.ufs[fmt.Sprintf("#%d", t.id)]
		if !ok {
			return 0, false
		}
		r = v
	default:
		vs := make([]uint64, len(t.args))
		// lazy for ite / and / or to tolerate missing UF values on dead arms
		if t.op == "ite" {
			c, ok := mo.eval(t.args[0], memo)
			if !ok {
				return 0, false
			}
			if c != 0 {
				return mo.eval(t.args[1], memo)
			}
			return mo.eval(t.args[2], memo)
		}
		for i, a := range t.args {
			v, ok := mo.eval(a, memo)
			if !ok {
				return 0, false
			}
			vs[i] = v
		}
		switch t.op {
		case "not":
			r = 1 - vs[0]
		case "and":
			r = vs[0] & vs[1]
		case "or":
			r = vs[0] | vs[1]
		case "=":
			r = b2u(vs[0] == vs[1])
		case "bvult", "bvule", "bvslt", "bvsle":
			r = b2u(evalCmp(t.op, vs[0], vs[1], t.args[0].w))
		case "bvnot":
			r = ^vs[0] & mask(t.w)
		case "extract":
			r = (vs[0] >> uint(t.p2)) & mask(t.w)
		case "zero_extend":
			r = vs[0]
		case "sign_extend":
			r = uint64(sext(vs[0], t.args[0].w)) & mask(t.w)
		case "concat":
			r = (vs[0]<<uint(t.args[1].w) | vs[1]) & mask(t.w)
		default:
			v, ok := evalBin(t.op, vs[0], vs[1], t.w)
			if !ok {
				panic("eval: unknown op " + t.op)
			}
			r = v
		}
	}
	memo[t] = r
	return r, true
}

func mask64(w int) uint64 {
	if w == 0 {
		return 1
	}
	return mask(w)
}

var _ = bits.Len
