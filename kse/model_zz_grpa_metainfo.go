package main

// core.MetaInfo boundary models (C01, C05): bencode (info hash) and JSON
// (sidecar encoding) are reflection based and not interpretable.
//
//   (*core.info).Hash        -> 20 bytes: uninterpreted function of the fields
//                               (real SHA-1 of a canonical flattening when all
//                               fields are concrete)
//   (*core.MetaInfo).Serialize / core.DeserializeMetaInfo
//                            -> an opaque injective byte encoding of the info
//                               struct with the two properties of the JSON form
//                               the stores rely on: decode(encode(x)) == x and
//                               every strict prefix (including the empty file)
//                               or foreign content fails to decode.
// Harnesses must not compare info hashes or sidecar bytes against literals.

import (
	"crypto/sha1"
	"go/types"
)

const miMagic = "KMI{"

func fieldIndex(t types.Type, name string) int {
	st := t.Underlying().(*types.Struct)
	for i := 0; i < st.NumFields(); i++ {
		if st.Field(i).Name() == name {
			return i
		}
	}
	panic("no field " + name)
}

func (m *Machine) wordBytes(v Value, nbytes int) []Value {
	out := make([]Value, nbytes)
	switch x := v.(type) {
	case uint64:
		for i := 0; i < nbytes; i++ {
			out[i] = uint64(byte(x >> (8 * uint(nbytes-1-i))))
		}
	case *Term:
		for i := 0; i < nbytes; i++ {
			lo := 8 * (nbytes - 1 - i)
			out[i] = m.tf.Extract(x, lo+7, lo)
		}
	default:
		m.unsupported("metainfo field of type %T", v)
	}
	return out
}

func (m *Machine) bytesWord(b []Value) Value {
	if cb, ok := allConcrete(b); ok {
		var x uint64
		for _, c := range cb {
			x = x<<8 | uint64(c)
		}
		return x
	}
	t := m.scalarTerm(b[0], 8)
	for _, c := range b[1:] {
		t = m.tf.Concat(t, m.scalarTerm(c, 8))
	}
	return t
}

// infoFlatten: PieceLength(8) Length(8) nameLen(2) name count(4) sums(4 each).
func (m *Machine) infoFlatten(info Struct, it types.Type) []Value {
	var out []Value
	out = append(out, m.wordBytes(info[fieldIndex(it, "PieceLength")], 8)...)
	out = append(out, m.wordBytes(info[fieldIndex(it, "Length")], 8)...)
	name := strBytes(info[fieldIndex(it, "Name")])
	out = append(out, m.wordBytes(uint64(len(name)), 2)...)
	out = append(out, name...)
	sums := info[fieldIndex(it, "PieceSums")].(Slice)
	out = append(out, m.wordBytes(uint64(len(sums.a)), 4)...)
	for _, s := range sums.a {
		out = append(out, m.wordBytes(s, 4)...)
	}
	return out
}

func (m *Machine) coreType(name string) types.Type {
	cp := m.prog.ImportedPackage("github.com/uber/kraken/core")
	if cp == nil || cp.Type(name) == nil {
		m.unsupported("core.%s not loaded", name)
	}
	return cp.Type(name).Type()
}

func (m *Machine) infoHashOf(info Struct) Array {
	flat := m.infoFlatten(info, m.coreType("info"))
	m.res.Notes["core info hash (bencode+SHA-1) modelled as an uninterpreted function of the info fields"] = true
	out := make(Array, 20)
	if cb, ok := allConcrete(flat); ok {
		s := sha1.Sum(cb)
		for i, b := range s {
			out[i] = uint64(b)
		}
		return out
	}
	copy(out, m.ufBytes("infohash", flat, 20))
	return out
}

func (m *Machine) goErr(fr *frame, msg string) Value {
	ep := m.prog.ImportedPackage("errors")
	return m.callSSA(fr, ep.Func("New"), []Value{msg}, nil)
}

func init() {
	const cp = "github.com/uber/kraken/core"
	regIfAbsent("(*"+cp+".info).Hash", func(m *Machine, fr *frame, a []Value) Value {
		info := (*m.cellPtr(a[0])).(Struct)
		return Tuple{m.infoHashOf(info), Iface{}}
	})
	regIfAbsent("(*"+cp+".MetaInfo).Serialize", func(m *Machine, fr *frame, a []Value) Value {
		mt := m.coreType("MetaInfo")
		mi := (*m.cellPtr(a[0])).(Struct)
		info := mi[fieldIndex(mt, "info")].(Struct)
		m.res.Notes["MetaInfo JSON sidecar encoding modelled as an opaque injective, prefix-rejecting byte encoding"] = true
		var out []Value
		for i := 0; i < len(miMagic); i++ {
			out = append(out, uint64(miMagic[i]))
		}
		out = append(out, m.infoFlatten(info, m.coreType("info"))...)
		out = append(out, uint64('}'))
		return Tuple{Slice{a: out}, Iface{}}
	})
	regIfAbsent(cp+".DeserializeMetaInfo", func(m *Machine, fr *frame, a []Value) Value {
		data := a[0].(Slice).a
		fail := func(msg string) Value {
			return Tuple{(*Value)(nil), m.goErr(fr, "json: "+msg)}
		}
		conc := func(b []Value) (uint64, bool) {
			cb, ok := allConcrete(b)
			if !ok {
				m.unsupported("DeserializeMetaInfo: symbolic structure bytes")
			}
			var x uint64
			for _, c := range cb {
				x = x<<8 | uint64(c)
			}
			return x, true
		}
		pos := 0
		need := func(n int) bool { return pos+n <= len(data) }
		if !need(len(miMagic)) {
			return fail("unexpected end of JSON input")
		}
		for i := 0; i < len(miMagic); i++ {
			c, ok := data[i].(uint64)
			if !ok {
				m.unsupported("DeserializeMetaInfo: symbolic magic")
			}
			if byte(c) != miMagic[i] {
				return fail("invalid character")
			}
		}
		pos = len(miMagic)
		if !need(18) {
			return fail("unexpected end of JSON input")
		}
		pieceLen := m.bytesWord(data[pos : pos+8])
		length := m.bytesWord(data[pos+8 : pos+16])
		nl, _ := conc(data[pos+16 : pos+18])
		pos += 18
		if !need(int(nl) + 4) {
			return fail("unexpected end of JSON input")
		}
		name := mkStr(data[pos : pos+int(nl)])
		pos += int(nl)
		cnt, _ := conc(data[pos : pos+4])
		pos += 4
		if !need(4*int(cnt) + 1) {
			return fail("unexpected end of JSON input")
		}
		sums := make([]Value, cnt)
		for i := range sums {
			sums[i] = m.bytesWord(data[pos : pos+4])
			pos += 4
		}
		if c, ok := data[pos].(uint64); !ok || byte(c) != '}' || pos+1 != len(data) {
			return fail("invalid character after top-level value")
		}
		it := m.coreType("info")
		info := zero(it).(Struct)
		info[fieldIndex(it, "PieceLength")] = pieceLen
		info[fieldIndex(it, "Length")] = length
		info[fieldIndex(it, "Name")] = name
		info[fieldIndex(it, "PieceSums")] = Slice{a: sums, nil: cnt == 0}
		// d, err := NewSHA256DigestFromHex(j.Info.Name)
		pk := m.prog.ImportedPackage(cp)
		r := m.callSSA(fr, pk.Func("NewSHA256DigestFromHex"), []Value{name}, nil).(Tuple)
		if e, ok := r[1].(Iface); ok && e.t != nil {
			return Tuple{(*Value)(nil), m.goErr(fr, "parse name: invalid digest")}
		}
		mt := m.coreType("MetaInfo")
		mi := zero(mt).(Struct)
		mi[fieldIndex(mt, "info")] = info
		mi[fieldIndex(mt, "infoHash")] = m.infoHashOf(info)
		mi[fieldIndex(mt, "digest")] = r[0]
		p := new(Value)
		*p = mi
		return Tuple{p, Iface{}}
	})
}
