package main

// core.MetaInfo boundary models (C01, C05): bencode (info hash) and JSON
// (sidecar encoding) are reflection based and not interpretable.
//
//   (*core.info).Hash        -> 20 bytes: uninterpreted function of the fields
//                               (real SHA-1 of a canonical flattening when all
//                               fields are concrete)
//   The JSON sidecar encoding (json.Marshal/Unmarshal of core.metaInfoJSON) is
//   modelled in model_metainfo.go.
// Harnesses must not compare info hashes against literals.

import (
	"crypto/sha1"
	"go/types"
)

const miMagic = "KMI{"

func fieldIndex(t types.Type, name string) int {
	st := t.Underlying().(*types.Struct)
	for i := 0; i < st.NumFields(); i++ {
		if st.Field(i).Name() == name {
			return i
		}
	}
	panic("no field " + name)
}

func (m *Machine) wordBytes(v Value, nbytes int) []Value {
	out := make([]Value, nbytes)
	switch x := v.(type) {
	case uint64:
		for i := 0; i < nbytes; i++ {
			out[i] = uint64(byte(x >> (8 * uint(nbytes-1-i))))
		}
	case *Term:
		for i := 0; i < nbytes; i++ {
			lo := 8 * (nbytes - 1 - i)
			out[i] = m.tf.Extract(x, lo+7, lo)
		}
	default:
		m.unsupported("metainfo field of type %T", v)
	}
	return out
}

func (m *Machine) bytesWord(b []Value) Value {
	if cb, ok := allConcrete(b); ok {
		var x uint64
		for _, c := range cb {
			x = x<<8 | uint64(c)
		}
		return x
	}
	t := m.scalarTerm(b[0], 8)
	for _, c := range b[1:] {
		t = m.tf.Concat(t, m.scalarTerm(c, 8))
	}
	return t
}

// infoFlatten: PieceLength(8) Length(8) nameLen(2) name count(4) sums(4 each).
func (m *Machine) infoFlatten(info Struct, it types.Type) []Value {
	var out []Value
	out = append(out, m.wordBytes(info[fieldIndex(it, "PieceLength")], 8)...)
	out = append(out, m.wordBytes(info[fieldIndex(it, "Length")], 8)...)
	name := strBytes(info[fieldIndex(it, "Name")])
	out = append(out, m.wordBytes(uint64(len(name)), 2)...)
	out = append(out, name...)
	sums := info[fieldIndex(it, "PieceSums")].(Slice)
	out = append(out, m.wordBytes(uint64(len(sums.a)), 4)...)
	for _, s := range sums.a {
		out = append(out, m.wordBytes(s, 4)...)
	}
	return out
}

func (m *Machine) coreType(name string) types.Type {
	cp := m.prog.ImportedPackage("github.com/uber/kraken/core")
	if cp == nil || cp.Type(name) == nil {
		m.unsupported("core.%s not loaded", name)
	}
	return cp.Type(name).Type()
}

func (m *Machine) infoHashOf(info Struct) Array {
	flat := m.infoFlatten(info, m.coreType("info"))
	m.res.Notes["core info hash (bencode+SHA-1) modelled as an uninterpreted function of the info fields"] = true
	out := make(Array, 20)
	if cb, ok := allConcrete(flat); ok {
		s := sha1.Sum(cb)
		for i, b := range s {
			out[i] = uint64(b)
		}
		return out
	}
	copy(out, m.ufBytes("infohash", flat, 20))
	return out
}

func (m *Machine) goErr(fr *frame, msg string) Value {
	ep := m.prog.ImportedPackage("errors")
	return m.callSSA(fr, ep.Func("New"), []Value{msg}, nil)
}

func init() {
	const cp = "github.com/uber/kraken/core"
	regIfAbsent("(*"+cp+".info).Hash", func(m *Machine, fr *frame, a []Value) Value {
		info := (*m.cellPtr(a[0])).(Struct)
		return Tuple{m.infoHashOf(info), Iface{}}
	})
}
