package main

// Additional file-system entry points.

func init() {
	reg("os.openDir", func(m *Machine, fr *frame, a []Value) Value {
		p := m.cpath(a[0], "opendir")
		nilFile := (*Value)(nil)
		_, _, n, e := m.fs.walk(p, true, 0)
		if e != 0 {
			return Tuple{nilFile, m.pathError("open", p, e)}
		}
		if n == nil {
			return Tuple{nilFile, m.pathError("open", p, ENOENT)}
		}
		if n.kind != 'd' {
			return Tuple{nilFile, m.pathError("open", p, ENOTDIR)}
		}
		return Tuple{m.newFile(n, p, oRDONLY), Iface{}}
	})
}
