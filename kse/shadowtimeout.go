package main

// Hard wall-clock limit for the cross-checking ("shadow") solver.
//
// z3 4.8.12 does not honour its soft :timeout inside some preprocessing steps:
// on queries from regexp / string heavy harnesses a single cross-check ran for
// 30 s and more, which made the thorough tier 50-100 times slower than the
// quick tier. shadowCheck gives the second solver shadowHardLimit; when it does
// not answer in time its process is killed and restarted, the verdict counts
// as "second solver unknown", and nothing is mirrored to it until the next
// path begins (its state would be incomplete).

import (
	"strings"
	"time"
)

const shadowHardLimit = 6 * time.Second

func shadowCheck(sh *Solver, t *Term) string {
	if sh.desync {
		return "unknown"
	}
	done := make(chan string, 1)
	go func() {
		r, _ := sh.Check(t, false)
		done <- r
	}()
	select {
	case r := <-done:
		if r == "dead" {
			sh.restart()
			sh.desync = true
			return "unknown"
		}
		return r
	case <-time.After(shadowHardLimit):
		if sh.cmd != nil && sh.cmd.Process != nil {
			sh.cmd.Process.Kill()
		}
		<-done // the reader sees EOF and returns
		sh.restart()
		sh.desync = true
		return "unknown"
	}
}

// shadowLine rewrites a line for the cross-checking solver. z3 4.8.12 treats
// (define-fun tN () S body) as a macro and expands it at every use, which is
// exponential on the engine's hash-consed term DAGs (minutes to read one path
// of a regexp harness). The definitional extension
// (declare-const tN S) (assert (= tN body)) is equisatisfiable and linear.
func shadowLine(line string) string {
	const pre = "(define-fun "
	if !strings.HasPrefix(line, pre) || !strings.HasSuffix(line, ")") {
		return line
	}
	rest := line[len(pre):]
	i := strings.Index(rest, " () ")
	if i < 0 {
		return line
	}
	name, rest := rest[:i], rest[i+4:]
	var sort, body string
	switch {
	case strings.HasPrefix(rest, "Bool "):
		sort, body = "Bool", rest[5:len(rest)-1]
	case strings.HasPrefix(rest, "(_ BitVec "):
		j := strings.Index(rest, ") ")
		if j < 0 {
			return line
		}
		sort, body = rest[:j+1], rest[j+2:len(rest)-1]
	default:
		return line
	}
	return "(declare-const " + name + " " + sort + ")\n(assert (= " + name + " " + body + "))"
}
