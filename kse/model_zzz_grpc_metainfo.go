package main

// Refinement of the MetaInfo sidecar model (initialised after
// model_zz_grpa_metainfo.go, which it wraps): when every field of the
// metainfo is concrete, (*core.MetaInfo).Serialize runs the real code (whose
// json.Marshal is modelled byte-exactly in model_metainfo.go), so sidecar
// files in crash snapshots are the real JSON text and replay natively;
// core.DeserializeMetaInfo runs the real code for concrete input that starts
// with '{'. Everything else (symbolic fields, the opaque encoding, empty or
// foreign input) goes to the wrapped opaque-encoding model.

func init() {
	const cp = "github.com/uber/kraken/core"
	runReal := func(m *Machine, fr *frame, a []Value) Value {
		fi := m.info(fr.fn)
		saved := fi.intr
		fi.intr = nil
		defer func() { fi.intr = saved }()
		return m.callSSA(fr.caller, fr.fn, a, nil)
	}
	if prev, ok := intrinsics["(*"+cp+".MetaInfo).Serialize"]; ok {
		intrinsics["(*"+cp+".MetaInfo).Serialize"] = func(m *Machine, fr *frame, a []Value) Value {
			mi := (*m.cellPtr(a[0])).(Struct)
			if info, ok := mi[0].(Struct); ok && len(info) == 4 {
				if _, conc := infoConcrete(info); conc {
					return runReal(m, fr, a)
				}
			}
			return prev(m, fr, a)
		}
	}
	if prev, ok := intrinsics[cp+".DeserializeMetaInfo"]; ok {
		intrinsics[cp+".DeserializeMetaInfo"] = func(m *Machine, fr *frame, a []Value) Value {
			data := a[0].(Slice).a
			if cb, conc := allConcrete(data); conc && len(cb) > 0 && cb[0] == '{' {
				return runReal(m, fr, a)
			}
			return prev(m, fr, a)
		}
	}
}
