package main

// Option solver_bv_tactic (opt-in per harness): decide each query with z3's
// non-incremental bit-vector tactic first and fall back to the ordinary
// incremental (check-sat) when the tactic gives no verdict (unknown, timeout,
// goal outside its fragment). Same semantics, different proof engine: harnesses
// whose queries are small but arithmetic-heavy (64-bit time arithmetic) are
// decided in milliseconds by the tactic where the incremental core needs
// seconds or times out — in particular on modified trees that phrase the same
// arithmetic differently from the harness oracle.

import (
	"strconv"
	"strings"
)

const tacticSync = "kse-tactic-sync"

// checkWithTactic runs (check-sat-using …) on the current assertion stack.
// It returns "sat" or "unsat", or "" when the caller must fall back.
func (s *Solver) checkWithTactic() string {
	if !strings.Contains(s.bin, "z3") {
		return ""
	}
	budget := s.timeoutMs / 3
	if budget < 1000 {
		budget = 1000
	}
	s.send("(check-sat-using (try-for " + s.tactic + " " + strconv.Itoa(budget) + "))")
	s.send("(echo \"" + tacticSync + "\")")
	res := ""
	for {
		line, err := s.readLine()
		if err != nil {
			return "" // the caller's read loop reports the dead solver
		}
		if strings.Contains(line, tacticSync) {
			break
		}
		if line == "sat" || line == "unsat" {
			res = line
		}
	}
	return res
}
