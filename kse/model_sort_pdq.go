package main

// sort.Slice above 12 elements.
//
// sort.Slice is NOT stable: the Go runtime uses an insertion sort (which happens
// to be stable) for up to 12 elements and pdqsort above. A model that always
// runs a stable insertion sort hides every defect that only shows when elements
// with equal keys are reordered (harness/C26: origins and seeders given the same
// priority come out in the right order "by accident" in small handouts). So for
// more than 12 elements the engine runs the REAL algorithm: it interprets
// sort.pdqsort_func from the loaded standard library (the same toolchain that
// the native replay uses) on a lessSwap{less, swap} whose Swap exchanges the
// elements of the modelled slice. pdqsort is deterministic (its xorshift is
// seeded by the length), so the model's result is exactly the native result and
// counterexamples replay natively. Up to 12 elements pdqsort_func is the
// insertion sort the engine already runs.

import (
	"math/bits"

	"golang.org/x/tools/go/ssa"
)

const sortInsertionLimit = 12

func (m *Machine) sortSliceUnstable(fr *frame, a []Value, less Value) {
	if len(a) <= sortInsertionLimit {
		m.insertionSort(fr, a, less)
		return
	}
	var f *ssa.Function
	if sp := m.prog.ImportedPackage("sort"); sp != nil {
		f = sp.Func("pdqsort_func")
	}
	if f == nil || len(f.Blocks) == 0 {
		m.res.Notes["sort.Slice of more than 12 elements modelled as a stable insertion sort (sort.pdqsort_func not loaded): reorderings of equal elements are not explored"] = true
		m.insertionSort(fr, a, less)
		return
	}
	idx := func(v Value, what string) int {
		i := int(int64(m.concretizeInt(v, what)))
		if i < 0 || i >= len(a) {
			m.throwRuntime("sort.Slice: swap index out of range")
		}
		return i
	}
	swap := &GoFunc{name: "sort.Slice swap", f: func(m *Machine, args []Value) Value {
		i, j := idx(args[0], "sort.Slice swap i"), idx(args[1], "sort.Slice swap j")
		a[i], a[j] = a[j], a[i]
		return nil
	}}
	limit := bits.Len(uint(len(a)))
	m.callSSA(fr, f, []Value{Struct{less, swap}, i64(0), i64(len(a)), i64(limit)}, nil)
}
