package main

import (
	"fmt"
	"os"
	"strings"
)

// pickLog (KSE_PICKLOG=1): print every non-default environment pick (context
// switch, crash point, map order) with the interpreted call stack, for reading
// schedule counterexamples during `kse replay`/interpreter replay.
var pickLog func(m *Machine, why string, v int)

// pickLogAll (KSE_PICKLOG=all): also print picks that keep the current thread.
var pickLogAll = os.Getenv("KSE_PICKLOG") == "all"

func init() {
	if os.Getenv("KSE_PICKLOG") != "" {
		pickLog = func(m *Machine, why string, v int) {
			st := m.targetStack()
			var keep []string
			for _, f := range strings.Split(st, " < ") {
				if strings.Contains(f, "kraken") {
					keep = append(keep, f)
				}
			}
			tid := -1
			if m.cur != nil {
				tid = m.cur.id
			}
			fmt.Fprintf(os.Stderr, "KSE_PICK T%d %s -> %d | %s\n", tid, why, v, strings.Join(keep, " < "))
		}
	}
}
