package main

// The file system of a crash counterexample must be the one at the crash
// point (that is what a native replay materialises before it runs the
// recovery), not the one at the time the violated assertion is evaluated:
// recovery code and the harness's own post-crash calls mutate it further.

type crashSnapKey struct{}

func cloneInode(n *inode) *inode {
	c := *n
	if n.data != nil {
		c.data = append([]Value(nil), n.data...)
	}
	if n.children != nil {
		c.children = make(map[string]*inode, len(n.children))
		for k, ch := range n.children {
			c.children[k] = cloneInode(ch)
		}
	}
	return &c
}

// rememberCrashFS is called when a crash is taken.
func (m *Machine) rememberCrashFS() {
	m.side[crashSnapKey{}] = &FS{root: cloneInode(m.fs.root)}
}

// crashFS returns the file system as it was at the crash point.
func (m *Machine) crashFS() *FS {
	if fs, ok := m.side[crashSnapKey{}].(*FS); ok {
		return fs
	}
	return m.fs
}
