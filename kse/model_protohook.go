package main

// protobuf wire decoding is reflection-driven and not interpretable. A harness
// that needs a decoded message supplies it through a hook: when code of
// package P calls proto.Unmarshal(data, dst) and P (with the harness overlay)
// defines
//
//	func VerifProtoUnmarshal(data []byte, dst proto.Message) error
//
// that function is called instead (it typically copies a harness-built
// message with symbolic field values into *dst). Without a hook the call is
// unsupported as before. Natively the real decoder runs, so the harness must
// feed bytes that decode to the same message (proto.Marshal of it).

func init() {
	hook := func(m *Machine, fr *frame, a []Value) Value {
		if fr.caller != nil && fr.caller.fn != nil && fr.caller.fn.Pkg != nil {
			if h := fr.caller.fn.Pkg.Func("VerifProtoUnmarshal"); h != nil {
				return m.callSSA(fr.caller, h, a, nil)
			}
		}
		m.unsupported("proto.Unmarshal without a VerifProtoUnmarshal hook in the calling package (called from %s)", m.targetStack())
		return nil
	}
	regIfAbsent("github.com/golang/protobuf/proto.Unmarshal", hook)
	// Registration calls in the init of generated packages feed the reflection
	// registry only; nothing interpretable depends on it.
	nop := func(m *Machine, fr *frame, a []Value) Value { return nil }
	for _, n := range []string{"RegisterType", "RegisterEnum", "RegisterFile", "RegisterMapType", "RegisterExtension"} {
		regIfAbsent("github.com/golang/protobuf/proto."+n, nop)
	}
}
