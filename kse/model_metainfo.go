package main

// Models for core.MetaInfo pieces that go through reflection in the real
// code (bencode for the info hash, encoding/json for the sidecar format).
//
//   (*core.info).Hash        see model_zz_grpa_metainfo.go (one model only, so
//                            that hashes computed on both sides of a
//                            serialisation round trip agree).
//   json.Marshal / Unmarshal only for *core.metaInfoJSON: concrete fields give
//                            the byte-exact real JSON text; symbolic fields
//                            give an opaque fixed-width injective encoding
//                            (first byte 0x01) that Unmarshal decodes again.
//                            Any other type ends the path as unsupported.

import (
	"encoding/json"
	"fmt"
)

type miJSONInfo struct {
	PieceLength int64
	PieceSums   []uint32
	Name        string
	Length      int64
}

type miJSON struct {
	Info miJSONInfo `json:"Info"`
}

// infoFields splits an info Struct into its parts.
func infoFields(st Struct) (pl Value, sums Slice, name Value, length Value) {
	return st[0], st[1].(Slice), st[2], st[3]
}

func infoConcrete(st Struct) (*miJSONInfo, bool) {
	pl, sums, name, length := infoFields(st)
	out := &miJSONInfo{}
	c, ok := pl.(uint64)
	if !ok {
		return nil, false
	}
	out.PieceLength = int64(c)
	c, ok = length.(uint64)
	if !ok {
		return nil, false
	}
	out.Length = int64(c)
	s, ok := name.(string)
	if !ok {
		return nil, false
	}
	out.Name = s
	if !sums.nil {
		out.PieceSums = make([]uint32, 0, len(sums.a))
		for _, x := range sums.a {
			c, ok := x.(uint64)
			if !ok {
				return nil, false
			}
			out.PieceSums = append(out.PieceSums, uint32(c))
		}
	}
	return out, true
}

func (m *Machine) beBytes(v Value, w int) []Value {
	n := w / 8
	out := make([]Value, n)
	switch x := v.(type) {
	case uint64:
		for i := 0; i < n; i++ {
			out[i] = uint64(byte(x >> uint(8*(n-1-i))))
		}
	case *Term:
		for i := 0; i < n; i++ {
			lo := 8 * (n - 1 - i)
			out[i] = lowerTerm(m.tf.Extract(x, lo+7, lo), false)
		}
	default:
		panic(fmt.Sprintf("beBytes: %T", v))
	}
	return out
}

func (m *Machine) fromBE(b []Value, signed bool) Value {
	conc := true
	var c uint64
	for _, x := range b {
		u, ok := x.(uint64)
		if !ok {
			conc = false
			break
		}
		c = c<<8 | (u & 0xff)
	}
	w := 8 * len(b)
	if conc {
		return canon(c, w, signed)
	}
	t := m.scalarTerm(b[0], 8)
	for _, x := range b[1:] {
		t = m.tf.Concat(t, m.scalarTerm(x, 8))
	}
	return lowerTerm(t, signed)
}

const miJSONType = "*github.com/uber/kraken/core.metaInfoJSON"

func init() {
	reg("encoding/json.Marshal", func(m *Machine, fr *frame, a []Value) Value {
		v := a[0].(Iface)
		if v.t == nil || v.t.String() != miJSONType {
			m.unsupported("encoding/json.Marshal of %v (only *core.metaInfoJSON is modelled)", v.t)
		}
		st := (*m.cellPtr(v.v)).(Struct)[0].(Struct)
		if in, ok := infoConcrete(st); ok {
			b, err := json.Marshal(&miJSON{*in})
			if err != nil {
				m.unsupported("json model: %v", err)
			}
			out := make([]Value, len(b))
			for i, c := range b {
				out[i] = uint64(c)
			}
			return Tuple{Slice{a: out}, Iface{}}
		}
		m.res.Notes["MetaInfo JSON with symbolic fields modelled as an opaque fixed-width injective encoding"] = true
		pl, sums, name, length := infoFields(st)
		nb := strBytes(name)
		out := []Value{uint64(1)}
		out = append(out, m.beBytes(pl, 64)...)
		out = append(out, m.beBytes(length, 64)...)
		out = append(out, m.beBytes(uint64(len(nb)), 32)...)
		out = append(out, nb...)
		if sums.nil {
			out = append(out, m.beBytes(uint64(0xffffffff), 32)...)
		} else {
			out = append(out, m.beBytes(uint64(len(sums.a)), 32)...)
			for _, s := range sums.a {
				out = append(out, m.beBytes(s, 32)...)
			}
		}
		return Tuple{Slice{a: out}, Iface{}}
	})

	reg("encoding/json.Unmarshal", func(m *Machine, fr *frame, a []Value) Value {
		v := a[1].(Iface)
		if v.t == nil || v.t.String() != miJSONType {
			m.unsupported("encoding/json.Unmarshal into %v (only *core.metaInfoJSON is modelled)", v.t)
		}
		data := a[0].(Slice).a
		fail := func(msg string) Value { return m.newFmtError(msg, nil) }
		if len(data) == 0 {
			return fail("unexpected end of JSON input")
		}
		first, ok := data[0].(uint64)
		if !ok {
			m.unsupported("json.Unmarshal of bytes with a symbolic first byte")
		}
		cell := m.cellPtr(v.v)
		if first == 1 { // the opaque encoding
			rd := 1
			take := func(n int) []Value {
				if rd+n > len(data) {
					return nil
				}
				b := data[rd : rd+n]
				rd += n
				return b
			}
			bad := fail("model-encoded metainfo: truncated")
			b := take(8)
			if b == nil {
				return bad
			}
			pl := m.fromBE(b, true)
			if b = take(8); b == nil {
				return bad
			}
			length := m.fromBE(b, true)
			if b = take(4); b == nil {
				return bad
			}
			nl, ok := m.fromBE(b, false).(uint64)
			if !ok {
				m.unsupported("model-encoded metainfo with symbolic name length")
			}
			nb := take(int(nl))
			if nb == nil {
				return bad
			}
			if b = take(4); b == nil {
				return bad
			}
			ns, ok := m.fromBE(b, false).(uint64)
			if !ok {
				m.unsupported("model-encoded metainfo with symbolic piece count")
			}
			sums := Slice{nil: true}
			if ns != 0xffffffff {
				sums = Slice{a: make([]Value, 0, ns)}
				for i := uint64(0); i < ns; i++ {
					if b = take(4); b == nil {
						return bad
					}
					sums.a = append(sums.a, m.fromBE(b, false))
				}
			}
			if rd != len(data) {
				return fail("model-encoded metainfo: trailing bytes")
			}
			*cell = Struct{Struct{pl, sums, mkStr(append([]Value(nil), nb...)), length}}
			return Iface{}
		}
		cb, okc := allConcrete(data)
		if !okc {
			m.unsupported("json.Unmarshal of partly symbolic JSON text")
		}
		var j miJSON
		if err := json.Unmarshal(cb, &j); err != nil {
			return fail(err.Error())
		}
		sums := Slice{nil: true}
		if j.Info.PieceSums != nil {
			sums = Slice{a: make([]Value, len(j.Info.PieceSums))}
			for i, s := range j.Info.PieceSums {
				sums.a[i] = uint64(s)
			}
		}
		*cell = Struct{Struct{canon(uint64(j.Info.PieceLength), 64, true), sums, j.Info.Name, canon(uint64(j.Info.Length), 64, true)}}
		return Iface{}
	})
}
