package main

// Models written in Go, supplied by the harness package.
//
// Some library boundaries (net/http's client) are easier to describe in Go
// than as engine code. For the functions listed below the engine redirects the
// call to a function of the given name defined in one of the harness packages
// (a file under /verif/harness/<ID>/ compiled into the package under test);
// the model is interpreted like any other target code, so it may use verif.*
// and is visible in the evidence as an ordinary function. When no harness
// package defines the model the call ends the path as unsupported, exactly as
// before. Natively the real library function runs, so a counterexample found
// with the model is confirmed (or refuted) against the real library by replay.

import "golang.org/x/tools/go/ssa"

func (m *Machine) harnessFunc(name string) *ssa.Function {
	for path := range m.w.harnessPkgs {
		if p := m.prog.ImportedPackage(path); p != nil {
			if f := p.Func(name); f != nil {
				return f
			}
		}
	}
	return nil
}

func goModel(target, modelName string) {
	regIfAbsent(target, func(m *Machine, fr *frame, a []Value) Value {
		f := m.harnessFunc(modelName)
		if f == nil {
			m.unsupported("no code and no model for function %s (define %s in the harness package to supply a Go model)", target, modelName)
		}
		m.res.Notes["model: "+target+" is replaced by the harness-side Go model "+modelName] = true
		return m.callSSA(fr, f, a, nil)
	})
}

func init() {
	goModel("net/http.NewRequestWithContext", "VerifModelHTTPNewRequestWithContext")
	goModel("(*net/http.Client).Do", "VerifModelHTTPClientDo")
}
