package main

import (
	"bytes"
	"encoding/json"
	"flag"
	"fmt"
	"os"
	"os/exec"
	"path/filepath"
	"sort"
	"strconv"
	"strings"
	"sync"
	"time"

	"golang.org/x/tools/go/ssa"
)

type KnownFinding struct {
	Property  string `json:"property"`
	Signature string `json:"signature"`
	Status    string `json:"status"` // open | fixed
	Commit    string `json:"commit,omitempty"`
	What      string `json:"what"`
}

type ReplayFile struct {
	Property string            `json:"property"`
	Harness  string            `json:"harness"`
	Package  string            `json:"package"`
	Label    string            `json:"label"`
	Kind     string            `json:"kind"`
	Msg      string            `json:"msg"`
	Sig      string            `json:"signature"`
	Values   map[string]string `json:"values"`
	Order    []string          `json:"order,omitempty"`
	Trace    []Decision        `json:"trace"`
	FS       []FSEntry         `json:"fs,omitempty"`
	Crashed  bool              `json:"crashed"`
	Native   string            `json:"native_replay,omitempty"`
	Tier     string            `json:"tier"`
}

func (w *World) coverSeen(label string) bool {
	w.coverMu.Lock()
	defer w.coverMu.Unlock()
	return w.coverDone[label]
}
func (w *World) markCover(label string) {
	w.coverMu.Lock()
	defer w.coverMu.Unlock()
	if w.coverDone == nil {
		w.coverDone = map[string]bool{}
	}
	w.coverDone[label] = true
}

var _ sync.Mutex

func main() {
	if len(os.Args) < 2 {
		fatalf("usage: kse check|replay|run ...")
	}
	switch os.Args[1] {
	case "check":
		os.Exit(cmdCheck(os.Args[2:]))
	case "replay":
		os.Exit(cmdReplay(os.Args[2:]))
	default:
		fatalf("unknown command %s", os.Args[1])
	}
}

func verifRoot() string {
	if r := os.Getenv("KSE_VERIF"); r != "" {
		return r
	}
	exe, err := os.Executable()
	if err == nil {
		return filepath.Dir(filepath.Dir(exe))
	}
	return "/verif"
}

func cmdCheck(args []string) int {
	fs := flag.NewFlagSet("check", flag.ExitOnError)
	prop := fs.String("prop", "", "property id")
	tier := fs.String("tier", "quick", "quick|thorough")
	only := fs.String("func", "", "run only this harness function")
	repo := fs.String("repo", "/repo", "repository root")
	verbose := fs.Bool("v", false, "verbose")
	workers := fs.Int("workers", 0, "worker count")
	noReplay := fs.Bool("no-replay", false, "skip native replay")
	noEvidence := fs.Bool("no-evidence", false, "do not write evidence")
	noValidate := fs.Bool("no-validate", false, "skip native validation of sample paths")
	smtlog := fs.Bool("smtlog", false, "keep SMT-LIB logs")
	budget := fs.Duration("budget", 0, "wall-clock budget per harness")
	solver := fs.String("solver", defaultSolver(), "solver binary")
	fs.Parse(args)
	if *prop == "" {
		fatalf("--prop required")
	}
	if env := os.Getenv("VERIF_TIER"); env != "" && *tier == "" {
		*tier = env
	}
	seed := 0
	if s := os.Getenv("VERIF_SEED"); s != "" {
		seed, _ = strconv.Atoi(s)
	}
	root := verifRoot()
	t0 := time.Now()
	hdir := filepath.Join(root, "harness", *prop)
	hfiles, err := scanHarnessDir(hdir)
	if err != nil {
		fmt.Printf("INCONCLUSIVE property=%s cannot read harness: %v\n", *prop, err)
		return 2
	}
	w, err := loadWorld(*repo, root, hfiles, nil)
	if err != nil {
		fmt.Printf("INCONCLUSIVE property=%s load failed: %v\n", *prop, err)
		return 2
	}
	defer w.cleanup()
	outDir := filepath.Join(root, "out", *prop)
	if filepath.Clean(*repo) != "/repo" {
		// scratch trees (seeded changes, mutations) get their own replay dir so
		// that concurrent runs of one property do not overwrite each other
		outDir = filepath.Join(root, "out", *prop+"-"+filepath.Base(filepath.Clean(*repo)))
	}
	os.MkdirAll(outDir, 0o755)
	cfg := defaultConfig(*tier)
	cfg.Verbose = *verbose
	cfg.SolverBin = *solver
	if *workers > 0 {
		cfg.Workers = *workers
	}
	if *smtlog {
		cfg.LogDir = filepath.Join(outDir, "queries")
		os.MkdirAll(cfg.LogDir, 0o755)
	}
	hs := w.harnesses()
	if len(hs) == 0 {
		fmt.Printf("INCONCLUSIVE property=%s no Verif* harness found\n", *prop)
		return 2
	}
	known := loadKnown(filepath.Join(root, "known_findings.json"))
	var results []*HarnessResult
	exit := 0
	var inconclusive []string
	var partial []string
	for _, d := range w.dropped {
		inconclusive = append(inconclusive, "harness file "+d+" does not compile against this tree (it inspects internals that changed): its harnesses were skipped")
	}
	violLines := 0
	for _, h := range hs {
		if *only != "" && h.Name() != *only {
			continue
		}
		if *budget > 0 {
			cfg.Deadline = time.Now().Add(*budget)
		} else if *tier == "quick" {
			cfg.Deadline = time.Now().Add(12 * time.Minute)
		} else {
			mins := 15
			if v, err := strconv.Atoi(os.Getenv("KSE_THOROUGH_MINUTES")); err == nil && v > 0 {
				mins = v
			}
			cfg.Deadline = time.Now().Add(time.Duration(mins) * time.Minute)
		}
		w.coverMu.Lock()
		w.coverDone = nil
		w.coverMu.Unlock()
		hr := explore(w, cfg, h)
		results = append(results, hr)
		fmt.Printf("harness %s: paths=%d (%v) decisions=%d queries=%d (sat %d unsat %d unknown %d) solver=%.1fs wall=%.1fs\n",
			hr.Name, hr.Paths, hr.ByStatus, hr.Decisions, hr.Solver.Queries, hr.Solver.Sat, hr.Solver.Unsat, hr.Solver.Unknown, hr.Solver.Seconds, hr.Wall)
		for reason, n := range hr.Incon {
			if *tier == "thorough" && *budget == 0 && strings.HasPrefix(reason, "budget: wall-clock budget exhausted") {
				partial = append(partial, fmt.Sprintf("%s: %s (%d paths)", hr.Name, reason, n))
				continue
			}
			inconclusive = append(inconclusive, fmt.Sprintf("%s: %s (%d paths)", hr.Name, reason, n))
		}
		for l, n := range hr.Unknown {
			inconclusive = append(inconclusive, fmt.Sprintf("%s: assertion %s undecided by solver on %d paths", hr.Name, l, n))
		}
		if hr.ByStatus["done"] == 0 && len(hr.Violations) == 0 {
			inconclusive = append(inconclusive, fmt.Sprintf("%s: vacuity: no path ran to the end of the harness (path endings: %v)", hr.Name, hr.ByStatus))
		}
		if hr.TimedOut || hr.PathCapHit {
			why := "wall-clock budget exhausted before the path set was closed"
			if hr.PathCapHit {
				why = "path cap reached"
			}
			if *tier == "thorough" && *budget == 0 {
				// The thorough tier explores as deep as its time budget allows:
				// the property held on everything explored, the path set is
				// reported as not closed (evidence: exhaustive=false, partial).
				partial = append(partial, fmt.Sprintf("%s: %s after %d paths", hr.Name, why, hr.Paths))
				fmt.Printf("PARTIAL property=%s %s: %s after %d paths (held on everything explored)\n", *prop, hr.Name, why, hr.Paths)
			} else {
				inconclusive = append(inconclusive, hr.Name+": "+why)
			}
		}
		if hr.FeasUnknown > 0 {
			hr.Notes = append(hr.Notes, fmt.Sprintf("%d feasibility queries returned unknown; both branches were kept (sound)", hr.FeasUnknown))
		}
		for _, e := range hr.Internal {
			inconclusive = append(inconclusive, hr.Name+": "+firstLine(e))
			if *verbose {
				fmt.Fprintln(os.Stderr, e)
			}
		}
		if !*noReplay && !*noValidate && !hasOpenKnown(known, *prop, hr.Name) {
			// (a harness whose assertion is an open known finding that depends on
			// a thread schedule can hit the finding by chance in a native sample
			// run; that is the finding, not an engine disagreement)
			nval := 3
			if *tier == "thorough" {
				nval = cfg.SamplePaths
			}
			n, probs := validateSamples(w, *prop, h, hr, *repo, *tier, outDir, nval)
			hr.Validated = n
			for _, p := range probs {
				inconclusive = append(inconclusive, p)
			}
		}
		if len(hr.Violations) == 0 && !(hr.TimedOut || hr.PathCapHit) {
			for _, c := range hr.CoversMiss {
				inconclusive = append(inconclusive, fmt.Sprintf("%s: vacuity: %s never reached/satisfied", hr.Name, c))
			}
		}
		for vi, v := range hr.Violations {
			sig := hr.Name + "/" + v.Sig
			rf := &ReplayFile{Property: *prop, Harness: hr.Name, Package: h.Pkg.Pkg.Path(), Label: v.Label, Kind: v.Kind, Msg: v.Msg, Sig: sig,
				Values: v.Values, Order: v.Order, Trace: v.Trace, FS: v.FS, Crashed: v.FS != nil, Tier: *tier}
			rpath := filepath.Join(outDir, fmt.Sprintf("replay-%s-%d.json", hr.Name, vi))
			writeJSON(rpath, rf)
			// interpreter replay (deterministic re-execution of the trace)
			// native replay
			nativeOK := true
			if !*noReplay {
				out, err := nativeReplay(w, rf, rpath, *repo)
				rf.Native = out
				writeJSON(rpath, rf)
				switch {
				case err != nil:
					nativeOK = false
					rf.Native = "error: " + err.Error() + " " + out
				case strings.Contains(out, "assert-failed") || strings.Contains(out, "panic") || strings.Contains(out, "timeout") || strings.Contains(out, "deadlock"):
				default:
					nativeOK = false
				}
				writeJSON(rpath, rf)
			}
			if !nativeOK && v.EnvDep {
				// the violating path depends on a thread schedule or a map
				// iteration order that a native run cannot be forced into
				ok, msg := interpReplay(w, cfg, h, v)
				rf.Native = "native run did not take the schedule (" + firstLine(rf.Native) + "); " + msg
				writeJSON(rpath, rf)
				if ok {
					nativeOK = true
				}
			}
			if !nativeOK && !hasNote(hr, "replay:interpreter-only") {
				inconclusive = append(inconclusive, fmt.Sprintf("%s: counterexample for %s did not reproduce natively (%s): engine/model defect, not reported", hr.Name, v.Label, firstLine(rf.Native)))
				continue
			}
			if kf := matchKnown(known, *prop, sig); kf != nil {
				fmt.Printf("KNOWN-FINDING: property=%s %s [%s]\n", *prop, kf.What, sig)
				continue
			}
			fmt.Printf("VIOLATION property=%s replay=%s\n", *prop, rpath)
			fmt.Printf("  harness=%s assertion=%s kind=%s: %s\n  values=%v\n  native replay: %s\n", hr.Name, v.Label, v.Kind, v.Msg, compactValues(v), firstLine(rf.Native))
			violLines++
			exit = 1
		}
	}
	if exit == 0 && len(inconclusive) > 0 {
		exit = 2
	}
	sort.Strings(inconclusive)
	for _, s := range inconclusive {
		fmt.Printf("INCONCLUSIVE property=%s %s\n", *prop, s)
	}
	if !*noEvidence {
		writeEvidence(root, *prop, *tier, seed, results, append(inconclusive, partial...), violLines, time.Since(t0).Seconds(), w, cfg)
	}
	if exit == 0 {
		fmt.Printf("OK property=%s tier=%s harnesses=%d wall=%.1fs\n", *prop, *tier, len(results), time.Since(t0).Seconds())
	}
	return exit
}

func hasNote(hr *HarnessResult, n string) bool {
	for _, x := range hr.Notes {
		if x == n {
			return true
		}
	}
	return false
}

func compactValues(v *Violation) string {
	var sb strings.Builder
	for i, k := range v.Order {
		if i > 0 {
			sb.WriteString(" ")
		}
		if i > 40 {
			sb.WriteString("…")
			break
		}
		fmt.Fprintf(&sb, "%s=%s", k, v.Values[k])
	}
	return sb.String()
}

func writeJSON(path string, v interface{}) {
	b, _ := json.MarshalIndent(v, "", " ")
	os.WriteFile(path, b, 0o644)
}

func loadKnown(path string) []KnownFinding {
	b, err := os.ReadFile(path)
	if err != nil {
		return nil
	}
	var k []KnownFinding
	json.Unmarshal(b, &k)
	return k
}

func hasOpenKnown(k []KnownFinding, prop, harness string) bool {
	for i := range k {
		if k[i].Property == prop && k[i].Status == "open" && strings.HasPrefix(k[i].Signature, harness+"/") {
			return true
		}
	}
	return false
}

func matchKnown(k []KnownFinding, prop, sig string) *KnownFinding {
	for i := range k {
		if k[i].Property == prop && k[i].Status == "open" && k[i].Signature == sig {
			return &k[i]
		}
	}
	return nil
}

// nativeReplay compiles the harness package against the real build and runs
// the harness with the solver's assignment.
func nativeReplay(w *World, rf *ReplayFile, rpath, repo string) (string, error) {
	text, rerr := nativeRun(w, rf.Package, rpath, repo, rf.Tier)
	for _, line := range strings.Split(text, "\n") {
		if strings.HasPrefix(line, "KSE-REPLAY-RESULT:") {
			return strings.TrimSpace(strings.TrimPrefix(line, "KSE-REPLAY-RESULT:")), nil
		}
	}
	if strings.Contains(text, "panic: test timed out") {
		return "timeout (hang) in native run", nil
	}
	if strings.Contains(text, "all goroutines are asleep") {
		return "deadlock in native run", nil
	}
	if strings.Contains(text, "panic:") || strings.Contains(text, "fatal error:") {
		i := strings.Index(text, "panic:")
		if i < 0 {
			i = strings.Index(text, "fatal error:")
		}
		return "panic (uncaught) " + firstLine(text[i:]), nil
	}
	tail := text
	if len(tail) > 1500 {
		tail = tail[len(tail)-1500:]
	}
	if rerr != nil {
		return tail, fmt.Errorf("go test failed: %v", rerr)
	}
	return "no result line: " + tail, nil
}

// nativeRun runs TestVerifReplay of package pkg natively with KSE_REPLAY=rpath
// and returns the combined output.
func nativeRun(w *World, pkg, rpath, repo, tier string) (string, error) {
	rf := &ReplayFile{Package: pkg, Tier: tier}
	tmp, err := os.MkdirTemp("", "kse-replay-")
	if err != nil {
		return "", err
	}
	defer os.RemoveAll(tmp)
	// generated test entry for the harness package
	var sp *ssa.Package
	for _, p := range w.spkgs {
		if p != nil && p.Pkg.Path() == rf.Package {
			sp = p
		}
	}
	if sp == nil {
		return "", fmt.Errorf("package %s not loaded", rf.Package)
	}
	var names []string
	for _, h := range w.harnesses() {
		if h.Pkg == sp {
			names = append(names, h.Name())
		}
	}
	var src bytes.Buffer
	fmt.Fprintf(&src, "package %s\n\nimport (\n\t\"testing\"\n\tverif \"github.com/uber/kraken/zzverif\"\n)\n\nfunc TestVerifReplay(t *testing.T) {\n\tverif.Replay(t, map[string]func(){\n", sp.Pkg.Name())
	for _, n := range names {
		fmt.Fprintf(&src, "\t\t%q: %s,\n", n, n)
	}
	fmt.Fprintf(&src, "\t})\n}\n")
	testReal := filepath.Join(tmp, "zz_verif_replay_test.go")
	os.WriteFile(testReal, src.Bytes(), 0o644)
	rel := strings.TrimPrefix(rf.Package, modPath+"/")
	testVirt := filepath.Join(repo, rel, "zz_verif_replay_test.go")
	ov := filepath.Join(tmp, "overlay.json")
	if err := w.writeOverlayJSON(ov, map[string]string{testVirt: testReal}); err != nil {
		return "", err
	}
	scratch, err := scratchMod(repo)
	if err != nil {
		return "", err
	}
	defer os.RemoveAll(scratch)
	cmd := exec.Command("go", "test", "-vet=off", "-count=1", "-timeout=120s", "-run", "^TestVerifReplay$", "-v",
		"-overlay", ov, "-modfile="+filepath.Join(scratch, "go.mod"), "-tags=verif", rf.Package)
	cmd.Dir = repo
	cmd.Env = append(os.Environ(), "KSE_REPLAY="+rpath, "KSE_TIER="+rf.Tier, "GOFLAGS=-mod=mod", "GOPROXY=off", "GOSUMDB=off", "GOTOOLCHAIN=local")
	out, rerr := cmd.CombinedOutput()
	return string(out), rerr
}

func cmdReplay(args []string) int {
	fs := flag.NewFlagSet("replay", flag.ExitOnError)
	repo := fs.String("repo", "/repo", "repository root")
	fs.Parse(args)
	if fs.NArg() < 1 {
		fatalf("usage: kse replay <replay.json>")
	}
	b, err := os.ReadFile(fs.Arg(0))
	if err != nil {
		fatalf("%v", err)
	}
	var rf ReplayFile
	if err := json.Unmarshal(b, &rf); err != nil {
		fatalf("%v", err)
	}
	root := verifRoot()
	hfiles, err := scanHarnessDir(filepath.Join(root, "harness", rf.Property))
	if err != nil {
		fatalf("%v", err)
	}
	w, err := loadWorld(*repo, root, hfiles, nil)
	if err != nil {
		fatalf("%v", err)
	}
	defer w.cleanup()
	out, err := nativeReplay(w, &rf, fs.Arg(0), *repo)
	fmt.Printf("native replay of %s/%s: %s\n", rf.Harness, rf.Label, out)
	if err != nil {
		fmt.Println("error:", err)
		return 2
	}
	if strings.Contains(out, "assert-failed") || strings.Contains(out, "panic") || strings.Contains(out, "timeout") || strings.Contains(out, "deadlock") {
		fmt.Printf("VIOLATION property=%s replay=%s\n", rf.Property, fs.Arg(0))
		return 1
	}
	return 0
}

func writeEvidence(root, prop, tier string, seed int, results []*HarnessResult, incon []string, viol int, wall float64, w *World, cfg *RunConfig) {
	evals, distinct := 0, 0
	var samples []interface{}
	funcs := map[string]bool{}
	stubs := map[string]bool{}
	assume := map[string]bool{}
	var solver SolverStats
	bounds := map[string]interface{}{}
	oblig, disch := 0, 0
	validated := 0
	states, transitions := 0, 0
	for _, r := range results {
		validated += r.Validated
		// nodes / edges of the symbolic execution tree explored: every new
		// decision point is an inner node, every completed path a leaf
		states += r.Decisions + r.Paths
		transitions += r.Decisions + r.Forks
		evals += r.Paths
		distinct += r.Distinct
		for i, s := range r.Samples {
			if i < 3 {
				samples = append(samples, map[string]interface{}{"harness": r.Name, "path_values": s})
			}
		}
		for _, f := range r.Funcs {
			funcs[f] = true
		}
		for _, f := range r.Stubs {
			stubs[f] = true
		}
		for _, a := range r.Notes {
			assume[a] = true
		}
		solver.add(r.Solver)
		bounds[r.Name] = r.Bounds
		for _, n := range r.Proved {
			oblig += n
			disch += n
		}
		for _, n := range r.Unknown {
			oblig += n
		}
		for _, v := range r.Violations {
			oblig += v.Count
		}
	}
	if len(samples) == 0 {
		samples = append(samples, map[string]interface{}{"note": "no path with nondeterministic inputs completed"})
	}
	var kraken, lib []string
	for f := range funcs {
		if strings.Contains(f, "github.com/uber/kraken") && !strings.Contains(f, ".Verif") {
			kraken = append(kraken, f)
		} else if !strings.Contains(f, ".Verif") {
			lib = append(lib, f)
		}
	}
	sort.Strings(kraken)
	sort.Strings(lib)
	var stubL []string
	for s := range stubs {
		if !strings.HasPrefix(s, "github.com/uber/kraken/zzverif") {
			stubL = append(stubL, s)
		}
	}
	sort.Strings(stubL)
	assumptions := []string{
		"bounded: every claim holds only within the bounds listed under coverage.bounds (sizes, steps, threads, preemptions) and the engine caps (decisions/path, instructions/path, concretisation fan-out)",
		"go/ssa (x/tools v0.29.0) SSA of the working tree is the semantics; the kse interpreter is validated by native replay of counterexamples and by the engine self-tests",
		"solver: z3 via SMT-LIB2 (bit-vectors + uninterpreted functions); unknown on a feasibility query keeps both branches, unknown on an assertion makes the check inconclusive",
		"data races are not modelled: context switches happen only at synchronisation / channel / file-system operations",
	}
	for a := range assume {
		assumptions = append(assumptions, a)
	}
	sort.Strings(assumptions[4:])
	ev := map[string]interface{}{
		"property_id": prop,
		"tier":        tier,
		"seed":        seed,
		"level":       "model_checking",
		"wall_s":      wall,
		"violations":  viol,
		"assumptions": assumptions,
		"coverage": map[string]interface{}{
			"evaluations":                   evals,
			"distinct_nontrivial":           distinct,
			"rule":                          "one evaluation = one complete symbolic path of a harness through the real SSA (each path stands for all values of the symbolic variables satisfying its path condition); non-trivial = the path contains at least one branch, case split or property assertion decided by the SMT solver; distinct = by decision sequence (schedule, crash point and map-order picks included). states/transitions = nodes/edges of the symbolic execution tree (decision points and completed paths)",
			"samples":                       samples,
			"traces_validated_against_impl": validated,
			"states":                        states,
			"transitions":                   transitions,
			"explanation":                   "bounded symbolic execution of the repository's Go code (go/ssa) with z3 deciding every symbolic branch and every property assertion; path set closed under the solver's feasibility answers",
			"exhaustive":                    len(incon) == 0,
			"obligations":                   oblig,
			"discharged":                    disch,
			"queries":                       solver.Queries,
			"queries_sat":                   solver.Sat,
			"queries_unsat":                 solver.Unsat,
			"queries_unknown":               solver.Unknown,
			"decided_by_cached_model":       solver.ModelHit,
			"solver_seconds":                solver.Seconds,
			"solver":                        cfg.SolverBin,
			"load_seconds":                  w.loadSecs,
			"bounds":                        bounds,
			"engine_caps":                   map[string]interface{}{"max_decisions_per_path": cfg.MaxDecisions, "max_instructions_per_path": cfg.MaxInstrs, "max_concretise_fanout": cfg.MaxConcretize, "solver_timeout_ms": cfg.TimeoutMs, "max_alloc_elems": cfg.MaxAlloc},
			"functions_encoded":             kraken,
			"library_functions_interpreted": len(lib),
			"models_hit":                    stubL,
			"harnesses":                     results,
			"inconclusive":                  incon,
		},
	}
	os.MkdirAll(filepath.Join(root, "evidence"), 0o755)
	writeJSON(filepath.Join(root, "evidence", prop+".json"), ev)
}
