package main

// Consistency between the two faces of the hash models: a hash of concrete
// bytes is the real value, a hash of symbolic bytes is an uninterpreted
// function. Whenever both kinds of application of the same function and input
// length occur on one path, the valid fact
//     args == c  =>  UF(args) == real(c)
// is added to the path condition, so that the solver cannot pick a function
// value that contradicts a real hash computed on the same path (such models
// are never reproducible natively).

type hashConc struct {
	in  []byte
	out []Value // concrete uint64 values (bytes, or one 32-bit word for crc32)
}

type hashSym struct {
	args []*Term
	out  []Value // *Term
}

type hashLinks struct {
	conc map[string][]hashConc
	sym  map[string][]hashSym
}

func (m *Machine) hashLinkTable() *hashLinks {
	k := sideKey{nil, "hashlinks"}
	if v, ok := m.side[k]; ok {
		return v.(*hashLinks)
	}
	t := &hashLinks{conc: map[string][]hashConc{}, sym: map[string][]hashSym{}}
	m.side[k] = t
	return t
}

const maxHashLinks = 64

func (m *Machine) hashLemma(c hashConc, s hashSym) {
	if len(c.in) != len(s.args) || len(c.out) != len(s.out) {
		return
	}
	pre := m.tf.Bool(true)
	for i, a := range s.args {
		if a.isConst() {
			if byte(a.val) != c.in[i] {
				return // cannot be equal
			}
			continue
		}
		pre = m.tf.And(pre, m.tf.Eq(a, m.tf.BV(uint64(c.in[i]), 8)))
	}
	post := m.tf.Bool(true)
	for j, o := range s.out {
		ot, ok := o.(*Term)
		if !ok {
			continue
		}
		post = m.tf.And(post, m.tf.Eq(ot, m.tf.BV(c.out[j].(uint64), ot.w)))
	}
	m.assertPC(m.tf.Or(m.tf.Not(pre), post))
}

func (m *Machine) hashLinkConcrete(name string, in []byte, out []Value) {
	t := m.hashLinkTable()
	key := name + "/" + string(rune('0'+len(in)%10)) + "/" + itoa(len(in))
	syms := t.sym[key]
	if len(syms) == 0 && len(t.conc[key]) >= maxHashLinks {
		return
	}
	for _, c := range t.conc[key] {
		if string(c.in) == string(in) {
			return
		}
	}
	c := hashConc{in: append([]byte(nil), in...), out: append([]Value(nil), out...)}
	if len(t.conc[key]) < maxHashLinks {
		t.conc[key] = append(t.conc[key], c)
	}
	for _, s := range syms {
		m.hashLemma(c, s)
	}
}

func (m *Machine) hashLinkSymbolic(name string, args []*Term, out []Value) {
	t := m.hashLinkTable()
	key := name + "/" + string(rune('0'+len(args)%10)) + "/" + itoa(len(args))
	for _, s := range t.sym[key] {
		if len(s.out) > 0 && len(out) > 0 && s.out[0] == out[0] {
			return // same application (terms are hash-consed)
		}
	}
	s := hashSym{args: append([]*Term(nil), args...), out: append([]Value(nil), out...)}
	if len(t.sym[key]) < maxHashLinks {
		t.sym[key] = append(t.sym[key], s)
	}
	for _, c := range t.conc[key] {
		m.hashLemma(c, s)
	}
}

func itoa(n int) string {
	if n == 0 {
		return "0"
	}
	var b []byte
	for n > 0 {
		b = append([]byte{byte('0' + n%10)}, b...)
		n /= 10
	}
	return string(b)
}
