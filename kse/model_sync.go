package main

// Models of sync, sync/atomic. Every operation is a visible operation for the
// scheduler (m.yield).

import (
	"fmt"
	"go/token"
	"go/types"
)

type mutexSt struct {
	locked  bool
	readers int
}
type wgSt struct{ n int }
type onceSt struct{ done, running bool }
type condSt struct{ waitSeq, wakeUpTo int }
type syncMapSt struct{ m *Map }

func sideGet[T any](m *Machine, key interface{}, mk func() *T) *T {
	if v, ok := m.side[key]; ok {
		return v.(*T)
	}
	v := mk()
	m.side[key] = v
	return v
}

type sideKey struct {
	p    *Value
	kind string
}

func (m *Machine) mutexOf(p Value) *mutexSt {
	ptr := m.cellPtr(p)
	if ptr == nil {
		m.throwRuntime("invalid memory address or nil pointer dereference (nil mutex)")
	}
	return sideGet(m, sideKey{ptr, "mutex"}, func() *mutexSt { return &mutexSt{} })
}

func structFieldIndex(t types.Type, name string) int {
	if p, ok := t.Underlying().(*types.Pointer); ok {
		t = p.Elem()
	}
	st := t.Underlying().(*types.Struct)
	for i := 0; i < st.NumFields(); i++ {
		if st.Field(i).Name() == name {
			return i
		}
	}
	panic("no field " + name + " in " + t.String())
}

func init() {
	lock := func(m *Machine, fr *frame, a []Value) Value {
		st := m.mutexOf(a[0])
		m.yield("Lock")
		m.blockUntil(func() bool { return !st.locked && st.readers == 0 }, "Mutex.Lock")
		st.locked = true
		return nil
	}
	unlock := func(m *Machine, fr *frame, a []Value) Value {
		st := m.mutexOf(a[0])
		if !st.locked {
			panic(pathEnd{kind: "fatal", msg: "sync: unlock of unlocked mutex"})
		}
		st.locked = false
		m.yield("Unlock")
		return nil
	}
	trylock := func(m *Machine, fr *frame, a []Value) Value {
		st := m.mutexOf(a[0])
		m.yield("TryLock")
		if st.locked || st.readers > 0 {
			return false
		}
		st.locked = true
		return true
	}
	reg("(*sync.Mutex).Lock", lock)
	reg("(*sync.Mutex).Unlock", unlock)
	reg("(*sync.Mutex).TryLock", trylock)
	reg("(*sync.RWMutex).Lock", lock)
	reg("(*sync.RWMutex).Unlock", unlock)
	reg("(*sync.RWMutex).TryLock", trylock)
	reg("(*sync.RWMutex).RLock", func(m *Machine, fr *frame, a []Value) Value {
		st := m.mutexOf(a[0])
		m.yield("RLock")
		m.blockUntil(func() bool { return !st.locked }, "RWMutex.RLock")
		st.readers++
		return nil
	})
	reg("(*sync.RWMutex).TryRLock", func(m *Machine, fr *frame, a []Value) Value {
		st := m.mutexOf(a[0])
		m.yield("TryRLock")
		if st.locked {
			return false
		}
		st.readers++
		return true
	})
	reg("(*sync.RWMutex).RUnlock", func(m *Machine, fr *frame, a []Value) Value {
		st := m.mutexOf(a[0])
		if st.readers <= 0 {
			panic(pathEnd{kind: "fatal", msg: "sync: RUnlock of unlocked RWMutex"})
		}
		st.readers--
		m.yield("RUnlock")
		return nil
	})

	wg := func(m *Machine, p Value) *wgSt {
		return sideGet(m, sideKey{m.cellPtr(p), "wg"}, func() *wgSt { return &wgSt{} })
	}
	reg("(*sync.WaitGroup).Add", func(m *Machine, fr *frame, a []Value) Value {
		st := wg(m, a[0])
		st.n += concInt(m, a[1], "WaitGroup.Add delta")
		if st.n < 0 {
			m.res.noteRuntimePanic("sync: negative WaitGroup counter")
			panic(targetPanic{v: Iface{t: types.Typ[types.String], v: "sync: negative WaitGroup counter"}})
		}
		m.yield("WaitGroup.Add")
		return nil
	})
	reg("(*sync.WaitGroup).Done", func(m *Machine, fr *frame, a []Value) Value {
		st := wg(m, a[0])
		st.n--
		if st.n < 0 {
			m.res.noteRuntimePanic("sync: negative WaitGroup counter")
			panic(targetPanic{v: Iface{t: types.Typ[types.String], v: "sync: negative WaitGroup counter"}})
		}
		m.yield("WaitGroup.Done")
		return nil
	})
	reg("(*sync.WaitGroup).Wait", func(m *Machine, fr *frame, a []Value) Value {
		st := wg(m, a[0])
		m.yield("WaitGroup.Wait")
		m.blockUntil(func() bool { return st.n == 0 }, "WaitGroup.Wait")
		return nil
	})

	reg("(*sync.Once).Do", func(m *Machine, fr *frame, a []Value) Value {
		st := sideGet(m, sideKey{m.cellPtr(a[0]), "once"}, func() *onceSt { return &onceSt{} })
		m.yield("Once.Do")
		if st.done {
			return nil
		}
		if st.running {
			m.blockUntil(func() bool { return st.done }, "Once.Do (running elsewhere)")
			return nil
		}
		st.running = true
		defer func() { st.done = true; st.running = false }()
		m.call(fr, a[1], nil, nil)
		return nil
	})

	cond := func(m *Machine, p Value) *condSt {
		return sideGet(m, sideKey{m.cellPtr(p), "cond"}, func() *condSt { return &condSt{} })
	}
	reg("(*sync.Cond).Wait", func(m *Machine, fr *frame, a []Value) Value {
		st := cond(m, a[0])
		cs := (*m.cellPtr(a[0])).(Struct)
		li := structFieldIndex(fr.fn.Signature.Recv().Type(), "L")
		l := cs[li].(Iface)
		my := st.waitSeq
		st.waitSeq++
		m.callMethod(fr, l, "Unlock")
		m.blockUntil(func() bool { return my < st.wakeUpTo }, "Cond.Wait")
		m.callMethod(fr, l, "Lock")
		return nil
	})
	reg("(*sync.Cond).Signal", func(m *Machine, fr *frame, a []Value) Value {
		st := cond(m, a[0])
		if st.wakeUpTo < st.waitSeq {
			st.wakeUpTo++
		}
		m.yield("Cond.Signal")
		return nil
	})
	reg("(*sync.Cond).Broadcast", func(m *Machine, fr *frame, a []Value) Value {
		st := cond(m, a[0])
		st.wakeUpTo = st.waitSeq
		m.yield("Cond.Broadcast")
		return nil
	})

	reg("(*sync.Pool).Get", func(m *Machine, fr *frame, a []Value) Value {
		ps := (*m.cellPtr(a[0])).(Struct)
		ni := structFieldIndex(fr.fn.Signature.Recv().Type(), "New")
		if ps[ni] == nil {
			return Iface{}
		}
		return m.call(fr, ps[ni], nil, nil)
	})
	reg("(*sync.Pool).Put", func(m *Machine, fr *frame, a []Value) Value { return nil })

	// sync.Map
	sm := func(m *Machine, p Value) *Map {
		st := sideGet(m, sideKey{m.cellPtr(p), "syncmap"}, func() *syncMapSt {
			any := types.NewInterfaceType(nil, nil)
			return &syncMapSt{m: newMap(any, any)}
		})
		return st.m
	}
	reg("(*sync.Map).Load", func(m *Machine, fr *frame, a []Value) Value {
		mp := sm(m, a[0])
		m.yield("sync.Map.Load")
		if i := m.mapFind(mp, a[1]); i >= 0 {
			return Tuple{mp.vals[i], true}
		}
		return Tuple{Iface{}, false}
	})
	reg("(*sync.Map).Store", func(m *Machine, fr *frame, a []Value) Value {
		mp := sm(m, a[0])
		m.yield("sync.Map.Store")
		m.mapUpdate(mp, a[1], a[2])
		return nil
	})
	reg("(*sync.Map).LoadOrStore", func(m *Machine, fr *frame, a []Value) Value {
		mp := sm(m, a[0])
		m.yield("sync.Map.LoadOrStore")
		if i := m.mapFind(mp, a[1]); i >= 0 {
			return Tuple{mp.vals[i], true}
		}
		mp.appendEntry(a[1], a[2])
		return Tuple{a[2], false}
	})
	reg("(*sync.Map).LoadAndDelete", func(m *Machine, fr *frame, a []Value) Value {
		mp := sm(m, a[0])
		m.yield("sync.Map.LoadAndDelete")
		if i := m.mapFind(mp, a[1]); i >= 0 {
			v := mp.vals[i]
			mp.removeAt(i)
			return Tuple{v, true}
		}
		return Tuple{Iface{}, false}
	})
	reg("(*sync.Map).Delete", func(m *Machine, fr *frame, a []Value) Value {
		mp := sm(m, a[0])
		m.yield("sync.Map.Delete")
		m.mapDelete(mp, a[1])
		return nil
	})
	reg("(*sync.Map).Swap", func(m *Machine, fr *frame, a []Value) Value {
		mp := sm(m, a[0])
		m.yield("sync.Map.Swap")
		if i := m.mapFind(mp, a[1]); i >= 0 {
			old := mp.vals[i]
			mp.vals[i] = a[2]
			return Tuple{old, true}
		}
		mp.appendEntry(a[1], a[2])
		return Tuple{Iface{}, false}
	})
	reg("(*sync.Map).CompareAndSwap", func(m *Machine, fr *frame, a []Value) Value {
		mp := sm(m, a[0])
		m.yield("sync.Map.CompareAndSwap")
		if i := m.mapFind(mp, a[1]); i >= 0 {
			if m.truth(m.equals(mp.vt, mp.vals[i], a[2]), "sync.Map.CompareAndSwap") {
				mp.vals[i] = a[3]
				return true
			}
		}
		return false
	})
	reg("(*sync.Map).CompareAndDelete", func(m *Machine, fr *frame, a []Value) Value {
		mp := sm(m, a[0])
		m.yield("sync.Map.CompareAndDelete")
		if i := m.mapFind(mp, a[1]); i >= 0 {
			if m.truth(m.equals(mp.vt, mp.vals[i], a[2]), "sync.Map.CompareAndDelete") {
				mp.removeAt(i)
				return true
			}
		}
		return false
	})
	reg("(*sync.Map).Range", func(m *Machine, fr *frame, a []Value) Value {
		mp := sm(m, a[0])
		m.yield("sync.Map.Range")
		var idx []int
		for i := range mp.keys {
			if mp.live[i] {
				idx = append(idx, i)
			}
		}
		if m.cfg.MapOrderSymbolic && len(idx) > 1 {
			idx = m.permute(idx)
		}
		for _, i := range idx {
			if !mp.live[i] {
				continue
			}
			if !m.truth(m.call(fr, a[1], []Value{mp.keys[i], mp.vals[i]}, nil), "sync.Map.Range callback") {
				break
			}
		}
		return nil
	})
	reg("(*sync.Map).Clear", func(m *Machine, fr *frame, a []Value) Value {
		mp := sm(m, a[0])
		for i := range mp.keys {
			mp.removeAt(i)
		}
		return nil
	})

	// sync/atomic functions
	type ai struct {
		name   string
		w      int
		signed bool
	}
	for _, k := range []ai{{"Int32", 32, true}, {"Int64", 64, true}, {"Uint32", 32, false}, {"Uint64", 64, false}, {"Uintptr", 64, false}} {
		k := k
		var t types.Type
		switch k.name {
		case "Int32":
			t = types.Typ[types.Int32]
		case "Int64":
			t = types.Typ[types.Int64]
		case "Uint32":
			t = types.Typ[types.Uint32]
		case "Uint64":
			t = types.Typ[types.Uint64]
		default:
			t = types.Typ[types.Uintptr]
		}
		reg("sync/atomic.Load"+k.name, func(m *Machine, fr *frame, a []Value) Value {
			m.yield("atomic.Load")
			return m.load(a[0])
		})
		reg("sync/atomic.Store"+k.name, func(m *Machine, fr *frame, a []Value) Value {
			m.yield("atomic.Store")
			m.store(a[0], a[1])
			return nil
		})
		reg("sync/atomic.Add"+k.name, func(m *Machine, fr *frame, a []Value) Value {
			m.yield("atomic.Add")
			nv := m.binop(token.ADD, t, m.load(a[0]), a[1], t)
			m.store(a[0], nv)
			return nv
		})
		reg("sync/atomic.Swap"+k.name, func(m *Machine, fr *frame, a []Value) Value {
			m.yield("atomic.Swap")
			old := m.load(a[0])
			m.store(a[0], a[1])
			return old
		})
		reg("sync/atomic.CompareAndSwap"+k.name, func(m *Machine, fr *frame, a []Value) Value {
			m.yield("atomic.CompareAndSwap")
			if m.truth(m.equals(t, m.load(a[0]), a[1]), "atomic.CompareAndSwap") {
				m.store(a[0], a[2])
				return true
			}
			return false
		})
		if k.name == "Int32" || k.name == "Uint32" || k.name == "Int64" || k.name == "Uint64" || k.name == "Uintptr" {
			reg("sync/atomic.And"+k.name, func(m *Machine, fr *frame, a []Value) Value {
				old := m.load(a[0])
				m.store(a[0], m.binop(token.AND, t, old, a[1], t))
				return old
			})
			reg("sync/atomic.Or"+k.name, func(m *Machine, fr *frame, a []Value) Value {
				old := m.load(a[0])
				m.store(a[0], m.binop(token.OR, t, old, a[1], t))
				return old
			})
		}
	}
	reg("sync/atomic.LoadPointer", func(m *Machine, fr *frame, a []Value) Value { m.yield("atomic.LoadPointer"); return m.load(a[0]) })
	reg("sync/atomic.StorePointer", func(m *Machine, fr *frame, a []Value) Value {
		m.yield("atomic.StorePointer")
		m.store(a[0], a[1])
		return nil
	})
	reg("sync/atomic.SwapPointer", func(m *Machine, fr *frame, a []Value) Value {
		m.yield("atomic.SwapPointer")
		old := m.load(a[0])
		m.store(a[0], a[1])
		return old
	})
	reg("sync/atomic.CompareAndSwapPointer", func(m *Machine, fr *frame, a []Value) Value {
		m.yield("atomic.CompareAndSwapPointer")
		if m.load(a[0]) == a[1] {
			m.store(a[0], a[2])
			return true
		}
		return false
	})
	// atomic.Value: struct{ v any }
	reg("(*sync/atomic.Value).Load", func(m *Machine, fr *frame, a []Value) Value {
		m.yield("atomic.Value.Load")
		return (*m.cellPtr(a[0])).(Struct)[0]
	})
	reg("(*sync/atomic.Value).Store", func(m *Machine, fr *frame, a []Value) Value {
		m.yield("atomic.Value.Store")
		if a[1].(Iface).t == nil {
			m.throwRuntime("sync/atomic: store of nil value into Value")
		}
		(*m.cellPtr(a[0])).(Struct)[0] = a[1]
		return nil
	})
	reg("(*sync/atomic.Value).Swap", func(m *Machine, fr *frame, a []Value) Value {
		m.yield("atomic.Value.Swap")
		st := (*m.cellPtr(a[0])).(Struct)
		old := st[0]
		st[0] = a[1]
		return old
	})
	reg("(*sync/atomic.Value).CompareAndSwap", func(m *Machine, fr *frame, a []Value) Value {
		m.yield("atomic.Value.CompareAndSwap")
		st := (*m.cellPtr(a[0])).(Struct)
		anyT := types.NewInterfaceType(nil, nil)
		if m.truth(m.equals(anyT, st[0], a[1]), "atomic.Value.CompareAndSwap") {
			st[0] = a[2]
			return true
		}
		return false
	})
	_ = fmt.Sprint
}
