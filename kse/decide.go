package main

// Decision points: symbolic branches, concretisation of symbolic integers,
// and finite picks (schedule, crash, map order). DFS by re-execution: a path
// is identified by its decision list; replaying a prefix needs no solver call.

import (
	"fmt"
	"strings"

	"golang.org/x/tools/go/ssa"
)

type Decision struct {
	K byte   `json:"k"` // 'b' branch, 'c' concretise, 'p' pick
	B bool   `json:"b"` // branch direction / concretise: eq (true) or neq (false)
	V uint64 `json:"v"` // concretise value / pick index
}

func (m *Machine) assertPC(t *Term) {
	if t.op == "true" {
		return
	}
	m.solver.Assert(t)
	m.pcN++
	if m.model != nil {
		v, ok := m.model.eval(t, map[*Term]uint64{})
		if !ok || v == 0 {
			m.model = nil
		}
	}
}

func (m *Machine) budgetDecision() {
	if len(m.trace) >= m.cfg.MaxDecisions {
		panic(pathEnd{kind: "budget", msg: fmt.Sprintf("decision budget %d exhausted (unwinding bound)", m.cfg.MaxDecisions)})
	}
}

func cloneTrace(tr []Decision, extra Decision) []Decision {
	c := make([]Decision, len(tr)+1)
	copy(c, tr)
	c[len(tr)] = extra
	return c
}

// check runs a feasibility query PC ∧ t.
func (m *Machine) check(t *Term) (string, *Model) {
	res, mo := m.solver.Check(t, true)
	if res == "dead" {
		m.solver.restart()
		panic(pathEnd{kind: "solver", msg: "solver process died: " + m.solver.lastErr})
	}
	return res, mo
}

func (m *Machine) decideBool(c *Term, why string) bool {
	switch c.op {
	case "true":
		return true
	case "false":
		return false
	}
	if m.pos < len(m.prefix) {
		d := m.prefix[m.pos]
		if d.K != 'b' {
			panic(fmt.Sprintf("replay divergence at %d: expected branch, have %c (%s)", m.pos, d.K, why))
		}
		m.pos++
		m.trace = append(m.trace, d)
		if d.B {
			m.assertPC(c)
		} else {
			m.assertPC(m.tf.Not(c))
		}
		return d.B
	}
	m.budgetDecision()
	m.res.Decisions++
	if whyLog != nil {
		whyLog(m, why)
	}
	nc := m.tf.Not(c)
	const (
		unk = iota
		yes
		no
	)
	canT, canF := unk, unk
	var moT, moF *Model
	if m.model != nil {
		v, ok := m.model.eval(c, map[*Term]uint64{})
		if ok {
			m.solver.stats.ModelHit++
			if v != 0 {
				canT, moT = yes, m.model
			} else {
				canF, moF = yes, m.model
			}
		}
	}
	if canT == unk {
		r, mo := m.check(c)
		switch r {
		case "sat":
			canT, moT = yes, mo
		case "unsat":
			canT = no
		default:
			canT = yes
			m.feasUnknown = true
			m.res.FeasUnknown++
		}
	}
	if canF == unk {
		if canT == no {
			canF = yes // PC is satisfiable, so the other side is
			// (unless an earlier unknown was kept; checked lazily later)
			if m.feasUnknown {
				r, mo := m.check(nc)
				if r == "unsat" {
					panic(pathEnd{kind: "infeasible"})
				}
				moF = mo
			}
		} else {
			r, mo := m.check(nc)
			switch r {
			case "sat":
				canF, moF = yes, mo
			case "unsat":
				canF = no
			default:
				canF = yes
				m.feasUnknown = true
				m.res.FeasUnknown++
			}
		}
	}
	if canT == no && canF == no {
		panic(pathEnd{kind: "infeasible"})
	}
	take := canT == yes
	if canT == yes && canF == yes {
		m.pending = append(m.pending, cloneTrace(m.trace, Decision{K: 'b', B: false}))
		m.res.Forks++
	}
	m.trace = append(m.trace, Decision{K: 'b', B: take})
	if take {
		m.model = moT
		m.solver.Assert(c)
	} else {
		m.model = moF
		m.solver.Assert(nc)
	}
	m.pcN++
	return take
}

// concretize enumerates the feasible values of t (one per path).
func (m *Machine) concretize(t *Term, why string) uint64 {
	if t.isConst() {
		return t.val
	}
	n := 0
	for {
		if m.pos < len(m.prefix) {
			d := m.prefix[m.pos]
			if d.K != 'c' {
				panic(fmt.Sprintf("replay divergence at %d: expected concretise, have %c (%s)", m.pos, d.K, why))
			}
			m.pos++
			m.trace = append(m.trace, d)
			eq := m.tf.Eq(t, m.tf.BV(d.V, t.w))
			if d.B {
				m.assertPC(eq)
				return d.V
			}
			m.assertPC(m.tf.Not(eq))
			n++
			continue
		}
		m.budgetDecision()
		m.res.Decisions++
		if whyLog != nil {
			whyLog(m, "concretize: "+why)
		}
		if n >= m.cfg.MaxConcretize {
			panic(pathEnd{kind: "budget", msg: fmt.Sprintf("more than %d feasible values for %s", m.cfg.MaxConcretize, why)})
		}
		var v uint64
		have := false
		if m.model != nil {
			if x, ok := m.model.eval(t, map[*Term]uint64{}); ok {
				v, have = x, true
				m.solver.stats.ModelHit++
			}
		}
		if !have {
			r, mo := m.check(nil)
			if r == "unsat" {
				panic(pathEnd{kind: "infeasible"})
			}
			if r != "sat" || mo == nil {
				panic(pathEnd{kind: "unknown", msg: "solver returned " + r + " while concretising " + why})
			}
			m.model = mo
			x, ok := mo.eval(t, map[*Term]uint64{})
			if !ok {
				panic(pathEnd{kind: "unknown", msg: "cannot evaluate term under model while concretising " + why})
			}
			v = x
		}
		eq := m.tf.Eq(t, m.tf.BV(v, t.w))
		// other values?
		r, _ := m.check(m.tf.Not(eq))
		if r != "unsat" {
			if r != "sat" {
				m.feasUnknown = true
				m.res.FeasUnknown++
			}
			m.pending = append(m.pending, cloneTrace(m.trace, Decision{K: 'c', B: false, V: v}))
			m.res.Forks++
		}
		m.trace = append(m.trace, Decision{K: 'c', B: true, V: v})
		mo := m.model
		m.solver.Assert(eq)
		m.pcN++
		m.model = mo // model satisfies eq by construction
		return v
	}
}

// concretizeInt accepts concrete or symbolic integers (canonical form is
// restored for 64-bit values only; callers use it for int-typed sizes).
func (m *Machine) concretizeInt(v Value, why string) uint64 {
	switch v := v.(type) {
	case uint64:
		return v
	case *Term:
		x := m.concretize(v, why)
		// sizes and indices are int-typed in SSA (64-bit); narrower terms are
		// sign-extended conservatively
		if v.w < 64 {
			return uint64(sext(x, v.w))
		}
		return x
	}
	panic(fmt.Sprintf("concretizeInt: %T", v))
}

// pick chooses among n alternatives without consulting the solver.
func (m *Machine) pick(n int, why string) int {
	if n <= 1 {
		return 0
	}
	if strings.HasPrefix(why, "preempt") || strings.HasPrefix(why, "schedule") || strings.HasPrefix(why, "select") || strings.HasPrefix(why, "map iteration") || strings.HasPrefix(why, "rand.") {
		m.envPicks++ // decisions the native runtime takes on its own (not forced by replay values)
	}
	if m.pos < len(m.prefix) {
		d := m.prefix[m.pos]
		if d.K != 'p' {
			panic(fmt.Sprintf("replay divergence at %d: expected pick, have %c (%s)", m.pos, d.K, why))
		}
		m.pos++
		m.trace = append(m.trace, d)
		if pickLog != nil && (d.V != 0 || pickLogAll) {
			pickLog(m, why, int(d.V)) // model_picklog.go
		}
		return int(d.V)
	}
	m.budgetDecision()
	m.res.Decisions++
	for k := n - 1; k >= 1; k-- {
		m.pending = append(m.pending, cloneTrace(m.trace, Decision{K: 'p', V: uint64(k)}))
		m.res.Forks++
	}
	m.trace = append(m.trace, Decision{K: 'p', V: 0})
	return 0
}

// tryMergeDiamond handles  if c { cheap } else { cheap }; phi  without forking
// when both arms are side-effect free scalar computations.
func (m *Machine) tryMergeDiamond(fr *frame, in *ssa.If, c *Term) bool {
	if m.cfg.NoMerge {
		return false
	}
	blk := fr.block
	tB, fB := blk.Succs[0], blk.Succs[1]
	var join *ssa.BasicBlock
	armOK := func(b *ssa.BasicBlock) (*ssa.BasicBlock, bool) {
		// b is either the join itself or a single-pred block of safe
		// instructions jumping to the join
		if len(b.Preds) != 1 {
			return nil, false
		}
		if len(b.Instrs) > 12 {
			return nil, false
		}
		for _, i := range b.Instrs[:len(b.Instrs)-1] {
			switch x := i.(type) {
			case *ssa.BinOp:
				switch x.Op.String() {
				case "/", "%", "<<", ">>":
					return nil, false
				}
				if !isScalarT(x.X.Type()) {
					return nil, false
				}
			case *ssa.Convert:
				if !isScalarT(x.X.Type()) || !isScalarT(x.Type()) {
					return nil, false
				}
			case *ssa.UnOp:
				if x.Op.String() == "*" || x.Op.String() == "<-" {
					return nil, false
				}
			case *ssa.DebugRef, *ssa.ChangeType:
			default:
				return nil, false
			}
		}
		j, ok := b.Instrs[len(b.Instrs)-1].(*ssa.Jump)
		if !ok {
			return nil, false
		}
		_ = j
		return b.Succs[0], true
	}
	var tArm, fArm *ssa.BasicBlock
	// shapes: (T arm, F arm) → join; (T arm) → join == F; (F arm) → join == T
	if j1, ok := armOK(tB); ok {
		if j2, ok2 := armOK(fB); ok2 && j1 == j2 {
			join, tArm, fArm = j1, tB, fB
		} else if j1 == fB {
			join, tArm = fB, tB
		}
	}
	if join == nil {
		if j2, ok := armOK(fB); ok && j2 == tB {
			join, fArm = tB, fB
		}
	}
	if join == nil || len(join.Preds) != 2 {
		return false
	}
	// join must start with phis whose types are scalar
	nphi := 0
	for _, i := range join.Instrs {
		p, ok := i.(*ssa.Phi)
		if !ok {
			break
		}
		if !isScalarT(p.Type()) {
			return false
		}
		nphi++
	}
	if nphi == 0 {
		return false
	}
	// evaluate arms
	runArm := func(b *ssa.BasicBlock) {
		if b == nil {
			return
		}
		for _, i := range b.Instrs[:len(b.Instrs)-1] {
			m.visit(fr, i)
		}
	}
	runArm(tArm)
	runArm(fArm)
	predOf := func(arm *ssa.BasicBlock) *ssa.BasicBlock {
		if arm != nil {
			return arm
		}
		return blk
	}
	tp, fp := predOf(tArm), predOf(fArm)
	ti, fi := -1, -1
	for i, p := range join.Preds {
		if p == tp {
			ti = i
		}
		if p == fp {
			fi = i
		}
	}
	if ti < 0 || fi < 0 || ti == fi {
		return false
	}
	vals := make([]Value, nphi)
	for k := 0; k < nphi; k++ {
		p := join.Instrs[k].(*ssa.Phi)
		a, b := fr.get(p.Edges[ti]), fr.get(p.Edges[fi])
		at, bt := m.toTerm(a, p.Type()), m.toTerm(b, p.Type())
		vals[k] = m.fromTerm(m.tf.Ite(c, at, bt), p.Type())
	}
	for k := 0; k < nphi; k++ {
		fr.set(join.Instrs[k].(*ssa.Phi), vals[k])
	}
	m.res.Merges++
	// continue in join after the phis: emulate by setting prevBlock to a
	// predecessor and pre-setting phis; runFrame re-evaluates phis from
	// prevBlock, so point the edges' values: simplest is to execute the
	// remainder of join here.
	fr.prevBlock = tp
	fr.block = join
	fr.skipPhis = nphi
	return true
}
