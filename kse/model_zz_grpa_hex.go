package main

// encoding/hex with provenance: the characters produced by hex.Encode for a
// symbolic byte are remembered, so that hex.Decode of such characters (the
// digest round trip hex.EncodeToString -> ValidateSHA256 -> hex.DecodeString in
// core.Digester) yields the original byte without two table-lookup queries per
// character. Any other input runs the real code.

type hexOrigin struct {
	src *Term
	hi  bool
}

const hexDigits = "0123456789abcdef"

type hexOriginMap = map[*Term]hexOrigin

func init() {
	regIfAbsent("encoding/hex.Encode", func(m *Machine, fr *frame, a []Value) Value {
		dst, src := a[0].(Slice), a[1].(Slice)
		if len(dst.a) < 2*len(src.a) {
			m.throwRuntime("index out of range (hex.Encode)")
		}
		table := strBytes(hexDigits)
		var org hexOriginMap
		for i, v := range src.a {
			switch x := v.(type) {
			case uint64:
				dst.a[2*i] = uint64(hexDigits[byte(x)>>4])
				dst.a[2*i+1] = uint64(hexDigits[byte(x)&0x0f])
			case *Term:
				if org == nil {
					org = m.hexOriginTable()
				}
				hiIdx := m.tf.Extend(m.tf.Bin("bvlshr", x, m.tf.BV(4, 8)), 64, false)
				loIdx := m.tf.Extend(m.tf.Bin("bvand", x, m.tf.BV(0x0f, 8)), 64, false)
				hc := m.symRead(table, hiIdx, 8, false)
				lc := m.symRead(table, loIdx, 8, false)
				dst.a[2*i], dst.a[2*i+1] = hc, lc
				if t, ok := hc.(*Term); ok {
					org[t] = hexOrigin{x, true}
				}
				if t, ok := lc.(*Term); ok {
					org[t] = hexOrigin{x, false}
				}
			default:
				m.unsupported("hex.Encode of %T", v)
			}
		}
		return i64(2 * len(src.a))
	})

	regIfAbsent("encoding/hex.Decode", func(m *Machine, fr *frame, a []Value) Value {
		dst, src := a[0].(Slice), a[1].(Slice)
		fast := len(src.a)%2 == 0 && len(dst.a) >= len(src.a)/2
		out := make([]Value, len(src.a)/2)
		var org hexOriginMap
		unhex := func(c byte) (byte, bool) {
			switch {
			case '0' <= c && c <= '9':
				return c - '0', true
			case 'a' <= c && c <= 'f':
				return c - 'a' + 10, true
			case 'A' <= c && c <= 'F':
				return c - 'A' + 10, true
			}
			return 0, false
		}
		for i := 0; fast && i < len(out); i++ {
			p, q := src.a[2*i], src.a[2*i+1]
			pc, pok := p.(uint64)
			qc, qok := q.(uint64)
			if pok && qok {
				x, ok1 := unhex(byte(pc))
				y, ok2 := unhex(byte(qc))
				if !ok1 || !ok2 {
					fast = false
					break
				}
				out[i] = uint64(x<<4 | y)
				continue
			}
			pt, ok1 := p.(*Term)
			qt, ok2 := q.(*Term)
			if !ok1 || !ok2 {
				fast = false
				break
			}
			if org == nil {
				org = m.hexOriginTable()
			}
			po, ok1 := org[pt]
			qo, ok2 := org[qt]
			if !ok1 || !ok2 || po.src != qo.src || !po.hi || qo.hi {
				fast = false
				break
			}
			out[i] = po.src
		}
		if fast {
			copy(dst.a, out)
			return Tuple{i64(len(out)), Iface{}}
		}
		// everything else: the real code
		fi := m.info(fr.fn)
		saved := fi.intr
		fi.intr = nil
		defer func() { fi.intr = saved }()
		return m.callSSA(fr.caller, fr.fn, a, nil)
	})
}

func (m *Machine) hexOriginTable() hexOriginMap {
	k := sideKey{nil, "hexorigin"}
	if v, ok := m.side[k]; ok {
		return v.(hexOriginMap)
	}
	t := hexOriginMap{}
	m.side[k] = t
	return t
}
