package main

// Models added for the origin/proxy store properties (C01, C05, C10, C11):
// context.WithValue (its reflectlite comparability check is not interpretable),
// docker/distribution uuid generation, and concretisation of file-system
// paths whose bytes are symbolic (see cpathSym).

import (
	"fmt"
	"go/types"
	"os"
)

func regIfAbsent(name string, f intrinsic) {
	if _, dup := intrinsics[name]; dup {
		return
	}
	intrinsics[name] = f
}

func init() {
	// context.WithValue(parent, key, val) = &valueCtx{parent, key, val}; the
	// panics for nil parent / nil or non-comparable key are not modelled (the
	// callers in kraken and chi use package-level pointer or struct keys).
	regIfAbsent("context.WithValue", func(m *Machine, fr *frame, a []Value) Value {
		cp := m.prog.ImportedPackage("context")
		if cp == nil || cp.Type("valueCtx") == nil {
			m.unsupported("context.WithValue: package context not loaded")
		}
		vt := cp.Type("valueCtx").Type()
		st := zero(vt).(Struct)
		sti := vt.Underlying().(*types.Struct)
		for i := 0; i < sti.NumFields(); i++ {
			switch sti.Field(i).Name() {
			case "Context":
				st[i] = a[0]
			case "key":
				st[i] = a[1]
			case "val":
				st[i] = a[2]
			}
		}
		p := new(Value)
		*p = st
		return Iface{t: types.NewPointer(vt), v: p}
	})

	// uuid.Generate(): distinct, deterministic 16-byte values (version 4 layout).
	regIfAbsent("github.com/docker/distribution/uuid.Generate", func(m *Machine, fr *frame, a []Value) Value {
		m.uuidSeq++
		u := make(Array, 16)
		for i := range u {
			u[i] = uint64(0)
		}
		u[6] = uint64(0x40)
		u[8] = uint64(0x80)
		s := fmt.Sprintf("%012d", m.uuidSeq)
		// last six bytes carry the sequence number as BCD so that the text
		// form is readable: 00000000-0000-4000-8000-<12 digits>
		for i := 0; i < 6; i++ {
			u[10+i] = uint64((s[2*i]-'0')<<4 | (s[2*i+1] - '0'))
		}
		return u
	})
}

// cpathSym resolves a path whose bytes are (partly) symbolic: every symbolic
// byte is case-split over its feasible values (bounded by max_concretize), so
// the file-system model only ever sees concrete paths while the code under
// test has classified the bytes with its own comparisons before.
func (m *Machine) cpathSym(s *SymStr, op string) string {
	bs := make([]byte, len(s.b))
	for i, x := range s.b {
		switch x := x.(type) {
		case uint64:
			bs[i] = byte(x)
		case *Term:
			bs[i] = byte(m.concretize(x, "path byte ("+op+")"))
		default:
			m.unsupported("file-system %s with a path byte of type %T", op, x)
		}
	}
	return string(bs)
}

func init() {
	// (url.EscapeError).Error() = "invalid URL escape " + strconv.Quote(e).
	// Quoting symbolic bytes forks on every printable-class test of strconv;
	// the text of this error message is never inspected by kraken, so for a
	// symbolic operand the quoted part is replaced by a placeholder.
	regIfAbsent("(net/url.EscapeError).Error", func(m *Machine, fr *frame, a []Value) Value {
		if s, ok := a[0].(string); ok {
			return "invalid URL escape " + fmt.Sprintf("%q", s)
		}
		return "invalid URL escape \"<symbolic>\""
	})
}

func init() {
	// (uuid.UUID).String(): "%08x-%04x-%04x-%04x-%012x" over byte slices.
	regIfAbsent("(github.com/docker/distribution/uuid.UUID).String", func(m *Machine, fr *frame, a []Value) Value {
		u, ok := a[0].(Array)
		if !ok || len(u) != 16 {
			m.unsupported("uuid.UUID.String on %T", a[0])
		}
		b := make([]byte, 16)
		for i, x := range u {
			c, ok := x.(uint64)
			if !ok {
				m.unsupported("uuid.UUID.String on symbolic bytes")
			}
			b[i] = byte(c)
		}
		return fmt.Sprintf("%08x-%04x-%04x-%04x-%012x", b[:4], b[4:6], b[6:8], b[8:10], b[10:])
	})
}

func init() {
	// crypto.Hash.New looks the constructor up in a table filled by the hash
	// packages' init functions, which are not run; only SHA256 (core.Digester)
	// is mapped to the sha256 model.
	regIfAbsent("(crypto.Hash).New", func(m *Machine, fr *frame, a []Value) Value {
		h, ok := a[0].(uint64)
		if !ok || h != 5 {
			m.unsupported("crypto.Hash(%v).New: only SHA256 is modelled", a[0])
		}
		return intrinsics["crypto/sha256.New"](m, fr, nil)
	})
	regIfAbsent("(crypto.Hash).Available", func(m *Machine, fr *frame, a []Value) Value {
		h, ok := a[0].(uint64)
		return ok && h == 5
	})
}

// whyLog (KSE_WHY=1): print the reason of every fresh branch decision to
// stderr, for finding the source of decision-heavy paths.
var whyLog func(m *Machine, why string)

func init() {
	if os.Getenv("KSE_WHY") != "" {
		whyLog = func(m *Machine, why string) {
			fn := ""
			if m.lastFn != nil {
				fn = m.lastFn.String()
			}
			fmt.Fprintln(os.Stderr, "KSE_WHY", why, fn)
		}
	}
}

// termUB is a cheap syntactic upper bound of an unsigned bit-vector term; it
// lets index bound checks such as hextable[b>>4] pass without a solver query.
func termUB(t *Term) uint64 {
	full := ^uint64(0)
	if t.w > 0 && t.w < 64 {
		full = (uint64(1) << uint(t.w)) - 1
	}
	if t.isConst() {
		return t.val
	}
	switch t.op {
	case "zero_extend":
		return termUB(t.args[0])
	case "extract":
		return full
	case "bvlshr":
		if len(t.args) == 2 && t.args[1].isConst() && t.args[1].val < 64 {
			return termUB(t.args[0]) >> t.args[1].val
		}
	case "bvand":
		if len(t.args) == 2 {
			a, b := termUB(t.args[0]), termUB(t.args[1])
			if a < b {
				return a
			}
			return b
		}
	case "ite":
		if len(t.args) == 3 {
			a, b := termUB(t.args[1]), termUB(t.args[2])
			if a > b {
				return a
			}
			return b
		}
	}
	return full
}
