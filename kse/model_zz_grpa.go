package main

// Models added for the origin/proxy store properties (C01, C05, C10, C11):
// context.WithValue (its reflectlite comparability check is not interpretable),
// docker/distribution uuid generation, and concretisation of file-system
// paths whose bytes are symbolic (see cpathSym).

import (
	"fmt"
	"go/types"
)

func regIfAbsent(name string, f intrinsic) {
	if _, dup := intrinsics[name]; dup {
		return
	}
	intrinsics[name] = f
}

func init() {
	// context.WithValue(parent, key, val) = &valueCtx{parent, key, val}; the
	// panics for nil parent / nil or non-comparable key are not modelled (the
	// callers in kraken and chi use package-level pointer or struct keys).
	regIfAbsent("context.WithValue", func(m *Machine, fr *frame, a []Value) Value {
		cp := m.prog.ImportedPackage("context")
		if cp == nil || cp.Type("valueCtx") == nil {
			m.unsupported("context.WithValue: package context not loaded")
		}
		vt := cp.Type("valueCtx").Type()
		st := zero(vt).(Struct)
		sti := vt.Underlying().(*types.Struct)
		for i := 0; i < sti.NumFields(); i++ {
			switch sti.Field(i).Name() {
			case "Context":
				st[i] = a[0]
			case "key":
				st[i] = a[1]
			case "val":
				st[i] = a[2]
			}
		}
		p := new(Value)
		*p = st
		return Iface{t: types.NewPointer(vt), v: p}
	})

	// uuid.Generate(): distinct, deterministic 16-byte values (version 4 layout).
	regIfAbsent("github.com/docker/distribution/uuid.Generate", func(m *Machine, fr *frame, a []Value) Value {
		m.uuidSeq++
		u := make(Array, 16)
		for i := range u {
			u[i] = uint64(0)
		}
		u[6] = uint64(0x40)
		u[8] = uint64(0x80)
		s := fmt.Sprintf("%012d", m.uuidSeq)
		// last six bytes carry the sequence number as BCD so that the text
		// form is readable: 00000000-0000-4000-8000-<12 digits>
		for i := 0; i < 6; i++ {
			u[10+i] = uint64((s[2*i]-'0')<<4 | (s[2*i+1] - '0'))
		}
		return u
	})
}

// cpathSym resolves a path whose bytes are (partly) symbolic: every symbolic
// byte is case-split over its feasible values (bounded by max_concretize), so
// the file-system model only ever sees concrete paths while the code under
// test has classified the bytes with its own comparisons before.
func (m *Machine) cpathSym(s *SymStr, op string) string {
	bs := make([]byte, len(s.b))
	for i, x := range s.b {
		switch x := x.(type) {
		case uint64:
			bs[i] = byte(x)
		case *Term:
			bs[i] = byte(m.concretize(x, "path byte ("+op+")"))
		default:
			m.unsupported("file-system %s with a path byte of type %T", op, x)
		}
	}
	return string(bs)
}

func init() {
	// (url.EscapeError).Error() = "invalid URL escape " + strconv.Quote(e).
	// Quoting symbolic bytes forks on every printable-class test of strconv;
	// the text of this error message is never inspected by kraken, so for a
	// symbolic operand the quoted part is replaced by a placeholder.
	regIfAbsent("(net/url.EscapeError).Error", func(m *Machine, fr *frame, a []Value) Value {
		if s, ok := a[0].(string); ok {
			return "invalid URL escape " + fmt.Sprintf("%q", s)
		}
		return "invalid URL escape \"<symbolic>\""
	})
}
