package main

// Path exploration: DFS by re-execution over decision prefixes, distributed
// over workers (each with its own solver process).

import (
	"fmt"
	"os"
	"os/exec"
	"runtime/debug"
	"sort"
	"strings"
	"sync"
	"time"

	"golang.org/x/tools/go/ssa"
)

type RunConfig struct {
	Tier             string
	MaxInstrs        int64
	MaxDecisions     int
	MaxConcretize    int
	MaxThreads       int
	MaxPreempt       int
	MaxAlloc         int64
	MaxPaths         int
	MapOrderSymbolic bool
	NoMerge          bool
	TimeoutMs        int
	Workers          int
	SolverBin        string
	Deadline         time.Time
	LogDir           string
	Verbose          bool
	AllocIsViolation bool
	PanicIsViolation bool
	SchedFixed       bool // option sched_fixed: no decision at blocking/exit switches (first enabled thread runs)
	HrwScoreUF       bool // option hrw_score_uninterpreted: see model_symfloat.go
	SamplePaths      int
	ShadowBin        string // second solver cross-checking assertion verdicts ("" = off)
	Forced           map[string]uint64 // interpreter replay: nondet values fixed to a model
}

func defaultConfig(tier string) *RunConfig {
	c := &RunConfig{
		Tier: tier, MaxInstrs: 20_000_000, MaxDecisions: 4000, MaxConcretize: 70, MaxThreads: 8, MaxPreempt: 2,
		MaxAlloc: 1 << 22, MaxPaths: 200000, TimeoutMs: 30000, Workers: 8, SolverBin: defaultSolver(), SamplePaths: 8,
	}
	if tier == "thorough" {
		c.TimeoutMs = 60000
		c.MaxPaths = 2000000
		c.Workers = 16
		if p, err := exec.LookPath("z3"); err == nil && os.Getenv("KSE_NO_SHADOW") == "" {
			c.ShadowBin = p // z3 4.8.12 cross-checks the verdicts of z3 5.1 on assertion queries
		}
	}
	if s := os.Getenv("KSE_SHADOW"); s != "" {
		c.ShadowBin = s
	}
	return c
}

type AssertRec struct {
	Label string `json:"label"`
	N     int    `json:"n"`
}

type Violation struct {
	Harness string            `json:"harness"`
	Label   string            `json:"label"`
	Kind    string            `json:"kind"` // assert, panic, deadlock, hugealloc, fatal
	Msg     string            `json:"msg"`
	Values  map[string]string `json:"values"`
	Order   []string          `json:"order"`
	Trace   []Decision        `json:"trace"`
	FS      []FSEntry         `json:"fs,omitempty"`
	Sig     string            `json:"signature"`
	EnvDep  bool              `json:"depends_on_schedule_or_map_order"`
	Count   int               `json:"count"`
}

type PathResult struct {
	Status        string
	Msg           string
	Decisions     int
	Forks         int
	Merges        int
	Threads       int
	Switches      int
	FeasUnknown   int
	Instrs        int64
	SolverDec     bool
	Trace         []Decision
	Violation     *Violation
	Covers        map[string]bool
	Proved        map[string]int // assertion label → discharged (unsat or concretely true) count
	Unknown       map[string]int
	Assumes       map[string]bool
	Sample        map[string]string
	RuntimePanics []string
	Bounds        map[string]int
	Notes         map[string]bool
	Tags          []string
	CrashPoints   int
}

func (r *PathResult) noteRuntimePanic(msg string) {
	if len(r.RuntimePanics) < 8 {
		r.RuntimePanics = append(r.RuntimePanics, msg)
	}
}
func (r *PathResult) noteExplicitPanic(fn string)      {}
func (r *PathResult) noteHugeAlloc(fn string, n int64) {}

type HarnessResult struct {
	Name        string              `json:"harness"`
	Paths       int                 `json:"paths"`
	ByStatus    map[string]int      `json:"paths_by_status"`
	Decisions   int                 `json:"decision_points"`
	Forks       int                 `json:"forks"`
	Merges      int                 `json:"diamond_merges"`
	SolverPaths int                 `json:"paths_with_solver_decided_branch"`
	Distinct    int                 `json:"distinct_decision_sequences"`
	Instrs      int64               `json:"ssa_instructions_executed"`
	Solver      SolverStats         `json:"solver"`
	Proved      map[string]int      `json:"assertions_discharged"`
	Unknown     map[string]int      `json:"assertions_unknown,omitempty"`
	Covers      []string            `json:"covers_hit"`
	CoversMiss  []string            `json:"covers_missed,omitempty"`
	Assumes     []string            `json:"assumptions"`
	Violations  []*Violation        `json:"violations,omitempty"`
	Incon       map[string]int      `json:"inconclusive_reasons,omitempty"`
	Funcs       []string            `json:"functions_encoded"`
	Stubs       []string            `json:"models_hit"`
	Samples     []map[string]string `json:"samples"`
	Bounds      map[string]int      `json:"bounds"`
	Notes       []string            `json:"notes,omitempty"`
	Wall        float64             `json:"wall_s"`
	Threads     int                 `json:"threads_spawned"`
	Switches    int                 `json:"context_switches"`
	FeasUnknown int                 `json:"feasibility_unknown_kept"`
	CrashPoints int                 `json:"crash_points_max"`
	Internal    []string            `json:"internal_errors,omitempty"`
	TimedOut    bool                `json:"timed_out,omitempty"`
	PathCapHit  bool                `json:"path_cap_hit,omitempty"`
	Validated   int            `json:"sample_paths_validated_natively"`
	declCovers  map[string]bool
}

func newMachine(w *World, s *Solver, cfg *RunConfig, prefix []Decision) *Machine {
	m := &Machine{
		w: w, prog: w.prog, tf: newTermFactory(), solver: s, cfg: cfg,
		globals: map[*ssa.Global]*Value{}, inited: map[*ssa.Package]int{}, infos: map[*ssa.Function]*fnInfo{},
		prefix: prefix, nondetSeq: map[string]int{}, funcsSeen: map[string]bool{}, stubsSeen: map[string]bool{},
		side: map[interface{}]interface{}{},
	}
	m.res = &PathResult{Covers: map[string]bool{}, Proved: map[string]int{}, Unknown: map[string]int{}, Assumes: map[string]bool{}, Bounds: map[string]int{}, Notes: map[string]bool{}}
	m.installScaledHook() // model_zz_grpa_scaled.go
	main := m.newThread()
	main.isMain = true
	main.started = true
	m.cur = main
	m.fs = newFS()
	return m
}

// runPath executes one path of harness fn following prefix.
func runPath(w *World, s *Solver, cfg *RunConfig, fn *ssa.Function, prefix []Decision, infoCache map[*ssa.Function]*fnInfo) (*Machine, *PathResult) {
	pcfg := *cfg // harness options are per path (set again on each re-execution)
	m := newMachine(w, s, &pcfg, prefix)
	if infoCache != nil {
		m.infos = infoCache
	}
	s.PathBegin()
	q0 := s.stats.Queries + s.stats.DomUnsat + s.stats.ModelHit
	func() {
		defer func() {
			r := recover()
			if r == nil {
				return
			}
			switch r := r.(type) {
			case pathEnd:
				m.res.Status, m.res.Msg = r.kind, r.msg
			case targetPanic:
				m.res.Status = "panic"
				m.res.Msg = "uncaught panic: " + m.panicString(r)
			case crashSignal:
				m.res.Status = "internal"
				m.res.Msg = "crash outside CrashScope"
			default:
				m.res.Status = "internal"
				at := ""
				if m.lastInstr != nil {
					at = fmt.Sprintf(" at [%s] in %s (%s) stack: %s", m.lastInstr, m.lastFn, m.prog.Fset.Position(m.lastInstr.Pos()), m.targetStack())
				}
				m.res.Msg = fmt.Sprintf("interpreter error: %v%s\n%s", r, at, trimStack(debug.Stack()))
			}
		}()
		m.callSSA(nil, fn, nil, nil)
		m.res.Status = "done"
	}()
	func() {
		defer func() { recover() }()
		m.shutdownThreads()
	}()
	if m.internalErr != "" && m.res.Status != "internal" {
		m.res.Status, m.res.Msg = "internal", m.internalErr
	}
	// implicit obligations
	if m.res.Violation == nil {
		func() {
			defer func() {
				if r := recover(); r != nil {
					if pe, ok := r.(pathEnd); ok {
						m.res.Status, m.res.Msg = pe.kind, pe.msg
						return
					}
					panic(r)
				}
			}()
			m.implicitObligations()
		}()
	}
	if false {
		switch m.res.Status {
		case "panic":
			if m.cfg.PanicIsViolation {
				m.violation("no-panic", "panic", m.res.Msg)
			}
		case "deadlock":
			m.violation("no-deadlock", "deadlock", m.res.Msg)
		case "hugealloc":
			if m.cfg.AllocIsViolation {
				m.violation("bounded-alloc", "hugealloc", m.res.Msg)
			}
		case "fatal":
			if m.cfg.PanicIsViolation {
				m.violation("no-fatal", "fatal", m.res.Msg)
			}
		}
	}
	if m.res.Status == "done" && m.res.Sample == nil && len(m.nondets) > 0 && cfg.SamplePaths > 0 {
		m.res.Sample = m.sampleValues()
		if m.res.Sample != nil && m.crashed {
			// a crashed path can only be re-run natively from its file-system
			// snapshot (counterexample replay does that); it is not used for the
			// native validation of sample paths
			m.res.Sample["__crashed_path"] = "1"
		}
	}
	m.res.Trace = m.trace
	m.res.Instrs = m.instrs
	m.res.CrashPoints = m.fsSteps
	for _, d := range m.trace {
		if d.K == 'b' || d.K == 'c' {
			m.res.SolverDec = true
			break
		}
	}
	// a path is also solver-decided when an assertion, assumption or cover on
	// it was discharged by a solver query
	if s.stats.Queries+s.stats.DomUnsat+s.stats.ModelHit > q0 && (len(m.res.Proved) > 0 || m.res.Violation != nil) {
		m.res.SolverDec = true
	}
	s.PathEnd()
	return m, m.res
}

func trimStack(b []byte) string {
	lines := strings.Split(string(b), "\n")
	var out []string
	for _, l := range lines {
		if strings.Contains(l, "kse/") || strings.Contains(l, "main.") {
			out = append(out, strings.TrimSpace(l))
		}
		if len(out) > 24 {
			break
		}
	}
	return strings.Join(out, "\n")
}

func (m *Machine) panicString(tp targetPanic) string {
	switch v := tp.v.(type) {
	case Iface:
		if v.t == nil {
			return "nil"
		}
		if s, ok := v.v.(string); ok {
			if v.t == m.w.runtimeErrT {
				return "runtime error: " + s
			}
			return s
		}
		var out string
		func() {
			defer func() { recover() }()
			if r, ok := m.callMethod(nil, v, "Error"); ok {
				if s, ok := r.(string); ok {
					out = s
				}
			}
		}()
		if out != "" {
			return out
		}
		return fmt.Sprintf("(%s)", v.t)
	}
	return fmt.Sprintf("%v", tp.v)
}

func traceKey(tr []Decision) string {
	var sb strings.Builder
	for _, d := range tr {
		fmt.Fprintf(&sb, "%c%v%d;", d.K, d.B, d.V)
	}
	return sb.String()
}

// explore runs all paths of one harness.
func explore(w *World, cfg *RunConfig, fn *ssa.Function) *HarnessResult {
	t0 := time.Now()
	hr := &HarnessResult{Name: fn.Name(), ByStatus: map[string]int{}, Proved: map[string]int{}, Unknown: map[string]int{}, Incon: map[string]int{}, Bounds: map[string]int{}, declCovers: map[string]bool{}}
	var mu sync.Mutex
	cond := sync.NewCond(&mu)
	stack := [][]Decision{nil}
	inflight := 0
	covers := map[string]bool{}
	assumes := map[string]bool{}
	funcs := map[string]bool{}
	stubs := map[string]bool{}
	notes := map[string]bool{}
	seenTraces := map[string]bool{}
	vioBySig := map[string]*Violation{}
	stop := false
	var wg sync.WaitGroup
	nw := cfg.Workers
	if nw < 1 {
		nw = 1
	}
	for wi := 0; wi < nw; wi++ {
		wg.Add(1)
		go func(wi int) {
			defer wg.Done()
			logp := ""
			if cfg.LogDir != "" {
				logp = fmt.Sprintf("%s/%s.w%d.smt2", cfg.LogDir, fn.Name(), wi)
			}
			s, err := newSolver(cfg.SolverBin, cfg.TimeoutMs, logp)
			if err != nil {
				mu.Lock()
				hr.Internal = append(hr.Internal, "cannot start solver: "+err.Error())
				mu.Unlock()
				return
			}
			defer s.Close()
			if cfg.ShadowBin != "" {
				if sh, err := newSolver(cfg.ShadowBin, 3000, ""); err == nil {
					s.shadow = sh
					defer sh.Close()
				}
			}
			infoCache :=map[*ssa.Function]*fnInfo{}
			for {
				mu.Lock()
				for len(stack) == 0 && inflight > 0 && !stop {
					cond.Wait()
				}
				if stop || (len(stack) == 0 && inflight == 0) {
					mu.Unlock()
					cond.Broadcast()
					break
				}
				prefix := stack[len(stack)-1]
				stack = stack[:len(stack)-1]
				inflight++
				mu.Unlock()

				m, res := runPath(w, s, cfg, fn, prefix, infoCache)

				mu.Lock()
				inflight--
				hr.Paths++
				hr.ByStatus[res.Status]++
				hr.Decisions += res.Decisions
				hr.Forks += res.Forks
				hr.Merges += res.Merges
				hr.Instrs += res.Instrs
				hr.Threads += res.Threads
				hr.Switches += res.Switches
				hr.FeasUnknown += res.FeasUnknown
				if res.CrashPoints > hr.CrashPoints {
					hr.CrashPoints = res.CrashPoints
				}
				if res.SolverDec {
					hr.SolverPaths++
				}
				k := traceKey(res.Trace)
				if !seenTraces[k] {
					seenTraces[k] = true
					if res.SolverDec {
						hr.Distinct++
					}
				}
				for l, n := range res.Proved {
					hr.Proved[l] += n
				}
				for l, n := range res.Unknown {
					hr.Unknown[l] += n
				}
				for c := range res.Covers {
					covers[c] = true
				}
				for c := range m.declCovers {
					hr.declCovers[c] = true
				}
				for a := range res.Assumes {
					assumes[a] = true
				}
				for f := range m.funcsSeen {
					funcs[f] = true
				}
				for f := range m.stubsSeen {
					stubs[f] = true
				}
				for n := range res.Notes {
					notes[n] = true
				}
				for b, v := range res.Bounds {
					hr.Bounds[b] = v
				}
				if res.Sample != nil && len(hr.Samples) < cfg.SamplePaths {
					hr.Samples = append(hr.Samples, res.Sample)
				}
				switch res.Status {
				case "done", "infeasible", "assume", "violation":
				case "panic", "hugealloc", "fatal", "deadlock", "exit":
					// ends of paths that the harness did not forbid: fine,
					// unless configured as violations (handled in runPath)
				case "internal":
					if len(hr.Internal) < 5 {
						hr.Internal = append(hr.Internal, res.Msg)
					}
					hr.Incon["internal: "+firstLine(res.Msg)]++
				default:
					hr.Incon[res.Status+": "+firstLine(res.Msg)]++
				}
				if v := res.Violation; v != nil {
					if o, ok := vioBySig[v.Sig]; ok {
						o.Count++
					} else {
						v.Count = 1
						v.Harness = fn.Name()
						vioBySig[v.Sig] = v
						hr.Violations = append(hr.Violations, v)
					}
				}
				for i := len(m.pending) - 1; i >= 0; i-- {
					stack = append(stack, m.pending[i])
				}
				if hr.Paths+len(stack) > cfg.MaxPaths && len(stack) > 0 {
					hr.PathCapHit = true
					stack = nil
					stop = true
				}
				if !cfg.Deadline.IsZero() && time.Now().After(cfg.Deadline) && (len(stack) > 0 || inflight > 0) {
					hr.TimedOut = true
					stack = nil
					stop = true
				}
				if cfg.Verbose && hr.Paths%200 == 0 {
					fmt.Fprintf(os.Stderr, "  [%s] paths=%d stack=%d\n", fn.Name(), hr.Paths, len(stack))
				}
				hr.Solver.add(s.stats)
				s.stats = SolverStats{}
				mu.Unlock()
				cond.Broadcast()
			}
		}(wi)
	}
	wg.Wait()
	for c := range covers {
		hr.Covers = append(hr.Covers, c)
	}
	sort.Strings(hr.Covers)
	for c := range hr.declCovers {
		if !covers[c] {
			hr.CoversMiss = append(hr.CoversMiss, c)
		}
	}
	sort.Strings(hr.CoversMiss)
	for a := range assumes {
		hr.Assumes = append(hr.Assumes, a)
	}
	sort.Strings(hr.Assumes)
	for f := range funcs {
		hr.Funcs = append(hr.Funcs, f)
	}
	sort.Strings(hr.Funcs)
	for f := range stubs {
		hr.Stubs = append(hr.Stubs, f)
	}
	sort.Strings(hr.Stubs)
	for n := range notes {
		hr.Notes = append(hr.Notes, n)
	}
	sort.Strings(hr.Notes)
	hr.Wall = time.Since(t0).Seconds()
	return hr
}

func firstLine(s string) string {
	if i := strings.IndexByte(s, '\n'); i >= 0 {
		s = s[:i]
	}
	if len(s) > 160 {
		s = s[:160]
	}
	return s
}

func (m *Machine) targetStack() string {
	var sb strings.Builder
	n := 0
	for fr := m.lastFrame; fr != nil && n < 14; fr = fr.caller {
		sb.WriteString(fr.fn.String())
		sb.WriteString(" < ")
		n++
	}
	return sb.String()
}
