package main

// Interpreter replay of counterexamples whose native replay cannot be forced
// (thread schedules, map iteration order): the path is re-executed in the
// interpreter with every unknown fixed to the model's value and only the
// environment picks (schedule, map order, crash point) taken from the trace.
// The assertion must then fail concretely. This confirms the solver's model
// and the path against the real SSA; it does not exercise the native runtime,
// which is stated in the replay file.

import (
	"strconv"

	"golang.org/x/tools/go/ssa"
)

func (m *Machine) forcedTerm(name string, w int) *Term {
	v := m.cfg.Forced[name]
	if w == 0 {
		return m.tf.Bool(v != 0)
	}
	return m.tf.BV(v, w)
}

func interpReplay(w *World, cfg *RunConfig, fn *ssa.Function, v *Violation) (bool, string) {
	s, err := newSolver(cfg.SolverBin, cfg.TimeoutMs, "")
	if err != nil {
		return false, "cannot start solver"
	}
	defer s.Close()
	var picks []Decision
	for _, d := range v.Trace {
		if d.K == 'p' {
			picks = append(picks, d)
		}
	}
	c := *cfg
	c.Forced = map[string]uint64{}
	for k, sv := range v.Values {
		x, _ := strconv.ParseUint(sv, 10, 64)
		c.Forced[k] = x
	}
	c.Deadline = cfg.Deadline
	var ok bool
	var msg string
	func() {
		defer func() {
			if r := recover(); r != nil {
				msg = "interpreter replay diverged"
			}
		}()
		_, res := runPath(w, s, &c, fn, picks, nil)
		if res.Violation != nil && res.Violation.Label == v.Label {
			ok = true
			msg = "reproduced in the interpreter with all unknowns fixed to the model"
		} else {
			msg = "not reproduced in the interpreter: path ended as " + res.Status + " " + firstLine(res.Msg)
		}
	}()
	return ok, msg
}
