package main

// Threads (goroutines of the target program), channels and select. Exactly one
// thread runs at a time; a context switch can happen only at visible
// operations, where the next thread is a decision point.

import (
	"fmt"
	"go/types"

	"golang.org/x/tools/go/ssa"
)

type Thread struct {
	id      int
	wake    chan struct{}
	exited  chan struct{}
	done    bool
	started bool
	kill    bool
	blocked func() bool
	what    string
	isMain  bool
}

func (m *Machine) newThread() *Thread {
	t := &Thread{id: len(m.threads), wake: make(chan struct{}, 1), exited: make(chan struct{})}
	m.threads = append(m.threads, t)
	return t
}

func (t *Thread) enabled() bool {
	if t.done || t.kill {
		return false
	}
	return t.blocked == nil || t.blocked()
}

// spawn creates a new thread running fn(args...).
func (m *Machine) spawn(fn Value, args []Value) {
	if len(m.threads) >= m.cfg.MaxThreads {
		panic(pathEnd{kind: "budget", msg: fmt.Sprintf("thread bound %d exceeded", m.cfg.MaxThreads)})
	}
	t := m.newThread()
	m.res.Threads++
	go func() {
		defer close(t.exited)
		<-t.wake
		t.started = true
		if m.over || t.kill {
			t.done = true
			return
		}
		defer func() {
			r := recover()
			t.done = true
			if r == nil {
				m.threadExit(t)
				return
			}
			switch r := r.(type) {
			case pathEnd:
				if r.kind == "abort" {
					return
				}
				m.endFromThread(r)
			case targetPanic:
				m.endFromThread(pathEnd{kind: "panic", msg: "uncaught panic in goroutine: " + m.panicString(r)})
			case crashSignal:
				// the crash was decided in this thread
				m.crashPending = true
				m.killOthers(t)
				m.wakeMain()
			default:
				m.internalErr = fmt.Sprintf("interpreter error in goroutine: %v", r)
				m.endFromThread(pathEnd{kind: "internal", msg: m.internalErr})
			}
		}()
		m.call(nil, fn, args, nil)
	}()
	m.yield("go")
}

func (m *Machine) wakeMain() {
	main := m.threads[0]
	m.cur = main
	main.wake <- struct{}{}
}

// endFromThread ends the whole path from a non-main thread.
func (m *Machine) endFromThread(r pathEnd) {
	m.over = true
	m.overSignal = &r
	m.wakeMain()
}

// threadExit hands the baton on after a thread finished normally.
func (m *Machine) threadExit(t *Thread) {
	var en []*Thread
	for _, o := range m.threads {
		if o != t && o.enabled() {
			en = append(en, o)
		}
	}
	if len(en) == 0 {
		// everybody else is blocked: the main thread hangs
		m.endFromThread(pathEnd{kind: "deadlock", msg: "all threads blocked: " + m.blockedSummary()})
		return
	}
	k := 0
	if len(en) > 1 && !m.cfg.SchedFixed {
		func() {
			defer func() {
				if r := recover(); r != nil {
					if pe, ok := r.(pathEnd); ok {
						m.over = true
						m.overSignal = &pe
						k = -1
						return
					}
					panic(r)
				}
			}()
			k = m.pick(len(en), "schedule after thread exit")
		}()
		if k < 0 {
			m.wakeMain()
			return
		}
	}
	m.cur = en[k]
	en[k].wake <- struct{}{}
}

func (m *Machine) blockedSummary() string {
	s := ""
	for _, t := range m.threads {
		if !t.done && t.blocked != nil {
			s += fmt.Sprintf("[T%d: %s] ", t.id, t.what)
		}
	}
	return s
}

// park waits until this thread is scheduled again.
func (m *Machine) park(self *Thread) {
	<-self.wake
	if m.crashPending && self.isMain {
		m.crashPending = false
		panic(crashSignal{})
	}
	if m.over {
		if self.isMain && m.overSignal != nil {
			r := *m.overSignal
			m.overSignal = nil
			panic(r)
		}
		panic(pathEnd{kind: "abort"})
	}
	if self.kill {
		panic(pathEnd{kind: "abort"})
	}
}

func (m *Machine) switchTo(t *Thread) {
	self := m.cur
	m.cur = t
	m.res.Switches++
	t.wake <- struct{}{}
	m.park(self)
}

// yield is called at visible operations.
func (m *Machine) yield(why string) {
	if len(m.threads) <= 1 {
		return
	}
	self := m.cur
	var en []*Thread
	for _, o := range m.threads {
		if o != self && o.enabled() {
			en = append(en, o)
		}
	}
	if len(en) == 0 {
		return
	}
	if m.preempts >= m.cfg.MaxPreempt {
		return
	}
	k := m.pick(len(en)+1, "preempt at "+why)
	if k == 0 {
		return
	}
	m.preempts++
	m.switchTo(en[k-1])
}

// blockUntil parks the current thread until pred holds.
func (m *Machine) blockUntil(pred func() bool, what string) {
	self := m.cur
	for !pred() {
		self.blocked = pred
		self.what = what
		var en []*Thread
		for _, o := range m.threads {
			if o != self && o.enabled() {
				en = append(en, o)
			}
		}
		if len(en) == 0 {
			self.blocked = nil
			msg := "all threads blocked: " + m.blockedSummary() + fmt.Sprintf("[T%d: %s]", self.id, what)
			if self.isMain {
				panic(pathEnd{kind: "deadlock", msg: msg})
			}
			panic(pathEnd{kind: "deadlock", msg: msg})
		}
		k := 0
		if !m.cfg.SchedFixed {
			k = m.pick(len(en), "schedule (blocked on "+what+")")
		}
		m.switchTo(en[k])
	}
	self.blocked = nil
}

// killOthers terminates all threads except keep and the main thread.
func (m *Machine) killOthers(keep *Thread) {
	for _, t := range m.threads {
		if t == keep || t.isMain || t.done {
			continue
		}
		t.kill = true
		if t.started || true {
			t.wake <- struct{}{}
			<-t.exited
		}
		t.done = true
	}
}

// shutdownThreads ends all remaining threads at the end of a path.
func (m *Machine) shutdownThreads() {
	m.over = true
	for _, t := range m.threads {
		if t.isMain {
			continue
		}
		select {
		case <-t.exited:
			continue
		default:
		}
		t.kill = true
		select {
		case t.wake <- struct{}{}:
		default:
		}
		<-t.exited
	}
}

// ---------------------------------------------------------------------------
// channels

type chanItem struct {
	v   Value
	seq int
}

func (m *Machine) chanSend(c Value, v Value) {
	ch := c.(*Chan)
	m.yield("chan send")
	if ch == nil {
		m.blockUntil(func() bool { return false }, "send on nil channel")
	}
	if ch.closed {
		m.throwRuntime("send on closed channel")
	}
	if ch.cap > 0 {
		m.blockUntil(func() bool { return len(ch.buf) < ch.cap || ch.closed }, fmt.Sprintf("chan#%d send (buffer full)", ch.id))
		if ch.closed {
			m.throwRuntime("send on closed channel")
		}
		ch.buf = append(ch.buf, v)
		return
	}
	// unbuffered: deposit when the slot is free, then wait until taken
	m.blockUntil(func() bool { return len(ch.buf) == 0 || ch.closed }, fmt.Sprintf("chan#%d send (slot busy)", ch.id))
	if ch.closed {
		m.throwRuntime("send on closed channel")
	}
	ch.buf = append(ch.buf, v)
	my := ch.sendSeq
	ch.sendSeq++
	m.blockUntil(func() bool { return ch.recvSeq > my || ch.closed }, fmt.Sprintf("chan#%d send (no receiver)", ch.id))
	if ch.recvSeq <= my && ch.closed {
		m.throwRuntime("send on closed channel")
	}
}

func (m *Machine) chanRecv(c Value) (Value, bool) {
	ch := c.(*Chan)
	m.yield("chan recv")
	if ch == nil {
		m.blockUntil(func() bool { return false }, "receive on nil channel")
	}
	ch.recvWaiting++
	m.blockUntil(func() bool { return len(ch.buf) > 0 || ch.closed }, fmt.Sprintf("chan#%d recv", ch.id))
	ch.recvWaiting--
	return m.chanTake(ch)
}

func (m *Machine) chanTake(ch *Chan) (Value, bool) {
	if len(ch.buf) > 0 {
		v := ch.buf[0]
		ch.buf = ch.buf[1:]
		if ch.cap == 0 {
			ch.recvSeq++
		}
		return v, true
	}
	return zero(ch.et), false
}

func (m *Machine) chanClose(c Value) {
	ch := c.(*Chan)
	m.yield("chan close")
	if ch == nil {
		m.throwRuntime("close of nil channel")
	}
	if ch.closed {
		m.throwRuntime("close of closed channel")
	}
	ch.closed = true
}

func (m *Machine) selectOp(fr *frame, in *ssa.Select) Value {
	m.yield("select")
	type st struct {
		ch   *Chan
		send bool
		v    Value
	}
	states := make([]st, len(in.States))
	for i, s := range in.States {
		c, _ := fr.get(s.Chan).(*Chan)
		states[i] = st{ch: c, send: s.Dir == types.SendOnly}
		if states[i].send {
			states[i].v = fr.get(s.Send)
		}
	}
	ready := func() []int {
		var r []int
		for i, s := range states {
			if s.ch == nil {
				continue
			}
			if s.send {
				if s.ch.closed || (s.ch.cap > 0 && len(s.ch.buf) < s.ch.cap) || (s.ch.cap == 0 && s.ch.recvWaiting > 0 && len(s.ch.buf) == 0) {
					r = append(r, i)
				}
			} else if len(s.ch.buf) > 0 || s.ch.closed {
				r = append(r, i)
			}
		}
		return r
	}
	r := ready()
	if len(r) == 0 {
		if !in.Blocking {
			return m.selectResult(in, -1, nil, false)
		}
		for _, s := range states {
			if s.ch != nil && !s.send {
				s.ch.recvWaiting++
			}
		}
		m.blockUntil(func() bool { return len(ready()) > 0 }, "select")
		for _, s := range states {
			if s.ch != nil && !s.send {
				s.ch.recvWaiting--
			}
		}
		r = ready()
	}
	k := r[0]
	if len(r) > 1 {
		k = r[m.pick(len(r), "select: ready case")]
	}
	s := states[k]
	if s.send {
		if s.ch.closed {
			m.throwRuntime("send on closed channel")
		}
		s.ch.buf = append(s.ch.buf, s.v)
		if s.ch.cap == 0 {
			s.ch.sendSeq++
		}
		return m.selectResult(in, k, nil, false)
	}
	v, ok := m.chanTake(s.ch)
	return m.selectResult(in, k, v, ok)
}

func (m *Machine) selectResult(in *ssa.Select, idx int, recv Value, ok bool) Value {
	res := Tuple{canon(uint64(int64(idx)), 64, true), ok}
	for i, s := range in.States {
		if s.Dir == types.RecvOnly {
			if i == idx {
				res = append(res, recv)
			} else {
				res = append(res, zero(s.Chan.Type().Underlying().(*types.Chan).Elem()))
			}
		}
	}
	return res
}
