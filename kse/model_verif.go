package main

// Intrinsics for the harness API (github.com/uber/kraken/zzverif).

import (
	"fmt"
	"sort"
	"strings"

	"golang.org/x/tools/go/ssa"
)

var intrinsics = map[string]intrinsic{}

func reg(name string, f intrinsic) {
	if _, dup := intrinsics[name]; dup {
		panic("duplicate intrinsic " + name)
	}
	intrinsics[name] = f
}

const vp = "github.com/uber/kraken/zzverif."

func concStr(m *Machine, v Value, what string) string {
	s, ok := v.(string)
	if !ok {
		m.unsupported("%s must be a concrete string", what)
	}
	return s
}

func concInt(m *Machine, v Value, what string) int {
	x, ok := v.(uint64)
	if !ok {
		m.unsupported("%s must be a concrete integer", what)
	}
	return int(int64(x))
}

func (m *Machine) fresh(name, kind string, w int, signed bool) *Term {
	k := m.nondetSeq[name]
	m.nondetSeq[name] = k + 1
	full := fmt.Sprintf("%s#%d", name, k)
	if strings.ContainsAny(full, "|\\") {
		m.unsupported("bad nondet name %q", full)
	}
	t := m.tf.Var("|"+full+"|", w)
	m.nondets = append(m.nondets, nondetVar{Name: full, Kind: kind, t: t, w: w, signed: signed})
	if m.cfg.Forced != nil {
		// interpreter replay of a counterexample: the unknown is the model's value
		m.solver.Assert(m.tf.Eq(t, m.forcedTerm(full, w)))
		return m.forcedTerm(full, w)
	}
	return t
}

func init() {
	mk := func(kind string, w int, signed bool) intrinsic {
		return func(m *Machine, fr *frame, args []Value) Value {
			return m.fresh(concStr(m, args[0], "nondet name"), kind, w, signed)
		}
	}
	reg(vp+"Int", mk("int", 64, true))
	reg(vp+"Int64", mk("int64", 64, true))
	reg(vp+"Int32", mk("int32", 32, true))
	reg(vp+"Int16", mk("int16", 16, true))
	reg(vp+"Int8", mk("int8", 8, true))
	reg(vp+"Uint64", mk("uint64", 64, false))
	reg(vp+"Uint32", mk("uint32", 32, false))
	reg(vp+"Uint16", mk("uint16", 16, false))
	reg(vp+"Uint", mk("uint", 64, false))
	reg(vp+"Byte", mk("byte", 8, false))
	reg(vp+"Bool", mk("bool", 0, false))
	reg(vp+"Bytes", func(m *Machine, fr *frame, args []Value) Value {
		name := concStr(m, args[0], "nondet name")
		n := int(int64(m.concretizeInt(args[1], "Bytes length")))
		a := make([]Value, n)
		for i := range a {
			a[i] = m.fresh(fmt.Sprintf("%s.%d", name, i), "byte", 8, false)
		}
		return Slice{a: a}
	})
	reg(vp+"String", func(m *Machine, fr *frame, args []Value) Value {
		name := concStr(m, args[0], "nondet name")
		n := int(int64(m.concretizeInt(args[1], "String length")))
		a := make([]Value, n)
		for i := range a {
			a[i] = m.fresh(fmt.Sprintf("%s.%d", name, i), "byte", 8, false)
		}
		return mkStr(a)
	})
	rangeVar := func(m *Machine, args []Value) (*Term, bool) {
		name := concStr(m, args[0], "nondet name")
		t := m.fresh(name, "int", 64, true)
		return t, true
	}
	reg(vp+"IntRange", func(m *Machine, fr *frame, args []Value) Value {
		t, _ := rangeVar(m, args)
		lo, hi := m.scalarTerm(args[1], 64), m.scalarTerm(args[2], 64)
		m.assume(m.tf.And(m.tf.Cmp("bvsle", lo, t), m.tf.Cmp("bvsle", t, hi)))
		return t
	})
	reg(vp+"Choice", func(m *Machine, fr *frame, args []Value) Value {
		t, _ := rangeVar(m, args)
		if cn, ok := args[1].(uint64); ok && int64(cn) >= 1 && int64(cn) <= 256 {
			// concrete range over a fresh unknown: every value is feasible,
			// so split without consulting the solver
			k := uint64(m.pick(int(cn), "Choice "+args[0].(string)))
			m.assertPC(m.tf.Eq(t, m.tf.BV(k, 64)))
			return k
		}
		n := m.scalarTerm(args[1], 64)
		m.assume(m.tf.And(m.tf.Cmp("bvsle", m.tf.BV(0, 64), t), m.tf.Cmp("bvslt", t, n)))
		return m.concretize(t, "Choice "+args[0].(string))
	})
	reg(vp+"Len", func(m *Machine, fr *frame, args []Value) Value {
		t, _ := rangeVar(m, args)
		if clo, ok := args[1].(uint64); ok {
			if chi, ok := args[2].(uint64); ok && int64(chi) >= int64(clo) && int64(chi)-int64(clo) < 256 {
				k := clo + uint64(m.pick(int(int64(chi)-int64(clo))+1, "Len "+args[0].(string)))
				m.assertPC(m.tf.Eq(t, m.tf.BV(k, 64)))
				return k
			}
		}
		lo, hi := m.scalarTerm(args[1], 64), m.scalarTerm(args[2], 64)
		m.assume(m.tf.And(m.tf.Cmp("bvsle", lo, t), m.tf.Cmp("bvsle", t, hi)))
		return m.concretize(t, "Len "+args[0].(string))
	})
	reg(vp+"Concrete", func(m *Machine, fr *frame, args []Value) Value {
		return m.concretizeInt(args[0], "verif.Concrete")
	})
	reg(vp+"Assume", func(m *Machine, fr *frame, args []Value) Value {
		m.assume(boolTerm(m, args[0]))
		return nil
	})
	reg(vp+"Assert", func(m *Machine, fr *frame, args []Value) Value {
		m.assertProp(concStr(m, args[0], "assert label"), args[1])
		return nil
	})
	reg(vp+"Fail", func(m *Machine, fr *frame, args []Value) Value {
		label := concStr(m, args[0], "label")
		msg, _ := args[1].(string)
		m.violation(label, "assert", msg)
		panic(pathEnd{kind: "violation", msg: label})
	})
	reg(vp+"Cover", func(m *Machine, fr *frame, args []Value) Value {
		label := concStr(m, args[0], "cover label")
		m.declCover(label)
		if m.res.Covers[label] {
			return nil
		}
		switch c := args[1].(type) {
		case bool:
			if c {
				m.res.Covers[label] = true
			}
		case *Term:
			// satisfiable on this path?
			if m.model != nil {
				if v, ok := m.model.eval(c, map[*Term]uint64{}); ok && v != 0 {
					m.res.Covers[label] = true
					return nil
				}
			}
			if m.w.coverSeen(label) {
				return nil
			}
			r, _ := m.check(c)
			if r == "sat" {
				m.res.Covers[label] = true
				m.w.markCover(label)
			}
		}
		return nil
	})
	reg(vp+"Reach", func(m *Machine, fr *frame, args []Value) Value {
		label := concStr(m, args[0], "label")
		m.declCover(label)
		m.res.Covers[label] = true
		return nil
	})
	reg(vp+"Note", func(m *Machine, fr *frame, args []Value) Value {
		m.res.Notes[concStr(m, args[0], "note")] = true
		return nil
	})
	reg(vp+"Implies", func(m *Machine, fr *frame, args []Value) Value {
		return m.or(m.not(args[0]), args[1])
	})
	reg(vp+"And", func(m *Machine, fr *frame, args []Value) Value {
		var acc Value = true
		for _, a := range args[0].(Slice).a {
			acc = m.and(acc, a)
		}
		return acc
	})
	reg(vp+"Or", func(m *Machine, fr *frame, args []Value) Value {
		var acc Value = false
		for _, a := range args[0].(Slice).a {
			acc = m.or(acc, a)
		}
		return acc
	})
	ite := func(w int, signed bool) intrinsic {
		return func(m *Machine, fr *frame, args []Value) Value {
			switch c := args[0].(type) {
			case bool:
				if c {
					return args[1]
				}
				return args[2]
			case *Term:
				return lowerTerm(m.tf.Ite(c, m.scalarTerm(args[1], w), m.scalarTerm(args[2], w)), signed)
			}
			panic("Ite")
		}
	}
	reg(vp+"Ite", ite(64, true))
	reg(vp+"Ite64", ite(64, true))
	reg(vp+"IteU64", ite(64, false))
	reg(vp+"Bound", func(m *Machine, fr *frame, args []Value) Value {
		name := concStr(m, args[0], "bound name")
		v := args[1]
		if m.cfg.Tier == "thorough" {
			v = args[2]
		}
		m.res.Bounds[name] = concInt(m, v, "bound")
		return v
	})
	reg(vp+"Option", func(m *Machine, fr *frame, args []Value) Value {
		name := concStr(m, args[0], "option name")
		v := concInt(m, args[1], "option value")
		switch name {
		case "map_order_symbolic":
			m.cfg.MapOrderSymbolic = v != 0
		case "max_preempt":
			m.cfg.MaxPreempt = v
		case "max_threads":
			m.cfg.MaxThreads = v
		case "sched_fixed":
			m.cfg.SchedFixed = v != 0
		case "hrw_score_uninterpreted":
			m.cfg.HrwScoreUF = v != 0
		case "solver_bv_tactic":
			// try z3's bit-vector tactic before the incremental core (solver_tactic.go)
			m.solver.tactic = ""
			if v != 0 {
				m.solver.tactic = "qfbv"
			}
		case "max_decisions":
			m.cfg.MaxDecisions = v
		case "max_concretize":
			m.cfg.MaxConcretize = v
		case "max_alloc":
			m.cfg.MaxAlloc = int64(v)
		case "max_instrs":
			m.cfg.MaxInstrs = int64(v)
		case "panic_is_violation":
			m.cfg.PanicIsViolation = v != 0
		case "alloc_is_violation":
			m.cfg.AllocIsViolation = v != 0
		case "no_merge":
			m.cfg.NoMerge = v != 0
		default:
			m.unsupported("unknown option %s", name)
		}
		m.res.Bounds["option:"+name] = v
		return nil
	})
	reg(vp+"Symbolic", func(m *Machine, fr *frame, args []Value) Value { return true })
	reg(vp+"Yield", func(m *Machine, fr *frame, args []Value) Value { m.yield("verif.Yield"); return nil })
	reg(vp+"TempDir", func(m *Machine, fr *frame, args []Value) Value { return fsRoot })
	reg(vp+"CrashScope", func(m *Machine, fr *frame, args []Value) Value {
		return m.crashScope(fr, args[0])
	})
	reg(vp+"Replay", func(m *Machine, fr *frame, args []Value) Value { return nil })
}

func (m *Machine) declCover(label string) {
	if m.declCovers == nil {
		m.declCovers = map[string]bool{}
	}
	m.declCovers[label] = true
}

// assume adds c to the path condition; an unsatisfiable assumption ends the
// path silently.
func (m *Machine) assume(c *Term) {
	switch c.op {
	case "true":
		return
	case "false":
		panic(pathEnd{kind: "assume"})
	}
	// quick model check
	if m.model != nil {
		if v, ok := m.model.eval(c, map[*Term]uint64{}); ok && v != 0 {
			m.solver.Assert(c)
			m.pcN++
			return
		}
	}
	r, mo := m.check(c)
	switch r {
	case "unsat":
		panic(pathEnd{kind: "assume"})
	case "sat":
		m.solver.Assert(c)
		m.pcN++
		m.model = mo
	default:
		m.feasUnknown = true
		m.res.FeasUnknown++
		m.solver.Assert(c)
		m.pcN++
		m.model = nil
	}
}

// assertProp discharges a property assertion on the current path.
func (m *Machine) assertProp(label string, c Value) {
	m.declCover("assert:" + label)
	m.res.Covers["assert:"+label] = true
	switch cv := c.(type) {
	case bool:
		if cv {
			m.res.Proved[label]++
			return
		}
		m.violation(label, "assert", "assertion is false on this path")
		panic(pathEnd{kind: "violation", msg: label})
	case *Term:
		r, mo := m.check(m.tf.Not(cv))
		if r != "sat" && r != "unsat" {
			// solver timeouts (wall-clock) under machine load are transient:
			// one more attempt, with four times the budget (solver.go)
			m.solver.retryUnknown = true
			r, mo = m.check(m.tf.Not(cv))
			m.solver.retryUnknown = false
		}
		if sh := m.solver.shadow; sh != nil && (r == "sat" || r == "unsat") {
			r2 := shadowCheck(sh, m.tf.Not(cv))
			switch {
			case r2 == r:
				m.solver.stats.CrossAgree++
			case r2 == "sat" || r2 == "unsat":
				m.solver.stats.CrossDisagree++
				r = "unknown"
			default:
				m.solver.stats.CrossUnknown++
			}
		}
		switch r {
		case "unsat":
			m.res.Proved[label]++
			return
		case "sat":
			m.model = mo
			m.violation(label, "assert", "assertion can be false")
			panic(pathEnd{kind: "violation", msg: label})
		default:
			m.res.Unknown[label]++
			// continue under the assumption that it holds
			m.assertPC(cv)
		}
	}
}

func (m *Machine) sampleValues() map[string]string {
	mo := m.model
	if mo == nil {
		r, x := m.solver.Check(nil, true)
		if r != "sat" || x == nil {
			return nil
		}
		mo = x
	}
	out := map[string]string{}
	for _, nv := range m.nondets {
		v := mo.vars[nv.t.name]
		out[nv.Name] = fmt.Sprintf("%d", v&mask64(nv.w))
	}
	return out
}

// violation records a counterexample for the current path.
func (m *Machine) violation(label, kind, msg string) {
	if m.res.Violation != nil {
		return
	}
	v := &Violation{Label: label, Kind: kind, Msg: msg, Values: map[string]string{}}
	mo := m.model
	if mo == nil {
		r, x := m.solver.Check(nil, true)
		switch r {
		case "sat":
			mo = x
		case "unsat":
			// the path was kept after an unknown feasibility answer and is
			// in fact infeasible: nothing to report
			panic(pathEnd{kind: "infeasible"})
		default:
			if len(m.nondets) > 0 {
				panic(pathEnd{kind: "unknown", msg: "assertion " + label + " fails on a path whose feasibility the solver could not decide"})
			}
		}
	}
	if mo != nil {
		for _, nv := range m.nondets {
			val := mo.vars[nv.t.name] & mask64(nv.w)
			v.Values[nv.Name] = fmt.Sprintf("%d", val)
			v.Order = append(v.Order, nv.Name)
		}
	}
	v.Trace = append([]Decision(nil), m.trace...)
	v.EnvDep = m.envPicks > 0
	var tags []string
	tags = append(tags, m.res.Tags...)
	sort.Strings(tags)
	v.Sig = label
	if len(tags) > 0 {
		v.Sig += "/" + strings.Join(tags, ",")
	}
	if m.crashed {
		v.FS = m.crashFS().snapshot(mo)
	}
	m.res.Violation = v
}

func noopRule(fn *ssa.Function, name string) intrinsic {
	pkg := ""
	if fn.Pkg != nil {
		pkg = fn.Pkg.Pkg.Path()
	} else if o := fn.Origin(); o != nil && o.Pkg != nil {
		pkg = o.Pkg.Pkg.Path()
	} else if fn.Signature.Recv() != nil {
		// wrapper / thunk: find package from receiver type
		pkg = recvPkg(fn)
	}
	if pkg == "" {
		return nil
	}
	if noopPkgs[pkg] {
		return func(m *Machine, fr *frame, args []Value) Value {
			return noopResult(m, fn, args)
		}
	}
	return nil
}

func recvPkg(fn *ssa.Function) string {
	r := fn.Signature.Recv()
	if r == nil {
		return ""
	}
	t := r.Type()
	for {
		switch x := t.(type) {
		case interface{ Elem() interface{} }:
			_ = x
		}
		break
	}
	s := t.String()
	s = strings.TrimPrefix(s, "*")
	if i := strings.LastIndex(s, "."); i >= 0 {
		return s[:i]
	}
	return ""
}
