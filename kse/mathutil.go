package main

import "math"

func mathFloat64bits(f float64) uint64     { return math.Float64bits(f) }
func mathFloat64frombits(x uint64) float64 { return math.Float64frombits(x) }
func mathFloat32bits(f float64) uint32     { return math.Float32bits(float32(f)) }
func mathFloat32frombits(x uint32) float64 { return float64(math.Float32frombits(x)) }
func mathPow(a, b float64) float64         { return math.Pow(a, b) }
func mathMod(a, b float64) float64         { return math.Mod(a, b) }
func mathIsInf(f float64, s int) bool      { return math.IsInf(f, s) }
func mathInf(s int) float64                { return math.Inf(s) }
func mathNaN() float64                     { return math.NaN() }
func mathFn1(n string, x float64) float64 {
	switch n {
	case "Log":
		return math.Log(x)
	case "Sqrt":
		return math.Sqrt(x)
	case "Floor":
		return math.Floor(x)
	case "Ceil":
		return math.Ceil(x)
	case "Exp":
		return math.Exp(x)
	case "Log2":
		return math.Log2(x)
	case "Log10":
		return math.Log10(x)
	case "Abs":
		return math.Abs(x)
	case "Trunc":
		return math.Trunc(x)
	case "Round":
		return math.Round(x)
	}
	panic("mathFn1 " + n)
}
