package main

// Operators with symbolic operands.

import (
	"fmt"
	"go/token"
	"go/types"
	"math"
	"unicode/utf8"

	"golang.org/x/tools/go/ssa"
)

func (m *Machine) unop(fr *frame, in *ssa.UnOp) Value {
	x := fr.get(in.X)
	switch in.Op {
	case token.MUL: // load
		return m.load(x)
	case token.ARROW:
		v, ok := m.chanRecv(x)
		if in.CommaOk {
			return Tuple{v, ok}
		}
		return v
	case token.NOT:
		switch x := x.(type) {
		case bool:
			return !x
		case *Term:
			return m.tf.Not(x)
		}
	case token.SUB:
		switch x := x.(type) {
		case uint64:
			w, s, _ := intInfo(in.Type())
			return canon(-x, w, s)
		case *Term:
			return m.tf.Neg(x)
		case float64:
			return -x
		case complex128:
			return -x
		}
	case token.XOR:
		switch x := x.(type) {
		case uint64:
			w, s, _ := intInfo(in.Type())
			return canon(^x, w, s)
		case *Term:
			return m.tf.BvNot(x)
		}
	}
	panic(fmt.Sprintf("unop %s on %T", in.Op, x))
}

// truth resolves a possibly symbolic boolean by forking.
func (m *Machine) truth(v Value, why string) bool {
	switch v := v.(type) {
	case bool:
		return v
	case *Term:
		return m.decideBool(v, why)
	}
	panic(fmt.Sprintf("truth of %T", v))
}

func boolTerm(m *Machine, v Value) *Term {
	switch v := v.(type) {
	case bool:
		return m.tf.Bool(v)
	case *Term:
		return v
	}
	panic(fmt.Sprintf("boolTerm of %T", v))
}

func lowerBool(t *Term) Value {
	switch t.op {
	case "true":
		return true
	case "false":
		return false
	}
	return t
}

func (m *Machine) and(a, b Value) Value { return lowerBool(m.tf.And(boolTerm(m, a), boolTerm(m, b))) }
func (m *Machine) or(a, b Value) Value  { return lowerBool(m.tf.Or(boolTerm(m, a), boolTerm(m, b))) }
func (m *Machine) not(a Value) Value    { return lowerBool(m.tf.Not(boolTerm(m, a))) }

// equals compares two values of static type t; result is bool or *Term.
func (m *Machine) equals(t types.Type, x, y Value) Value {
	switch xv := x.(type) {
	case bool:
		if yv, ok := y.(bool); ok {
			return xv == yv
		}
		return lowerBool(m.tf.Eq(m.tf.Bool(xv), y.(*Term)))
	case uint64:
		if yv, ok := y.(uint64); ok {
			return xv == yv
		}
		yt := y.(*Term)
		return lowerBool(m.tf.Eq(m.tf.BV(xv, yt.w), yt))
	case *Term:
		switch yv := y.(type) {
		case *Term:
			return lowerBool(m.tf.Eq(xv, yv))
		case bool:
			return lowerBool(m.tf.Eq(xv, m.tf.Bool(yv)))
		case uint64:
			return lowerBool(m.tf.Eq(xv, m.tf.BV(yv, xv.w)))
		}
	case float64:
		return xv == y.(float64)
	case complex128:
		return xv == y.(complex128)
	case string, *SymStr:
		return m.strEq(x, y)
	case *Value:
		return xv == m.cellPtr(y)
	case *SymRef:
		return m.cellPtr(xv) == m.cellPtr(y)
	case *Map:
		return xv == y.(*Map)
	case *Chan:
		return xv == y.(*Chan)
	case Slice:
		// only comparison with nil is legal
		return false
	case Struct:
		yv := y.(Struct)
		st := under(t).(*types.Struct)
		var acc Value = true
		for i := range xv {
			if st.Field(i).Name() == "_" {
				continue
			}
			acc = m.and(acc, m.equals(st.Field(i).Type(), xv[i], yv[i]))
			if acc == false {
				return false
			}
		}
		return acc
	case Array:
		yv := y.(Array)
		et := under(t).(*types.Array).Elem()
		var acc Value = true
		for i := range xv {
			acc = m.and(acc, m.equals(et, xv[i], yv[i]))
			if acc == false {
				return false
			}
		}
		return acc
	case Iface:
		yv := y.(Iface)
		if xv.t == nil || yv.t == nil {
			return xv.t == nil && yv.t == nil
		}
		if !types.Identical(xv.t, yv.t) {
			return false
		}
		if !types.Comparable(xv.t) {
			m.throwRuntime("comparing uncomparable type " + xv.t.String())
		}
		return m.equals(xv.t, xv.v, yv.v)
	case nil:
		switch yv := y.(type) {
		case nil:
			return true
		case *ssa.Function:
			return yv == nil
		}
		return false
	case *ssa.Function:
		if y == nil {
			return xv == nil
		}
		yf, ok := y.(*ssa.Function)
		return ok && yf == xv
	case *Closure:
		if y == nil {
			return false
		}
		return x == y
	case *ssa.Builtin:
		return x == y
	}
	panic(fmt.Sprintf("equals: %T vs %T (type %v)", x, y, t))
}

func (m *Machine) strEq(x, y Value) Value {
	if a, ok := x.(string); ok {
		if b, ok := y.(string); ok {
			return a == b
		}
	}
	if strLen(x) != strLen(y) {
		return false
	}
	xb, yb := strBytes(x), strBytes(y)
	acc := m.tf.tt
	for i := range xb {
		e := m.tf.Eq(m.scalarTerm(xb[i], 8), m.scalarTerm(yb[i], 8))
		acc = m.tf.And(acc, e)
		if acc.op == "false" {
			return false
		}
	}
	return lowerBool(acc)
}

// strLess builds the lexicographic x < y.
func (m *Machine) strLess(x, y Value) Value {
	if a, ok := x.(string); ok {
		if b, ok := y.(string); ok {
			return a < b
		}
	}
	xb, yb := strBytes(x), strBytes(y)
	n := len(xb)
	if len(yb) < n {
		n = len(yb)
	}
	// from the end: less = (x[i] < y[i]) || (x[i]==y[i] && rest)
	rest := m.tf.Bool(len(xb) < len(yb))
	for i := n - 1; i >= 0; i-- {
		a, b := m.scalarTerm(xb[i], 8), m.scalarTerm(yb[i], 8)
		rest = m.tf.Or(m.tf.Cmp("bvult", a, b), m.tf.And(m.tf.Eq(a, b), rest))
	}
	return lowerBool(rest)
}

func (m *Machine) binop(op token.Token, t types.Type, x, y Value, yt types.Type) Value {
	if isSymFloat(x) || isSymFloat(y) {
		return m.symFloatBinop(op, x, y) // order-only floats, model_symfloat.go
	}
	// equality on any comparable type
	switch op {
	case token.EQL:
		if _, ok := x.(Slice); ok {
			xs := x.(Slice)
			return xs.nil
		}
		if ys, ok := y.(Slice); ok {
			_ = ys
			return false
		}
		return m.equals(t, x, y)
	case token.NEQ:
		if xs, ok := x.(Slice); ok {
			return !xs.nil
		}
		return m.not(m.equals(t, x, y))
	}
	// arithmetic with an opaque float stays opaque (model_float.go); comparisons
	// and conversions on it still end the path.
	if _, ox := x.(opaqueFloat); ox || isOpaqueFloat(y) {
		switch op {
		case token.ADD, token.SUB, token.MUL, token.QUO:
			return opaqueFloat{}
		}
	}
	switch xv := x.(type) {
	case float64:
		yv := y.(float64)
		var r float64
		switch op {
		case token.ADD:
			r = xv + yv
		case token.SUB:
			r = xv - yv
		case token.MUL:
			r = xv * yv
		case token.QUO:
			r = xv / yv
		case token.LSS:
			return xv < yv
		case token.LEQ:
			return xv <= yv
		case token.GTR:
			return xv > yv
		case token.GEQ:
			return xv >= yv
		default:
			panic("float binop " + op.String())
		}
		if b, ok := under(t).(*types.Basic); ok && b.Kind() == types.Float32 {
			r = float64(float32(r))
		}
		return r
	case complex128:
		yv := y.(complex128)
		switch op {
		case token.ADD:
			return xv + yv
		case token.SUB:
			return xv - yv
		case token.MUL:
			return xv * yv
		case token.QUO:
			return xv / yv
		}
		panic("complex binop")
	case string, *SymStr:
		switch op {
		case token.ADD:
			return strConcat(x, y)
		case token.LSS:
			return m.strLess(x, y)
		case token.GTR:
			return m.strLess(y, x)
		case token.LEQ:
			return m.not(m.strLess(y, x))
		case token.GEQ:
			return m.not(m.strLess(x, y))
		}
		panic("string binop " + op.String())
	case bool:
		// && and || never appear as BinOp; & | on bools don't exist
		panic("bool binop " + op.String())
	}
	w, signed, ok := intInfo(t)
	if !ok {
		panic(fmt.Sprintf("binop %s on %T of type %v", op, x, t))
	}
	xc, xIsC := x.(uint64)
	yc, yIsC := y.(uint64)
	if op == token.SHL || op == token.SHR {
		return m.shift(op, w, signed, x, y, yt)
	}
	if xIsC && yIsC {
		return m.concBin(op, w, signed, xc, yc)
	}
	xt, ytm := m.scalarTerm(x, w), m.scalarTerm(y, w)
	tf := m.tf
	switch op {
	case token.ADD:
		return lowerTerm(tf.Bin("bvadd", xt, ytm), signed)
	case token.SUB:
		return lowerTerm(tf.Bin("bvsub", xt, ytm), signed)
	case token.MUL:
		return lowerTerm(tf.Bin("bvmul", xt, ytm), signed)
	case token.AND:
		return lowerTerm(tf.Bin("bvand", xt, ytm), signed)
	case token.OR:
		return lowerTerm(tf.Bin("bvor", xt, ytm), signed)
	case token.XOR:
		return lowerTerm(tf.Bin("bvxor", xt, ytm), signed)
	case token.AND_NOT:
		return lowerTerm(tf.Bin("bvand", xt, tf.BvNot(ytm)), signed)
	case token.QUO, token.REM:
		if !yIsC {
			if m.decideBool(tf.Eq(ytm, tf.BV(0, w)), "divisor is zero") {
				m.throwRuntime("integer divide by zero")
			}
		} else if yc == 0 {
			m.throwRuntime("integer divide by zero")
		}
		o := "bvudiv"
		if op == token.REM {
			o = "bvurem"
		}
		if signed {
			o = "bvsdiv"
			if op == token.REM {
				o = "bvsrem"
			}
		}
		return lowerTerm(tf.Bin(o, xt, ytm), signed)
	case token.LSS:
		if signed {
			return lowerBool(tf.Cmp("bvslt", xt, ytm))
		}
		return lowerBool(tf.Cmp("bvult", xt, ytm))
	case token.LEQ:
		if signed {
			return lowerBool(tf.Cmp("bvsle", xt, ytm))
		}
		return lowerBool(tf.Cmp("bvule", xt, ytm))
	case token.GTR:
		if signed {
			return lowerBool(tf.Cmp("bvslt", ytm, xt))
		}
		return lowerBool(tf.Cmp("bvult", ytm, xt))
	case token.GEQ:
		if signed {
			return lowerBool(tf.Cmp("bvsle", ytm, xt))
		}
		return lowerBool(tf.Cmp("bvule", ytm, xt))
	}
	panic("int binop " + op.String())
}

func (m *Machine) concBin(op token.Token, w int, signed bool, x, y uint64) Value {
	switch op {
	case token.ADD:
		return canon(x+y, w, signed)
	case token.SUB:
		return canon(x-y, w, signed)
	case token.MUL:
		return canon(x*y, w, signed)
	case token.AND:
		return canon(x&y, w, signed)
	case token.OR:
		return canon(x|y, w, signed)
	case token.XOR:
		return canon(x^y, w, signed)
	case token.AND_NOT:
		return canon(x&^y, w, signed)
	case token.QUO:
		if y == 0 {
			m.throwRuntime("integer divide by zero")
		}
		if signed {
			if int64(y) == -1 {
				return canon(-x, w, signed)
			}
			return canon(uint64(int64(x)/int64(y)), w, signed)
		}
		return canon(x/y, w, signed)
	case token.REM:
		if y == 0 {
			m.throwRuntime("integer divide by zero")
		}
		if signed {
			if int64(y) == -1 {
				return uint64(0)
			}
			return canon(uint64(int64(x)%int64(y)), w, signed)
		}
		return canon(x%y, w, signed)
	case token.LSS:
		if signed {
			return int64(x) < int64(y)
		}
		return x < y
	case token.LEQ:
		if signed {
			return int64(x) <= int64(y)
		}
		return x <= y
	case token.GTR:
		if signed {
			return int64(x) > int64(y)
		}
		return x > y
	case token.GEQ:
		if signed {
			return int64(x) >= int64(y)
		}
		return x >= y
	}
	panic("concBin " + op.String())
}

func (m *Machine) shift(op token.Token, w int, signed bool, x, y Value, yt types.Type) Value {
	yw, ysigned, _ := intInfo(yt)
	xc, xIsC := x.(uint64)
	yc, yIsC := y.(uint64)
	if yIsC && ysigned && int64(yc) < 0 {
		m.throwRuntime("negative shift amount")
	}
	if xIsC && yIsC {
		if op == token.SHL {
			if yc >= uint64(w) {
				return uint64(0)
			}
			return canon(xc<<yc, w, signed)
		}
		if signed {
			if yc >= 64 {
				yc = 63
			}
			return canon(uint64(int64(xc)>>yc), w, signed)
		}
		if yc >= uint64(w) {
			return uint64(0)
		}
		return canon((xc&mask(w))>>yc, w, signed)
	}
	tf := m.tf
	xt := m.scalarTerm(x, w)
	var cnt *Term // count in width w, plus an "overflow" flag when y is wider
	over := tf.ff
	if yIsC {
		if yc >= uint64(w) {
			over = tf.tt
			cnt = tf.BV(0, w)
		} else {
			cnt = tf.BV(yc, w)
		}
	} else {
		ytm := y.(*Term)
		if ysigned {
			if m.decideBool(tf.Cmp("bvslt", ytm, tf.BV(0, yw)), "negative shift amount") {
				m.throwRuntime("negative shift amount")
			}
		}
		if yw > w {
			over = tf.Cmp("bvule", tf.BV(uint64(w), yw), ytm)
			cnt = tf.Extract(ytm, w-1, 0)
		} else {
			cnt = tf.Extend(ytm, w, false)
		}
	}
	var r, ov *Term
	switch {
	case op == token.SHL:
		r = tf.Bin("bvshl", xt, cnt)
		ov = tf.BV(0, w)
	case signed:
		r = tf.Bin("bvashr", xt, cnt)
		ov = tf.Bin("bvashr", xt, tf.BV(uint64(w-1), w))
	default:
		r = tf.Bin("bvlshr", xt, cnt)
		ov = tf.BV(0, w)
	}
	return lowerTerm(tf.Ite(over, ov, r), signed)
}

func (m *Machine) convert(src, dst types.Type, x Value) Value {
	us, ud := under(src), under(dst)
	// pointers / unsafe
	if _, ok := ud.(*types.Pointer); ok {
		return x
	}
	if b, ok := ud.(*types.Basic); ok && b.Kind() == types.UnsafePointer {
		return x
	}
	if b, ok := us.(*types.Basic); ok && b.Kind() == types.UnsafePointer {
		return x
	}
	dw, dsigned, dInt := intInfo(dst)
	sw, ssigned, sInt := intInfo(src)
	switch {
	case sInt && dInt:
		switch xv := x.(type) {
		case uint64:
			return canon(xv, dw, dsigned)
		case *Term:
			return lowerTerm(m.tf.Extend(xv, dw, ssigned), dsigned)
		}
	case sInt && isFloat(dst):
		xv, ok := x.(uint64)
		if !ok {
			return opaqueFloat{} // see model_float.go: usable only as an ignored argument
		}
		var f float64
		if ssigned {
			f = float64(int64(xv))
		} else {
			f = float64(xv)
		}
		if under(dst).(*types.Basic).Kind() == types.Float32 {
			f = float64(float32(f))
		}
		return f
	case isFloat(src) && dInt:
		if isOpaqueFloat(x) {
			// integer part of an unknown float: any value of the target type
			return m.fresh("opaque.float2int", "int", dw, dsigned)
		}
		f := x.(float64)
		if dsigned {
			return canon(uint64(int64(f)), dw, true)
		}
		return canon(uint64(f), dw, false)
	case isFloat(src) && isFloat(dst):
		f := x.(float64)
		if under(dst).(*types.Basic).Kind() == types.Float32 {
			f = float64(float32(f))
		}
		return f
	case isComplex(src) && isComplex(dst):
		return x
	case isString(dst):
		switch {
		case sInt:
			xv, ok := x.(uint64)
			if !ok {
				m.unsupported("string(symbolic rune)")
			}
			return string(rune(int64(xv)))
		case isString(src):
			return x
		}
		if sl, ok := us.(*types.Slice); ok {
			s := x.(Slice)
			eb := under(sl.Elem()).(*types.Basic)
			if eb.Kind() == types.Uint8 {
				return mkStr(s.a)
			}
			// []rune → string
			var rs []rune
			for _, r := range s.a {
				rv, ok := r.(uint64)
				if !ok {
					m.unsupported("string([]rune) with symbolic rune")
				}
				rs = append(rs, rune(int64(rv)))
			}
			return string(rs)
		}
	case isString(src):
		if sl, ok := ud.(*types.Slice); ok {
			eb := under(sl.Elem()).(*types.Basic)
			if eb.Kind() == types.Uint8 {
				b := strBytes(x)
				c := make([]Value, len(b))
				copy(c, b)
				return Slice{a: c}
			}
			s, ok := x.(string)
			if !ok {
				m.unsupported("[]rune(symbolic string)")
			}
			var out []Value
			for _, r := range s {
				out = append(out, canon(uint64(r), 32, true))
			}
			return Slice{a: out}
		}
	}
	// slice → array (Go 1.20)
	if at, ok := ud.(*types.Array); ok {
		if s, ok := x.(Slice); ok {
			if int64(len(s.a)) < at.Len() {
				m.throwRuntime("cannot convert slice to array: length too short")
			}
			return copyVal(Array(s.a[:at.Len()]))
		}
	}
	_ = sw
	_ = math.MaxInt64
	_ = utf8.RuneError
	panic(fmt.Sprintf("convert: %v → %v (%T)", src, dst, x))
}
