package main

// Translator validation (DESIGN §5.3): sample paths that the engine explored to
// completion (all assertions discharged) are re-run natively with the solver's
// values; the native run must not fail an assertion. A disagreement means the
// interpreter, a model or the FS/clock model misrepresents the real code.

import (
	"fmt"
	"os"
	"path/filepath"
	"strings"

	"golang.org/x/tools/go/ssa"
)

func validateSamples(w *World, prop string, h *ssa.Function, hr *HarnessResult, repo, tier, outDir string, max int) (validated int, problems []string) {
	if len(hr.Samples) == 0 || max <= 0 {
		return 0, nil
	}
	var recs []*ReplayFile
	for _, s := range hr.Samples {
		if len(recs) >= max {
			break
		}
		if s["__crashed_path"] != "" {
			continue
		}
		recs = append(recs, &ReplayFile{Property: prop, Harness: hr.Name, Package: h.Pkg.Pkg.Path(), Label: "sample", Values: s, Tier: tier})
	}
	if len(recs) == 0 {
		return 0, nil
	}
	path := filepath.Join(outDir, "samples-"+hr.Name+".json")
	writeJSON(path, recs)
	out, err := nativeRun(w, recs[0].Package, path, repo, tier)
	if err != nil {
		return 0, []string{fmt.Sprintf("%s: native validation run failed: %v", hr.Name, err)}
	}
	for _, line := range strings.Split(out, "\n") {
		if !strings.HasPrefix(line, "KSE-REPLAY-RESULT") {
			continue
		}
		switch {
		case strings.Contains(line, "completed-without-violation"):
			validated++
		case strings.Contains(line, "assumption-failed"):
			// the native run left the path (e.g. a model-only decision such as
			// map order or schedule differs): not a disagreement
		case strings.Contains(line, "assert-failed"), strings.Contains(line, "panic"):
			problems = append(problems, fmt.Sprintf("%s: native run of an engine-verified path disagrees: %s", hr.Name, strings.TrimSpace(line)))
		}
	}
	if !strings.Contains(out, "KSE-REPLAY-RESULT") {
		tail := out
		if len(tail) > 600 {
			tail = tail[len(tail)-600:]
		}
		problems = append(problems, fmt.Sprintf("%s: native validation produced no result: %s", hr.Name, firstLine(strings.ReplaceAll(tail, "\n", " | "))))
	}
	os.Remove(path)
	return validated, problems
}
