package main

// strconv.FormatInt / FormatUint for symbolic integers (base 10).
//
// The real implementation indexes a two-digit lookup table with the value
// being printed, which under symbolic execution degenerates into enumerating
// the values. The model is the mathematical definition of the decimal
// numeral instead: a case split on the number of digits k (1..20), k fresh
// digit bytes d[k-1]..d[0] with 0 <= d[i] <= 9, d[k-1] != 0 unless k == 1, and
// the linear constraint x == sum d[i]*10^i (no overflow: x < 10^k <= 2^64 is
// part of the case). The digits are uniquely determined by x, so the model
// neither adds nor removes behaviours. Negative signed values print "-" and
// the digits of the magnitude. Concrete arguments are printed natively.

import (
	"fmt"
	"strconv"
)

var pow10tab = func() [20]uint64 {
	var t [20]uint64
	p := uint64(1)
	for i := range t {
		t[i] = p
		p *= 10
	}
	return t
}()

// symDecimal returns the decimal numeral of the unsigned 64-bit term x.
func (m *Machine) symDecimal(x *Term) Value {
	tf := m.tf
	k := 1
	for ; k < 20; k++ {
		if m.truth(lowerBool(tf.Cmp("bvult", x, tf.BV(pow10tab[k], 64))), "decimal digit count") {
			break
		}
	}
	seq := m.nondetSeq["~decimal"]
	m.nondetSeq["~decimal"] = seq + 1
	digits := make([]*Term, k) // digits[i] has weight 10^i
	sum := tf.BV(0, 64)
	cons := tf.Bool(true)
	for i := 0; i < k; i++ {
		d := tf.Var(fmt.Sprintf("|~decimal#%d.%d|", seq, i), 8)
		digits[i] = d
		cons = tf.And(cons, tf.Cmp("bvule", d, tf.BV(9, 8)))
		sum = tf.Bin("bvadd", sum, tf.Bin("bvmul", tf.Extend(d, 64, false), tf.BV(pow10tab[i], 64)))
	}
	if k > 1 {
		cons = tf.And(cons, tf.Not(tf.Eq(digits[k-1], tf.BV(0, 8))))
	}
	cons = tf.And(cons, tf.Eq(sum, x))
	m.assume(cons)
	out := make([]Value, k)
	for i := 0; i < k; i++ {
		out[i] = lowerInt(tf.Bin("bvadd", digits[k-1-i], tf.BV('0', 8)))
	}
	return mkStr(out)
}

func lowerInt(t *Term) Value {
	if t.op == "const" {
		return t.val
	}
	return t
}

func init() {
	reg("strconv.FormatInt", func(m *Machine, fr *frame, a []Value) Value {
		base, ok := a[1].(uint64)
		if !ok {
			m.unsupported("strconv.FormatInt with a symbolic base")
		}
		switch x := a[0].(type) {
		case uint64:
			return strconv.FormatInt(int64(x), int(int64(base)))
		case *Term:
			if base != 10 {
				m.unsupported("strconv.FormatInt of a symbolic value in base %d", base)
			}
			x64 := m.tf.Extend(x, 64, true)
			if m.truth(lowerBool(m.tf.Cmp("bvslt", x64, m.tf.BV(0, 64))), "FormatInt sign") {
				return strConcat("-", m.symDecimal(m.tf.Neg(x64)))
			}
			return m.symDecimal(x64)
		}
		panic(fmt.Sprintf("strconv.FormatInt: %T", a[0]))
	})
	reg("strconv.FormatUint", func(m *Machine, fr *frame, a []Value) Value {
		base, ok := a[1].(uint64)
		if !ok {
			m.unsupported("strconv.FormatUint with a symbolic base")
		}
		switch x := a[0].(type) {
		case uint64:
			return strconv.FormatUint(x, int(int64(base)))
		case *Term:
			if base != 10 {
				m.unsupported("strconv.FormatUint of a symbolic value in base %d", base)
			}
			return m.symDecimal(m.tf.Extend(x, 64, false))
		}
		panic(fmt.Sprintf("strconv.FormatUint: %T", a[0]))
	})
}
