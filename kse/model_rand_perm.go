package main

// math/rand.Perm and math/rand.Shuffle (package-level): the permutation is a
// sequence of scheduling-like decisions (one path per permutation), following
// the shape of the real algorithms (Perm: inside-out Fisher-Yates; Shuffle:
// Fisher-Yates from the top). Native replay cannot force the real generator,
// so a counterexample that depends on one particular permutation may fail to
// reproduce natively.

// permPickLimit: up to this size a permutation is a sequence of picks (n! paths,
// every element concrete); above it the permutation is symbolic: n unknowns in
// [0,n), pairwise distinct, so only the elements the program really looks at
// are ever concretised (e.g. the first k of rand.Perm(n)[:k]).
const permPickLimit = 8

func (m *Machine) symbolicPerm(n int) Value {
	if n > 255 {
		m.unsupported("rand.Perm(%d): symbolic permutations are limited to 255 elements", n)
	}
	p := make([]Value, n)
	ts := make([]*Term, n)
	lim := m.tf.BV(uint64(n), 8)
	for i := 0; i < n; i++ {
		b := m.fresh("rand.Perm."+itoa(i), "byte", 8, false)
		m.assume(m.tf.Cmp("bvult", b, lim))
		for j := 0; j < i; j++ {
			m.assume(m.tf.Not(m.tf.Eq(ts[j], b)))
		}
		ts[i] = b
		p[i] = lowerTerm(m.tf.Extend(b, 64, false), true)
	}
	m.envPicks++ // the native generator cannot be forced to this permutation
	return Slice{a: p}
}

func init() {
	regIfAbsent("math/rand.Perm", func(m *Machine, fr *frame, a []Value) Value {
		n := int(int64(m.concretizeInt(a[0], "rand.Perm n")))
		if n < 0 {
			m.throwRuntime("invalid argument to rand.Perm")
		}
		if n > permPickLimit {
			return m.symbolicPerm(n)
		}
		p := make([]Value, n)
		for i := 0; i < n; i++ {
			j := m.pick(i+1, "rand.Perm")
			p[i] = p[j]
			p[j] = i64(i)
		}
		return Slice{a: p}
	})
	regIfAbsent("math/rand.Shuffle", func(m *Machine, fr *frame, a []Value) Value {
		n := int(int64(m.concretizeInt(a[0], "rand.Shuffle n")))
		if n < 0 {
			m.throwRuntime("invalid argument to rand.Shuffle")
		}
		for i := n - 1; i > 0; i-- {
			j := m.pick(i+1, "rand.Shuffle")
			m.call(fr, a[1], []Value{i64(i), i64(j)}, nil)
		}
		return nil
	})
}
