package main

// math/rand.Perm and math/rand.Shuffle (package-level): the permutation is a
// sequence of scheduling-like decisions (one path per permutation), following
// the shape of the real algorithms (Perm: inside-out Fisher-Yates; Shuffle:
// Fisher-Yates from the top). Native replay cannot force the real generator,
// so a counterexample that depends on one particular permutation may fail to
// reproduce natively.

func init() {
	regIfAbsent("math/rand.Perm", func(m *Machine, fr *frame, a []Value) Value {
		n := int(int64(m.concretizeInt(a[0], "rand.Perm n")))
		if n < 0 {
			m.throwRuntime("invalid argument to rand.Perm")
		}
		p := make([]Value, n)
		for i := 0; i < n; i++ {
			j := m.pick(i+1, "rand.Perm")
			p[i] = p[j]
			p[j] = i64(i)
		}
		return Slice{a: p}
	})
	regIfAbsent("math/rand.Shuffle", func(m *Machine, fr *frame, a []Value) Value {
		n := int(int64(m.concretizeInt(a[0], "rand.Shuffle n")))
		if n < 0 {
			m.throwRuntime("invalid argument to rand.Shuffle")
		}
		for i := n - 1; i > 0; i-- {
			j := m.pick(i+1, "rand.Shuffle")
			m.call(fr, a[1], []Value{i64(i), i64(j)}, nil)
		}
		return nil
	})
}
