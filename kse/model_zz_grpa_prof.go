package main

// KSE_CPUPROF=<file> [KSE_CPUPROF_SECS=n]: CPU profile of the first n seconds
// (default 20) of the engine process, for finding interpretation hot spots.

import (
	"os"
	"runtime/pprof"
	"strconv"
	"time"
)

func init() {
	p := os.Getenv("KSE_CPUPROF")
	if p == "" {
		return
	}
	f, err := os.Create(p)
	if err != nil {
		return
	}
	secs := 20
	if s, err := strconv.Atoi(os.Getenv("KSE_CPUPROF_SECS")); err == nil && s > 0 {
		secs = s
	}
	if pprof.StartCPUProfile(f) != nil {
		return
	}
	go func() {
		time.Sleep(time.Duration(secs) * time.Second)
		pprof.StopCPUProfile()
		f.Close()
	}()
}
