# toolchain environment for kse (see DESIGN.md §3.1); source this file
G124="$(go env GOMODCACHE 2>/dev/null)/golang.org/toolchain@v0.0.1-go1.24.0.linux-amd64"
if [ -x "$G124/bin/go" ]; then export PATH="$G124/bin:$PATH"; fi
export GOTOOLCHAIN=local GOFLAGS=-mod=mod GOPROXY=off GOSUMDB=off
