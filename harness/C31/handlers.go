//kse:pkg origin/blobserver
package blobserver

import (
	"bytes"
	"context"
	"io"
	"net/http"
	"net/url"
	"path/filepath"
	"strconv"

	"github.com/go-chi/chi"
	"github.com/uber/kraken/core"
	"github.com/uber/kraken/lib/store/metadata"
	"github.com/uber/kraken/utils/handler"
	verif "github.com/uber/kraken/zzverif"
	"go.opentelemetry.io/otel"
)

// The REAL cluster-upload handlers (startClusterUploadHandler,
// patchClusterUploadHandler, commitClusterUploadHandler), called the way the
// chi router calls them: a request whose context carries the route parameters
// (digest, namespace, uid), the Content-Range header and the body; the
// handler's error result is what handler.Wrap turns into the status code, so
// "acknowledged" = nil (200) or a *handler.Error with status 409 (clients
// short-circuit on a conflict in any phase and report success).

type verifRecorder struct {
	hdr    http.Header
	status int
	body   []byte
}

func (w *verifRecorder) Header() http.Header { return w.hdr }
func (w *verifRecorder) WriteHeader(s int) {
	if w.status == 0 {
		w.status = s
	}
}
func (w *verifRecorder) Write(p []byte) (int, error) {
	w.body = append(w.body, p...)
	return len(p), nil
}

func verifRequest(method string, params [][2]string, hdr http.Header, body []byte) *http.Request {
	rctx := chi.NewRouteContext()
	for _, kv := range params {
		rctx.URLParams.Add(kv[0], kv[1])
	}
	r := &http.Request{
		Method:     method,
		URL:        &url.URL{Scheme: "http", Host: verifAddr, Path: "/"},
		Proto:      "HTTP/1.1",
		ProtoMajor: 1,
		ProtoMinor: 1,
		Header:     hdr,
		Host:       verifAddr,
	}
	if body != nil {
		r.Body = io.NopCloser(bytes.NewReader(body))
		r.ContentLength = int64(len(body))
	} else {
		r.Body = http.NoBody
	}
	return r.WithContext(context.WithValue(context.Background(), chi.RouteCtxKey, rctx))
}

// verifTracer: natively the handlers need a tracer (the global no-op one);
// under the engine OpenTelemetry is a no-op package.
func (s *Server) verifTracer() {
	if s.tracer == nil {
		s.tracer = otel.Tracer("kraken-origin")
	}
}

func verifIsConflict(err error) bool {
	herr, ok := err.(*handler.Error)
	return ok && herr.GetStatus() == http.StatusConflict
}

// startH: POST /namespace/{namespace}/blobs/{digest}/uploads
func (s *Server) verifStartH(ns string, d core.Digest) (uid string, err error) {
	s.verifTracer()
	w := &verifRecorder{hdr: http.Header{}}
	r := verifRequest(http.MethodPost, [][2]string{{"namespace", url.PathEscape(ns)}, {"digest", d.String()}}, http.Header{}, nil)
	if err := s.startClusterUploadHandler(w, r); err != nil {
		return "", err
	}
	return w.hdr.Get("Location"), nil
}

// patchH: PATCH /namespace/{namespace}/blobs/{digest}/uploads/{uid}
func (s *Server) verifPatchH(ns string, d core.Digest, uid string, data []byte) error {
	s.verifTracer()
	w := &verifRecorder{hdr: http.Header{}}
	hdr := http.Header{}
	hdr.Set("Content-Range", "0-"+strconv.Itoa(len(data)))
	r := verifRequest(http.MethodPatch,
		[][2]string{{"namespace", url.PathEscape(ns)}, {"digest", d.String()}, {"uid", uid}}, hdr, data)
	return s.patchClusterUploadHandler(w, r)
}

// commitH: PUT /namespace/{namespace}/blobs/{digest}/uploads/{uid}
func (s *Server) verifCommitH(ns string, d core.Digest, uid string) error {
	s.verifTracer()
	w := &verifRecorder{hdr: http.Header{}}
	r := verifRequest(http.MethodPut,
		[][2]string{{"namespace", url.PathEscape(ns)}, {"digest", d.String()}, {"uid", uid}}, http.Header{}, nil)
	return s.commitClusterUploadHandler(w, r)
}

// persisted: the blob's persist flag (what makes every deletion path of the
// store refuse, C10) is set.
func (w *verifWorld) persisted(s *Server) bool {
	var p metadata.Persist
	if err := s.cas.GetCacheFileMetadata(verifBlobDigest().Hex(), &p); err != nil {
		return false
	}
	return p.Value
}

// checkStrict: an acknowledged upload is in the backend, or the local copy
// exists AND is pinned (persist flag) AND a write-back task is stored.
func (w *verifWorld) checkStrict(s *Server, wb *verifWriteBack) {
	_, err := s.cas.GetCacheFileStat(verifBlobDigest().Hex())
	local := err == nil
	verif.Assert("backend-receives-exactly-the-blob", !w.wrongBytes)
	if w.acked[0] {
		verif.Assert("acknowledged-commit-is-in-backend-or-pinned-with-a-stored-task",
			w.inBackend[0] || (local && w.persisted(s) && wb.has(verifNamespaces[0])))
	}
}

// VerifWriteBackTwoUploadersCommitConflict: two clients upload the same digest
// at the same time: both pass start and patch before either commits (so neither
// start nor patch short-circuits through the conflict path), then they commit
// one after the other through the real commit handler. The task store may be
// down (symbolic) at each writeBack -- in particular at the first committer's,
// after its blob has moved into the cache -- and the second committer then gets
// the conflict. Every acknowledged commit (200 or 409) must leave the blob in
// the backend or pinned with a stored task; afterwards worker runs, forced
// cleanups, store deletions and a restart follow in any order.
func VerifWriteBackTwoUploadersCommitConflict() {
	verif.Option("panic_is_violation", 1)
	w := &verifWorld{root: filepath.Join(verif.TempDir(), "c31"), outages: false, owns: true}
	s, wb := w.boot()
	d := verifBlobDigest()
	ns := verifNamespaces[0]

	var uids [2]string
	for c := 0; c < 2; c++ {
		uid, err := s.verifStartH(ns, d)
		verif.Assert("start-accepted-while-blob-is-not-cached", err == nil && uid != "")
		uids[c] = uid
	}
	for c := 0; c < 2; c++ {
		err := s.verifPatchH(ns, d, uids[c], verifBlob)
		verif.Assert("patch-accepted-while-blob-is-not-cached", err == nil)
	}

	w.outages = true // from here on the task store (and the backend) may be down at any call
	first := verif.Choice("first_committer", 2)
	for k := 0; k < 2; k++ {
		c := first
		if k == 1 {
			c = 1 - first
		}
		faultsBefore := w.taskStoreFaults
		err := s.verifCommitH(ns, d, uids[c])
		if k == 0 {
			verif.Cover("first-committer-not-acknowledged-task-store-down", err != nil && w.taskStoreFaults > faultsBefore)
		} else {
			verif.Assert("second-committer-finds-the-blob-committed", err != nil)
			verif.Cover("second-committer-gets-conflict", verifIsConflict(err))
		}
		if verifAck(err) {
			w.acked[0] = true
			verif.Cover("commit-acknowledged", true)
			verif.Cover("commit-acknowledged-with-conflict", verifIsConflict(err))
		}
		w.checkStrict(s, wb)
	}

	name := d.Hex()
	steps := verif.Bound("steps_after_commits", 2, 3)
	for k := 0; k < steps; k++ {
		switch verif.Choice("op", 4) {
		case 0:
			wb.workerStep()
		case 1:
			// forced cleanup; the blob is a candidate when its ttl has run out
			// or the ring no longer names this origin as an owner
			w.owns = verif.Bool("origin_owns_blob")
			deleted, _ := s.maybeDelete(name, 0)
			verif.Cover("forced-cleanup-deleted", deleted)
			w.owns = true
		case 2:
			s.cas.DeleteCacheFile(name)
		case 3:
			s, wb = w.boot()
		}
		w.checkStrict(s, wb)
	}
}
