//kse:pkg origin/blobserver
package blobserver

import (
	"bytes"
	"context"
	"errors"
	"io"
	"net/http"
	"os"
	"path/filepath"
	"strings"
	"time"

	"github.com/andres-erbsen/clock"
	"github.com/c2h5oh/datasize"
	"github.com/uber-go/tally"
	"github.com/uber/kraken/core"
	"github.com/uber/kraken/lib/backend"
	"github.com/uber/kraken/lib/backend/backenderrors"
	"github.com/uber/kraken/lib/hashring"
	"github.com/uber/kraken/lib/metainfogen"
	"github.com/uber/kraken/lib/persistedretry"
	"github.com/uber/kraken/lib/persistedretry/writeback"
	"github.com/uber/kraken/lib/store"
	"github.com/uber/kraken/utils/handler"
	"github.com/uber/kraken/utils/stringset"
	verif "github.com/uber/kraken/zzverif"
)

// White-box harness (the Server is assembled field by field: its constructor
// needs a hash ring, peer context, refresher … that play no role here).
//
// Real code: Server.writeBack, handleUploadConflict, maybeDelete, the uploader
// (start, patch, commit), writeback.Executor.Exec, metainfogen.Generator, a real
// CAStore on the model file system. Models: the backend per namespace, the
// write-back manager (its task store is a directory per task on the same file
// system, so that it survives restarts and crashes exactly like the rest).

var verifNamespaces = []string{"ns-one", "ns-two"}

const verifAddr = "origin1:80"

var verifBlob = []byte("blob")

func verifBlobDigest() core.Digest {
	d, err := core.NewDigester().FromBytes(verifBlob)
	if err != nil {
		panic(err)
	}
	return d
}

// verifWorld: what survives a restart (file system aside): the backends.
type verifWorld struct {
	root       string
	inBackend  [2]bool // namespace i's backend holds the blob
	wrongBytes bool
	outages    bool
	acked      [2]bool // an upload for namespace i was acknowledged to a client
	owns       bool    // this origin is in the blob's replica set

	taskStoreFaults int // number of write-back task additions that failed (injected)

	// mirrored: drive uploader + conflict handling + writeBack in the order the
	// handlers call them instead of calling the handlers themselves (false
	// everywhere since the round-2 seed that changed a handler body; kept as a
	// switch for debugging a handler-plumbing problem).
	mirrored bool
}

type verifBackend struct {
	w  *verifWorld
	ns int
}

func (b *verifBackend) down() bool { return b.w.outages && verif.Bool("backend_down") }

func (b *verifBackend) Stat(namespace, name string) (*core.BlobInfo, error) {
	if b.down() {
		return nil, errors.New("backend: 503")
	}
	if b.w.inBackend[b.ns] {
		return core.NewBlobInfo(int64(len(verifBlob))), nil
	}
	return nil, backenderrors.ErrBlobNotFound
}

func (b *verifBackend) Upload(namespace, name string, src io.Reader) error {
	if b.down() {
		return errors.New("backend: 503")
	}
	data, err := io.ReadAll(src)
	if err != nil {
		return err
	}
	if !bytes.Equal(data, verifBlob) || name != verifBlobDigest().Hex() {
		b.w.wrongBytes = true
	}
	b.w.inBackend[b.ns] = true
	return nil
}

func (b *verifBackend) Download(namespace, name string, dst io.Writer) error {
	return backenderrors.ErrBlobNotFound
}
func (b *verifBackend) List(prefix string, opts ...backend.ListOption) (*backend.ListResult, error) {
	return nil, errors.New("not used")
}
func (b *verifBackend) Close() error { return nil }

// verifWriteBack models the persisted-retry manager for write-back tasks: a
// task is a directory "<namespace>@<name>" (mkdir / rmdir are atomic).
type verifWriteBack struct {
	w    *verifWorld
	exec *writeback.Executor
}

func (m *verifWriteBack) dir() string { return filepath.Join(m.w.root, "tasks") }

func (m *verifWriteBack) Add(t persistedretry.Task) error {
	wt := t.(*writeback.Task)
	if m.w.outages && verif.Bool("task_store_down") {
		m.w.taskStoreFaults++
		return errors.New("task store: database is locked")
	}
	err := os.Mkdir(filepath.Join(m.dir(), wt.Namespace+"@"+wt.Name), 0o755)
	if err != nil && !os.IsExist(err) {
		return err
	}
	return nil // an existing task is a no-op, as in manager.Add
}

func (m *verifWriteBack) tasks() []*writeback.Task {
	ents, err := os.ReadDir(m.dir())
	if err != nil {
		return nil
	}
	var out []*writeback.Task
	for _, e := range ents {
		if i := strings.Index(e.Name(), "@"); i > 0 {
			out = append(out, writeback.NewTask(e.Name()[:i], e.Name()[i+1:], 0))
		}
	}
	return out
}

// Find: the harness has a single blob, so "tasks with this name" are all tasks.
func (m *verifWriteBack) Find(query interface{}) ([]persistedretry.Task, error) {
	var out []persistedretry.Task
	for _, t := range m.tasks() {
		out = append(out, t)
	}
	return out, nil
}

func (m *verifWriteBack) SyncExec(t persistedretry.Task) error { return m.exec.Exec(t) }
func (m *verifWriteBack) Close()                               {}

// workerStep: the manager's worker executes one stored task; a task leaves the
// store only after a successful execution (C30).
func (m *verifWriteBack) workerStep() {
	ts := m.tasks()
	if len(ts) == 0 {
		return
	}
	t := ts[verif.Choice("task", len(ts))]
	if err := m.exec.Exec(t); err == nil {
		os.Remove(filepath.Join(m.dir(), t.Namespace+"@"+t.Name))
		verif.Cover("write-back-task-completed", true)
	}
}

func (m *verifWriteBack) has(ns string) bool {
	for _, t := range m.tasks() {
		if t.Namespace == ns {
			return true
		}
	}
	return false
}

type verifRing struct {
	hashring.Ring
	w *verifWorld
}

func (r *verifRing) Locations(d core.Digest) []string {
	if r.w.owns {
		return []string{verifAddr}
	}
	return []string{"origin2:80"}
}
func (r *verifRing) Members() stringset.Set { return stringset.New(verifAddr) }

// boot builds the origin's in-memory state over the persistent state.
func (w *verifWorld) boot() (*Server, *verifWriteBack) {
	os.MkdirAll(filepath.Join(w.root, "tasks"), 0o755)
	cas, err := store.NewCAStore(store.CAStoreConfig{
		UploadDir:     filepath.Join(w.root, "upload"),
		CacheDir:      filepath.Join(w.root, "cache"),
		UploadCleanup: store.CleanupConfig{Disabled: true},
		CacheCleanup:  store.CleanupConfig{Disabled: true},
	}, tally.NoopScope)
	verif.Assert("store-opens", err == nil)
	backends := &backend.Manager{}
	for i, ns := range verifNamespaces {
		verif.Assert("backend-registered", backends.Register(ns, &verifBackend{w, i}, false) == nil)
	}
	gen, err := metainfogen.New(metainfogen.Config{
		PieceLengths: map[datasize.ByteSize]datasize.ByteSize{0: 4},
	}, cas)
	verif.Assert("metainfo-generator", err == nil)
	wb := &verifWriteBack{w: w, exec: writeback.NewExecutor(tally.NoopScope, cas, backends)}
	s := &Server{
		config:            Config{}.applyDefaults(),
		stats:             tally.NoopScope,
		clk:               clock.New(),
		addr:              verifAddr,
		hashRing:          &verifRing{w: w},
		cas:               cas,
		backends:          backends,
		metaInfoGenerator: gen,
		uploader:          newUploader(cas),
		writeBackManager:  wb,
	}
	return s, wb
}

func verifAck(err error) bool {
	if err == nil {
		return true
	}
	// clients treat 409 Conflict from any upload step as "already uploaded"
	herr, ok := err.(*handler.Error)
	return ok && herr.GetStatus() == http.StatusConflict
}

// upload mirrors start / patch / commit of a cluster upload from the point
// where the handlers have parsed the request (server.go:750, 813, 870).
func (w *verifWorld) upload(s *Server, ns string, stopBeforeCommit bool) (uid string, acked bool) {
	d := verifBlobDigest()
	if w.mirrored {
		ctx := context.Background()
		uid, err := s.uploader.start(d)
		if err != nil {
			return "", verifAck(s.handleUploadConflict(ctx, err, ns, d))
		}
		if err := s.uploader.patch(d, uid, bytes.NewReader(verifBlob), 0, int64(len(verifBlob))); err != nil {
			return "", verifAck(s.handleUploadConflict(ctx, err, ns, d))
		}
		if stopBeforeCommit {
			return uid, false
		}
		return "", w.commit(s, ns, uid)
	}
	// the real handlers (handlers.go)
	uid, err := s.verifStartH(ns, d)
	if err != nil {
		return "", verifAck(err)
	}
	if err := s.verifPatchH(ns, d, uid, verifBlob); err != nil {
		return "", verifAck(err)
	}
	if stopBeforeCommit {
		return uid, false
	}
	return "", w.commit(s, ns, uid)
}

func (w *verifWorld) commit(s *Server, ns, uid string) bool {
	d := verifBlobDigest()
	if w.mirrored {
		ctx := context.Background()
		if err := s.uploader.commit(d, uid); err != nil {
			return verifAck(s.handleUploadConflict(ctx, err, ns, d))
		}
		return s.writeBack(ctx, ns, d, 0) == nil
	}
	return verifAck(s.verifCommitH(ns, d, uid))
}

// check: for every namespace with an acknowledged upload the blob is in that
// namespace's backend, or the local copy still exists and a write-back task
// for the namespace is stored.
func (w *verifWorld) check(s *Server, wb *verifWriteBack) {
	_, err := s.cas.GetCacheFileStat(verifBlobDigest().Hex())
	local := err == nil
	verif.Assert("backend-receives-exactly-the-blob", !w.wrongBytes)
	for i, ns := range verifNamespaces {
		if w.acked[i] {
			verif.Assert("acknowledged-upload-is-in-backend-or-safely-pending",
				w.inBackend[i] || (local && wb.has(ns)))
		}
	}
}

func verifHistory(outages bool, twoNamespaces bool, ops []int, steps int) {
	verif.Option("panic_is_violation", 1) // a panic must never end a path silently
	w := &verifWorld{root: filepath.Join(verif.TempDir(), "c31"), outages: outages, owns: true}
	s, wb := w.boot()
	name := verifBlobDigest().Hex()
	pendingUID, pendingNS := "", 0
	nns := 1
	if twoNamespaces {
		nns = 2
		// the history starts with a complete, acknowledged upload under ns-two
		_, ok := w.upload(s, verifNamespaces[1], false)
		verif.Assert("first-upload-acknowledged", ok)
		w.acked[1] = true
		w.check(s, wb)
	}
	for k := 0; k < steps; k++ {
		switch ops[verif.Choice("op", len(ops))] {
		case 0: // complete upload (start, patch, commit) for a namespace
			i := verif.Choice("namespace", nns)
			if _, ok := w.upload(s, verifNamespaces[i], false); ok {
				w.acked[i] = true
				verif.Cover("upload-acknowledged", true)
			}
		case 1: // a second client starts and patches an upload but has not committed yet
			verif.Assume(pendingUID == "")
			i := verif.Choice("namespace", nns)
			uid, ok := w.upload(s, verifNamespaces[i], true)
			if ok {
				w.acked[i] = true
			}
			pendingUID, pendingNS = uid, i
		case 2: // ... and commits (a conflict if the blob arrived meanwhile)
			verif.Assume(pendingUID != "")
			if w.commit(s, verifNamespaces[pendingNS], pendingUID) {
				w.acked[pendingNS] = true
				verif.Cover("late-commit-acknowledged", true)
			}
			pendingUID = ""
		case 3: // the write-back worker runs one task
			wb.workerStep()
		case 4: // forced cleanup of this blob
			ttl := time.Duration(0)
			if verif.Bool("ttl_far_away") {
				ttl = 1000000 * time.Hour
			}
			w.owns = verif.Bool("origin_owns_blob")
			deleted, _ := s.maybeDelete(name, ttl)
			verif.Cover("forced-cleanup-deleted", deleted)
			w.owns = true
		case 5: // any other deletion path (periodic cleanup, LRU eviction) asks the store to delete
			err := s.cas.DeleteCacheFile(name)
			verif.Cover("store-deletion-happened", err == nil)
		case 6: // origin restarts
			s, wb = w.boot()
		}
		w.check(s, wb)
	}
}

// VerifWriteBackHistoryOneNamespace: uploads, late (conflicting) commits,
// write-back executions with backend outages, forced cleanups, store-level
// deletions and restarts for one namespace.
func VerifWriteBackHistoryOneNamespace() {
	verifHistory(true, false, []int{0, 1, 2, 3, 4, 5, 6}, verif.Bound("steps", 3, 4))
}

// VerifFindingWriteBackTwoNamespaces: the same blob uploaded under two
// namespaces with different backends (see FINDINGS.md if this fires).
func VerifFindingWriteBackTwoNamespaces() {
	verifHistory(false, true, []int{0, 1, 3, 5}, verif.Bound("steps_after_first_upload", 3, 4))
}

// VerifWriteBackCrash: an upload has been acknowledged; the origin then
// crashes at any file-system step of a further upload of the same blob
// (conflict handling), of a write-back execution or of a forced cleanup. After
// the restart the acknowledged blob is still in the backend or safely pending.
func VerifWriteBackCrash() {
	verif.Option("panic_is_violation", 1) // a panic must never end a path silently
	w := &verifWorld{root: filepath.Join(verif.TempDir(), "c31"), outages: false, owns: true}
	s, wb := w.boot()
	name := verifBlobDigest().Hex()
	_, ok := w.upload(s, verifNamespaces[0], false)
	verif.Assert("first-upload-acknowledged", ok)
	w.acked[0] = true
	if verif.Bool("written_back_before") {
		wb.workerStep()
	}
	w.check(s, wb)
	op := verif.Choice("op_during_crash", 3)
	crashed := verif.CrashScope(func() {
		switch op {
		case 0:
			w.upload(s, verifNamespaces[0], false)
		case 1:
			wb.workerStep()
		case 2:
			s.maybeDelete(name, 0)
		}
	})
	verif.Cover("crashed", crashed)
	verif.Cover("not-crashed", !crashed)
	s, wb = w.boot()
	w.check(s, wb)
	// and the pending write-back still completes afterwards
	wb.workerStep()
	w.check(s, wb)
}
