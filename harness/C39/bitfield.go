//kse:pkg lib/torrent/scheduler/conn
package conn

import (
	"encoding/binary"

	"github.com/uber/kraken/core"
	verif "github.com/uber/kraken/zzverif"
	"github.com/willf/bitset"
)

// API-only file: unmarshalBitfield, RemoteBitfields.marshalBinary /
// unmarshalBinary and the exported bitset API. The marshal side of a handshake
// is bitset.BitSet.MarshalBinary (handshake.toP2PMessage and
// RemoteBitfields.marshalBinary call nothing else).

// verif39Bitset returns a bitset of n bits whose bits are all unknown (the
// words are written through Bytes(), which aliases the set; bits beyond n in
// the last word stay clear as in every bitset built through Set/Clear), and a
// copy of its words.
func verif39Bitset(name string, n int) (*bitset.BitSet, []uint64) {
	b := bitset.New(uint(n))
	words := b.Bytes()
	for i := range words {
		words[i] = verif.Uint64(name)
	}
	if r := uint(n) % 64; r != 0 {
		words[len(words)-1] &= (uint64(1) << r) - 1
	}
	return b, append([]uint64(nil), words...)
}

// verif39SameBits: got has exactly n bits and the given words.
func verif39SameBits(got *bitset.BitSet, n int, want []uint64) bool {
	gw := got.Bytes()
	if len(gw) != len(want) {
		return false
	}
	same := got.Len() == uint(n)
	for i := range want {
		same = verif.And(same, gw[i] == want[i])
	}
	return same
}

// VerifBitfieldRoundTrip: for every bit length 0..191 | 0..575 and every assignment of
// the bits, the bytes a handshake carries for a bitfield are accepted by
// unmarshalBitfield and give back a bitset of the same length with the same
// bits.
func VerifBitfieldRoundTrip() {
	verif.Option("panic_is_violation", 1)
	// every length 0..191 | 0..575, split as whole words + remaining bits
	n := 64*verif.Choice("whole_words", verif.Bound("bitfield_whole_words", 3, 9)) + verif.Len("rest_bits", 0, 63)
	b, want := verif39Bitset("word", n)
	raw, err := b.MarshalBinary()
	verif.Assert("marshal-ok", err == nil)
	verif.Assert("marshal-size", len(raw) == 8+8*len(want))
	got, err := unmarshalBitfield(raw)
	verif.Assert("well-formed-bitfield-accepted", err == nil)
	verif.Assert("same-length-same-bits", verif39SameBits(got, n, want))
	verif.Assert("equal", got.Equal(b))
	verif.Cover("multiple-of-64", n%64 == 0)
	verif.Cover("empty", n == 0)
}

var verif39Lens = []int{64, 0, 1, 63, 65, 128, 127, 129, 192, 256}

// VerifRemoteBitfieldsRoundTrip: a remote-bitfields map with two peers (one
// bitfield of a length from the boundary classes, one of 1..3 bits) survives
// marshalBinary / unmarshalBinary.
func VerifRemoteBitfieldsRoundTrip() {
	verif.Option("panic_is_violation", 1)
	n := verif39Lens[verif.Choice("len_class", verif.Bound("remote_len_classes", 6, len(verif39Lens)))]
	m := 1 + verif.Choice("second_len", 3)
	// peer ids are concrete here (their own round trip is VerifPeerIDRoundTrip)
	p1 := core.PeerID{1, 2, 3, 0xab, 0xff}
	p2 := core.PeerID{19: 7}
	b1, want1 := verif39Bitset("word1", n)
	b2, want2 := verif39Bitset("word2", m)
	rb := RemoteBitfields{p1: b1, p2: b2}
	enc, err := rb.marshalBinary()
	verif.Assert("marshal-ok", err == nil)
	verif.Assert("one-entry-per-peer", len(enc) == 2)
	out := make(RemoteBitfields)
	err = out.unmarshalBinary(enc)
	verif.Assert("well-formed-remote-bitfields-accepted", err == nil)
	verif.Assert("same-peers", len(out) == 2)
	g1, ok1 := out[p1]
	g2, ok2 := out[p2]
	verif.Assert("peers-present", ok1 && ok2)
	verif.Assert("first-same-bits", verif39SameBits(g1, n, want1))
	verif.Assert("second-same-bits", verif39SameBits(g2, m, want2))
}

// VerifBitfieldParse: arbitrary bytes (length classes around the 8-byte header
// and the word boundaries) are rejected, or give a bitset that has the
// declared number of bits, whose declared bits fit in the words that were
// consumed, and that marshals back to exactly the consumed prefix of the input.
func VerifBitfieldParse() {
	verif.Option("panic_is_violation", 1)
	lens := []int{0, 7, 8, 16, 17, 24, 9, 15, 23, 25, 32}
	l := lens[verif.Choice("bytes", verif.Bound("parse_len_classes", 6, len(lens)))]
	raw := verif.Bytes("raw", l)
	in := append([]byte(nil), raw...)
	if l >= 8 {
		// no restriction on the unchanged tree (it rejects more than 8*(l-8)
		// declared bits); keeps a native replay against a modified tree from
		// allocating gigabytes. Huge declared lengths are C14's subject.
		verif.Note("declared bit lengths above 2^30 are not played (allocation behaviour is C14's subject)")
		verif.Assume(binary.BigEndian.Uint64(in) <= 1<<30)
	}
	got, err := unmarshalBitfield(raw)
	verif.Cover("accepted", err == nil)
	verif.Cover("rejected", err != nil)
	if err != nil {
		return
	}
	verif.Assert("has-header", l >= 8)
	n := binary.BigEndian.Uint64(in)
	verif.Assert("declared-length", uint64(got.Len()) == n)
	words := len(got.Bytes())
	verif.Assert("words-were-carried", 8+8*words <= l)
	verif.Assert("declared-bits-fit-in-consumed-words", n <= 64*uint64(words))
	verif.Cover("accepted-empty", n == 0)
	verif.Cover("accepted-full-word", n == 64)
	verif.Cover("accepted-with-trailing-bytes", 8+8*words < l)
	out, err := got.MarshalBinary()
	verif.Assert("marshal-ok", err == nil)
	verif.Assert("marshal-size", len(out) == 8+8*words)
	same := true
	for i := range out {
		same = verif.And(same, out[i] == in[i])
	}
	verif.Assert("marshals-back-to-consumed-input", same)
}
