//kse:pkg lib/torrent/storage/agentstorage
package agentstorage

import (
	verif "github.com/uber/kraken/zzverif"
)

// Piece-status vectors (pieces.go). White-box by necessity: a vector is a
// []*piece whose status field is unexported.
//
// The statuses that are ever written to disk are _empty and _complete:
// Serialize is called by GetOrSetMetadata in restorePieces on an all-empty
// vector, afterwards markPieceComplete writes single byte(_complete) values
// with SetMetadataAt. _dirty marks a write in flight and lives in memory only
// (Deserialize deliberately turns any other byte into _empty), so the
// round trip is stated for vectors over {_empty, _complete}.

// VerifPieceStatusRoundTrip: every vector of 0..K persistent statuses
// survives Serialize / Deserialize (through the registered metadata factory,
// as the store creates the object on the read side).
func VerifPieceStatusRoundTrip() {
	verif.Option("panic_is_violation", 1)
	verif.Note("piece statuses that are persisted: _empty and _complete; _dirty is an in-memory state and is never written")
	k := verif.Len("pieces", 0, verif.Bound("piece_vector_len", 7, 12))
	st := make([]pieceStatus, k)
	pieces := make([]*piece, k)
	for i := range pieces {
		s := verif.Byte("status")
		verif.Assume(verif.Or(s == byte(_empty), s == byte(_complete)))
		st[i] = pieceStatus(s)
		pieces[i] = &piece{status: st[i]}
	}
	b, err := newPieceStatusMetadata(pieces).Serialize()
	verif.Assert("serialize-ok", err == nil)
	verif.Assert("one-byte-per-piece", len(b) == k)
	out := pieceStatusMetadataFactory{}.Create(_pieceStatusSuffix)
	verif.Assert("factory-suffix", out.GetSuffix() == _pieceStatusSuffix)
	err = out.Deserialize(b)
	verif.Assert("deserialize-ok", err == nil)
	got := out.(*pieceStatusMetadata).pieces
	verif.Assert("same-length", len(got) == k)
	same := true
	for i := range got {
		verif.Assert("piece-present", got[i] != nil)
		same = verif.And(same, got[i].status == st[i])
	}
	verif.Assert("same-statuses", same)
	// and what was read serializes to the same bytes again
	b2, err := out.Serialize()
	verif.Assert("reserialize-ok", err == nil && len(b2) == k)
	again := true
	for i := range b2 {
		again = verif.And(again, b2[i] == b[i])
	}
	verif.Assert("reserialize-same-bytes", again)
}

// VerifPieceStatusRoundTripLong: long vectors (lengths around 64 and 256 |
// also 1000) with unknown statuses at the first, a middle and the last
// position and an alternating pattern elsewhere (Deserialize branches per
// byte, so all-unknown long vectors would cost 2^len paths).
func VerifPieceStatusRoundTripLong() {
	verif.Option("panic_is_violation", 1)
	lens := []int{64, 63, 65, 256, 255, 1000}
	k := lens[verif.Choice("len_class", verif.Bound("piece_long_len_classes", 4, len(lens)))]
	st := make([]pieceStatus, k)
	pieces := make([]*piece, k)
	for i := range pieces {
		if i == 0 || i == k/2 || i == k-1 {
			s := verif.Byte("status")
			verif.Assume(verif.Or(s == byte(_empty), s == byte(_complete)))
			st[i] = pieceStatus(s)
		} else if i%2 == 1 {
			st[i] = _complete
		}
		pieces[i] = &piece{status: st[i]}
	}
	b, err := newPieceStatusMetadata(pieces).Serialize()
	verif.Assert("serialize-ok", err == nil)
	verif.Assert("one-byte-per-piece", len(b) == k)
	var out pieceStatusMetadata
	err = out.Deserialize(b)
	verif.Assert("deserialize-ok", err == nil)
	verif.Assert("same-length", len(out.pieces) == k)
	same := true
	for i, p := range out.pieces {
		verif.Assert("piece-present", p != nil)
		same = verif.And(same, p.status == st[i])
	}
	verif.Assert("same-statuses", same)
}

// VerifPieceStatusParse: arbitrary bytes are rejected, or give one piece per
// byte whose status is a valid persistent status; a well-formed byte keeps its
// meaning, a malformed byte is never taken for a completed piece, and input
// made of well-formed bytes only serializes back to itself.
func VerifPieceStatusParse() {
	verif.Option("panic_is_violation", 1)
	k := verif.Len("bytes", 0, verif.Bound("piece_parse_len", 5, 8))
	raw := verif.Bytes("raw", k)
	in := append([]byte(nil), raw...)
	var md pieceStatusMetadata
	err := md.Deserialize(raw)
	verif.Cover("accepted", err == nil)
	if err != nil {
		return // rejecting malformed input is allowed
	}
	verif.Assert("one-piece-per-byte", len(md.pieces) == k)
	allWF := true
	for i, p := range md.pieces {
		verif.Assert("piece-present", p != nil)
		wf := verif.Or(in[i] == byte(_empty), in[i] == byte(_complete))
		allWF = verif.And(allWF, wf)
		verif.Cover("malformed-byte", !wf)
		verif.Cover("complete-byte", in[i] == byte(_complete))
		verif.Assert("status-is-valid", verif.Or(p.status == _empty, p.status == _complete))
		verif.Assert("well-formed-byte-kept", verif.Implies(wf, byte(p.status) == in[i]))
		verif.Assert("malformed-byte-not-complete", verif.Implies(!wf, p.status != _complete))
	}
	out, err := md.Serialize()
	verif.Assert("serialize-ok", err == nil && len(out) == k)
	sameBytes := true
	for i := range out {
		sameBytes = verif.And(sameBytes, out[i] == in[i])
	}
	verif.Assert("well-formed-input-serializes-back", verif.Implies(allWF, sameBytes))
}
