//kse:pkg lib/store/metadata
package metadata

import (
	"time"

	verif "github.com/uber/kraken/zzverif"
)

// VerifLastAccessTimeRoundTrip: access times at second granularity within
// years 1..9999 survive Serialize/Deserialize.
func VerifLastAccessTimeRoundTrip() {
	sec := verif.Int64("sec")
	verif.Assume(sec >= -62135596800) // 0001-01-01
	verif.Assume(sec <= 253402300799) // 9999-12-31
	lat := NewLastAccessTime(time.Unix(sec, 0))
	b, err := lat.Serialize()
	verif.Assert("serialize-ok", err == nil)
	var out LastAccessTime
	err = out.Deserialize(b)
	verif.Assert("deserialize-ok", err == nil)
	verif.Assert("same-second", out.Time.Unix() == sec)
	verif.Assert("equal", out.Time.Equal(lat.Time))
}

// VerifLastAccessTimeParse: arbitrary bytes never panic the parser.
func VerifLastAccessTimeParse() {
	verif.Option("panic_is_violation", 1)
	n := verif.Len("len", 0, verif.Bound("bytes", 4, 10))
	b := verif.Bytes("b", n)
	var out LastAccessTime
	err := out.Deserialize(b)
	verif.Cover("parsed", err == nil)
	verif.Cover("rejected", err != nil)
	if err == nil {
		verif.Assert("non-empty-input", n > 0)
	}
}

// VerifPersistRoundTrip
func VerifPersistRoundTrip() {
	v := verif.Bool("v")
	p := NewPersist(v)
	b, err := p.Serialize()
	verif.Assert("serialize-ok", err == nil)
	var out Persist
	err = out.Deserialize(b)
	verif.Assert("deserialize-ok", err == nil)
	verif.Assert("same", out.Value == v)
}

// VerifPersistParse: only the strconv.ParseBool spellings are accepted.
func VerifPersistParse() {
	verif.Option("panic_is_violation", 1)
	n := verif.Len("len", 0, 5)
	b := verif.Bytes("b", n)
	var out Persist
	err := out.Deserialize(b)
	verif.Cover("parsed", err == nil)
	verif.Cover("rejected", err != nil)
	if err != nil {
		return
	}
	s := string(b)
	isTrue := verif.Or(s == "1", s == "t", s == "T", s == "TRUE", s == "true", s == "True")
	isFalse := verif.Or(s == "0", s == "f", s == "F", s == "FALSE", s == "false", s == "False")
	verif.Assert("well-formed", verif.Or(isTrue, isFalse))
	verif.Assert("value", out.Value == isTrue)
	// print(parse(s)) is the canonical spelling
	c, _ := out.Serialize()
	verif.Assert("canonical", verif.Or(string(c) == "true", string(c) == "false"))
}
