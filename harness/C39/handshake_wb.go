//kse:pkg lib/torrent/scheduler/conn
package conn

import (
	"github.com/uber/kraken/core"
	"github.com/uber/kraken/gen/go/proto/p2p"
	verif "github.com/uber/kraken/zzverif"
	"github.com/willf/bitset"
)

// White-box file (builds and reads the unexported handshake struct); does not
// depend on bitfield.go.

func verif39wbBitset(name string, n int) (*bitset.BitSet, []uint64) {
	b := bitset.New(uint(n))
	words := b.Bytes()
	for i := range words {
		words[i] = verif.Uint64(name)
	}
	if r := uint(n) % 64; r != 0 {
		words[len(words)-1] &= (uint64(1) << r) - 1
	}
	return b, append([]uint64(nil), words...)
}

func verif39wbSame(got *bitset.BitSet, n int, want []uint64) bool {
	if got == nil {
		return false
	}
	gw := got.Bytes()
	if len(gw) != len(want) {
		return false
	}
	same := got.Len() == uint(n)
	for i := range want {
		same = verif.And(same, gw[i] == want[i])
	}
	return same
}

// VerifHandshakeMessageRoundTrip: a handshake with symbolic identifiers, a
// bitfield of every length around the word boundaries (all bits unknown) and
// one remote bitfield is turned into its wire message by toP2PMessage and
// parsed by handshakeFromP2PMessage into the same handshake.
func VerifHandshakeMessageRoundTrip() {
	verif.Option("panic_is_violation", 1)
	lens := []int{64, 0, 1, 63, 65, 128, 127, 129, 192, 200}
	n := lens[verif.Choice("len_class", verif.Bound("handshake_len_classes", 6, len(lens)))]
	var pid, rpid core.PeerID
	copy(pid[:], verif.Bytes("peer", 20))
	rpid[3] = 9
	var ih core.InfoHash
	copy(ih[:], verif.Bytes("infohash", 20))
	d, err := core.NewSHA256DigestFromHex("00000000000000000000000000000000000000000000000000000000000000ab")
	verif.Assume(err == nil)
	b, want := verif39wbBitset("word", n)
	rbits, rwant := verif39wbBitset("rword", n)
	h := &handshake{
		peerID:          pid,
		digest:          d,
		infoHash:        ih,
		bitfield:        b,
		remoteBitfields: RemoteBitfields{rpid: rbits},
		namespace:       "ns/" + verif.String("namespace", 2),
	}
	msg, err := h.toP2PMessage()
	verif.Assert("to-message-ok", err == nil)
	verif.Assert("is-bitfield-message", msg.Type == p2p.Message_BITFIELD && msg.Bitfield != nil)
	h2, err := handshakeFromP2PMessage(msg)
	verif.Assert("own-handshake-parses", err == nil)
	verif.Assert("peer-id", h2.peerID == pid)
	verif.Assert("info-hash", h2.infoHash == ih)
	verif.Assert("digest", h2.digest == d)
	verif.Assert("namespace", h2.namespace == h.namespace)
	verif.Assert("bitfield", verif39wbSame(h2.bitfield, n, want))
	verif.Assert("one-remote-bitfield", len(h2.remoteBitfields) == 1)
	verif.Assert("remote-bitfield", verif39wbSame(h2.remoteBitfields[rpid], n, rwant))
}
