//kse:pkg core
package core

import (
	verif "github.com/uber/kraken/zzverif"
)

func verifIsHex(c byte) bool {
	return verif.Or(verif.And(c >= '0', c <= '9'), verif.And(c >= 'a', c <= 'f'), verif.And(c >= 'A', c <= 'F'))
}

// VerifDigestRoundTrip: every 64-character string is either rejected or
// becomes a digest that prints as "sha256:"+hex and parses back to itself.
func VerifDigestRoundTrip() {
	hex := verif.String("hex", 64)
	d, err := NewSHA256DigestFromHex(hex)
	allHex := true
	for i := 0; i < 64; i++ {
		allHex = verif.And(allHex, verifIsHex(hex[i]))
	}
	verif.Cover("accepted", err == nil)
	verif.Cover("rejected", err != nil)
	if err != nil {
		verif.Assert("rejects-only-non-hex", !allHex)
		return
	}
	verif.Assert("accepts-only-hex", allHex)
	verif.Assert("hex-accessor", d.Hex() == hex)
	verif.Assert("print", d.String() == "sha256:"+hex)
	d2, err := ParseSHA256Digest(d.String())
	verif.Assert("parse-of-print-succeeds", err == nil)
	verif.Assert("parse-of-print-is-identity", d2 == d)
}

// VerifDigestParse: arbitrary prefix bytes and arbitrary bytes at selected
// positions of the hex part, plus the three length classes around 64.
func VerifDigestParse() {
	prefix := verif.String("prefix", 7)
	n := 63 + verif.Choice("hexlen", 3) // 63, 64, 65
	body := make([]byte, n)
	for i := range body {
		body[i] = 'a'
	}
	for k, pos := range []int{0, 31, n - 1} {
		_ = k
		body[pos] = verif.Byte("wild")
	}
	raw := prefix + string(body)
	d, err := ParseSHA256Digest(raw)
	verif.Cover("parse-ok", err == nil)
	if err != nil {
		return
	}
	verif.Assert("prefix-is-sha256-colon", prefix == "sha256:")
	verif.Assert("length-64", n == 64)
	for _, pos := range []int{0, 31, n - 1} {
		verif.Assert("hex-char", verifIsHex(body[pos]))
	}
	verif.Assert("print-of-parse", d.String() == raw)
	verif.Assert("hex-part", d.Hex() == string(body))
}

// VerifDigestParseShort: raw strings of every length 0..8 with all bytes
// arbitrary are rejected without panic.
func VerifDigestParseShort() {
	n := verif.Len("len", 0, verif.Bound("short_len", 6, 8))
	raw := verif.String("raw", n)
	_, err := ParseSHA256Digest(raw)
	verif.Assert("short-rejected", err != nil)
}

// VerifInfoHashRoundTrip
func VerifInfoHashRoundTrip() {
	var h InfoHash
	copy(h[:], verif.Bytes("h", 20))
	s := h.Hex()
	verif.Assert("len40", len(s) == 40)
	h2, err := NewInfoHashFromHex(s)
	verif.Assert("parse-ok", err == nil)
	verif.Assert("identity", h2 == h)
	verif.Assert("string", h.String() == s)
}

// VerifInfoHashParse: 40 arbitrary characters
func VerifInfoHashParse() {
	s := verif.String("s", 40)
	h, err := NewInfoHashFromHex(s)
	verif.Cover("accepted", err == nil)
	verif.Cover("rejected", err != nil)
	if err != nil {
		return
	}
	for i := 0; i < 40; i++ {
		verif.Assert("hex-char", verifIsHex(s[i]))
	}
	// printing gives the lower-case form of what was parsed
	p := h.Hex()
	for i := 0; i < 40; i++ {
		c := s[i]
		lc := byte(verif.Ite(verif.And(c >= 'A', c <= 'F'), int(c)+32, int(c)))
		verif.Assert("print-is-lowercase-of-input", p[i] == lc)
	}
}

func VerifInfoHashParseLen() {
	n := verif.Choice("len", 4)
	lens := []int{0, 39, 41, 2}
	s := verif.String("s", lens[n])
	_, err := NewInfoHashFromHex(s)
	verif.Assert("wrong-length-rejected", err != nil)
}

// VerifPeerIDRoundTrip
func VerifPeerIDRoundTrip() {
	var p PeerID
	copy(p[:], verif.Bytes("p", 20))
	s := p.String()
	p2, err := NewPeerID(s)
	verif.Assert("parse-ok", err == nil)
	verif.Assert("identity", p2 == p)
}

func VerifPeerIDParse() {
	lens := []int{40, 38, 42, 39, 0}
	n := lens[verif.Choice("len", 5)]
	s := verif.String("s", n)
	p, err := NewPeerID(s)
	verif.Cover("accepted", err == nil)
	if err != nil {
		return
	}
	verif.Assert("length-40", n == 40)
	out := p.String()
	for i := 0; i < 40; i++ {
		c := s[i]
		lc := byte(verif.Ite(verif.And(c >= 'A', c <= 'F'), int(c)+32, int(c)))
		verif.Assert("print-is-lowercase-of-input", out[i] == lc)
	}
}
