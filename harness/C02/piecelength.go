//kse:pkg lib/metainfogen
package metainfogen

import (
	"github.com/c2h5oh/datasize"
	verif "github.com/uber/kraken/zzverif"
)

// C02, last sentence: the piece length chosen for a blob is the one
// configured for the largest size threshold not above the blob's size (and,
// as the code documents, the one of the smallest threshold when the blob is
// smaller than every threshold). The table has symbolic thresholds and piece
// lengths and is iterated in every map order.

func VerifPieceLengthTable() {
	verif.Option("map_order_symbolic", 1)
	k := verif.Len("entries", 1, verif.Bound("entries", 3, 4))
	thr := make([]int64, k)
	pl := make([]int64, k)
	table := map[datasize.ByteSize]datasize.ByteSize{}
	for i := 0; i < k; i++ {
		thr[i] = verif.Int64("threshold")
		pl[i] = verif.Int64("piece_length")
		// thresholds are byte sizes below 2^63 (the code converts them to int64)
		verif.Assume(thr[i] >= 0)
		verif.Assume(pl[i] >= 0)
		for j := 0; j < i; j++ {
			verif.Assume(thr[j] != thr[i]) // map keys
		}
		table[datasize.ByteSize(thr[i])] = datasize.ByteSize(pl[i])
	}
	verif.Assert("table-size", len(table) == k)
	g, err := New(Config{PieceLengths: table}, nil)
	verif.Assert("config-accepted", err == nil)

	size := verif.Int64("blob_size")
	verif.Assume(size >= 0)
	got := g.GetPieceLength(size)

	// reference, without forking: best = entry with the largest threshold ≤ size
	haveBest := false
	var bestThr, bestPL int64
	minThr, minPL := thr[0], pl[0]
	for i := 0; i < k; i++ {
		better := verif.And(thr[i] <= size, verif.Or(!haveBest, thr[i] > bestThr))
		bestThr = verif.Ite64(better, thr[i], bestThr)
		bestPL = verif.Ite64(better, pl[i], bestPL)
		haveBest = verif.Or(haveBest, better)
		smaller := thr[i] < minThr
		minPL = verif.Ite64(smaller, pl[i], minPL)
		minThr = verif.Ite64(smaller, thr[i], minThr)
	}
	verif.Cover("below-every-threshold", !haveBest)
	verif.Cover("between-thresholds", verif.And(haveBest, bestThr != minThr))
	verif.Assert("largest-threshold-not-above-size", verif.Implies(haveBest, got == bestPL))
	verif.Assert("smallest-threshold-when-below-all", verif.Implies(!haveBest, got == minPL))
}

// VerifPieceLengthTableEmpty: an empty table is rejected by the constructor.
func VerifPieceLengthTableEmpty() {
	_, err := New(Config{PieceLengths: map[datasize.ByteSize]datasize.ByteSize{}}, nil)
	verif.Assert("empty-table-rejected", err != nil)
	_, err = New(Config{}, nil)
	verif.Assert("nil-table-rejected", err != nil)
}
