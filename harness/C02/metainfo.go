//kse:pkg core
package core

import (
	"bytes"

	verif "github.com/uber/kraken/zzverif"
)

// C02: torrent metainfo exactly describes its blob. The two generators
// (stream: NewMetaInfo / calcPieceSums; slice: NewMetaInfoFromBytes /
// calcPieceSumsFromBytes) run on a symbolic blob with a symbolic piece length
// over the whole int64 range and are compared with the definition and with
// each other. crc32 is an uninterpreted function of the piece bytes, so
// "checksum of the corresponding bytes" is checked as "the same function
// applied to exactly those bytes".

const verifC02Name = "cccccccccccccccccccccccccccccccccccccccccccccccccccccccccccccccc"

func verifC02Check(label string, mi *MetaInfo, d Digest, blob []byte, p int64) {
	n := int64(len(blob))
	verif.Assert(label+"-length", mi.Length() == n)
	verif.Assert(label+"-piece-length", mi.PieceLength() == p)
	verif.Assert(label+"-digest", mi.Digest() == d)
	np := mi.NumPieces()
	if n == 0 {
		verif.Assert(label+"-empty-blob-has-no-pieces", np == 0)
		return
	}
	// np == ceil(n/p), stated without a division by the symbolic 64-bit p
	// (bvsdiv by a symbolic divisor comes back unknown for n >= 6): for p >= n
	// one piece; for p < n (so p*np cannot wrap: n is at most the blob bound)
	// (np-1)*p < n <= np*p.
	k := int64(np)
	verif.Assert(label+"-piece-count", verif.Or(
		verif.And(p >= n, k == 1),
		verif.And(p < n, k >= 1, k <= n, (k-1)*p < n, n <= k*p)))
	var total int64
	for i := 0; i < np; i++ {
		total += mi.GetPieceLength(i)
	}
	verif.Assert(label+"-piece-lengths-sum-to-length", total == n)
	if np == 1 {
		verif.Cover(label+"-single-piece", true)
		verif.Assert(label+"-single-piece-length", mi.GetPieceLength(0) == n)
		verif.Assert(label+"-single-piece-sum", mi.GetPieceSum(0) == PieceSum(blob))
		return
	}
	// np > 1 implies p < n, a small value
	pl := verif.Concrete(int(p))
	verif.Cover(label+"-several-pieces", true)
	verif.Cover(label+"-exact-multiple", len(blob)%pl == 0)
	verif.Cover(label+"-short-last-piece", len(blob)%pl != 0)
	for i := 0; i < np; i++ {
		lo := i * pl
		hi := lo + pl
		if i < np-1 {
			verif.Assert(label+"-inner-piece-has-piece-length", mi.GetPieceLength(i) == p)
		} else {
			verif.Assert(label+"-last-piece-not-longer", mi.GetPieceLength(i) <= p)
			verif.Assert(label+"-last-piece-not-empty", mi.GetPieceLength(i) > 0)
			hi = len(blob)
		}
		verif.Assert(label+"-piece-within-blob", hi <= len(blob))
		verif.Assert(label+"-piece-sum-of-corresponding-bytes", mi.GetPieceSum(i) == PieceSum(blob[lo:hi]))
	}
	verif.Assert(label+"-out-of-range-piece-length", mi.GetPieceLength(np) == 0 && mi.GetPieceLength(-1) == 0)
}

func verifC02Blob() (Digest, []byte) {
	d, err := NewSHA256DigestFromHex(verifC02Name)
	verif.Assert("digest", err == nil)
	n := verif.Len("blob_len", 0, verif.Bound("blob_len", 5, 9))
	return d, verif.Bytes("blob", n)
}

// VerifMetaInfoFromBytes: the slice generator for every blob length up to
// the bound, arbitrary bytes and EVERY int64 piece length.
func VerifMetaInfoFromBytes() {
	d, blob := verifC02Blob()
	p := verif.Int64("piece_length")
	m, err := NewMetaInfoFromBytes(d, blob, p)
	verif.Cover("rejected", err != nil)
	verif.Cover("accepted", err == nil)
	verif.Assert("positive-piece-length-accepted", (err == nil) == (p > 0))
	if err == nil {
		verifC02Check("slice", m, d, blob, p)
	}
}

// VerifMetaInfoGenerators: stream generator against the definition and
// against the slice generator. The stream generator allocates a copy buffer
// of min(pieceLength, 32768) bytes (io.Copy), which the engine can only do for
// a concrete size, so the piece length is symbolic within three classes:
// ≤ blob length + 1 (including zero and all negative values), ≥ 32768, and
// three representatives of the single-piece middle range in between.
func VerifMetaInfoGenerators() {
	d, blob := verifC02Blob()
	n := int64(len(blob))
	var p int64
	switch verif.Choice("piece_length_class", 3) {
	case 0:
		p = verif.Int64("piece_length")
		verif.Assume(p <= n+1)
	case 1:
		p = verif.Int64("piece_length")
		verif.Assume(p >= 32768)
	case 2:
		p = []int64{n + 2, 4096, 32767}[verif.Choice("middle_piece_length", 3)]
	}

	m1, err1 := NewMetaInfo(d, bytes.NewReader(blob), p)
	m2, err2 := NewMetaInfoFromBytes(d, blob, p)
	verif.Cover("rejected", err1 != nil)
	verif.Cover("accepted", err1 == nil)
	verif.Assert("generators-agree-on-acceptance", (err1 == nil) == (err2 == nil))
	verif.Assert("positive-piece-length-accepted", (err1 == nil) == (p > 0))
	if err1 != nil || err2 != nil {
		return
	}
	verifC02Check("stream", m1, d, blob, p)
	verifC02Check("slice", m2, d, blob, p)
	// identical whether computed from a stream or from a buffer
	verif.Assert("same-length", m1.Length() == m2.Length())
	verif.Assert("same-piece-count", m1.NumPieces() == m2.NumPieces())
	verif.Assert("same-piece-length", m1.PieceLength() == m2.PieceLength())
	for i := 0; i < m1.NumPieces() && i < m2.NumPieces(); i++ {
		verif.Assert("same-piece-sum", m1.GetPieceSum(i) == m2.GetPieceSum(i))
		verif.Assert("same-per-piece-length", m1.GetPieceLength(i) == m2.GetPieceLength(i))
	}
	verif.Assert("same-info-hash", m1.InfoHash() == m2.InfoHash())
	verif.Assert("same-digest", m1.Digest() == m2.Digest())
}

// VerifMetaInfoSerializeGlue: Serialize then DeserializeMetaInfo preserves
// info hash, digest and piece layout. encoding/json and bencode work through
// reflection and are NOT interpreted: the JSON text is replaced by an opaque
// injective encoding of the four info fields and the info hash by an
// uninterpreted function of them (engine models, see NOTES.md). What this
// harness decides is therefore only the code around them: that Deserialize
// rebuilds the hash from the decoded info and the digest from its Name.
func VerifMetaInfoSerializeGlue() {
	verif.Note("C02 round trip: encoding/json and bencode are modelled (opaque injective encoding / uninterpreted hash); only the surrounding code of Serialize/DeserializeMetaInfo is decided")
	d, blob := verifC02Blob()
	p := int64(verif.Len("piece_length", 1, 3))
	m, err := NewMetaInfoFromBytes(d, blob, p)
	verif.Assert("metainfo", err == nil)
	b, err := m.Serialize()
	verif.Assert("serialize", err == nil)
	m2, err := DeserializeMetaInfo(b)
	verif.Assert("deserialize", err == nil)
	verif.Assert("round-trip-info-hash", m2.InfoHash() == m.InfoHash())
	verif.Assert("round-trip-digest", m2.Digest() == m.Digest())
	verif.Assert("round-trip-length", m2.Length() == m.Length())
	verif.Assert("round-trip-piece-length", m2.PieceLength() == m.PieceLength())
	verif.Assert("round-trip-piece-count", m2.NumPieces() == m.NumPieces())
	for i := 0; i < m.NumPieces() && i < m2.NumPieces(); i++ {
		verif.Assert("round-trip-piece-sum", m2.GetPieceSum(i) == m.GetPieceSum(i))
	}
}
