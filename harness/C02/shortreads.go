//kse:pkg core
package core

import (
	"io"

	verif "github.com/uber/kraken/zzverif"
)

// verifChunkReader is a stream that hands out an arbitrary number of bytes
// per Read (at least one, at most what is asked for and what is left) — as a
// pipe or a socket does; io.Reader allows any such short read. The count of
// every single Read is a symbolic choice. The end of the data is reported
// either together with the last bytes (n > 0, io.EOF) or by a separate
// (0, io.EOF), both allowed by io.Reader.
type verifChunkReader struct {
	data        []byte
	off         int
	eofWithData bool
	shortReads  int
}

func (r *verifChunkReader) Read(p []byte) (int, error) {
	if r.off >= len(r.data) {
		return 0, io.EOF
	}
	if len(p) == 0 {
		return 0, nil
	}
	max := len(p)
	if max > len(r.data)-r.off {
		max = len(r.data) - r.off
	}
	n := 1 + verif.Choice("read_count", max)
	if n < len(p) && r.off+n < len(r.data) {
		r.shortReads++
	}
	copy(p, r.data[r.off:r.off+n])
	r.off += n
	if r.eofWithData && r.off == len(r.data) {
		return n, io.EOF
	}
	return n, nil
}

// VerifMetaInfoShortReadStream: the stream generator must describe the blob
// exactly also when the stream returns short reads: every split of the blob
// into Read results, every piece length from 1 to one more than the blob
// length, both ways of reporting the end of the stream.
func VerifMetaInfoShortReadStream() {
	d, err := NewSHA256DigestFromHex(verifC02Name)
	verif.Assert("digest", err == nil)
	nb := verif.Len("blob_len", 1, verif.Bound("short_read_blob_len", 4, 6))
	blob := verif.Bytes("blob", nb)
	n := int64(nb)
	p := int64(verif.Len("piece_length", 1, nb+1))
	r := &verifChunkReader{data: blob, eofWithData: verif.Choice("eof_with_last_bytes", 2) == 1}
	m1, err1 := NewMetaInfo(d, r, p)
	m2, err2 := NewMetaInfoFromBytes(d, blob, p)
	verif.Assert("both-accepted", err1 == nil && err2 == nil)
	verif.Cover("short-read-inside-a-piece", r.shortReads > 0 && p > 1)
	verif.Cover("several-pieces-with-short-reads", r.shortReads > 0 && n > p)
	verifC02Check("stream", m1, d, blob, p)
	verif.Assert("same-length", m1.Length() == m2.Length())
	verif.Assert("same-piece-count", m1.NumPieces() == m2.NumPieces())
	for i := 0; i < m1.NumPieces() && i < m2.NumPieces(); i++ {
		verif.Assert("same-piece-sum", m1.GetPieceSum(i) == m2.GetPieceSum(i))
	}
	verif.Assert("same-info-hash", m1.InfoHash() == m2.InfoHash())
}
