//kse:pkg core
package core

import (
	"io"

	verif "github.com/uber/kraken/zzverif"
)

// verifChunkReader is a stream that hands out at most chunk bytes per Read
// (like a pipe or a socket does), never failing before the data is exhausted.
type verifChunkReader struct {
	data  []byte
	off   int
	chunk int
}

func (r *verifChunkReader) Read(p []byte) (int, error) {
	if r.off >= len(r.data) {
		return 0, io.EOF
	}
	n := len(p)
	if n > r.chunk {
		n = r.chunk
	}
	if n > len(r.data)-r.off {
		n = len(r.data) - r.off
	}
	copy(p, r.data[r.off:r.off+n])
	r.off += n
	return n, nil
}

// VerifMetaInfoShortReadStream: the stream generator must describe the blob
// exactly also when the stream returns short reads (io.Reader allows them).
func VerifMetaInfoShortReadStream() {
	d, blob := verifC02Blob()
	n := int64(len(blob))
	p := int64(verif.Len("piece_length", 1, int(n)+1))
	if n == 0 {
		return
	}
	chunk := verif.Len("chunk", 1, int(n))
	m1, err1 := NewMetaInfo(d, &verifChunkReader{data: blob, chunk: chunk}, p)
	m2, err2 := NewMetaInfoFromBytes(d, blob, p)
	verif.Assert("both-accepted", err1 == nil && err2 == nil)
	verif.Cover("short-reads-inside-a-piece", int64(chunk) < p && int64(chunk) < n)
	verifC02Check("stream", m1, d, blob, p)
	verif.Assert("same-length", m1.Length() == m2.Length())
	verif.Assert("same-piece-count", m1.NumPieces() == m2.NumPieces())
	for i := 0; i < m1.NumPieces() && i < m2.NumPieces(); i++ {
		verif.Assert("same-piece-sum", m1.GetPieceSum(i) == m2.GetPieceSum(i))
	}
	verif.Assert("same-info-hash", m1.InfoHash() == m2.InfoHash())
}
