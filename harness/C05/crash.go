//kse:pkg lib/metainfogen
package metainfogen

import (
	"io"
	"os"
	"path/filepath"

	"github.com/c2h5oh/datasize"
	"github.com/uber-go/tally"
	"github.com/uber/kraken/core"
	"github.com/uber/kraken/lib/store"
	"github.com/uber/kraken/lib/store/metadata"
	verif "github.com/uber/kraken/zzverif"
)

var verifBlob = []byte("ab")

func verifOpen() (*store.CAStore, error) {
	root := filepath.Join(verif.TempDir(), "c05")
	return store.NewCAStore(store.CAStoreConfig{
		UploadDir:     filepath.Join(root, "upload"),
		CacheDir:      filepath.Join(root, "cache"),
		UploadCleanup: store.CleanupConfig{Disabled: true},
		CacheCleanup:  store.CleanupConfig{Disabled: true},
	}, tally.NoopScope)
}

func verifSidecar(name string) string {
	return filepath.Join(verif.TempDir(), "c05", "cache", name[0:2], name[2:4], name, metadata.GetTorrentMetadataSuffix())
}

func verifDigest() core.Digest {
	d, err := core.NewDigester().FromBytes(verifBlob)
	if err != nil {
		panic(err)
	}
	return d
}

// verifAfterRestart opens a fresh store on the same directories and checks
// what the statement promises after a crash: the store opens; every listed
// blob is readable and hashes to its name; its metainfo is absent or valid.
//
// Findings F1 (listed name without data file, fixed by 869ea73) and F2 (empty
// or truncated metainfo sidecar, fixed by fb680c2 / 48c7110) are asserted in
// every harness; the strict flag is kept only for the recorded function names.
// "Absent (and regenerated on demand)" is checked by running the on-demand
// path (a backend refresh of the cached blob) whenever the metainfo is absent.
func verifAfterRestart(strict bool) *store.CAStore {
	cas, err := verifOpen()
	verif.Assert("store-opens-after-crash", err == nil)
	names, err := cas.ListCacheFiles()
	verif.Assert("list-after-crash", err == nil)
	for _, name := range names {
		verif.Reach("blob-listed-after-restart")
		_ = strict // F1 (listed name without data file) was repaired upstream (869ea73): checked everywhere now
		r, err := cas.GetCacheFileReader(name)
		verif.Assert("listed-blob-is-readable", err == nil)
		b, err := io.ReadAll(r)
		r.Close()
		verif.Assert("listed-blob-read", err == nil)
		d, err := core.NewDigester().FromBytes(b)
		verif.Assert("listed-blob-hashes-to-name", err == nil && d.Hex() == name)

		if fi, err := os.Stat(verifSidecar(name)); err == nil {
			verif.Reach("metainfo-sidecar-on-disk-after-restart")
			verif.Assert("no-empty-metainfo-sidecar", fi.Size() > 0)
		}
		var tm metadata.TorrentMeta
		merr := cas.GetCacheFileMetadata(name, &tm)
		if os.IsNotExist(merr) {
			verif.Reach("metainfo-absent-after-restart")
		}
		verif.Cover("metainfo-present-after-restart", merr == nil)
		if merr != nil {
			// getMetaInfo regenerates on not-exist and answers 500 on anything else
			verif.Assert("metainfo-absent-or-valid", os.IsNotExist(merr))
			// "absent (and regenerated on demand)": the on-demand path of the
			// origin is a backend refresh of the blob, i.e.
			// WriteBlobToCacheWithMetaInfo of the same bytes over the cached
			// blob; after it succeeds the metainfo must be there.
			verif.Reach("metainfo-regenerated-on-demand")
			rerr := cas.WriteBlobToCacheWithMetaInfo(name, uint64(len(b)), func(w store.FileReadWriter) error {
				_, err := w.Write(b)
				return err
			}, 1)
			verif.Assert("on-demand-refresh-succeeds", rerr == nil)
			merr = cas.GetCacheFileMetadata(name, &tm)
			verif.Assert("metainfo-present-after-on-demand-refresh", merr == nil)
		}
		mi := tm.MetaInfo
		verif.Assert("metainfo-names-blob", mi.Digest().Hex() == name)
		verif.Assert("metainfo-length", mi.Length() == int64(len(b)))
		pl := mi.PieceLength()
		verif.Assert("metainfo-piece-length-positive", pl > 0)
		for i := 0; i < mi.NumPieces(); i++ {
			lo := int64(i) * pl
			hi := lo + pl
			if hi > int64(len(b)) {
				hi = int64(len(b))
			}
			verif.Assert("metainfo-piece-in-range", lo < hi)
			verif.Assert("metainfo-piece-sum", mi.GetPieceSum(i) == core.PieceSum(b[lo:hi]))
		}
	}
	return cas
}

// verifScenario: 0 = client upload, commit, mark for write-back, generate
// metainfo; 1 = refresh from a storage backend (blob and metainfo in one call).
func verifScenario(which int) {
	cas, err := verifOpen()
	verif.Assert("store-opens", err == nil)
	d := verifDigest()
	switch which {
	case 0:
		uid := "u1"
		verif.Assert("create-upload", cas.CreateUploadFile(uid, 0) == nil)
		w, err := cas.GetUploadFileReadWriter(uid)
		verif.Assert("open-upload", err == nil)
		_, err = w.Write(verifBlob)
		verif.Assert("write-upload", err == nil)
		w.Close()
		verif.Assert("commit", cas.MoveUploadFileToCache(uid, d.Hex()) == nil)
		_, err = cas.SetCacheFileMetadata(d.Hex(), metadata.NewPersist(true))
		verif.Assert("persist", err == nil)
		g, err := New(Config{PieceLengths: map[datasize.ByteSize]datasize.ByteSize{0: 1}}, cas)
		verif.Assert("generator", err == nil)
		verif.Assert("generate", g.Generate(d) == nil)
	case 2:
		// client upload whose bytes do not hash to the claimed digest
		uid := "u2"
		verif.Assert("create-upload", cas.CreateUploadFile(uid, 0) == nil)
		w, err := cas.GetUploadFileReadWriter(uid)
		verif.Assert("open-upload", err == nil)
		_, err = w.Write([]byte("zz"))
		verif.Assert("write-upload", err == nil)
		w.Close()
		verif.Assert("mismatching-commit-rejected", cas.MoveUploadFileToCache(uid, d.Hex()) != nil)
		_, serr := cas.GetCacheFileStat(d.Hex())
		verif.Assert("nothing-cached-after-rejected-commit", os.IsNotExist(serr))
		return
	case 1:
		err := cas.WriteBlobToCacheWithMetaInfo(d.Hex(), uint64(len(verifBlob)), func(w store.FileReadWriter) error {
			_, err := w.Write(verifBlob)
			return err
		}, 1)
		verif.Assert("refresh", err == nil)
	}
}

func verifCrashRun(which int, strict bool) {
	verif.Option("max_preempt", 0)
	done := false
	crashed := verif.CrashScope(func() {
		verifScenario(which)
		done = true
	})
	verif.Cover("crashed", crashed)
	verif.Cover("completed", !crashed)
	cas := verifAfterRestart(strict)
	if which == 2 {
		return
	}
	if done {
		_, err := cas.GetCacheFileStat(verifDigest().Hex())
		verif.Assert("completed-blob-still-cached", err == nil)
	}
}

// VerifCrashDuringUploadCommit: crash at any file-system step of upload,
// commit, persist flag and metainfo generation, then restart.
func VerifCrashDuringUploadCommit() { verifCrashRun(0, false) }

// VerifFindingCrashDuringUploadCommit: the same without filtering the open
// finding F1.
func VerifFindingCrashDuringUploadCommit() { verifCrashRun(0, true) }

// VerifCrashDuringRefresh: crash at any file-system step of a backend refresh
// (disk path), then restart.
func VerifCrashDuringRefresh() { verifCrashRun(1, false) }

// VerifFindingCrashDuringRefresh: the same without filtering the open finding
// F1.
func VerifFindingCrashDuringRefresh() { verifCrashRun(1, true) }

// VerifFindingCrashDuringMetainfoRewrite: a cached blob already has metainfo
// (piece length 1); metainfo is generated again with another piece length
// configuration (sidecar content of another length, so compareAndWriteFile
// used to truncate and then rewrite in place) and the process dies in between.
// Finding F2, fixed in /repo by 48c7110: regression check.
func VerifFindingCrashDuringMetainfoRewrite() {
	verif.Option("max_preempt", 0)
	verifScenario(0)
	crashed := verif.CrashScope(func() {
		cas, err := verifOpen()
		verif.Assert("store-opens", err == nil)
		g, err := New(Config{PieceLengths: map[datasize.ByteSize]datasize.ByteSize{0: 2}}, cas)
		verif.Assert("generator", err == nil)
		verif.Assert("regenerate", g.Generate(verifDigest()) == nil)
	})
	verif.Cover("crashed", crashed)
	cas := verifAfterRestart(true)
	_, err := cas.GetCacheFileStat(verifDigest().Hex())
	verif.Assert("blob-still-cached", err == nil)
}

// VerifCrashDuringMismatchingCommit: crash at any file-system step of the
// commit of an upload whose bytes do not hash to the claimed digest, then
// restart: no blob that does not hash to its name survives in the cache.
func VerifCrashDuringMismatchingCommit() { verifCrashRun(2, true) }
