//kse:pkg lib/metainfogen
package metainfogen

import (
	"crypto/sha256"
	"encoding/hex"
	"io"
	"os"
	"path/filepath"

	"github.com/c2h5oh/datasize"
	"github.com/uber-go/tally"
	"github.com/uber/kraken/core"
	"github.com/uber/kraken/lib/store"
	"github.com/uber/kraken/lib/store/metadata"
	verif "github.com/uber/kraken/zzverif"
)

// C05: an origin or proxy crash at any point leaves its blob cache consistent.
//
// The blob DATA is symbolic: every upload / refresh writes verif.Bytes of a
// length chosen by verif.Len. SHA-256 is the engine's uninterpreted function of
// the written bytes, so whether a commit is accepted is the solver's decision;
// the name under which everything is written is the real digest of a reference
// content (verifGood, a prefix of verifAlphabet of chosen length) and collision
// freeness for that name is assumed up front (verifMatchesName): bytes hashing
// to the name are the reference content. Every observation after the restart is
// compared to the reference content through the solver: bytes, length, and the
// metainfo piece sums (crc32, uninterpreted as well) as the function of exactly
// those bytes.

// verifD is the claimed name of every write in a run, verifGood the one content
// that really hashes to it.
var (
	verifD    string
	verifGood []byte
)

const verifAlphabet = "abcde"

func verifMaxLen() int { return verif.Bound("blob-len", 3, 5) }

// verifPickName chooses the length of the reference content (case split) and
// with it the name.
func verifPickName() {
	k := verif.Len("good-len", 0, verifMaxLen())
	verifGood = []byte(verifAlphabet[:k])
	d, err := core.NewDigester().FromBytes(verifGood)
	if err != nil {
		panic(err)
	}
	verifD = d.Hex()
	verif.Note("SHA-256 collision freeness assumed for the name under test: bytes hashing to it equal the reference content")
}

func verifEq(a, b []byte) bool {
	if len(a) != len(b) {
		return false
	}
	same := true
	for i := range a {
		same = verif.And(same, a[i] == b[i])
	}
	return same
}

// verifMatchesName is the (symbolic) fact "b hashes to d", stated on the raw
// SHA-256 bytes (hex encoding is injective), together with the collision
// freeness assumption for d: such a b is the reference content good.
func verifMatchesName(b []byte, d string, good []byte) bool {
	sum := sha256.Sum256(b)
	want, err := hex.DecodeString(d)
	if err != nil || len(want) != len(sum) {
		panic("bad reference digest")
	}
	m := true
	for i := range sum {
		m = verif.And(m, sum[i] == want[i])
	}
	verif.Assume(verif.Implies(m, verifEq(b, good)))
	return m
}

// verifSymBlob draws the bytes a client uploads / a backend streams under the
// name verifD: n arbitrary bytes. Returns them and the fact "they hash to the
// name".
func verifSymBlob(tag string, n int) ([]byte, bool) {
	data := verif.Bytes(tag, n)
	return data, verifMatchesName(data, verifD, verifGood)
}

func verifOpen() (*store.CAStore, error) {
	root := filepath.Join(verif.TempDir(), "c05")
	return store.NewCAStore(store.CAStoreConfig{
		UploadDir:     filepath.Join(root, "upload"),
		CacheDir:      filepath.Join(root, "cache"),
		UploadCleanup: store.CleanupConfig{Disabled: true},
		CacheCleanup:  store.CleanupConfig{Disabled: true},
	}, tally.NoopScope)
}

func verifSidecar(name string) string {
	return filepath.Join(verif.TempDir(), "c05", "cache", name[0:2], name[2:4], name, metadata.GetTorrentMetadataSuffix())
}

func verifGenerator(cas *store.CAStore, pieceLength int64) *Generator {
	g, err := New(Config{PieceLengths: map[datasize.ByteSize]datasize.ByteSize{0: datasize.ByteSize(pieceLength)}}, cas)
	verif.Assert("generator", err == nil)
	return g
}

// verifAfterRestart opens a fresh store on the same directories and checks
// what the statement promises after a crash: the store opens; every listed
// blob is readable and hashes to its name — decided by the solver on the bytes
// found on disk: their SHA-256 (uninterpreted) is the name's digest, their
// length is the reference length and every byte is the reference byte; its
// metainfo is absent or valid for exactly those bytes (digest, length, piece
// count, every piece sum the crc32 function of exactly that piece's bytes).
// "Absent (and regenerated on demand)" is checked by running the on-demand
// path (a backend refresh of the cached blob) whenever the metainfo is absent.
// pieceLength is the configured piece length (0: either of the rewrite
// scenario's two).
func verifAfterRestart(pieceLength int64) *store.CAStore {
	cas, err := verifOpen()
	verif.Assert("store-opens-after-crash", err == nil)
	names, err := cas.ListCacheFiles()
	verif.Assert("list-after-crash", err == nil)
	for _, name := range names {
		verif.Reach("blob-listed-after-restart")
		// one name is written in a run
		verif.Assert("listed-name-was-written", name == verifD)
		r, err := cas.GetCacheFileReader(name)
		verif.Assert("listed-blob-is-readable", err == nil)
		b, err := io.ReadAll(r)
		r.Close()
		verif.Assert("listed-blob-read", err == nil)
		verif.Assert("listed-blob-hashes-to-name", verifMatchesName(b, name, verifGood))
		verif.Assert("listed-blob-has-reference-length", len(b) == len(verifGood))
		for i := 0; i < len(b) && i < len(verifGood); i++ {
			verif.Assert("listed-blob-byte-is-reference-byte", b[i] == verifGood[i])
		}

		if fi, err := os.Stat(verifSidecar(name)); err == nil {
			verif.Reach("metainfo-sidecar-on-disk-after-restart")
			verif.Assert("no-empty-metainfo-sidecar", fi.Size() > 0)
		}
		var tm metadata.TorrentMeta
		merr := cas.GetCacheFileMetadata(name, &tm)
		if os.IsNotExist(merr) {
			verif.Reach("metainfo-absent-after-restart")
		}
		verif.Cover("metainfo-present-after-restart", merr == nil)
		regenLength := pieceLength
		if regenLength == 0 {
			regenLength = 1
		}
		if merr != nil {
			// getMetaInfo regenerates on not-exist and answers 500 on anything else
			verif.Assert("metainfo-absent-or-valid", os.IsNotExist(merr))
			// "absent (and regenerated on demand)": the on-demand path of the
			// origin is a backend refresh of the blob, i.e.
			// WriteBlobToCacheWithMetaInfo of the same bytes over the cached
			// blob; after it succeeds the metainfo must be there.
			verif.Reach("metainfo-regenerated-on-demand")
			rerr := cas.WriteBlobToCacheWithMetaInfo(name, uint64(len(b)), func(w store.FileReadWriter) error {
				_, err := w.Write(b)
				return err
			}, regenLength)
			verif.Assert("on-demand-refresh-succeeds", rerr == nil)
			merr = cas.GetCacheFileMetadata(name, &tm)
			verif.Assert("metainfo-present-after-on-demand-refresh", merr == nil)
		}
		mi := tm.MetaInfo
		verif.Assert("metainfo-names-blob", mi.Digest().Hex() == name)
		n := int64(len(b))
		verif.Assert("metainfo-length", mi.Length() == n)
		pl := mi.PieceLength()
		verif.Assert("metainfo-piece-length-positive", pl > 0)
		if pieceLength != 0 {
			verif.Assert("metainfo-piece-length-is-the-configured-one", pl == pieceLength)
		}
		want := 0
		if n > 0 {
			want = int((n-1)/pl + 1)
		}
		verif.Assert("metainfo-piece-count", mi.NumPieces() == want)
		for i := 0; i < mi.NumPieces() && i < want; i++ {
			lo := int64(i) * pl
			hi := lo + pl
			if hi > n {
				hi = n
			}
			verif.Reach("metainfo-piece-checked")
			// the sum is the checksum function applied to exactly those bytes
			// found on disk …
			verif.Assert("metainfo-piece-sum", mi.GetPieceSum(i) == core.PieceSum(b[lo:hi]))
			// … and therefore the real checksum of the reference content's piece
			if hi <= int64(len(verifGood)) {
				verif.Assert("metainfo-piece-sum-of-reference-bytes", mi.GetPieceSum(i) == core.PieceSum(verifGood[lo:hi]))
			}
		}
	}
	return cas
}

// verifNothingVisible: nothing is served under the name.
func verifNothingVisible(cas *store.CAStore, label string) {
	_, serr := cas.GetCacheFileStat(verifD)
	verif.Assert(label, os.IsNotExist(serr))
}

// verifUpload: client upload of data under the name, commit, mark for
// write-back, generate metainfo. Returns whether the commit was accepted.
func verifUpload(data []byte, matches bool, pieceLength int64) bool {
	cas, err := verifOpen()
	verif.Assert("store-opens", err == nil)
	uid := "u1"
	verif.Assert("create-upload", cas.CreateUploadFile(uid, 0) == nil)
	w, err := cas.GetUploadFileReadWriter(uid)
	verif.Assert("open-upload", err == nil)
	_, err = w.Write(data)
	verif.Assert("write-upload", err == nil)
	w.Close()
	if err := cas.MoveUploadFileToCache(uid, verifD); err != nil {
		verif.Reach("commit-rejected")
		verif.Assert("rejected-commit-does-not-match-name", !matches)
		verifNothingVisible(cas, "nothing-cached-after-rejected-commit")
		return false
	}
	verif.Reach("commit-accepted")
	verif.Assert("accepted-commit-matches-name", matches)
	_, err = cas.SetCacheFileMetadata(verifD, metadata.NewPersist(true))
	verif.Assert("persist", err == nil)
	d, err := core.NewSHA256DigestFromHex(verifD)
	verif.Assert("digest", err == nil)
	verif.Assert("generate", verifGenerator(cas, pieceLength).Generate(d) == nil)
	return true
}

// verifRefresh: refresh from a storage backend that streams data (blob and
// metainfo in one call, disk path).
func verifRefresh(data []byte, matches bool, pieceLength int64) bool {
	cas, err := verifOpen()
	verif.Assert("store-opens", err == nil)
	err = cas.WriteBlobToCacheWithMetaInfo(verifD, uint64(len(data)), func(w store.FileReadWriter) error {
		_, err := w.Write(data)
		return err
	}, pieceLength)
	if err != nil {
		verif.Reach("refresh-rejected")
		verif.Assert("rejected-refresh-does-not-match-name", !matches)
		verifNothingVisible(cas, "nothing-cached-after-rejected-refresh")
		return false
	}
	verif.Reach("refresh-accepted")
	verif.Assert("accepted-refresh-matches-name", matches)
	return true
}

const (
	verifUploadScenario = iota
	verifRefreshScenario
)

// verifCrashRun: a blob of symbolic length (independent of the length of the
// reference content) and arbitrary bytes goes through the scenario with a crash
// before any of its file-system steps; restart; oracle. The store's digest check decides (by the
// solver) whether the bytes are accepted: accepted bytes are the reference
// content, rejected ones leave nothing.
func verifCrashRun(which int, pieceLength int64) {
	verif.Option("max_preempt", 0)
	verifPickName()
	data, matches := verifSymBlob("data", verif.Len("data-len", 0, verifMaxLen()))
	verif.Cover("content-matches-name", matches)
	verif.Cover("content-does-not-match-name", !matches)
	accepted := false
	crashed := verif.CrashScope(func() {
		switch which {
		case verifUploadScenario:
			accepted = verifUpload(data, matches, pieceLength)
		case verifRefreshScenario:
			accepted = verifRefresh(data, matches, pieceLength)
		}
	})
	verif.Cover("crashed", crashed)
	verif.Cover("completed", !crashed)
	cas := verifAfterRestart(pieceLength)
	if !matches {
		verifNothingVisible(cas, "mismatching-content-never-cached")
	}
	if accepted {
		_, err := cas.GetCacheFileStat(verifD)
		verif.Assert("completed-blob-still-cached", err == nil)
	}
}

// VerifCrashDuringUploadCommit: crash at any file-system step of upload,
// commit, persist flag and metainfo generation (piece length 1), then restart.
func VerifCrashDuringUploadCommit() { verifCrashRun(verifUploadScenario, 1) }

// VerifFindingCrashDuringUploadCommit: the same with piece length 2 (blobs of
// odd length have a short last piece). Regression check of findings F1 / F2.
func VerifFindingCrashDuringUploadCommit() { verifCrashRun(verifUploadScenario, 2) }

// VerifCrashDuringRefresh: crash at any file-system step of a backend refresh
// (disk path, piece length 1), then restart.
func VerifCrashDuringRefresh() { verifCrashRun(verifRefreshScenario, 1) }

// VerifFindingCrashDuringRefresh: the same with piece length 2. Regression
// check of findings F1 / F2.
func VerifFindingCrashDuringRefresh() { verifCrashRun(verifRefreshScenario, 2) }

// VerifFindingCrashDuringMetainfoRewrite: a cached blob (symbolic bytes that
// were accepted, hence the reference content) already has metainfo (piece
// length 1); metainfo is generated again with another piece length
// configuration (for blobs of two and more bytes sidecar content of another
// length, so compareAndWriteFile used to truncate and then rewrite in place;
// for shorter blobs a same-length in-place overwrite) and the process dies in
// between. Finding F2, fixed in /repo by 48c7110: regression check.
func VerifFindingCrashDuringMetainfoRewrite() {
	verif.Option("max_preempt", 0)
	verifPickName()
	data, matches := verifSymBlob("data", len(verifGood))
	if !verifUpload(data, matches, 1) {
		return
	}
	crashed := verif.CrashScope(func() {
		cas, err := verifOpen()
		verif.Assert("store-opens", err == nil)
		d, err := core.NewSHA256DigestFromHex(verifD)
		verif.Assert("digest", err == nil)
		verif.Assert("regenerate", verifGenerator(cas, 2).Generate(d) == nil)
	})
	verif.Cover("crashed", crashed)
	cas := verifAfterRestart(0)
	_, err := cas.GetCacheFileStat(verifD)
	verif.Assert("blob-still-cached", err == nil)
}

// VerifCrashDuringMismatchingCommit: an upload of arbitrary bytes of arbitrary
// length that are NOT the reference content (assumed) is committed under the
// name; crash at any file-system step of that commit, then restart: the commit
// is rejected and no blob that does not hash to its name survives in the cache.
func VerifCrashDuringMismatchingCommit() {
	verif.Option("max_preempt", 0)
	verifPickName()
	wrong, matches := verifSymBlob("wrong", verif.Len("wrong-len", 0, verifMaxLen()))
	verif.Assume(!verifEq(wrong, verifGood))
	crashed := verif.CrashScope(func() {
		verif.Assert("mismatching-commit-rejected", !verifUpload(wrong, matches, 1))
	})
	verif.Cover("crashed", crashed)
	verif.Cover("completed", !crashed)
	cas := verifAfterRestart(1)
	verifNothingVisible(cas, "mismatching-content-never-cached")
}
