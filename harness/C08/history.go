//kse:pkg lib/store/memory
package memory

import (
	storelib "github.com/uber/kraken/lib/store"
	verif "github.com/uber/kraken/zzverif"
)

// vmSmallSize: Create sizes are case-split over 0..3 because Create allocates
// make([]byte, 0, size) and the engine needs a concrete capacity there; the
// capacity of the store stays a symbolic uint64.
func vmSmallSize() uint64 {
	return uint64(verif.Choice("size", 4))
}

// VerifMemLRUHistory: as C07's VerifDiskLRUHistory, on the memory store.
func VerifMemLRUHistory() {
	capacity := verif.Uint64("capacity")
	h := vmNew(capacity, 2)
	h.sizeFn = vmSmallSize
	steps := verif.Bound("steps", 3, 4)
	ops := []int{voCreate, voOpen, voMarkComplete, voDelete, voBan, voUnban}
	for i := 0; i < steps; i++ {
		h.step(ops, 1)
	}
	verif.Cover("model-evicted-something", h.m.evicted > 0)
}

// VerifMemEvictionOrder: complete blobs, symbolic touches/bans/unbans, then a
// Create that needs room: evictions happen in model (LRU) order and never hit
// banned or incomplete blobs.
func VerifMemEvictionOrder() {
	capacity := verif.Uint64("capacity")
	h := vmNew(capacity, 3)
	h.sizeFn = func() uint64 { return 1 + uint64(verif.Choice("size", 2)) }
	h.do(voCreate, 0, storelib.BlobScopeAny)
	h.do(voMarkComplete, 0, storelib.BlobScopeAny)
	h.do(voCreate, 1, storelib.BlobScopeAny)
	h.do(voMarkComplete, 1, storelib.BlobScopeAny)
	h.check()
	steps := verif.Bound("steps", 2, 3)
	ops := []int{voOpen, voBan, voUnban}
	for i := 0; i < steps; i++ {
		h.step(ops, 1)
	}
	h.do(voCreate, 2, storelib.BlobScopeAny)
	h.check()
	verif.Cover("evicted-one", h.m.evicted == 1)
	verif.Cover("evicted-two", h.m.evicted == 2)
	verif.Cover("no-space-with-banned", h.m.evicted == 0 && !h.m.blobs[2].present)
}

// VerifMemScopesAndMetadata: one incomplete and one complete blob; scoped
// operations hide exactly the out-of-scope blob; metadata reads return the
// last value set.
func VerifMemScopesAndMetadata() {
	h := vmNew(100, 3)
	h.sizeFn = vmSmallSize
	h.do(voCreate, 0, storelib.BlobScopeAny)
	h.do(voCreate, 1, storelib.BlobScopeAny)
	h.do(voMarkComplete, 1, storelib.BlobScopeAny)
	h.check()
	ops := []int{voOpen, voStat, voHas, voDelete, voBan, voUnban, voSetMd, voGetMd, voDelMd, voListMd}
	steps := verif.Bound("steps", 1, 2)
	for i := 0; i < steps; i++ {
		h.step(ops, 3)
	}
	h.checkAllMd()
}

// VerifMemMetadata: metadata histories on one key across completion.
func VerifMemMetadata() {
	h := vmNew(100, 1)
	h.sizeFn = vmSmallSize
	h.do(voCreate, 0, storelib.BlobScopeAny)
	ops := []int{voSetMd, voDelMd, voMarkComplete, voListMd}
	steps := verif.Bound("steps", 3, 5)
	for i := 0; i < steps; i++ {
		h.step(ops, 1)
		h.checkAllMd()
	}
	verif.Cover("immovable-dropped-by-completion", h.m.droppedImmovable)
	verif.Cover("movable-survives-completion", h.m.blobs[0].complete && h.m.blobs[0].md[0].set)
}

// VerifFindingMemCreateSizeWrap: see FINDINGS.md. With one small blob live, a
// Create whose size makes size+space wrap around is admitted by reserveSpace;
// the store then reserves the wrapped sum and panics in make([]byte, 0, size)
// while holding the reservation.
func VerifFindingMemCreateSizeWrap() {
	capacity := verif.Uint64("capacity")
	verif.Assume(capacity <= 1<<62) // a blob of 2^64-1 bytes can then never fit
	h := vmNew(capacity, 2)
	h.sizeFn = func() uint64 { return 1 }
	h.do(voCreate, 0, storelib.BlobScopeAny)
	verif.Assume(h.m.blobs[0].present)
	huge := ^uint64(0) - uint64(verif.Choice("below-max", 2))
	panicked := false
	var err error
	func() {
		defer func() {
			if recover() != nil {
				panicked = true
			}
		}()
		_, err = h.s.Create(vmKeys[1], huge)
	}()
	verif.Assert("huge-create-does-not-panic", !panicked)
	verif.Assert("huge-create-rejected", vmClass(err) == h.m.create(1, huge))
	h.check()
}
