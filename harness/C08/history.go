//kse:pkg lib/store/memory
package memory

import (
	storelib "github.com/uber/kraken/lib/store"
	verif "github.com/uber/kraken/zzverif"
)

// vmSmallSize: Create sizes are case-split over 0..3 because Create allocates
// make([]byte, 0, size) and the engine needs a concrete capacity there; the
// capacity of the store stays a symbolic uint64.
func vmSmallSize() uint64 {
	return uint64(verif.Choice("size", 4))
}

// VerifMemLRUHistory: as C07's VerifDiskLRUHistory, on the memory store.
func VerifMemLRUHistory() {
	capacity := verif.Uint64("capacity")
	h := vmNew(capacity, 2)
	h.sizeFn = vmSmallSize
	steps := verif.Bound("steps", 2, 4)
	ops := []int{voCreate, voOpen, voMarkComplete, voDelete, voBan, voUnban}
	for i := 0; i < steps; i++ {
		h.step(ops, 1)
	}
	if steps >= 3 { // an eviction needs create, complete, create
		verif.Cover("model-evicted-something", h.m.evicted > 0)
	}
}

// VerifMemEvictionOrder: complete blobs, symbolic touches/bans/unbans, then a
// Create that needs room: evictions happen in model (LRU) order and never hit
// banned or incomplete blobs.
func VerifMemEvictionOrder() {
	capacity := verif.Uint64("capacity")
	h := vmNew(capacity, 3)
	h.sizeFn = func() uint64 { return 1 + uint64(verif.Choice("size", 2)) }
	h.do(voCreate, 0, storelib.BlobScopeAny)
	h.do(voMarkComplete, 0, storelib.BlobScopeAny)
	h.do(voCreate, 1, storelib.BlobScopeAny)
	h.do(voMarkComplete, 1, storelib.BlobScopeAny)
	h.check()
	steps := verif.Bound("steps", 1, 3)
	ops := []int{voOpen, voBan, voUnban}
	h.nkeys = 2
	for i := 0; i < steps; i++ {
		// under every scope: an operation rejected as out of scope must not
		// change the eviction order either
		h.step(ops, 3)
	}
	h.nkeys = 3
	h.do(voCreate, 2, storelib.BlobScopeAny)
	h.check()
	verif.Cover("evicted-one", h.m.evicted == 1)
	verif.Cover("evicted-two", h.m.evicted == 2)
	verif.Cover("no-space-with-banned", h.m.evicted == 0 && !h.m.blobs[2].present)
}

// VerifMemScopesAndMetadata: one incomplete and one complete blob; scoped
// operations hide exactly the out-of-scope blob; metadata reads return the
// last value set.
func VerifMemScopesAndMetadata() {
	h := vmNew(100, 3)
	h.sizeFn = vmSmallSize
	h.do(voCreate, 0, storelib.BlobScopeAny)
	h.do(voCreate, 1, storelib.BlobScopeAny)
	h.do(voMarkComplete, 1, storelib.BlobScopeAny)
	h.check()
	ops := []int{voOpen, voStat, voHas, voDelete, voBan, voUnban, voSetMd, voGetMd, voDelMd, voListMd}
	steps := verif.Bound("steps", 1, 2)
	for i := 0; i < steps; i++ {
		h.step(ops, 3)
	}
	h.checkAllMd()
}

// VerifMemMetadata: metadata histories on one key across completion.
func VerifMemMetadata() {
	h := vmNew(100, 1)
	h.sizeFn = vmSmallSize
	h.do(voCreate, 0, storelib.BlobScopeAny)
	ops := []int{voSetMd, voDelMd, voMarkComplete, voListMd}
	steps := verif.Bound("steps", 3, 5)
	for i := 0; i < steps; i++ {
		h.step(ops, 1)
		h.checkAllMd()
	}
	verif.Cover("immovable-dropped-by-completion", h.m.droppedImmovable)
	verif.Cover("movable-survives-completion", h.m.blobs[0].complete && h.m.blobs[0].md[0].set)
}

// VerifFindingMemCreateSizeWrap: see FINDINGS.md. With one small blob live, a
// Create whose size makes size+space wrap around is admitted by reserveSpace;
// the store then reserves the wrapped sum and panics in make([]byte, 0, size)
// while holding the reservation.
func VerifFindingMemCreateSizeWrap() {
	capacity := verif.Uint64("capacity")
	verif.Assume(capacity <= 1<<62) // a blob of 2^64-1 bytes can then never fit
	h := vmNew(capacity, 2)
	h.sizeFn = func() uint64 { return 1 }
	h.do(voCreate, 0, storelib.BlobScopeAny)
	verif.Assume(h.m.blobs[0].present)
	huge := ^uint64(0) - uint64(verif.Choice("below-max", 2))
	panicked := false
	var err error
	func() {
		defer func() {
			if recover() != nil {
				panicked = true
			}
		}()
		_, err = h.s.Create(vmKeys[1], huge)
	}()
	verif.Assert("huge-create-does-not-panic", !panicked)
	verif.Assert("huge-create-rejected", vmClass(err) == h.m.create(1, huge))
	h.check()
}

// vmBuildState brings the store, through its own API, into one of the
// canonical states over the first nkeys keys: every key absent, incomplete,
// incomplete and banned, complete, or complete and banned (size 1 each, the
// symbolic capacity admits them all); every LRU order of the complete unbanned
// keys.
func vmBuildState(h *vmH, nkeys int) {
	st := make([]int, nkeys)
	var unbannedComplete []int
	for k := 0; k < nkeys; k++ {
		st[k] = verif.Choice("state", 5) // 0 absent, 1 incomplete, 2 incomplete+banned, 3 complete, 4 complete+banned
		if st[k] == 0 {
			continue
		}
		h.do(voCreate, k, storelib.BlobScopeAny)
		verif.Assume(h.m.blobs[k].present)
		if st[k] == 2 || st[k] == 4 {
			h.do(voBan, k, storelib.BlobScopeAny)
		}
		if st[k] == 4 {
			h.do(voMarkComplete, k, storelib.BlobScopeAny)
		}
		if st[k] == 3 {
			unbannedComplete = append(unbannedComplete, k)
		}
	}
	for len(unbannedComplete) > 0 {
		i := 0
		if len(unbannedComplete) > 1 {
			i = verif.Choice("lru-next", len(unbannedComplete))
		}
		h.do(voMarkComplete, unbannedComplete[i], storelib.BlobScopeAny)
		unbannedComplete = append(append([]int{}, unbannedComplete[:i]...), unbannedComplete[i+1:]...)
	}
	verif.Assume(h.m.evicted == 0)
	h.check()
}

var vmStructOps = []int{voCreate, voMarkComplete, voOpen, voStat, voHas, voDelete, voBan, voUnban}

// VerifMemStepFromState: from every canonical state over two keys, one
// operation (two in the thorough tier) on key 0 under every scope — including
// the calls the scope rejects, which must have no effect — then a Create of a
// third key that may need room: results, listings, LRU order and the victims of
// that Create equal the model's.
func VerifMemStepFromState() {
	capacity := verif.Uint64("capacity")
	h := vmNew(capacity, 3)
	h.sizeFn = func() uint64 { return 1 }
	h.nkeys = 2
	vmBuildState(h, 2)
	steps := verif.Bound("steps", 1, 2)
	for i := 0; i < steps; i++ {
		op := vmStructOps[verif.Choice("op", len(vmStructOps))]
		scope := storelib.BlobScopeAny
		if op != voCreate && op != voMarkComplete {
			scope = vmScopeOf(verif.Choice("scope", 3))
		}
		h.do(op, 0, scope)
		h.check()
	}
	h.nkeys = 3
	h.sizeFn = func() uint64 { return uint64(1 + verif.Choice("size", 2)) }
	h.do(voCreate, 2, storelib.BlobScopeAny)
	h.check()
	verif.Cover("model-evicted-something", h.m.evicted > 0)
	verif.Cover("out-of-scope-seen", h.sawOutOfScope)
}
