//kse:pkg lib/store/memory
package memory

import (
	"io"
	"sync"

	storelib "github.com/uber/kraken/lib/store"
	verif "github.com/uber/kraken/zzverif"
)

// vmHandle is a retained *File together with the model of what it refers to.
type vmHandle struct {
	f   *File
	k   int
	gen int   // generation of the key the handle was opened on
	off int64 // model of the handle's offset
}

type vmHH struct {
	*vmH
	gen  [3]int    // creations per key so far
	data [3][]byte // model content of the live blob of each key

	noRecreate bool // the history cannot re-create a removed key (cover not declared)
}

func (hh *vmHH) live(x *vmHandle) bool {
	return hh.m.blobs[x.k].present && hh.gen[x.k] == x.gen
}

// create creates key k (size from sizeFn) and returns a handle when admitted.
func (hh *vmHH) create(k int, size uint64) *vmHandle {
	f, err := hh.s.Create(vmKeys[k], size)
	want := hh.m.create(k, size)
	verif.Assert("create-result", vmClass(err) == want)
	if want == vrNoSpace {
		hh.adoptFailedCreateEvictions()
	}
	if want != vrOK || err != nil {
		return nil
	}
	hh.gen[k]++
	hh.data[k] = nil
	return &vmHandle{f: f, k: k, gen: hh.gen[k]}
}

func (hh *vmHH) open(k int) *vmHandle {
	f, err := hh.s.Open(vmKeys[k])
	want := hh.m.open(k, storelib.BlobScopeAny)
	verif.Assert("open-result", vmClass(err) == want)
	if want != vrOK || err != nil {
		return nil
	}
	return &vmHandle{f: f, k: k, gen: hh.gen[k]}
}

// modelWriteAt applies a write to the model content.
func (hh *vmHH) modelWriteAt(k int, p []byte, off int64) {
	d := hh.data[k]
	end := int(off) + len(p)
	for len(d) < end {
		d = append(d, 0)
	}
	copy(d[off:], p)
	hh.data[k] = d
}

const (
	vhRead = iota
	vhReadAt
	vhWrite
	vhWriteAt
	vhSeek
	vhSize
	vhNumOps
)

// probe performs one symbolic operation on handle x and compares it with the
// model: the evicted error (Size −1) and untouched buffers for a handle whose
// blob was evicted or deleted (even if the key exists again), model bytes for a
// live one.
func (hh *vmHH) probe(x *vmHandle, ops []int) {
	live := hh.live(x)
	verif.Cover("probe-live", live)
	verif.Cover("probe-stale", !live)
	if !hh.noRecreate {
		verif.Cover("probe-stale-key-recreated", !live && hh.m.blobs[x.k].present)
	}
	op := ops[verif.Choice("hop", len(ops))]
	switch op {
	case vhRead, vhReadAt:
		n := 1 + verif.Choice("rlen", 2)
		sentinel := verif.Bytes("sentinel", n)
		p := append([]byte{}, sentinel...)
		var got int
		var err error
		off := x.off
		if op == vhRead {
			got, err = x.f.Read(p)
		} else {
			off = int64(verif.Choice("roff", 4))
			got, err = x.f.ReadAt(p, off)
		}
		if !live {
			verif.Assert("stale-read-evicted-error", err == ErrEvicted)
			verif.Assert("stale-read-no-bytes", got == 0)
			for i := range p {
				verif.Assert("stale-read-buffer-untouched", p[i] == sentinel[i])
			}
			return
		}
		d := hh.data[x.k]
		if off >= int64(len(d)) {
			verif.Assert("live-read-eof", got == 0 && err == io.EOF)
			return
		}
		want := len(d) - int(off)
		if want > n {
			want = n
		}
		verif.Assert("live-read-count", got == want)
		for i := 0; i < want && i < got; i++ {
			verif.Assert("live-read-bytes", p[i] == d[int(off)+i])
		}
		if op == vhRead {
			verif.Assert("live-read-nil-error", err == nil)
			x.off += int64(want)
		} else if want < n {
			verif.Assert("live-readat-short-eof", err == io.EOF)
		} else {
			verif.Assert("live-readat-nil-error", err == nil)
		}
	case vhWrite, vhWriteAt:
		n := 1 + verif.Choice("wlen", 2)
		p := verif.Bytes("wdata", n)
		var got int
		var err error
		off := x.off
		if op == vhWrite {
			got, err = x.f.Write(p)
		} else {
			off = int64(verif.Choice("woff", 4))
			got, err = x.f.WriteAt(p, off)
		}
		if !live {
			verif.Assert("stale-write-evicted-error", err == ErrEvicted)
			verif.Assert("stale-write-nothing-written", got == 0)
			return
		}
		verif.Assert("live-write-ok", err == nil && got == n)
		hh.modelWriteAt(x.k, p, off)
		if op == vhWrite {
			x.off += int64(n)
		}
	case vhSeek:
		off := int64(verif.Choice("soff", 4)) - 1
		whence := verif.Choice("whence", 3)
		got, err := x.f.Seek(off, whence)
		if !live {
			verif.Assert("stale-seek-evicted-error", err == ErrEvicted)
			return
		}
		var no int64
		switch whence {
		case io.SeekStart:
			no = off
		case io.SeekCurrent:
			no = x.off + off
		case io.SeekEnd:
			no = int64(len(hh.data[x.k])) + off
		}
		if no < 0 || no > int64(len(hh.data[x.k])) {
			verif.Assert("live-seek-rejects-out-of-range", err != nil && err != ErrEvicted)
			return
		}
		verif.Assert("live-seek-ok", err == nil && got == no)
		x.off = no
	case vhSize:
		sz := x.f.Size()
		if !live {
			verif.Assert("stale-size-minus-one", sz == -1)
			return
		}
		verif.Assert("live-size", sz == int64(len(hh.data[x.k])))
	}
}

// checkContents reads every live blob through a fresh handle and compares it
// with the model content (no foreign bytes arrived through stale handles).
func (hh *vmHH) checkContents() {
	for k := 0; k < hh.nkeys; k++ {
		if !hh.m.blobs[k].present {
			continue
		}
		f, err := hh.s.Open(vmKeys[k])
		verif.Assert("content-open", err == nil)
		hh.m.open(k, storelib.BlobScopeAny)
		d := hh.data[k]
		verif.Assert("content-size", f.Size() == int64(len(d)))
		p := make([]byte, len(d)+1)
		n, _ := f.ReadAt(p, 0)
		verif.Assert("content-length", n == len(d))
		for i := 0; i < len(d) && i < n; i++ {
			verif.Assert("content-bytes", p[i] == d[i])
		}
	}
}

// VerifMemStaleHandles: handles from Create and Open are kept across a
// symbolic history of eviction pressure, deletion, banning and re-creation of
// the same key; every later operation on them behaves as the model says.
func VerifMemStaleHandles() {
	capacity := verif.Uint64("capacity")
	hh := &vmHH{vmH: vmNew(capacity, 2)}
	hc := hh.create(0, 2)
	verif.Assume(hc != nil)
	w := verif.Bytes("d", 2)
	n, err := hc.f.Write(w)
	verif.Assert("initial-write", err == nil && n == 2)
	hh.modelWriteAt(0, w, 0)
	hc.off = 2
	verif.Assert("complete", hh.s.MarkComplete(vmKeys[0]) == nil)
	hh.m.markComplete(0)
	ho := hh.open(0)
	verif.Assume(ho != nil)
	handles := []*vmHandle{hc, ho}
	steps := verif.Bound("steps", 2, 3)
	for i := 0; i < steps; i++ {
		switch verif.Choice("op", 4) {
		case 0: // pressure: create the other key
			hh.create(1, uint64(2+verif.Choice("size", 2)))
		case 1:
			err := hh.s.Delete(vmKeys[0])
			verif.Assert("delete-result", vmClass(err) == hh.m.delete(0, storelib.BlobScopeAny))
		case 2: // re-create key 0 with different content
			if x := hh.create(0, 2); x != nil {
				e := verif.Bytes("e", 2)
				_, err := x.f.Write(e)
				verif.Assert("rewrite", err == nil)
				hh.modelWriteAt(0, e, 0)
			}
		case 3:
			err := hh.s.BanEviction(vmKeys[0])
			verif.Assert("ban-result", vmClass(err) == hh.m.ban(0, storelib.BlobScopeAny))
		}
		hh.check()
	}
	all := []int{vhRead, vhReadAt, vhWrite, vhWriteAt, vhSeek, vhSize}
	second := []int{vhRead, vhSize}
	first := verif.Choice("handle", 2)
	hh.probe(handles[first], all)
	next := first
	if verif.Bound("second-probe-any-handle", 0, 1) == 1 {
		next = verif.Choice("handle", 2)
	}
	hh.probe(handles[next], second)
	hh.check()
	hh.checkContents()
}

// VerifMemOverReservedHandles: the history harness with a Create whose size
// argument may exceed the bytes written (reserved = written + 0..1|3, 0..2
// bytes written before completion, symbolic bytes). Handles are taken at every
// stage of the blob's life — from Create, from an Open while the blob is still
// incomplete, from an Open after MarkComplete — and all of them are kept across
// completion and a symbolic history of {nothing, Delete, eviction pressure by
// another Create, ban, re-Create of the key}. Then two probes on any of the
// handles: a stale handle (whenever it was opened) fails with ErrEvicted; live
// handles all refer to the same bytes (a write through one is read through any
// other and through a fresh Open, Stat agrees).
func VerifMemOverReservedHandles() {
	capacity := verif.Uint64("capacity")
	hh := &vmHH{vmH: vmNew(capacity, 2)}
	nw := verif.Choice("written", 3)
	extra := verif.Choice("over-reserved", verif.Bound("max-over-reserved", 1, 3)+1)
	size := uint64(nw + extra)
	hc := hh.create(0, size)
	verif.Assume(hc != nil)
	he := hh.open(0) // opened while incomplete
	verif.Assume(he != nil)
	if nw > 0 {
		w := verif.Bytes("d", nw)
		n, err := hc.f.Write(w)
		verif.Assert("initial-write", err == nil && n == nw)
		hh.modelWriteAt(0, w, 0)
		hc.off = int64(nw)
	}
	verif.Assert("complete", hh.s.MarkComplete(vmKeys[0]) == nil)
	hh.m.markComplete(0)
	hh.check()
	hl := hh.open(0) // opened after completion
	verif.Assume(hl != nil)
	handles := []*vmHandle{hc, he, hl}
	verif.Cover("over-reserved-and-written", nw > 0 && extra > 0)
	steps := verif.Bound("steps", 1, 2)
	nops := 5
	if steps < 2 { // a re-creation needs a removal first
		nops = 4
		hh.noRecreate = true
	}
	for i := 0; i < steps; i++ {
		switch verif.Choice("op", nops) {
		case 0: // the blob stays
		case 1:
			err := hh.s.Delete(vmKeys[0])
			verif.Assert("delete-result", vmClass(err) == hh.m.delete(0, storelib.BlobScopeAny))
		case 2: // pressure: create the other key
			hh.create(1, uint64(1+verif.Choice("size", 2)))
		case 3:
			err := hh.s.BanEviction(vmKeys[0])
			verif.Assert("ban-result", vmClass(err) == hh.m.ban(0, storelib.BlobScopeAny))
		case 4: // re-create key 0 with other content (succeeds only once it is gone)
			if x := hh.create(0, 2); x != nil {
				e := verif.Bytes("e", 1)
				_, err := x.f.Write(e)
				verif.Assert("rewrite", err == nil)
				hh.modelWriteAt(0, e, 0)
			}
		}
		hh.check()
	}
	verif.Cover("over-reserved-blob-gone", nw > 0 && extra > 0 && !hh.live(hc))
	verif.Cover("over-reserved-blob-alive", nw > 0 && extra > 0 && hh.live(hc))
	// quick: first probe ReadAt / Write / Size on any handle, second probe Read /
	// Size on the next handle; thorough: every operation, any two handles.
	firstOps := []int{vhReadAt, vhWrite, vhSize}
	secondOps := []int{vhRead, vhSize}
	anyTwo := verif.Bound("probe-all-ops-any-two-handles", 0, 1) == 1
	if anyTwo {
		firstOps = []int{vhRead, vhReadAt, vhWrite, vhWriteAt, vhSeek, vhSize}
		secondOps = []int{vhRead, vhReadAt, vhSize}
	}
	first := verif.Choice("handle", 3)
	hh.probe(handles[first], firstOps)
	next := (first + 1) % 3
	if anyTwo {
		next = verif.Choice("handle", 3)
	}
	hh.probe(handles[next], secondOps)
	if hh.m.blobs[0].present {
		sz, err := hh.s.Stat(vmKeys[0])
		verif.Assert("stat-is-model-length", err == nil && sz == int64(len(hh.data[0])))
	}
	hh.check()
	hh.checkContents()
}

// VerifMemConcurrentHandles: one thread deletes or evicts the blob (and may
// re-create the key with other bytes) while another thread reads and writes
// through a handle opened before. Each handle operation either sees the old
// blob or the evicted error, never the new blob; once evicted always evicted;
// the re-created blob never receives bytes written through the old handle.
func VerifMemConcurrentHandles() {
	verif.Option("max_preempt", verif.Bound("preemptions", 2, 3))
	hh := &vmHH{vmH: vmNew(3, 2)}
	hc := hh.create(0, 2)
	old := verif.Bytes("d", 2)
	hc.f.Write(old)
	verif.Assert("complete", hh.s.MarkComplete(vmKeys[0]) == nil)
	hh.m.markComplete(0)
	f, err := hh.s.Open(vmKeys[0])
	verif.Assert("open", err == nil)
	fresh := verif.Bytes("e", 2)
	how := verif.Choice("removal", 2)
	recreate := verif.Choice("recreate", 2) == 1
	reader := verif.Choice("second-thread-reads", 2) == 1
	wbyte := verif.Byte("w")

	var wg sync.WaitGroup
	wg.Add(2)
	go func() {
		defer wg.Done()
		if how == 0 {
			verif.Assert("delete-ok", hh.s.Delete(vmKeys[0]) == nil)
		} else {
			_, err := hh.s.Create(vmKeys[1], 2) // capacity 3: evicts key 0
			verif.Assert("evicting-create-ok", err == nil)
		}
		if recreate {
			if how == 1 {
				verif.Assert("make-room", hh.s.Delete(vmKeys[1]) == nil)
			}
			nf, err := hh.s.Create(vmKeys[0], 2)
			verif.Assert("recreate-ok", err == nil)
			nf.Write(fresh)
		}
	}()
	var sawEvicted, lateSuccess bool
	go func() {
		defer wg.Done()
		for i := 0; i < 2; i++ {
			if reader {
				p := []byte{0}
				n, err := f.ReadAt(p, int64(i))
				if err == ErrEvicted {
					verif.Assert("evicted-read-returns-nothing", n == 0 && p[0] == 0)
					sawEvicted = true
					continue
				}
				if sawEvicted {
					lateSuccess = true
				}
				verif.Assert("read-sees-old-blob-only", err == nil && n == 1 && p[0] == old[i])
			} else {
				n, err := f.WriteAt([]byte{wbyte}, int64(i)+1) // the second write grows the blob
				if err == ErrEvicted {
					verif.Assert("evicted-write-writes-nothing", n == 0)
					sawEvicted = true
					continue
				}
				if sawEvicted {
					lateSuccess = true
				}
				verif.Assert("write-ok", err == nil && n == 1)
			}
		}
	}()
	wg.Wait()
	verif.Assert("once-evicted-always-evicted", !lateSuccess)
	verif.Cover("raced-evicted", sawEvicted)
	verif.Cover("raced-not-evicted", !sawEvicted)
	// after the removal every operation on the old handle fails
	p := []byte{0}
	_, err = f.Read(p)
	verif.Assert("after-removal-read-evicted", err == ErrEvicted)
	_, err = f.Write([]byte{wbyte})
	verif.Assert("after-removal-write-evicted", err == ErrEvicted)
	verif.Assert("after-removal-size", f.Size() == -1)
	if recreate {
		nf, err := hh.s.Open(vmKeys[0])
		verif.Assert("reopen-recreated", err == nil)
		q := make([]byte, 3)
		n, _ := nf.ReadAt(q, 0)
		verif.Assert("recreated-blob-has-only-its-own-bytes", n == 2 && q[0] == fresh[0] && q[1] == fresh[1])
	}
}
