//kse:pkg lib/store/memory
package memory

import (
	"errors"
	"os"

	"github.com/uber-go/tally"
	storelib "github.com/uber/kraken/lib/store"
	"github.com/uber/kraken/lib/store/metadata"
	verif "github.com/uber/kraken/zzverif"
)

// ---------------------------------------------------------------------------
// Harness metadata kinds: one movable, one non-movable, one symbolic byte each.

const (
	vmMovableSuffix   = "_vmovable"
	vmImmovableSuffix = "_vimmovable"
)

type vmMd struct {
	suffix  string
	movable bool
	B       byte
}

func (m *vmMd) GetSuffix() string          { return m.suffix }
func (m *vmMd) Movable() bool              { return m.movable }
func (m *vmMd) Serialize() ([]byte, error) { return []byte{m.B}, nil }
func (m *vmMd) Deserialize(b []byte) error {
	if len(b) != 1 {
		return errors.New("vmMd: bad length")
	}
	m.B = b[0]
	return nil
}

func vmNewMd(kind int, b byte) *vmMd {
	if kind == 0 {
		return &vmMd{suffix: vmMovableSuffix, movable: true, B: b}
	}
	return &vmMd{suffix: vmImmovableSuffix, movable: false, B: b}
}

// ---------------------------------------------------------------------------
// Reference model: capacity-bounded LRU store over a fixed key universe.

var vmKeys = []string{"aa11", "bb22", "cc33"}

const (
	vrOK = iota
	vrNotExist
	vrExist
	vrOutOfScope
	vrNoSpace
	vrOther
)

func vmClass(err error) int {
	switch {
	case err == nil:
		return vrOK
	case errors.Is(err, storelib.ErrOutOfScope):
		return vrOutOfScope
	case errors.Is(err, ErrNoSpace):
		return vrNoSpace
	case errors.Is(err, os.ErrNotExist):
		return vrNotExist
	case errors.Is(err, os.ErrExist):
		return vrExist
	}
	return vrOther
}

type vmMdVal struct {
	set bool
	val byte
}

type vmBlob struct {
	present  bool
	complete bool
	banned   bool
	size     uint64
	md       [2]vmMdVal // 0: movable, 1: non-movable
}

type vmModel struct {
	capacity         uint64
	reserved         uint64 // sum of live sizes; never wraps because admission is decided without addition
	blobs            [3]vmBlob
	lru              []int // front = next to evict
	evicted          int   // ghost: number of evictions performed by the model
	droppedImmovable bool  // ghost: a completion removed a set non-movable metadata
}

func (m *vmModel) oos(k int, scope storelib.BlobScope) bool {
	b := &m.blobs[k]
	return (b.complete && scope == storelib.BlobScopeIncomplete) || (!b.complete && scope == storelib.BlobScopeComplete)
}

// gate returns the result class common to all keyed, scoped operations.
func (m *vmModel) gate(k int, scope storelib.BlobScope) int {
	if !m.blobs[k].present {
		return vrNotExist
	}
	if m.oos(k, scope) {
		return vrOutOfScope
	}
	return vrOK
}

func (m *vmModel) lruRemove(k int) {
	for i, x := range m.lru {
		if x == k {
			m.lru = append(append([]int{}, m.lru[:i]...), m.lru[i+1:]...)
			return
		}
	}
}

func (m *vmModel) lruHas(k int) bool {
	for _, x := range m.lru {
		if x == k {
			return true
		}
	}
	return false
}

func (m *vmModel) drop(k int) {
	m.reserved -= m.blobs[k].size
	m.blobs[k] = vmBlob{}
	m.lruRemove(k)
}

// fits decides reserved+space <= capacity over the mathematical integers
// (no 64-bit addition, so nothing can wrap): space <= capacity and
// reserved <= capacity-space.
func (m *vmModel) fits(space uint64) bool {
	return verif.And(space <= m.capacity, m.reserved <= m.capacity-space)
}

// makeRoom evicts least-recently-used evictable blobs until space fits.
func (m *vmModel) makeRoom(space uint64) bool {
	for !m.fits(space) {
		if len(m.lru) == 0 {
			return false
		}
		m.evicted++
		m.drop(m.lru[0])
	}
	return true
}

// create admits the blob iff it fits after evicting a (minimal) prefix of the
// LRU queue. When it cannot fit even then, the model evicts nothing itself: the
// store may have evicted any prefix of the queue before giving up (the
// current code evicts everything evictable first) — the harness adopts what it
// observes through adoptFailedCreateEvictions and the usual checks verify the
// rest.
func (m *vmModel) create(k int, size uint64) int {
	if m.blobs[k].present {
		return vrExist
	}
	trial := *m
	trial.lru = append([]int{}, m.lru...)
	if !trial.makeRoom(size) {
		return vrNoSpace
	}
	*m = trial
	m.reserved += size
	m.blobs[k] = vmBlob{present: true, size: size}
	return vrOK
}

// adoptFailedCreateEvictions: after a Create that failed for lack of space,
// the leading LRU blobs that the store no longer has were evicted by it.
func (h *vmH) adoptFailedCreateEvictions() {
	m := h.m
	for len(m.lru) > 0 {
		if in, _ := h.s.Has(vmKeys[m.lru[0]]); in {
			break
		}
		m.evicted++
		m.drop(m.lru[0])
	}
}

func (m *vmModel) open(k int, scope storelib.BlobScope) int {
	if r := m.gate(k, scope); r != vrOK {
		return r
	}
	if m.lruHas(k) {
		m.lruRemove(k)
		m.lru = append(m.lru, k)
	}
	return vrOK
}

func (m *vmModel) markComplete(k int) int {
	b := &m.blobs[k]
	if !b.present {
		return vrNotExist
	}
	if b.complete {
		return vrOK
	}
	b.complete = true
	if !b.banned {
		m.lru = append(m.lru, k)
	}
	if b.md[1].set {
		m.droppedImmovable = true
	}
	b.md[1] = vmMdVal{}
	return vrOK
}

func (m *vmModel) delete(k int, scope storelib.BlobScope) int {
	if r := m.gate(k, scope); r != vrOK {
		return r
	}
	m.drop(k)
	return vrOK
}

func (m *vmModel) ban(k int, scope storelib.BlobScope) int {
	if r := m.gate(k, scope); r != vrOK {
		return r
	}
	b := &m.blobs[k]
	if !b.banned {
		b.banned = true
		m.lruRemove(k)
	}
	return vrOK
}

func (m *vmModel) unban(k int, scope storelib.BlobScope) int {
	if r := m.gate(k, scope); r != vrOK {
		return r
	}
	b := &m.blobs[k]
	if b.banned {
		b.banned = false
		if b.complete {
			m.lru = append(m.lru, k)
		}
	}
	return vrOK
}

// ---------------------------------------------------------------------------
// Harness state: the real store next to the model.

type vmH struct {
	s      *Store
	m      *vmModel
	nkeys  int
	sizeFn func() uint64 // source of Create sizes (full range or restricted)

	sawOutOfScope bool // ghost
}

func (h *vmH) noteClass(c int) int {
	if c == vrOutOfScope {
		h.sawOutOfScope = true
	}
	return c
}

func vmScopeOf(i int) storelib.BlobScope {
	switch i {
	case 1:
		return storelib.BlobScopeComplete
	case 2:
		return storelib.BlobScopeIncomplete
	}
	return storelib.BlobScopeAny
}

func vmNew(capacity uint64, nkeys int) *vmH {
	verif.Assume(capacity != 0) // documented precondition (Config.applyDefaults rejects 0)
	s, err := NewStore(&Config{CapacityBytes: capacity, GOMEMLIMITBytes: 1 << 30}, tally.NoopScope)
	verif.Assert("new-store-ok", err == nil)
	return &vmH{s: s, m: &vmModel{capacity: capacity}, nkeys: nkeys}
}

func (h *vmH) view(scope storelib.BlobScope) *Store {
	switch scope {
	case storelib.BlobScopeComplete:
		return h.s.ScopeComplete()
	case storelib.BlobScopeIncomplete:
		return h.s.ScopeIncomplete()
	}
	return h.s
}

// Operation codes.
const (
	voCreate = iota
	voOpen
	voStat
	voHas
	voMarkComplete
	voDelete
	voBan
	voUnban
	voSetMd
	voGetMd
	voDelMd
	voListMd
)

// step performs one operation chosen among ops on a key chosen among the
// first nkeys keys under a scope chosen among the first nscopes scopes, on both
// the store and the model, and compares the results.
func (h *vmH) step(ops []int, nscopes int) {
	op := ops[verif.Choice("op", len(ops))]
	k := 0
	if h.nkeys > 1 {
		k = verif.Choice("key", h.nkeys)
	}
	scope := storelib.BlobScopeAny
	if nscopes > 1 && op != voCreate && op != voMarkComplete {
		scope = vmScopeOf(verif.Choice("scope", nscopes))
	}
	h.do(op, k, scope)
	h.check()
}

func (h *vmH) do(op, k int, scope storelib.BlobScope) {
	key := vmKeys[k]
	v := h.view(scope)
	m := h.m
	switch op {
	case voCreate:
		size := h.sizeFn()
		f, err := v.Create(key, size)
		want := m.create(k, size)
		verif.Assert("create-result", vmClass(err) == want)
		if want == vrNoSpace {
			h.adoptFailedCreateEvictions()
		}
		verif.Cover("create-ok", err == nil)
		if err == nil {
			f.Close()
		}
	case voOpen:
		f, err := v.Open(key)
		verif.Assert("open-result", vmClass(err) == h.noteClass(m.open(k, scope)))
		if err == nil {
			f.Close()
		}
	case voStat:
		_, err := v.Stat(key)
		verif.Assert("stat-result", vmClass(err) == m.gate(k, scope))
	case voHas:
		inStore, inScope := v.Has(key)
		g := m.gate(k, scope)
		verif.Assert("has-in-store", inStore == (g != vrNotExist))
		verif.Assert("has-in-scope", inScope == (g == vrOK))
	case voMarkComplete:
		err := v.MarkComplete(key)
		verif.Assert("markcomplete-result", vmClass(err) == m.markComplete(k))
	case voDelete:
		err := v.Delete(key)
		verif.Assert("delete-result", vmClass(err) == m.delete(k, scope))
	case voBan:
		err := v.BanEviction(key)
		verif.Assert("ban-result", vmClass(err) == m.ban(k, scope))
	case voUnban:
		err := v.UnbanEviction(key)
		verif.Assert("unban-result", vmClass(err) == m.unban(k, scope))
	case voSetMd:
		kind := verif.Choice("mdkind", 2)
		val := verif.Byte("mdval")
		err := v.SetMetadata(key, vmNewMd(kind, val))
		g := m.gate(k, scope)
		verif.Assert("setmd-result", vmClass(err) == g)
		if g == vrOK {
			m.blobs[k].md[kind] = vmMdVal{true, val}
		}
	case voGetMd:
		kind := verif.Choice("mdkind", 2)
		got := vmNewMd(kind, 0)
		ok, err := v.GetMetadata(key, got)
		g := m.gate(k, scope)
		verif.Assert("getmd-result", vmClass(err) == g)
		if g == vrOK {
			want := m.blobs[k].md[kind]
			verif.Assert("getmd-present", ok == want.set)
			if want.set {
				verif.Assert("getmd-last-value", got.B == want.val)
			}
		} else {
			verif.Assert("getmd-not-ok-on-error", !ok)
		}
	case voDelMd:
		kind := verif.Choice("mdkind", 2)
		err := v.DeleteMetadata(key, vmNewMd(kind, 0).GetSuffix())
		g := m.gate(k, scope)
		verif.Assert("delmd-result", vmClass(err) == g)
		if g == vrOK {
			m.blobs[k].md[kind] = vmMdVal{}
		}
	case voListMd:
		mds, err := v.ListMetadata(key)
		g := m.gate(k, scope)
		verif.Assert("listmd-result", vmClass(err) == g)
		if g == vrOK {
			h.checkMdList(k, mds)
		}
	}
}

func (h *vmH) checkMdList(k int, mds []metadata.Metadata) {
	var seen [2]int
	for _, md := range mds {
		switch md.GetSuffix() {
		case vmMovableSuffix:
			seen[0]++
		case vmImmovableSuffix:
			seen[1]++
		default:
			verif.Fail("listmd-foreign", md.GetSuffix())
		}
	}
	for kind := 0; kind < 2; kind++ {
		want := 0
		if h.m.blobs[k].md[kind].set {
			want = 1
		}
		verif.Assert("listmd-exactly-the-set-kinds", seen[kind] == want)
	}
}

func vmSameSet(got []string, want []string) bool {
	if len(got) != len(want) {
		return false
	}
	for _, w := range want {
		n := 0
		for _, g := range got {
			if g == w {
				n++
			}
		}
		if n != 1 {
			return false
		}
	}
	return true
}

// vmInternals, when set (whitebox.go), additionally compares the store's
// internal bookkeeping (reserved size, LRU queue, per-blob flags) with the
// model. The API-level harness does not depend on it.
var vmInternals func(h *vmH)

// check compares the observable state of the store with the model: listing per
// scope and presence per key through the public API, plus the internals when
// the white-box file is loaded.
func (h *vmH) check() {
	m := h.m
	for sc := 0; sc < 3; sc++ {
		scope := vmScopeOf(sc)
		want := []string{}
		for k := 0; k < h.nkeys; k++ {
			if m.blobs[k].present && !m.oos(k, scope) {
				want = append(want, vmKeys[k])
			}
		}
		verif.Assert("list-per-scope", vmSameSet(h.view(scope).List(), want))
	}
	for k := 0; k < h.nkeys; k++ {
		in, _ := h.s.Has(vmKeys[k])
		verif.Assert("has-iff-present", in == m.blobs[k].present)
	}
	if vmInternals != nil {
		vmInternals(h)
	}
}

// checkAllMd reads every metadata kind of every key and compares with the model.
func (h *vmH) checkAllMd() {
	for k := 0; k < h.nkeys; k++ {
		for kind := 0; kind < 2; kind++ {
			got := vmNewMd(kind, 0)
			ok, err := h.s.GetMetadata(vmKeys[k], got)
			mb := &h.m.blobs[k]
			if !mb.present {
				verif.Assert("md-of-absent-key", vmClass(err) == vrNotExist)
				continue
			}
			verif.Assert("md-read-ok", err == nil)
			verif.Assert("md-present-as-model", ok == mb.md[kind].set)
			if ok && mb.md[kind].set {
				verif.Assert("md-last-value", got.B == mb.md[kind].val)
			}
		}
	}
}
