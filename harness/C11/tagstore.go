//kse:pkg build-index/tagstore
package tagstore

import (
	"context"
	"net/http"
	"os"
	"path/filepath"
	"sort"

	"github.com/go-chi/chi"
	"github.com/uber-go/tally"
	"github.com/uber/kraken/core"
	"github.com/uber/kraken/lib/backend"
	"github.com/uber/kraken/lib/persistedretry"
	"github.com/uber/kraken/lib/store"
	"github.com/uber/kraken/utils/httputil"
	verif "github.com/uber/kraken/zzverif"
)

// verifWB is a write-back manager that accepts every task (the write-back
// queue is a sqlite table, not a file under the store directory).
type verifWB struct{}

func (verifWB) Add(persistedretry.Task) error                     { return nil }
func (verifWB) SyncExec(persistedretry.Task) error                { return nil }
func (verifWB) Close()                                            {}
func (verifWB) Find(interface{}) ([]persistedretry.Task, error)   { return nil, nil }

const (
	verifPutDigest   = "sha256:1111111111111111111111111111111111111111111111111111111111111111"
	verifDecoyDigest = "sha256:2222222222222222222222222222222222222222222222222222222222222222"
)

// verifRequest builds the request a chi router hands to a handler whose
// pattern contains {name}: the raw (still escaped) path segment sits in the
// route context.
func verifRequest(name, raw string) *http.Request {
	rctx := chi.NewRouteContext()
	rctx.URLParams.Add(name, raw)
	r := &http.Request{}
	return r.WithContext(context.WithValue(context.Background(), chi.RouteCtxKey, rctx))
}

// verifRawParam is a symbolic raw path segment as the router delivers it: any
// bytes except '/', whose decoded form is drawn from a small alphabet that
// contains every byte the path handling code distinguishes.
func verifRawParam(param string) (string, error) {
	maxLen := verif.Bound("raw-len", 4, 6)
	n := verif.Len("n", 1, maxLen)
	raw := verif.String("raw", n)
	for i := 0; i < n; i++ {
		verif.Assume(raw[i] != '/')
	}
	val, err := httputil.ParseParam(verifRequest(param, raw), param)
	if err != nil {
		return "", err
	}
	wide := verif.Bound("wide-alphabet", 0, 1) == 1
	for i := 0; i < len(val); i++ {
		c := val[i]
		if wide {
			verif.Assume(verif.Or(c == '/', c == '.', c == 'a', c == '%', c == '\\'))
		} else {
			verif.Assume(verif.Or(c == '/', c == '.', c == 'a'))
		}
	}
	verif.Cover("decoded-shorter", len(val) < n)
	return val, nil
}

type verifTree struct {
	top   string   // everything the harness owns lives below top
	roots []string // store directories
}

// verifLayout nests the store three levels deep so that dot-dot escapes of
// the bounded names stay inside the harness' own directory natively, and
// plants a decoy data file in every ancestor.
func verifLayout() verifTree {
	top := filepath.Join(verif.TempDir(), "c11")
	base := filepath.Join(top, "l1", "l2", "l3")
	must(os.MkdirAll(base, 0o775))
	for _, d := range []string{base, filepath.Dir(base), filepath.Dir(filepath.Dir(base)), top} {
		must(os.WriteFile(filepath.Join(d, "data"), []byte(verifDecoyDigest), 0o664))
	}
	return verifTree{top: top, roots: []string{filepath.Join(base, "upload"), filepath.Join(base, "cache")}}
}

func must(err error) {
	if err != nil {
		panic(err)
	}
}

// outside lists every file-system entry below top that is not inside a store
// directory, with its content.
func (t verifTree) outside() []string {
	var out []string
	var walk func(dir string)
	walk = func(dir string) {
		ents, err := os.ReadDir(dir)
		must(err)
		for _, e := range ents {
			p := filepath.Join(dir, e.Name())
			isRoot := false
			for _, r := range t.roots {
				if p == r {
					isRoot = true
				}
			}
			if isRoot {
				continue
			}
			if e.IsDir() {
				out = append(out, p+"/")
				walk(p)
				continue
			}
			b, err := os.ReadFile(p)
			must(err)
			out = append(out, p+"="+string(b))
		}
	}
	walk(t.top)
	sort.Strings(out)
	return out
}

func verifSame(label string, a, b []string) {
	verif.Assert(label, len(a) == len(b))
	for i := range a {
		if i < len(b) {
			verif.Assert(label, a[i] == b[i])
		}
	}
}

// VerifTagNameConfined: build-index PUT /tags/{tag}/digest/{d} followed by
// GET /tags/{tag}, from path-parameter parsing down to the file system: no tag
// makes the tag store create, change or delete anything outside its two
// directories, and a lookup never returns the content of a file outside.
func VerifTagNameConfined() { verifTagFlow(false) }

// VerifFindingTagDotDot: the same request flow restricted to the tag whose
// decoded form is ".." (FINDINGS.md): the tag store writes into the parent of
// its cache directory.
func VerifFindingTagDotDot() { verifTagFlow(true) }

func verifTagFlow(finding bool) {
	t := verifLayout()
	fs, err := store.NewSimpleStore(store.SimpleStoreConfig{
		UploadDir:     t.roots[0],
		CacheDir:      t.roots[1],
		UploadCleanup: store.CleanupConfig{Disabled: true},
		CacheCleanup:  store.CleanupConfig{Disabled: true},
	}, tally.NoopScope)
	must(err)
	ts := New(Config{}, fs, &backend.Manager{}, verifWB{})
	d, err := core.ParseSHA256Digest(verifPutDigest)
	must(err)
	before := t.outside()

	tag, err := verifRawParam("tag")
	if err != nil {
		verif.Reach("rejected-by-parse")
		return
	}
	// The decoded tag ".." is a recorded finding with its own harness.
	verif.Assume((tag == "..") == finding)

	perr := ts.Put(context.Background(), tag, d, 0)
	verif.Cover("put-ok", perr == nil)
	verif.Cover("put-rejected", perr != nil)
	verifSame("put-leaves-outside-untouched", before, t.outside())

	got, gerr := ts.Get(tag)
	verif.Cover("get-ok", gerr == nil)
	if gerr == nil {
		verif.Assert("get-never-returns-outside-content", got.String() != verifDecoyDigest)
	}
	verifSame("get-leaves-outside-untouched", before, t.outside())
}
