//kse:pkg build-index/tagstore
package tagstore

import (
	"context"

	"github.com/uber-go/tally"
	"github.com/uber/kraken/core"
	"github.com/uber/kraken/lib/backend"
	"github.com/uber/kraken/lib/persistedretry"
	"github.com/uber/kraken/lib/store"
	"github.com/uber/kraken/utils/httputil"
	verif "github.com/uber/kraken/zzverif"
)

// verifWB is a write-back manager that accepts every task (the write-back
// queue is a sqlite table, not a file under the store directory).
type verifWB struct{}

func (verifWB) Add(persistedretry.Task) error                   { return nil }
func (verifWB) SyncExec(persistedretry.Task) error              { return nil }
func (verifWB) Close()                                          {}
func (verifWB) Find(interface{}) ([]persistedretry.Task, error) { return nil, nil }

const (
	verifPutDigest = "sha256:1111111111111111111111111111111111111111111111111111111111111111"
)

// VerifTagNameConfined: build-index PUT /tags/{tag}/digest/{d} followed by
// GET /tags/{tag}, from path-parameter parsing down to the file system: no tag
// makes the tag store create, change or delete anything outside its two
// directories, and a lookup never returns the content of a file outside.
func VerifTagNameConfined() { verifTagFlow(false) }

// VerifFindingTagDotDot: the same request flow restricted to the tag whose
// decoded form is ".." (FINDINGS.md F1, fixed in /repo by d7bcd7f: regression
// check).
func VerifFindingTagDotDot() { verifTagFlow(true) }

// VerifDecodedTagConfined: the same flow starting from the decoded tag, for
// longer names (dot and slash patterns that need more bytes than the escaped
// form allows within the bound).
func VerifDecodedTagConfined() { verifTagFlowFrom(false, true) }

func verifTagFlow(finding bool) { verifTagFlowFrom(finding, false) }

func verifTagFlowFrom(finding, decoded bool) {
	t := httputil.KseLayout(decoded)
	fs, err := store.NewSimpleStore(store.SimpleStoreConfig{
		UploadDir:     t.Dir(0),
		CacheDir:      t.Dir(1),
		UploadCleanup: store.CleanupConfig{Disabled: true},
		CacheCleanup:  store.CleanupConfig{Disabled: true},
	}, tally.NoopScope)
	httputil.KseMust(err)
	ts := New(Config{}, fs, &backend.Manager{}, verifWB{})
	d, err := core.ParseSHA256Digest(verifPutDigest)
	httputil.KseMust(err)
	before := t.Outside()

	var tag string
	if decoded {
		tag = httputil.KseDecodedName()
	} else {
		tag, err = httputil.KseRawParam("tag")
	}
	if err != nil {
		verif.Reach("rejected-by-parse")
		return
	}
	if finding {
		// regression check of the fixed finding F1: only the decoded tag ".."
		verif.Assume(tag == "..")
	}

	perr := ts.Put(context.Background(), tag, d, 0)
	if !finding {
		verif.Cover("put-ok", perr == nil)
	}
	verif.Cover("put-rejected", perr != nil)
	httputil.KseSame("put-leaves-outside-untouched", before, t.Outside())

	got, gerr := ts.Get(tag)
	if !finding {
		verif.Cover("get-ok", gerr == nil)
	}
	if gerr == nil {
		verif.Assert("get-never-returns-outside-content", got.String() != httputil.KseDecoy)
	}
	httputil.KseSame("get-leaves-outside-untouched", before, t.Outside())
}
