//kse:pkg origin/blobserver
package blobserver

import (
	"bytes"

	"github.com/uber-go/tally"
	"github.com/uber/kraken/lib/store"
	"github.com/uber/kraken/utils/httputil"
	verif "github.com/uber/kraken/zzverif"
)

const verifHexTail = "0123456789abcdef0123456789abcdef0123456789abcdef0123456789ab"

// VerifBlobNameConfined: a {digest} path parameter whose first four hex
// positions (the ones the content-addressed layout turns into shard
// directories) are arbitrary bytes: either ParseDigest rejects it, or the
// blob operations of the origin store stay inside the store directories.
func VerifBlobNameConfined() {
	t := httputil.KseLayout(false)
	cas, err := store.NewCAStore(store.CAStoreConfig{
		UploadDir:            t.Dir(0),
		CacheDir:             t.Dir(1),
		UploadCleanup:        store.CleanupConfig{Disabled: true},
		CacheCleanup:         store.CleanupConfig{Disabled: true},
		SkipHashVerification: true, // the name is the subject here, not the content
	}, tally.NoopScope)
	httputil.KseMust(err)
	before := t.Outside()

	head := verif.String("head", 4)
	for i := 0; i < 4; i++ {
		verif.Assume(head[i] != '/') // router guarantee for a raw segment
	}
	raw := "sha256:" + head + verifHexTail
	d, err := httputil.ParseDigest(httputil.KseRequest("digest", raw), "digest")
	if err != nil {
		verif.Reach("rejected")
		return
	}
	verif.Reach("accepted")
	// Representatives of the accepted classes (digit, lower, upper) plus the
	// path-special bytes, which must be infeasible here.
	hex := d.Hex()
	for i := 0; i < 4; i++ {
		c := hex[i]
		verif.Assume(verif.Or(c == '0', c == 'a', c == 'F', c == '.', c == '/'))
	}
	verif.Note("accepted hex digits are explored through the representatives 0, a, F per position")

	werr := cas.CreateCacheFile(hex, bytes.NewReader([]byte("xy")))
	verif.Cover("stored", werr == nil)
	httputil.KseSame("create-leaves-outside-untouched", before, t.Outside())
	if werr == nil {
		_, serr := cas.GetCacheFileStat(hex)
		verif.Assert("stored-blob-is-in-store", serr == nil)
	}
	derr := cas.DeleteCacheFile(hex)
	_ = derr
	httputil.KseSame("delete-leaves-outside-untouched", before, t.Outside())
}
