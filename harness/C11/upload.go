//kse:pkg origin/blobserver
package blobserver

import (
	"bytes"

	"github.com/uber-go/tally"
	"github.com/uber/kraken/core"
	"github.com/uber/kraken/lib/store"
	"github.com/uber/kraken/utils/httputil"
	verif "github.com/uber/kraken/zzverif"
)

// VerifUploadIDConfined: origin chunked upload, PATCH .../uploads/{uid} then
// PUT .../uploads/{uid} with a client-chosen uid (an upload started by the
// server exists next to it): whatever uid is sent, nothing outside the upload
// and cache directories is created, changed or deleted.
func VerifUploadIDConfined() { verifUploadFlow(false) }

// VerifFindingUploadIDDotDot: the same flow restricted to the uid whose
// decoded form is ".." (FINDINGS.md F2, fixed in /repo by d7bcd7f: regression
// check).
func VerifFindingUploadIDDotDot() { verifUploadFlow(true) }

func verifUploadFlow(finding bool) {
	t := httputil.KseLayout(false)
	cas, err := store.NewCAStore(store.CAStoreConfig{
		UploadDir:     t.Dir(0),
		CacheDir:      t.Dir(1),
		UploadCleanup: store.CleanupConfig{Disabled: true},
		CacheCleanup:  store.CleanupConfig{Disabled: true},
	}, tally.NoopScope)
	httputil.KseMust(err)
	u := newUploader(cas)
	chunk := []byte("xy")
	d, err := core.NewDigester().FromBytes(chunk)
	httputil.KseMust(err)
	_, err = u.start(d)
	httputil.KseMust(err)
	before := t.Outside()

	uid, err := httputil.KseRawParam("uid")
	if err != nil {
		verif.Reach("rejected-by-parse")
		return
	}
	if finding {
		// regression check of the fixed finding F2: only the decoded uid ".."
		verif.Assume(uid == "..")
	}

	perr := u.patch(d, uid, bytes.NewReader(chunk), 0, int64(len(chunk)))
	verif.Cover("patch-rejected", perr != nil)
	httputil.KseSame("patch-leaves-outside-untouched", before, t.Outside())

	cerr := u.commit(d, uid)
	verif.Cover("commit-rejected", cerr != nil)
	httputil.KseSame("commit-leaves-outside-untouched", before, t.Outside())
}
