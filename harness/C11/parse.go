//kse:pkg utils/httputil
package httputil

import (
	"context"
	"net/http"

	"github.com/go-chi/chi"
	verif "github.com/uber/kraken/zzverif"
)

// verifRequestWithParam builds the request a chi router would hand to a
// handler whose pattern contains {name}: chi stores the raw (still escaped)
// path segment in the route context.
func verifRequestWithParam(name, raw string) *http.Request {
	rctx := chi.NewRouteContext()
	rctx.URLParams.Add(name, raw)
	r := &http.Request{}
	return r.WithContext(context.WithValue(context.Background(), chi.RouteCtxKey, rctx))
}

// VerifParseParamProbe: probe that ParseParam is interpretable.
func VerifParseParamProbe() {
	n := verif.Len("n", 1, 3)
	raw := verif.String("raw", n)
	v, err := ParseParam(verifRequestWithParam("tag", raw), "tag")
	verif.Cover("ok", err == nil)
	verif.Cover("rejected", err != nil)
	if err == nil {
		verif.Assert("nonempty", len(v) > 0)
		verif.Cover("decoded", len(v) < n)
	}
}
