//kse:pkg utils/httputil
package httputil

// Helpers shared by the C11 harnesses (not entry points).

import (
	"context"
	"net/http"
	"os"
	"path/filepath"
	"sort"

	"github.com/go-chi/chi"
	verif "github.com/uber/kraken/zzverif"
)

// KseDecoy is the content of the decoy files planted outside the stores; it
// is a well-formed digest string so that a tag lookup that reads it succeeds.
const KseDecoy = "sha256:2222222222222222222222222222222222222222222222222222222222222222"

// KseRequest builds the request a chi router hands to a handler whose
// pattern contains {name}: the raw (still escaped) path segment sits in the
// route context.
func KseRequest(name, raw string) *http.Request {
	rctx := chi.NewRouteContext()
	rctx.URLParams.Add(name, raw)
	r := &http.Request{}
	return r.WithContext(context.WithValue(context.Background(), chi.RouteCtxKey, rctx))
}

// KseRawParam is a symbolic raw path segment as the router delivers it: any
// bytes except '/', whose decoded form is drawn from a small alphabet that
// contains every byte the path handling code distinguishes.
func KseRawParam(param string) (string, error) {
	maxLen := verif.Bound("raw-len", 6, 8)
	maxDecoded := verif.Bound("decoded-len", 4, 5)
	n := verif.Len("n", 1, maxLen)
	raw := verif.String("raw", n)
	for i := 0; i < n; i++ {
		verif.Assume(raw[i] != '/')
	}
	val, err := ParseParam(KseRequest(param, raw), param)
	if err != nil {
		return "", err
	}
	if len(val) > maxDecoded {
		verif.Reach("longer-than-decoded-bound")
		verif.Assume(false)
	}
	for i := 0; i < len(val); i++ {
		c := val[i]
		verif.Assume(verif.Or(c == '/', c == '.', c == 'a'))
	}
	verif.Cover("decoded-shorter", len(val) < n)
	return val, nil
}

// KseDecodedName is a symbolic name as a handler sees it after ParseParam
// (so '/' may occur), over the same alphabet, for longer names than the raw
// form affords.
func KseDecodedName() string {
	maxLen := verif.Bound("name-len", 5, 6)
	n := verif.Len("n", 1, maxLen)
	val := verif.String("name", n)
	// thorough: short names also over '%' and '\\' (no special meaning is
	// expected for them after unescaping)
	wide := verif.Bound("wide-alphabet-up-to-len", 0, 4) >= n
	for i := 0; i < n; i++ {
		c := val[i]
		if wide {
			verif.Assume(verif.Or(c == '/', c == '.', c == 'a', c == '%', c == '\\'))
		} else {
			verif.Assume(verif.Or(c == '/', c == '.', c == 'a'))
		}
	}
	return val
}

type KseTree struct {
	Top   string   // everything the harness owns lives below top
	Roots []string // store directories (clean paths): upload, cache
	slash bool     // configured with a trailing slash, as in the shipped configs
}

// KseLayout nests the store three levels deep so that dot-dot escapes of
// the bounded names stay inside the harness' own directory natively, and
// plants a decoy data file in every ancestor. The store directories have
// one-letter names, the cache directory's being the ordinary byte of the
// name alphabet, so that sibling directories whose name merely starts with a
// store directory's name ("a" vs "aa") are expressible within the name bound.
// The spelling of the configured directories (plain or with a trailing slash)
// is a configuration choice when bothSpellings is set; otherwise the
// directories are written with a trailing slash, as in every shipped
// config/*/base.yaml.
func KseLayout(bothSpellings bool) KseTree {
	top := filepath.Join(verif.TempDir(), "c11")
	base := filepath.Join(top, "l1", "l2", "l3")
	KseMust(os.MkdirAll(base, 0o775))
	for _, d := range []string{base, filepath.Dir(base), filepath.Dir(filepath.Dir(base)), top} {
		KseMust(os.WriteFile(filepath.Join(d, "data"), []byte(KseDecoy), 0o664))
	}
	// sibling directories whose names extend a store directory's name (like
	// cache and cache-backup), each holding a decoy entry
	for _, sib := range []string{"aa", "uu"} {
		KseMust(os.MkdirAll(filepath.Join(base, sib), 0o775))
		KseMust(os.WriteFile(filepath.Join(base, sib, "data"), []byte(KseDecoy), 0o664))
	}
	return KseTree{
		Top:   top,
		Roots: []string{filepath.Join(base, "u"), filepath.Join(base, "a")},
		slash: !bothSpellings || verif.Choice("dir-trailing-slash", 2) == 1,
	}
}

// Dir returns store directory i as it is written in the configuration.
func (t KseTree) Dir(i int) string {
	if t.slash {
		return t.Roots[i] + "/"
	}
	return t.Roots[i]
}

func KseMust(err error) {
	if err != nil {
		panic(err)
	}
}

// outside lists every file-system entry below top that is not inside a store
// directory, with its content.
func (t KseTree) Outside() []string {
	var out []string
	var walk func(dir string)
	walk = func(dir string) {
		ents, err := os.ReadDir(dir)
		KseMust(err)
		for _, e := range ents {
			p := filepath.Join(dir, e.Name())
			isRoot := false
			for _, r := range t.Roots {
				if p == r {
					isRoot = true
				}
			}
			if isRoot {
				// the store directory itself must stay; its content is the
				// store's business
				out = append(out, p+"/ (store directory)")
				continue
			}
			if e.IsDir() {
				out = append(out, p+"/")
				walk(p)
				continue
			}
			b, err := os.ReadFile(p)
			KseMust(err)
			out = append(out, p+"="+string(b))
		}
	}
	walk(t.Top)
	sort.Strings(out)
	return out
}

func KseSame(label string, a, b []string) {
	verif.Assert(label, len(a) == len(b))
	for i := range a {
		if i < len(b) {
			verif.Assert(label, a[i] == b[i])
		}
	}
}
