//kse:pkg origin/blobclient
package blobclient

import (
	"bytes"
	"context"
	"errors"
	"io"
	"net/http"
	"net/http/httptest"
	"net/url"
	"strings"
	"sync"

	"github.com/uber/kraken/core"
	verif "github.com/uber/kraken/zzverif"
)

// The same property with the real per-origin client: blobclient.New(addr)
// (HTTPClient.DownloadBlob -> httputil.Get -> io.Copy into dst) instead of a
// stub of Client.DownloadBlob. Under the engine the network is the model
// below (net/http's client is replaced by the two Go models, see
// kse/model_gomodel.go): an origin answers with a status, or with 200 and a
// body that delivers k bytes and then fails (connection dropped), or the
// request fails without response. Natively the same harness starts real
// httptest servers that behave the same way, so replays and the validation
// of sampled paths check the model against net/http.

type verifNet struct {
	mu        sync.Mutex
	blob      []byte
	attempts  int
	max       int
	accepted  int
	maxAccept int
	delivered bool
	partial   bool
}

// answer draws one origin behaviour: status (0 = no response), number of body
// bytes delivered before the connection drops (len(blob) = complete body) and
// the framing of a 200 response (Content-Length or chunked).
func (n *verifNet) answer() (status, k int, chunked bool) {
	n.attempts++
	if verif.Symbolic() {
		verif.Assume(n.attempts <= n.max) // bound of the run (a native handler thread must not panic)
	}
	switch verif.Choice("origin_outcome", 4) {
	case 0:
		return 200, len(n.blob), verif.Bool("chunked_response")
	case 1:
		status = verif.IntRange("status", 201, 599) // final statuses other than 200
		if status == 202 {
			n.accepted++
			if verif.Symbolic() {
				verif.Assume(n.accepted <= n.maxAccept)
			}
		}
		return status, 0, false
	case 2:
		return 0, 0, false
	}
	// 200, then the connection is closed after k body bytes. The response is
	// framed by Content-Length or streamed with chunked transfer encoding (what
	// the origin does for blobs larger than its write buffer).
	return 200, verif.Len("bytes_before_drop", 0, len(n.blob)-1), verif.Bool("chunked_response")
}

type verifDroppingBody struct {
	data []byte
	fail bool
}

func (b *verifDroppingBody) Read(p []byte) (int, error) {
	if len(b.data) == 0 {
		if b.fail {
			// what net/http reports for a body cut short by a closed connection,
			// for both framings (transfer.go body.readLocked, chunked.go)
			return 0, io.ErrUnexpectedEOF
		}
		return 0, io.EOF
	}
	c := copy(p, b.data)
	b.data = b.data[c:]
	return c, nil
}
func (b *verifDroppingBody) Close() error { return nil }

var verifTheNet *verifNet

// Go models of net/http for this package (engine only).
func VerifModelHTTPNewRequestWithContext(ctx context.Context, method, rawurl string, body io.Reader) (*http.Request, error) {
	u, err := url.Parse(rawurl)
	if err != nil {
		return nil, err
	}
	if body != nil {
		panic("verif http model (C35): requests with bodies are not modelled here")
	}
	return (&http.Request{Method: method, URL: u, Proto: "HTTP/1.1", ProtoMajor: 1, ProtoMinor: 1,
		Header: make(http.Header), Host: u.Host}).WithContext(ctx), nil
}

func VerifModelHTTPClientDo(c *http.Client, req *http.Request) (*http.Response, error) {
	n := verifTheNet
	status, k, chunked := n.answer()
	if status == 0 {
		return nil, &url.Error{Op: "Get", URL: req.URL.String(), Err: errors.New("connection refused")}
	}
	resp := &http.Response{StatusCode: status, Header: http.Header{}, Request: req, Body: &verifDroppingBody{}}
	if status == 200 {
		resp.Body = &verifDroppingBody{data: n.blob[:k], fail: k < len(n.blob)}
		resp.ContentLength = int64(len(n.blob))
		if chunked {
			resp.ContentLength = -1
			resp.TransferEncoding = []string{"chunked"}
		}
	}
	return resp, nil
}

// ServeHTTP: the native counterpart of the model network.
func (n *verifNet) ServeHTTP(w http.ResponseWriter, r *http.Request) {
	n.mu.Lock()
	status, k, chunked := n.answer()
	n.mu.Unlock()
	if status == 0 {
		if c, _, err := w.(http.Hijacker).Hijack(); err == nil {
			c.Close()
		}
		return
	}
	if status != 200 {
		w.WriteHeader(status)
		return
	}
	if k == len(n.blob) {
		if chunked {
			w.(http.Flusher).Flush() // headers go out without Content-Length: chunked
		}
		w.Write(n.blob)
		return
	}
	// promise the whole blob, deliver k bytes, close the connection
	c, bw, err := w.(http.Hijacker).Hijack()
	if err != nil {
		return
	}
	if chunked {
		bw.WriteString("HTTP/1.1 200 OK\r\nTransfer-Encoding: chunked\r\n\r\n")
		if k > 0 {
			bw.WriteString(string(rune('0'+k)) + "\r\n")
			bw.Write(n.blob[:k])
			bw.WriteString("\r\n")
		}
		// no terminating zero-length chunk
	} else {
		bw.WriteString("HTTP/1.1 200 OK\r\nContent-Length: " + string(rune('0'+len(n.blob))) + "\r\n\r\n")
		bw.Write(n.blob[:k])
	}
	bw.Flush()
	c.Close()
}

type verifHTTPResolver struct{ clients []Client }

func (r *verifHTTPResolver) Resolve(d core.Digest) ([]Client, error) { return r.clients, nil }

// countingBuffer observes what reached the destination.
type verifDst struct{ bytes.Buffer }

// VerifDownloadRealOriginClient: all failure patterns, including drops after k
// body bytes, through clusterClient.DownloadBlob and the real
// HTTPClient.DownloadBlob.
func VerifDownloadRealOriginClient() {
	verif.Option("panic_is_violation", 1)
	n := &verifNet{blob: verif.Bytes("blob", verif.Bound("blob_len", 2, 3)),
		max: verif.Bound("max_attempts", 3, 5), maxAccept: verif.Bound("max_202_answers", 1, 2)}
	verifTheNet = n
	norigins := verif.Len("origins", 1, verif.Bound("max_origins", 2, 3))
	r := &verifHTTPResolver{}
	for i := 0; i < norigins; i++ {
		addr := []string{"o0:80", "o1:80", "o2:80"}[i]
		if !verif.Symbolic() {
			srv := httptest.NewServer(n)
			defer srv.Close()
			addr = strings.TrimPrefix(srv.URL, "http://")
		}
		r.clients = append(r.clients, New(addr))
	}
	var dst verifDst
	err := NewClusterClient(r).DownloadBlob(context.Background(), "ns", verifDigest(), &dst)
	verif.Assume(n.attempts <= n.max)
	verif.Assume(n.accepted <= n.maxAccept)
	verif.Cover("succeeded", err == nil)
	verif.Cover("failed", err != nil)
	verif.Cover("destination-got-a-partial-body", err != nil && dst.Len() > 0)
	if err == nil {
		verif.Assert("destination-length-is-blob-length", dst.Len() == len(n.blob))
		verif.Assert("destination-is-exactly-the-blob-once", bytes.Equal(dst.Bytes(), n.blob))
	}
}
