//kse:pkg origin/blobclient
package blobclient

import (
	"bytes"
	"context"
	"errors"
	"io"
	"time"

	"github.com/cenkalti/backoff"

	"github.com/uber/kraken/core"
	"github.com/uber/kraken/utils/httputil"
	verif "github.com/uber/kraken/zzverif"
)

// verifOrigin is the model of one origin as seen through Client.DownloadBlob
// (the behaviour of HTTPClient.DownloadBlob, client.go:238): a non-200 status
// or a transport error is reported before any byte reaches dst; a 200 response
// is copied into dst, and if the connection drops during the copy the bytes
// received so far have been written and a plain (non-status) error is returned.
type verifOrigin struct {
	Client // remaining methods are not reachable from DownloadBlob/Poll
	addr   string
	w      *verifDownloadWorld
}

type verifDownloadWorld struct {
	blob         []byte
	allowDrop    bool // mid-transfer disconnects after >= 1 byte
	accepted     int  // 202 answers so far (bounded)
	maxAccepted  int
	delivered    bool // some attempt copied the whole blob and returned nil
	partial      bool // some attempt wrote >= 1 byte and failed
	attempts     int
	maxAttempts  int
	contactOrder []string
}

func (o *verifOrigin) Addr() string { return o.addr }

func (o *verifOrigin) DownloadBlob(ctx context.Context, namespace string, d core.Digest, dst io.Writer) error {
	w := o.w
	w.attempts++
	verif.Assume(w.attempts <= w.maxAttempts)
	w.contactOrder = append(w.contactOrder, o.addr)
	switch verif.Choice("origin_outcome", 4) {
	case 0: // 200 and complete body
		_, err := dst.Write(w.blob)
		verif.Assert("buffer-write-ok", err == nil)
		w.delivered = true
		return nil
	case 1: // any non-200 status (202 = still fetching, 404, 5xx, ...)
		status := verif.IntRange("status", 100, 599)
		verif.Assume(status != 200)
		if status == 202 {
			w.accepted++
			verif.Assume(w.accepted <= w.maxAccepted)
		}
		return httputil.StatusError{Method: "GET", URL: "http://" + o.addr, Status: status}
	case 2: // request never got a response
		return httputil.NetworkError{}
	}
	// 200, then the connection drops after k body bytes
	k := 0
	if w.allowDrop {
		k = verif.Len("bytes_before_drop", 0, len(w.blob))
	}
	if k > 0 {
		dst.Write(w.blob[:k])
		w.partial = true
	}
	return errors.New("copy body: unexpected EOF")
}

func verifDigest() core.Digest {
	d, err := core.NewSHA256DigestFromHex("00112233445566778899aabbccddeeff00112233445566778899aabbccddeeff")
	if err != nil {
		panic(err)
	}
	return d
}

type verifResolver struct {
	clients []Client
	err     error
}

func (r *verifResolver) Resolve(d core.Digest) ([]Client, error) { return r.clients, r.err }

// verifBackoff: every NextBackOff is either "stop" or a zero delay, so the
// "backoff timed out on 202 responses" exit of Poll is explored (the real
// ExponentialBackOff only stops after 15 minutes of modelled sleeping).
type verifBackoff struct{ resets, nexts int }

func (b *verifBackoff) Reset() { b.resets++ }
func (b *verifBackoff) NextBackOff() time.Duration {
	b.nexts++
	if verif.Bool("backoff_stops") {
		return backoff.Stop
	}
	return 0
}

func verifDownload(allowDrop, symbolicBackoff bool) {
	verif.Option("panic_is_violation", 1) // a panic must never end a path silently
	w := &verifDownloadWorld{
		blob:        verif.Bytes("blob", verif.Bound("blob_len", 2, 3)),
		allowDrop:   allowDrop,
		maxAccepted: verif.Bound("max_202_answers", 2, 3),
		maxAttempts: verif.Bound("max_attempts", 4, 6),
	}
	n := verif.Len("origins", 0, verif.Bound("max_origins", 3, 3))
	r := &verifResolver{}
	for i := 0; i < n; i++ {
		r.clients = append(r.clients, &verifOrigin{addr: []string{"o0", "o1", "o2"}[i], w: w})
	}
	if verif.Bool("resolve_fails") {
		r.err = errors.New("resolve: cluster is empty")
	}
	cc := NewClusterClient(r)
	var dst bytes.Buffer
	var err error
	if symbolicBackoff {
		// the request closure of clusterClient.DownloadBlob, driven through the
		// real Poll with the symbolic backoff
		ctx, d := context.Background(), verifDigest()
		bo := &verifBackoff{}
		defer func() { verif.Cover("backoff-consulted", bo.nexts > 0) }()
		err = Poll(r, bo, d, func(client Client) error {
			return client.DownloadBlob(ctx, "ns", d, &dst)
		})
	} else {
		err = cc.DownloadBlob(context.Background(), "ns", verifDigest(), &dst)
	}

	verif.Cover("succeeded", err == nil)
	verif.Cover("failed", err != nil)
	verif.Cover("second-origin-contacted", len(w.contactOrder) >= 2 && w.contactOrder[len(w.contactOrder)-1] != "o0")
	verif.Cover("polled-on-202", w.accepted > 0 && w.attempts > w.accepted)
	if allowDrop {
		verif.Cover("mid-transfer-drop", w.partial)
	}
	if err == nil {
		verif.Assert("success-only-if-an-origin-delivered-the-whole-blob", w.delivered)
		verif.Assert("destination-length-is-blob-length", dst.Len() == len(w.blob))
		verif.Assert("destination-is-exactly-the-blob-once", bytes.Equal(dst.Bytes(), w.blob))
	} else {
		verif.Assert("whole-blob-delivered-means-success", !w.delivered)
	}
}

// VerifDownloadCleanFailures: origins fail only before the first body byte
// (statuses incl. 202 polling, 404, 5xx, network errors, resolver errors,
// disconnects before any byte).
func VerifDownloadCleanFailures() { verifDownload(false, false) }

// VerifPollDownloadBackoffStops: the clean failure kinds through Poll with a
// backoff that may give up at any 202 answer. (Mid-transfer drops need the
// partial-write guard that lives in clusterClient.DownloadBlob's own request
// closure, so they are only meaningful through DownloadBlob: see the harness
// below.)
func VerifPollDownloadBackoffStops() { verifDownload(false, true) }

// VerifFindingDownloadMidTransferDrop: additionally an origin may drop the
// connection after k >= 1 body bytes (see FINDINGS.md; fixed in /repo, kept as
// the full-quantifier regression check).
func VerifFindingDownloadMidTransferDrop() { verifDownload(true, false) }
