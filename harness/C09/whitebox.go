//kse:pkg lib/store/tiered
package tiered

import (
	"path/filepath"
	"sync"

	"github.com/uber-go/tally"
	"github.com/uber/kraken/lib/store/disk"
	"github.com/uber/kraken/lib/store/memory"
	"github.com/uber/kraken/utils/log"
	verif "github.com/uber/kraken/zzverif"
)

// White-box harnesses: they assemble the store without its background worker
// and run the worker's body (nextToFlush + flush, the real
// code) themselves, synchronously or in their own goroutines, so that the
// windows named in the property are reached within a small preemption bound.

type vtW struct {
	*vtH
	f *flusher
}

// vtNewDriven assembles the tiered store exactly as newStore/newFlusher do,
// except that no background worker goroutine is started.
func vtNewDriven(memCap uint64) *vtW {
	memStore, err := memory.NewStore(&memory.Config{CapacityBytes: memCap, GOMEMLIMITBytes: 1 << 30}, tally.NoopScope)
	verif.Assert("new-mem-store-ok", err == nil)
	diskStore, err := disk.NewStore(&disk.Config{CapacityBytes: 100, RootDir: filepath.Join(verif.TempDir(), "tiered")}, tally.NoopScope)
	verif.Assert("new-disk-store-ok", err == nil)
	lg := log.Default().With("module", "tiered_store")
	f := &flusher{
		blobs:  make(map[string]*blob, 0),
		queue:  make([]string, 0),
		notify: make(chan struct{}, 1),
		stop:   make(chan struct{}),
		mem:    memStore,
		disk:   diskStore,
		log:    lg,
	}
	impl := &store{disk: diskStore, mem: memStore, flusher: f, log: lg, stats: tally.NoopScope}
	s := &Store{impl: impl}
	return &vtW{vtH: &vtH{s: s, d: diskStore}, f: f}
}

// flushOne is one iteration of worker(): take the next dirty blob and flush it.
func (h *vtW) flushOne() bool {
	b, ok := h.f.nextToFlush()
	if !ok {
		return false
	}
	h.f.flush(b)
	return true
}

// drain runs the worker body until the queue is empty.
func (h *vtW) drain() {
	for h.flushOne() {
	}
}

// VerifTieredHistory: client histories in which the flusher runs to
// completion at arbitrary points between client operations (flush as one step),
// with memory pressure evicting whatever memory lets go.
func VerifTieredHistory() {
	nkeys := verif.Bound("keys", 1, 2)
	h := vtNewDriven(2)
	steps := verif.Bound("steps", 4, 4)
	for i := 0; i < steps; i++ {
		k := 0
		op := verif.Choice("op", 7)
		if nkeys > 1 && op < 5 {
			k = verif.Choice("key", nkeys)
		}
		switch op {
		case 0:
			h.create(k, verif.Bytes("data", 2))
		case 1:
			h.markComplete(k)
		case 2:
			h.setMd(k, verif.Choice("mdval", 2) == 1)
		case 3:
			h.delMd(k)
		case 4:
			h.delete(k)
		case 5:
			h.drain()
		case 6:
			h.pressure(2)
		}
		h.checkAll(nkeys)
	}
	h.drain()
	h.pressure(2)
	h.checkAll(nkeys)
}

// VerifFindingTieredMetadataUpdateAtFlushEnd (FINDINGS.md F1): a metadata flush of a blob races with the
// next metadata update of the same blob; afterwards memory comes under
// pressure and the remaining flush work runs. The last successful update must
// be what GetMetadata returns.
func VerifFindingTieredMetadataUpdateAtFlushEnd() {
	verif.Option("max_preempt", verif.Bound("preemptions", 2, 3))
	h := vtNewDriven(2)
	h.create(0, verif.Bytes("data", 2))
	h.markComplete(0)
	if verif.Choice("data-flushed-before", 2) == 1 {
		h.drain()
	}
	h.setMd(0, true)
	var wg sync.WaitGroup
	wg.Add(1)
	go func() {
		defer wg.Done()
		h.flushOne()
	}()
	if verif.Choice("second-update-is-delete", 2) == 1 {
		h.delMd(0)
	} else {
		h.setMd(0, false)
	}
	wg.Wait()
	h.checkKey(0)
	h.pressure(2)
	h.checkKey(0)
	h.drain()
	h.checkKey(0)
	h.pressure(2)
	h.checkKey(0)
}

// vtDeleteRecreateVsFlush: the data flush of a blob races with the
// client deleting the key, optionally re-creating it with other bytes and
// completing it again. Afterwards the key holds exactly what the client last
// completed (or nothing), also once memory is under pressure; a final delete
// leaves nothing behind and the key can be created again.
func vtDeleteRecreateVsFlush(recreate bool) {
	verif.Option("max_preempt", verif.Bound("preemptions", 2, 3))
	h := vtNewDriven(2)
	h.create(0, verif.Bytes("data", 2))
	h.markComplete(0)
	var wg sync.WaitGroup
	wg.Add(1)
	go func() {
		defer wg.Done()
		h.flushOne()
	}()
	h.delete(0)
	if recreate {
		h.create(0, verif.Bytes("data2", 2))
		h.markComplete(0)
	}
	wg.Wait()
	h.checkKey(0)
	h.drain()
	h.checkKey(0)
	h.pressure(2)
	h.checkKey(0)
	if recreate {
		h.delete(0)
		h.drain()
		h.checkKey(0)
	}
	onDisk, _ := h.d.Has(vtKeys[0])
	verif.Assert("deleted-key-gone-from-disk-tier", !onDisk)
	h.create(0, verif.Bytes("data3", 1))
	h.markComplete(0)
	h.drain()
	h.pressure(2)
	h.checkKey(0)
}

// VerifTieredDeleteVsFlush: deletion racing with the data flush; the key is
// gone from both tiers afterwards and can be created, completed, flushed and
// read again.
func VerifTieredDeleteVsFlush() { vtDeleteRecreateVsFlush(false) }

// VerifFindingTieredRecreateDuringFlush (FINDINGS.md F2): deletion and
// re-creation of the key while the flush of the old blob is between memOpen and
// its "was I aborted" check.
func VerifFindingTieredRecreateDuringFlush() { vtDeleteRecreateVsFlush(true) }

// VerifTieredReadAcrossFlushAndEviction: a handle opened while the blob is only
// in memory keeps yielding exactly the blob's bytes while the flush runs
// concurrently and after memory pressure has evicted the blob from memory
// (switch-over to the disk copy at the same offset).
func VerifTieredReadAcrossFlushAndEviction() {
	verif.Option("max_preempt", verif.Bound("preemptions", 2, 3))
	h := vtNewDriven(2)
	d := verif.Bytes("data", 2)
	h.create(0, d)
	h.markComplete(0)
	f, err := h.s.Open(vtKeys[0])
	verif.Assert("open-ok", err == nil)
	var wg sync.WaitGroup
	wg.Add(1)
	go func() {
		defer wg.Done()
		h.flushOne()
	}()
	p := []byte{0}
	n, err := f.Read(p)
	verif.Assert("first-byte-during-flush", err == nil && n == 1 && p[0] == d[0])
	wg.Wait()
	evict := verif.Choice("memory-pressure", 2) == 1
	if evict {
		h.pressure(2)
	}
	n, err = f.Read(p)
	verif.Assert("second-byte-after-flush-and-eviction", err == nil && n == 1 && p[0] == d[1])
	verif.Assert("size-through-handle", f.Size() == 2)
	n, _ = f.Read(p)
	verif.Assert("then-end-of-file", n == 0)
	h.checkKey(0)
}

// VerifFindingTieredRecreateDuringFlushSeam (FINDINGS.md F2): the same window
// as VerifFindingTieredRecreateDuringFlush, forced deterministically through
// the package's own memOpen seam (single goroutine, so the native replay takes
// exactly this order): the client deletes, re-creates and completes the key
// right after the flusher has opened the old blob in memory.
func VerifFindingTieredRecreateDuringFlushSeam() {
	h := vtNewDriven(2)
	h.create(0, verif.Bytes("data", 2))
	h.markComplete(0)
	orig := memOpen
	defer func() { memOpen = orig }()
	fired := false
	memOpen = func(mem *memory.Store, key string) (*memory.File, error) {
		f, err := orig(mem, key)
		if !fired {
			fired = true
			h.delete(0)
			h.create(0, verif.Bytes("data2", 2))
			h.markComplete(0)
		}
		return f, err
	}
	h.flushOne()
	verif.Assert("seam-fired", fired)
	h.checkKey(0)
	h.drain()
	h.checkKey(0)
	h.pressure(2)
	h.checkKey(0)
}
