//kse:pkg lib/store/tiered
package tiered

import (
	"errors"
	"io"
	"os"
	"path/filepath"
	"sync"

	"github.com/uber-go/tally"
	"github.com/uber/kraken/lib/store/disk"
	"github.com/uber/kraken/lib/store/memory"
	"github.com/uber/kraken/lib/store/metadata"
	verif "github.com/uber/kraken/zzverif"
)

var vtKeys = []string{"aa11", "bb22"}

const vtPressureKey = "cc33"

// Shadow history: what the client has been told.
type vtBlob struct {
	present  bool
	complete bool
	data     []byte
	mdSet    bool
	mdVal    bool
}

type vtH struct {
	s *Store
	d *disk.Store
	f *flusher
	m [2]vtBlob
}

// vtNew builds a tiered store on real memory and disk stores. With
// realWorker=false the background worker is stopped before it does anything
// and the harness runs the worker's body (nextToFlush + flush, the real code)
// itself, synchronously or in its own goroutines.
func vtNew(memCap uint64, realWorker bool) *vtH {
	s, d, err := NewStore(&Config{
		DiskConfig:      &disk.Config{CapacityBytes: 100, RootDir: filepath.Join(verif.TempDir(), "tiered")},
		MemConfig:       &memory.Config{CapacityBytes: memCap, GOMEMLIMITBytes: 1 << 30},
		NumFlushWorkers: 1,
	}, tally.NoopScope)
	verif.Assert("new-store-ok", err == nil)
	h := &vtH{s: s, d: d, f: s.impl.flusher}
	if !realWorker {
		close(h.f.stop)
	}
	return h
}

// flushOne is one iteration of worker(): take the next dirty blob and flush it.
func (h *vtH) flushOne() bool {
	b, ok := h.f.nextToFlush()
	if !ok {
		return false
	}
	h.f.flush(b)
	return true
}

// drain runs the worker body until the queue is empty.
func (h *vtH) drain() {
	for h.flushOne() {
	}
}

func (h *vtH) create(k int, data []byte) {
	f, err := h.s.Create(vtKeys[k], uint64(len(data)))
	if h.m[k].present {
		verif.Assert("create-existing-rejected", errors.Is(err, os.ErrExist))
		return
	}
	verif.Assert("create-ok", err == nil)
	if err != nil {
		return
	}
	n, err := f.Write(data)
	verif.Assert("write-ok", err == nil && n == len(data))
	f.Close()
	h.m[k] = vtBlob{present: true, data: data}
}

func (h *vtH) markComplete(k int) {
	err := h.s.MarkComplete(vtKeys[k])
	if !h.m[k].present {
		verif.Assert("complete-absent-rejected", errors.Is(err, os.ErrNotExist))
		return
	}
	verif.Assert("complete-ok", err == nil)
	h.m[k].complete = true
}

func (h *vtH) setMd(k int, v bool) {
	err := h.s.SetMetadata(vtKeys[k], metadata.NewPersist(v))
	if !h.m[k].present {
		verif.Assert("setmd-absent-rejected", errors.Is(err, os.ErrNotExist))
		return
	}
	verif.Assert("setmd-ok", err == nil)
	h.m[k].mdSet, h.m[k].mdVal = true, v
}

func (h *vtH) delMd(k int) {
	err := h.s.DeleteMetadata(vtKeys[k], metadata.NewPersist(false).GetSuffix())
	if !h.m[k].present {
		verif.Assert("delmd-absent-rejected", errors.Is(err, os.ErrNotExist))
		return
	}
	verif.Assert("delmd-ok", err == nil)
	h.m[k].mdSet = false
}

func (h *vtH) delete(k int) {
	err := h.s.Delete(vtKeys[k])
	if !h.m[k].present {
		verif.Assert("delete-absent-rejected", errors.Is(err, os.ErrNotExist))
		return
	}
	verif.Assert("delete-ok", err == nil)
	h.m[k] = vtBlob{}
}

// pressure creates and deletes another blob that fills the memory tier, which
// evicts every evictable blob from memory.
func (h *vtH) pressure(size uint64) {
	f, err := h.s.Create(vtPressureKey, size)
	verif.Assert("pressure-create-ok", err == nil)
	if err != nil {
		return
	}
	f.Close()
	verif.Assert("pressure-delete-ok", h.s.Delete(vtPressureKey) == nil)
}

// checkKey states the property for key k at this moment.
func (h *vtH) checkKey(k int) {
	key := vtKeys[k]
	mb := &h.m[k]
	in, _ := h.s.Has(key)
	verif.Assert("has-iff-present", in == mb.present)
	if !mb.present {
		_, err := h.s.Open(key)
		verif.Assert("deleted-key-does-not-open", errors.Is(err, os.ErrNotExist))
		return
	}
	if !mb.complete {
		return
	}
	_, inComplete := h.s.ScopeComplete().Has(key)
	verif.Assert("completed-blob-visible-as-complete", inComplete)
	f, err := h.s.Open(key)
	verif.Assert("completed-blob-opens", err == nil)
	if err == nil {
		got, err := io.ReadAll(f)
		f.Close()
		verif.Assert("completed-blob-reads", err == nil)
		verif.Assert("completed-blob-length", len(got) == len(mb.data))
		if len(got) == len(mb.data) {
			for i := range got {
				verif.Assert("completed-blob-bytes", got[i] == mb.data[i])
			}
		}
	}
	var md metadata.Persist
	ok, err := h.s.GetMetadata(key, &md)
	verif.Assert("metadata-read-ok", err == nil)
	verif.Assert("metadata-presence-reflects-last-update", ok == mb.mdSet)
	if ok && mb.mdSet {
		verif.Assert("metadata-value-reflects-last-update", md.Value == mb.mdVal)
	}
}

func (h *vtH) checkAll(nkeys int) {
	for k := 0; k < nkeys; k++ {
		h.checkKey(k)
	}
	list := h.s.List()
	for k := 0; k < nkeys; k++ {
		n := 0
		for _, x := range list {
			if x == vtKeys[k] {
				n++
			}
		}
		want := 0
		if h.m[k].present {
			want = 1
		}
		verif.Assert("listed-iff-present", n == want)
	}
}

// VerifTieredHistory: client histories in which the flusher runs to
// completion at arbitrary points between client operations (flush as one step),
// with memory pressure evicting whatever memory lets go.
func VerifTieredHistory() {
	nkeys := verif.Bound("keys", 1, 2)
	h := vtNew(2, false)
	steps := verif.Bound("steps", 4, 4)
	for i := 0; i < steps; i++ {
		k := 0
		op := verif.Choice("op", 7)
		if nkeys > 1 && op < 5 {
			k = verif.Choice("key", nkeys)
		}
		switch op {
		case 0:
			h.create(k, verif.Bytes("data", 2))
		case 1:
			h.markComplete(k)
		case 2:
			h.setMd(k, verif.Choice("mdval", 2) == 1)
		case 3:
			h.delMd(k)
		case 4:
			h.delete(k)
		case 5:
			h.drain()
		case 6:
			h.pressure(2)
		}
		h.checkAll(nkeys)
	}
	h.drain()
	h.pressure(2)
	h.checkAll(nkeys)
}

// VerifTieredMetadataVsFlushEnd: a metadata flush of a blob races with the
// next metadata update of the same blob; afterwards memory comes under
// pressure and the remaining flush work runs. The last successful update must
// be what GetMetadata returns.
func VerifTieredMetadataVsFlushEnd() {
	verif.Option("max_preempt", verif.Bound("preemptions", 2, 3))
	h := vtNew(2, false)
	h.create(0, verif.Bytes("data", 2))
	h.markComplete(0)
	if verif.Choice("data-flushed-before", 2) == 1 {
		h.drain()
	}
	h.setMd(0, true)
	var wg sync.WaitGroup
	wg.Add(1)
	go func() {
		defer wg.Done()
		h.flushOne()
	}()
	if verif.Choice("second-update-is-delete", 2) == 1 {
		h.delMd(0)
	} else {
		h.setMd(0, false)
	}
	wg.Wait()
	h.checkKey(0)
	h.pressure(2)
	h.checkKey(0)
	h.drain()
	h.checkKey(0)
	h.pressure(2)
	h.checkKey(0)
}

// VerifTieredDeleteRecreateVsFlush: the data flush of a blob races with the
// client deleting the key, optionally re-creating it with other bytes and
// completing it again. Afterwards the key holds exactly what the client last
// completed (or nothing), also once memory is under pressure; a final delete
// leaves nothing behind and the key can be created again.
func VerifTieredDeleteRecreateVsFlush() {
	verif.Option("max_preempt", verif.Bound("preemptions", 2, 3))
	h := vtNew(2, false)
	h.create(0, verif.Bytes("data", 2))
	h.markComplete(0)
	recreate := verif.Choice("recreate", 2) == 1
	var wg sync.WaitGroup
	wg.Add(1)
	go func() {
		defer wg.Done()
		h.flushOne()
	}()
	h.delete(0)
	if recreate {
		h.create(0, verif.Bytes("data2", 2))
		h.markComplete(0)
	}
	wg.Wait()
	h.checkKey(0)
	h.drain()
	h.checkKey(0)
	h.pressure(2)
	h.checkKey(0)
	if recreate {
		h.delete(0)
		h.drain()
		h.checkKey(0)
	}
	onDisk, _ := h.d.Has(vtKeys[0])
	verif.Assert("deleted-key-gone-from-disk-tier", !onDisk)
	h.create(0, verif.Bytes("data3", 1))
	h.markComplete(0)
	h.drain()
	h.pressure(2)
	h.checkKey(0)
}

// VerifTieredRealWorker: the real background worker goroutine flushes while
// the client completes a blob, updates its metadata and reads both back.
func VerifTieredRealWorker() {
	verif.Option("max_preempt", verif.Bound("preemptions", 1, 2))
	h := vtNew(2, true)
	h.create(0, verif.Bytes("data", 2))
	h.markComplete(0)
	h.checkKey(0)
	h.setMd(0, true)
	h.checkKey(0)
}
