//kse:pkg lib/store/tiered
package tiered

import (
	"errors"
	"io"
	"os"
	"path/filepath"

	"github.com/uber-go/tally"
	"github.com/uber/kraken/lib/store/disk"
	"github.com/uber/kraken/lib/store/memory"
	"github.com/uber/kraken/lib/store/metadata"
	verif "github.com/uber/kraken/zzverif"
)

var vtKeys = []string{"aa11", "bb22"}

const vtPressureKey = "cc33"

// Shadow history: what the client has been told.
type vtBlob struct {
	present  bool
	complete bool
	data     []byte
	mdSet    bool
	mdVal    bool
}

type vtH struct {
	s *Store
	d *disk.Store
	m [2]vtBlob
}

// vtNew builds a tiered store on real memory and disk stores with one real
// background flush worker.
func vtNew(memCap uint64) *vtH {
	s, d, err := NewStore(&Config{
		DiskConfig:      &disk.Config{CapacityBytes: 100, RootDir: filepath.Join(verif.TempDir(), "tiered")},
		MemConfig:       &memory.Config{CapacityBytes: memCap, GOMEMLIMITBytes: 1 << 30},
		NumFlushWorkers: 1,
	}, tally.NoopScope)
	verif.Assert("new-store-ok", err == nil)
	return &vtH{s: s, d: d}
}

func (h *vtH) create(k int, data []byte) {
	f, err := h.s.Create(vtKeys[k], uint64(len(data)))
	if h.m[k].present {
		verif.Assert("create-existing-rejected", errors.Is(err, os.ErrExist))
		return
	}
	verif.Assert("create-ok", err == nil)
	if err != nil {
		return
	}
	n, err := f.Write(data)
	verif.Assert("write-ok", err == nil && n == len(data))
	f.Close()
	h.m[k] = vtBlob{present: true, data: data}
}

func (h *vtH) markComplete(k int) {
	err := h.s.MarkComplete(vtKeys[k])
	if !h.m[k].present {
		verif.Assert("complete-absent-rejected", errors.Is(err, os.ErrNotExist))
		return
	}
	verif.Assert("complete-ok", err == nil)
	h.m[k].complete = true
}

func (h *vtH) setMd(k int, v bool) {
	err := h.s.SetMetadata(vtKeys[k], metadata.NewPersist(v))
	if !h.m[k].present {
		verif.Assert("setmd-absent-rejected", errors.Is(err, os.ErrNotExist))
		return
	}
	verif.Assert("setmd-ok", err == nil)
	h.m[k].mdSet, h.m[k].mdVal = true, v
}

func (h *vtH) delMd(k int) {
	err := h.s.DeleteMetadata(vtKeys[k], metadata.NewPersist(false).GetSuffix())
	if !h.m[k].present {
		verif.Assert("delmd-absent-rejected", errors.Is(err, os.ErrNotExist))
		return
	}
	verif.Assert("delmd-ok", err == nil)
	h.m[k].mdSet = false
}

func (h *vtH) delete(k int) {
	err := h.s.Delete(vtKeys[k])
	if !h.m[k].present {
		verif.Assert("delete-absent-rejected", errors.Is(err, os.ErrNotExist))
		return
	}
	verif.Assert("delete-ok", err == nil)
	h.m[k] = vtBlob{}
}

// pressure creates and deletes another blob that fills the memory tier, which
// evicts every evictable blob from memory.
func (h *vtH) pressure(size uint64) {
	f, err := h.s.Create(vtPressureKey, size)
	verif.Assert("pressure-create-ok", err == nil)
	if err != nil {
		return
	}
	f.Close()
	verif.Assert("pressure-delete-ok", h.s.Delete(vtPressureKey) == nil)
}

// checkKey states the property for key k at this moment.
func (h *vtH) checkKey(k int) {
	key := vtKeys[k]
	mb := &h.m[k]
	in, _ := h.s.Has(key)
	verif.Assert("has-iff-present", in == mb.present)
	if !mb.present {
		_, err := h.s.Open(key)
		verif.Assert("deleted-key-does-not-open", errors.Is(err, os.ErrNotExist))
		return
	}
	if !mb.complete {
		return
	}
	_, inComplete := h.s.ScopeComplete().Has(key)
	verif.Assert("completed-blob-visible-as-complete", inComplete)
	f, err := h.s.Open(key)
	verif.Assert("completed-blob-opens", err == nil)
	if err == nil {
		got, err := io.ReadAll(f)
		f.Close()
		verif.Assert("completed-blob-reads", err == nil)
		verif.Assert("completed-blob-length", len(got) == len(mb.data))
		if len(got) == len(mb.data) {
			for i := range got {
				verif.Assert("completed-blob-bytes", got[i] == mb.data[i])
			}
		}
	}
	var md metadata.Persist
	ok, err := h.s.GetMetadata(key, &md)
	verif.Assert("metadata-read-ok", err == nil)
	verif.Assert("metadata-presence-reflects-last-update", ok == mb.mdSet)
	if ok && mb.mdSet {
		verif.Assert("metadata-value-reflects-last-update", md.Value == mb.mdVal)
	}
}

func (h *vtH) checkAll(nkeys int) {
	for k := 0; k < nkeys; k++ {
		h.checkKey(k)
	}
	list := h.s.List()
	for k := 0; k < nkeys; k++ {
		n := 0
		for _, x := range list {
			if x == vtKeys[k] {
				n++
			}
		}
		want := 0
		if h.m[k].present {
			want = 1
		}
		verif.Assert("listed-iff-present", n == want)
	}
}

// VerifTieredRealWorker: the real background worker goroutine flushes while
// the client completes a blob, updates its metadata and reads both back.
func VerifTieredRealWorker() {
	verif.Option("max_preempt", verif.Bound("preemptions", 1, 2))
	h := vtNew(2)
	h.create(0, verif.Bytes("data", 2))
	h.markComplete(0)
	h.checkKey(0)
	h.setMd(0, true)
	h.checkKey(0)
}
