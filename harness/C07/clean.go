//kse:pkg lib/store/disk
package disk

import (
	storelib "github.com/uber/kraken/lib/store"
	verif "github.com/uber/kraken/zzverif"
)

// vmPhaseLegal decides whether deleting exactly the keys in del (a subset of
// cand) is a possible outcome of "delete candidates in some order while
// reserved > target", starting from reserved r. Sizes are non-negative, so it
// suffices that the last deletion was still needed and, if a candidate was
// spared, that the target was reached.
func (h *vmH) vmPhaseLegal(cand, del []int, r, target uint64) (legal bool, after uint64) {
	m := h.m
	if len(del) == 0 {
		return verif.Or(r <= target, len(cand) == 0), r
	}
	var sum uint64
	for _, k := range del {
		sum += m.blobs[k].size
	}
	lastNeeded := false
	for _, x := range del {
		lastNeeded = verif.Or(lastNeeded, r-(sum-m.blobs[x].size) > target)
	}
	after = r - sum
	if len(del) == len(cand) {
		return lastNeeded, after
	}
	return verif.And(lastNeeded, after <= target), after
}

// doClean runs Clean on the store and checks it against the documented order:
// complete unbanned blobs in LRU order, then incomplete unbanned blobs in any
// order, then (unless respectBan) banned blobs in any order, each only while
// the utilisation is above the target.
func (h *vmH) doClean(target int, respectBan bool) {
	m := h.m
	verif.Option("map_order_symbolic", 1)
	newUtil, err := h.s.Clean(target, respectBan)
	verif.Option("map_order_symbolic", 0)
	if target < 0 || target >= 100 {
		verif.Assert("clean-rejects-bad-target", err != nil)
		verif.Assert("clean-util", newUtil == int(m.reserved*100/m.capacity))
		h.check()
		return
	}
	verif.Assert("clean-ok", err == nil)
	targetSize := m.capacity * uint64(target) / 100
	if !m.makeRoom(m.capacity - targetSize) {
		// the LRU queue is exhausted: observe which other blobs were deleted
		var cand2, del2, cand3, del3 []int
		for k := 0; k < h.nkeys; k++ {
			if !m.blobs[k].present {
				continue
			}
			still, _ := h.s.Has(vmKeys[k])
			if m.blobs[k].banned {
				cand3 = append(cand3, k)
				if !still {
					del3 = append(del3, k)
				}
			} else {
				verif.Assert("only-incomplete-left-after-lru-phase", !m.blobs[k].complete)
				cand2 = append(cand2, k)
				if !still {
					del2 = append(del2, k)
				}
			}
		}
		ok2, r2 := h.vmPhaseLegal(cand2, del2, m.reserved, targetSize)
		verif.Assert("clean-unbanned-phase-legal", ok2)
		if respectBan {
			verif.Assert("clean-respects-eviction-ban", len(del3) == 0)
		} else {
			ok3, _ := h.vmPhaseLegal(cand3, del3, r2, targetSize)
			verif.Assert("clean-banned-phase-legal", ok3)
			if len(del2) != len(cand2) {
				verif.Assert("clean-banned-only-after-all-unbanned", len(del3) == 0)
			}
		}
		verif.Cover("clean-deleted-incomplete", len(del2) > 0)
		verif.Cover("clean-deleted-banned", len(del3) > 0)
		for _, k := range append(del2, del3...) {
			m.drop(k)
		}
	}
	// newUtil is stated on the store's own size term and the size is compared
	// with the model in check() (same statement, split so that the solver does
	// not have to commute subtractions under a division)
	size := m.reserved
	if vmStoreSize != nil {
		size = vmStoreSize(h)
	}
	verif.Assert("clean-util", newUtil == int(size*100/m.capacity))
	h.check()
}

// VerifDiskClean: Clean with every target class and both ban settings from
// every canonical state.
func VerifDiskClean() {
	caps := []uint64{100, 7, 1 << 40}
	capacity := caps[verif.Choice("capacity", verif.Bound("capacities", 1, 3))]
	verif.Note("Clean: capacity is one of 100, 7, 2^40 (concrete: capacity*percent/100 with a symbolic capacity is a 64-bit division circuit in every later query); sizes stay symbolic")
	nkeys := verif.Bound("keys", 2, 3)
	h := vmNew(capacity, nkeys, 0)
	h.sizeFn = vmSize
	vmBuildState(h, nkeys)
	targets := []int{0, 50, 99, 100, -1}
	target := targets[verif.Choice("target", len(targets))]
	h.doClean(target, verif.Choice("respect_ban", 2) == 1)
	verif.Cover("clean-evicted-lru", h.m.evicted > 0)
	_ = storelib.BlobScopeAny
}
