//kse:pkg lib/store/disk
package disk

import (
	"regexp"
	"unicode"

	verif "github.com/uber/kraken/zzverif"
)

func VerifProbeUnicode() {
	verif.Choice("a", 8)
	verif.Choice("b", 8)
	verif.Choice("c", 4)
	verif.Assert("x", unicode.Is(unicode.Lu, 'A'))
}

func VerifProbeRegexp() {
	verif.Choice("a", 8)
	verif.Choice("b", 8)
	verif.Choice("c", 4)
	re := regexp.MustCompile("_abc$")
	verif.Assert("x", re.MatchString("x_abc"))
}
