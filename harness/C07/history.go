//kse:pkg lib/store/disk
package disk

import (
	storelib "github.com/uber/kraken/lib/store"
	verif "github.com/uber/kraken/zzverif"
)

// vmSize: Create sizes are full-range symbolic uint64 values.
func vmSize() uint64 { return verif.Uint64("size") }

// vmBuildState brings the store, through its own API, into one of the
// canonical states over the first nkeys keys: every key absent, incomplete,
// incomplete and banned, complete, or complete and banned; sizes symbolic (their
// sum within capacity, so that building the state evicts nothing); every LRU
// order of the complete unbanned keys. Every reachable abstract state of the
// model over nkeys keys (without metadata) is produced by some choice.
func vmBuildState(h *vmH, nkeys int) {
	st := make([]int, nkeys)
	var unbannedComplete []int
	for k := 0; k < nkeys; k++ {
		st[k] = verif.Choice("state", 5) // 0 absent, 1 incomplete, 2 incomplete+banned, 3 complete, 4 complete+banned
		if st[k] == 0 {
			continue
		}
		h.do(voCreate, k, storelib.BlobScopeAny)
		verif.Assume(h.m.blobs[k].present)
		if st[k] == 2 || st[k] == 4 {
			h.do(voBan, k, storelib.BlobScopeAny)
		}
		if st[k] == 4 {
			h.do(voMarkComplete, k, storelib.BlobScopeAny)
		}
		if st[k] == 3 {
			unbannedComplete = append(unbannedComplete, k)
		}
	}
	for len(unbannedComplete) > 0 {
		i := 0
		if len(unbannedComplete) > 1 {
			i = verif.Choice("lru-next", len(unbannedComplete))
		}
		h.do(voMarkComplete, unbannedComplete[i], storelib.BlobScopeAny)
		unbannedComplete = append(append([]int{}, unbannedComplete[:i]...), unbannedComplete[i+1:]...)
	}
	verif.Assume(h.m.evicted == 0)
	h.m.evicted = 0
	h.check()
}

var vmStructOps = []int{voCreate, voMarkComplete, voOpen, voStat, voHas, voDelete, voBan, voUnban}

// VerifDiskStepFromState: from every canonical state, one operation (two in
// the thorough tier) on key 0 under every scope; result class, reserved size
// (= sum of live sizes, within capacity), LRU order, listings per scope and
// per-blob flags equal the model's afterwards. Creation on an absent key with a
// symbolic size evicts exactly the model's victims in LRU order.
func VerifDiskStepFromState() {
	capacity := uint64(1000)
	if verif.Bound("symbolic-capacity", 0, 1) == 1 {
		capacity = verif.Uint64("capacity")
	}
	verif.Assume(capacity <= 1<<62)
	verif.Note("VerifDiskStepFromState: quick tier uses capacity 1000 with symbolic sizes (thorough: symbolic capacity) — solver cost; symbolic full-range capacity is in the quick tier through VerifDiskLRUHistory and VerifFindingCreateSizeWrap")
	verif.Note("VerifDiskStepFromState: capacity and sizes <= 2^62 — solver cost only (with full-range values the no-overflow side conditions of up to four summed sizes take the solver 40x longer and time out under load); full-range capacity and sizes are exercised by VerifDiskLRUHistory and VerifFindingCreateSizeWrap")
	nkeys := verif.Bound("keys", 2, 3)
	h := vmNew(capacity, nkeys, 0)
	h.sizeFn = func() uint64 {
		s := verif.Uint64("size")
		verif.Assume(s <= 1<<62)
		return s
	}
	vmBuildState(h, nkeys)
	steps := verif.Bound("steps", 1, 1)
	for i := 0; i < steps; i++ {
		h.nkeys = 1 // operation on key 0 (states are closed under renaming keys)
		op := vmStructOps[verif.Choice("op", len(vmStructOps))]
		scope := storelib.BlobScopeAny
		if op != voCreate && op != voMarkComplete {
			scope = vmScopeOf(verif.Choice("scope", 3))
		}
		h.nkeys = nkeys
		h.do(op, 0, scope)
		h.check()
	}
	verif.Cover("model-evicted-something", h.m.evicted > 0)
	verif.Cover("out-of-scope-seen", h.sawOutOfScope)
}

// VerifDiskEvictionOrder: two complete blobs and one touch/ban/unban (more in
// the thorough tier), then a Create of a third key with symbolic size: the
// store evicts exactly the blobs the model evicts, least recently used first,
// never a banned one.
func VerifDiskEvictionOrder() {
	capacity := uint64(1000)
	verif.Note("VerifDiskEvictionOrder: capacity is the constant 1000, the three sizes are symbolic (three symbolic sizes under a symbolic capacity make the sum comparisons too hard for the solver once the store writes them differently from the model); VerifDiskStepFromState covers symbolic capacities")
	h := vmNew(capacity, 3, verif.Choice("shard", 2))
	h.sizeFn = func() uint64 {
		s := verif.Uint64("size")
		verif.Assume(s <= 1000)
		return s
	}
	h.do(voCreate, 0, storelib.BlobScopeAny)
	h.do(voMarkComplete, 0, storelib.BlobScopeAny)
	h.do(voCreate, 1, storelib.BlobScopeAny)
	h.do(voMarkComplete, 1, storelib.BlobScopeAny)
	verif.Assume(len(h.m.lru) == 2)
	h.m.evicted = 0
	steps := verif.Bound("steps", 1, 3)
	ops := []int{voOpen, voBan, voUnban}
	h.nkeys = 2
	for i := 0; i < steps; i++ {
		h.step(ops, 1)
	}
	h.nkeys = 3
	h.do(voCreate, 2, storelib.BlobScopeAny)
	h.check()
	verif.Cover("evicted-one", h.m.evicted == 1)
	verif.Cover("evicted-two", h.m.evicted == 2)
	verif.Cover("no-space", !h.m.blobs[2].present)
}

// VerifDiskLRUHistory: short free histories (longer in the thorough tier) of
// Create/Open/MarkComplete/Delete/Ban/Unban over two keys from the empty store.
func VerifDiskLRUHistory() {
	capacity := verif.Uint64("capacity")
	h := vmNew(capacity, 2, 0)
	h.sizeFn = vmSize
	steps := verif.Bound("steps", 2, 4)
	ops := []int{voCreate, voOpen, voMarkComplete, voDelete, voBan, voUnban}
	for i := 0; i < steps; i++ {
		h.step(ops, 1)
	}
}

var vmMdOps = []int{voSetMd, voGetMd, voDelMd, voListMd, voMarkComplete, voDelete}

// VerifDiskMetadataStep: one key in every state with every combination of the
// movable and the non-movable metadata kind set, then metadata operations
// under every scope and completion: reads return the last value set, deletion
// removes, non-movable metadata disappears on completion, movable survives.
func VerifDiskMetadataStep() {
	h := vmNew(100, 1, verif.Choice("shard", 2))
	h.sizeFn = func() uint64 { return 10 }
	vmBuildState(h, 1)
	verif.Assume(h.m.blobs[0].present)
	mdState := verif.Choice("mdstate", 4)
	for kind := 0; kind < 2; kind++ {
		if mdState&(1<<kind) != 0 {
			val := verif.Byte("premd")
			err := h.s.SetMetadata(vmKeys[0], vmNewMd(kind, val))
			verif.Assert("pre-setmd-ok", err == nil)
			h.m.blobs[0].md[kind] = vmMdVal{true, val}
		}
	}
	steps := verif.Bound("steps", 1, 2)
	for i := 0; i < steps; i++ {
		h.step(vmMdOps, 3)
		h.checkAllMd()
	}
	verif.Cover("immovable-dropped-by-completion", h.m.droppedImmovable)
	verif.Cover("movable-survives-completion", h.m.blobs[0].complete && h.m.blobs[0].md[0].set)
}

// VerifFindingCreateSizeWrap: two Creates with full-range symbolic sizes under
// a full-range symbolic capacity. See FINDINGS.md F1 (fixed in /repo by
// eb9c4c0; kept as a regression check): the admission test
// s.size+space <= s.capacity used to wrap around, so that a huge size was
// admitted and the reserved size ended up below the sum of live sizes.
func VerifFindingCreateSizeWrap() {
	capacity := verif.Uint64("capacity")
	h := vmNew(capacity, 2, 0)
	h.sizeFn = func() uint64 { return verif.Uint64("size") }
	h.do(voCreate, 0, storelib.BlobScopeAny)
	h.check()
	h.do(voCreate, 1, storelib.BlobScopeAny)
	h.check()
}
