//kse:pkg lib/store/disk
package disk

import (
	storelib "github.com/uber/kraken/lib/store"
	verif "github.com/uber/kraken/zzverif"
)

// vmNoWrapCapacity restricts the capacity so that reserved+size cannot wrap for
// sizes up to vmMaxSize. The unrestricted range is the subject of
// VerifFindingCreateSizeWrap (see FINDINGS.md).
func vmAssumeNoWrap(capacity uint64) {
	verif.Assume(capacity <= 1<<62)
	verif.Note("capacity <= 2^62 and every Create size <= 2^62 (reserved+size cannot wrap); the full range is checked by VerifFindingCreateSizeWrap")
}

func vmSize() uint64 {
	s := verif.Uint64("size")
	verif.Assume(s <= 1<<62)
	return s
}

// VerifDiskLRUHistory: histories of Create/Open/MarkComplete/Delete/Ban/Unban
// over two or three keys with symbolic sizes and capacity; after every step
// result class, reserved size, LRU order, listings and per-blob flags equal the
// model's.
func VerifDiskLRUHistory() {
	capacity := verif.Uint64("capacity")
	vmAssumeNoWrap(capacity)
	h := vmNew(capacity, verif.Bound("keys", 2, 3), 0)
	h.sizeFn = vmSize
	steps := verif.Bound("steps", 4, 5)
	ops := []int{voCreate, voOpen, voMarkComplete, voDelete, voBan, voUnban}
	for i := 0; i < steps; i++ {
		h.step(ops, 1)
	}
	verif.Cover("model-evicted-something", h.m.evicted > 0)
	verif.Cover("two-queued", len(h.m.lru) >= 2)
}

// VerifDiskEvictionOrder: three complete blobs, a symbolic sequence of
// touches (Open), bans and unbans, then a Create that forces eviction: the
// store evicts exactly the blobs the model evicts, in model order, never a
// banned or incomplete one.
func VerifDiskEvictionOrder() {
	capacity := verif.Uint64("capacity")
	vmAssumeNoWrap(capacity)
	h := vmNew(capacity, 3, verif.Choice("shard", 2))
	h.sizeFn = vmSize
	// keys 0,1 complete; key 2 created and optionally complete
	h.do(voCreate, 0, storelib.BlobScopeAny)
	h.do(voMarkComplete, 0, storelib.BlobScopeAny)
	h.do(voCreate, 1, storelib.BlobScopeAny)
	h.do(voMarkComplete, 1, storelib.BlobScopeAny)
	h.check()
	steps := verif.Bound("steps", 2, 3)
	ops := []int{voOpen, voBan, voUnban, voMarkComplete}
	for i := 0; i < steps; i++ {
		h.step(ops, 1)
	}
	h.do(voCreate, 2, storelib.BlobScopeAny)
	h.check()
	verif.Cover("evicted-one", h.m.evicted == 1)
	verif.Cover("evicted-two", h.m.evicted == 2)
	verif.Cover("no-space-with-banned", h.m.evicted == 0 && !h.m.blobs[2].present)
}

// VerifDiskScopes: one incomplete and one complete blob; every scoped
// operation under every scope hides exactly the out-of-scope blob.
func VerifDiskScopes() {
	capacity := verif.Uint64("capacity")
	vmAssumeNoWrap(capacity)
	h := vmNew(capacity, 3, 0)
	h.sizeFn = vmSize
	h.do(voCreate, 0, storelib.BlobScopeAny)
	h.do(voCreate, 1, storelib.BlobScopeAny)
	h.do(voMarkComplete, 1, storelib.BlobScopeAny)
	verif.Assume(h.m.blobs[0].present && h.m.blobs[1].present)
	h.check()
	ops := []int{voOpen, voStat, voHas, voDelete, voBan, voUnban, voSetMd, voGetMd, voDelMd, voListMd}
	steps := verif.Bound("steps", 1, 2)
	for i := 0; i < steps; i++ {
		h.step(ops, 3)
	}
	h.checkAllMd()
}

// VerifDiskMetadata: metadata histories on one key across completion:
// reads return the last value set, deletion removes, non-movable metadata
// disappears on completion while movable metadata survives it.
func VerifDiskMetadata() {
	h := vmNew(100, 1, verif.Choice("shard", 2))
	h.sizeFn = vmSize
	h.do(voCreate, 0, storelib.BlobScopeAny)
	verif.Assume(h.m.blobs[0].present)
	ops := []int{voSetMd, voDelMd, voMarkComplete, voListMd}
	steps := verif.Bound("steps", 3, 5)
	for i := 0; i < steps; i++ {
		h.step(ops, 1)
		h.checkAllMd()
	}
	verif.Cover("immovable-dropped-by-completion", h.m.droppedImmovable)
	verif.Cover("movable-survives-completion", h.m.blobs[0].complete && h.m.blobs[0].md[0].set)
}
