//kse:pkg lib/store/disk
package disk

import (
	verif "github.com/uber/kraken/zzverif"
)

// White-box part of the C07 oracle: reads the store's private fields. Kept in
// its own file so that the API-level harnesses survive a refactoring of the
// internals (the loader drops only this file then).

func init() {
	vmInternals = vmCheckInternals
	vmStoreSize = func(h *vmH) uint64 { return h.s.impl.size }
}

func vmCheckInternals(h *vmH) {
	m := h.m
	impl := h.s.impl
	// Reserved space is the sum of live sizes and never exceeds capacity.
	verif.Assert("reserved-is-sum-of-live-sizes", impl.size == m.reserved)
	verif.Assert("reserved-within-capacity", impl.size <= impl.capacity)
	// LRU order.
	order := impl.evictionOrder()
	verif.Assert("lru-length", len(order) == len(m.lru))
	if len(order) == len(m.lru) {
		for i, k := range m.lru {
			verif.Assert("lru-order", order[i] == vmKeys[k])
		}
	}
	// Per-blob bookkeeping.
	for k := 0; k < h.nkeys; k++ {
		b, ok := impl.blobs[vmKeys[k]]
		mb := &m.blobs[k]
		verif.Assert("blob-present", ok == mb.present)
		if ok && mb.present {
			verif.Assert("blob-size", b.size == mb.size)
			verif.Assert("blob-complete", b.complete == mb.complete)
			verif.Assert("blob-banned", b.evictionBanned == mb.banned)
			verif.Assert("blob-queued-iff-complete-unbanned", (b.node != nil) == (mb.complete && !mb.banned))
		}
	}
}
