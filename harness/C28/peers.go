//kse:pkg tracker/peerstore
package peerstore

// Symbolic peers (API-only helpers shared by codec.go and store.go, which are
// white-box files: codec.go reads the fields of peerIdentity, store.go builds a
// RedisStore field by field).

import (
	"github.com/uber/kraken/core"
	verif "github.com/uber/kraken/zzverif"
)

// Address alphabets. A peer announces the IP/host string of its PeerContext;
// the statement quantifies over IPv4 literals, IPv6 literals and host names.
func verifIsHostChar(c byte) bool { // IPv4 literals and host names (RFC 952/1123 + '_')
	return verif.Or(
		verif.And(c >= '0', c <= '9'), verif.And(c >= 'a', c <= 'z'), verif.And(c >= 'A', c <= 'Z'),
		c == '.', c == '-', c == '_')
}

func verifIsIPv6Char(c byte) bool { // IPv6 literals, incl. v4-mapped and zone ids
	return verif.Or(
		verif.And(c >= '0', c <= '9'), verif.And(c >= 'a', c <= 'f'), verif.And(c >= 'A', c <= 'F'),
		c == ':', c == '.', c == '%')
}

func verifSymPeer(tag string, v6 bool) *core.PeerInfo {
	return verifSymPeerN(tag, v6, verif.Bound("symbolic_peer_id_bytes", 3, 20), 0, verif.Bound("ip_len", 4, 8))
}

func verifSymPeerN(tag string, v6 bool, idBytes, minLen, maxLen int) *core.PeerInfo {
	// Peer id: every byte is hex-encoded independently of the others; the quick
	// tier makes a spread of positions symbolic, the thorough tier all 20.
	var id core.PeerID
	for i := range id {
		id[i] = byte(0x10*i + 7)
	}
	pos := []int{19, 0, 9}[:1]
	if idBytes == 3 {
		pos = []int{0, 9, 19}
	} else if idBytes == 20 {
		pos = pos[:0]
		for i := 0; i < 20; i++ {
			pos = append(pos, i)
		}
	}
	for _, i := range pos {
		id[i] = verif.Byte(tag + "id")
	}
	n := verif.Len(tag+"iplen", minLen, maxLen)
	ip := verif.String(tag+"ip", n)
	for i := 0; i < n; i++ {
		if v6 {
			verif.Assume(verifIsIPv6Char(ip[i]))
		} else {
			verif.Assume(verifIsHostChar(ip[i]))
		}
	}
	port := verif.Int(tag + "port")
	verif.Assume(port >= 0)
	verif.Assume(port <= 65535)
	return core.NewPeerInfo(id, ip, port, verif.Bool(tag+"origin"), verif.Bool(tag+"complete"))
}
