//kse:pkg tracker/peerstore
package peerstore

import (
	verif "github.com/uber/kraken/zzverif"
)

func verifCodecRoundTrip(v6 bool) {
	verif.Option("panic_is_violation", 1) // a panic must never end a path silently
	p := verifSymPeer("p", v6)
	s := serializePeer(p)
	id, complete, err := deserializePeer(s)
	verif.Cover("empty-address", len(p.IP) == 0)
	verif.Cover("long-address", len(p.IP) >= 4)
	verif.Cover("five-digit-port", p.Port >= 10000)
	verif.Assert("decodes", err == nil)
	verif.Assert("same-peer-id", id.peerID == p.PeerID)
	verif.Assert("same-address", id.ip == p.IP)
	verif.Assert("same-port", id.port == p.Port)
	verif.Assert("same-complete-flag", complete == p.Complete)
}

// VerifPeerCodecHostOrIPv4: every peer whose address is an IPv4 literal or a
// host name survives serializePeer/deserializePeer unchanged.
func VerifPeerCodecHostOrIPv4() { verifCodecRoundTrip(false) }

// VerifFindingPeerCodecIPv6: the same for IPv6 literals (see FINDINGS.md).
func VerifFindingPeerCodecIPv6() { verifCodecRoundTrip(true) }
