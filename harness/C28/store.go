//kse:pkg tracker/peerstore
package peerstore

import (
	"errors"
	"time"

	"github.com/andres-erbsen/clock"
	"github.com/gomodule/redigo/redis"
	"github.com/uber/kraken/core"
	verif "github.com/uber/kraken/zzverif"
)

// verifRedis is the reference model of the three Redis commands the store
// issues: SADD (set semantics), EXPIREAT (recorded, nothing expires inside a
// harness) and SRANDMEMBER key n (n > 0: up to n distinct members). It sits
// behind the real redigo Pool, so UpdatePeer and GetPeers run unmodified.
type verifRedis struct {
	sets    map[string][]string
	queue   []interface{}
	rotate  int
	unknown bool
}

func (r *verifRedis) Close() error { return nil }
func (r *verifRedis) Err() error   { return nil }
func (r *verifRedis) Flush() error { return nil }

func verifArgString(a interface{}) string {
	switch v := a.(type) {
	case string:
		return v
	case []byte:
		return string(v)
	}
	return ""
}

func (r *verifRedis) exec(cmd string, args []interface{}) (interface{}, error) {
	switch cmd {
	case "": // redigo's pooled connection issues an empty command on Close
		return nil, nil
	case "SADD":
		k, v := verifArgString(args[0]), verifArgString(args[1])
		for _, x := range r.sets[k] {
			if x == v {
				return int64(0), nil
			}
		}
		r.sets[k] = append(r.sets[k], v)
		return int64(1), nil
	case "EXPIREAT":
		return int64(1), nil
	case "SRANDMEMBER":
		k := verifArgString(args[0])
		n, _ := args[1].(int)
		members := r.sets[k]
		if len(members) == 0 {
			return []interface{}{}, nil
		}
		var out []interface{}
		for i := 0; i < len(members) && i < n; i++ {
			out = append(out, []byte(members[(i+r.rotate)%len(members)]))
		}
		return out, nil
	}
	r.unknown = true
	return nil, errors.New("verif redis model: unknown command " + cmd)
}

func (r *verifRedis) Do(cmd string, args ...interface{}) (interface{}, error) {
	return r.exec(cmd, args)
}

func (r *verifRedis) Send(cmd string, args ...interface{}) error {
	reply, err := r.exec(cmd, args)
	if err != nil {
		return err
	}
	r.queue = append(r.queue, reply)
	return nil
}

func (r *verifRedis) Receive() (interface{}, error) {
	if len(r.queue) == 0 {
		return nil, errors.New("verif redis model: nothing to receive")
	}
	x := r.queue[0]
	r.queue = r.queue[1:]
	return x, nil
}

func verifStore(r *verifRedis, clk clock.Clock) *RedisStore {
	config := RedisConfig{PeerSetWindowSize: 10 * time.Second, MaxPeerSetWindows: 2}
	config.applyDefaults()
	return &RedisStore{
		config: config,
		pool:   &redis.Pool{Dial: func() (redis.Conn, error) { return r, nil }, MaxIdle: 1},
		clk:    clk,
	}
}

func verifFind(peers []*core.PeerInfo, p *core.PeerInfo) *core.PeerInfo {
	var hit *core.PeerInfo
	for _, q := range peers {
		if q.PeerID == p.PeerID && q.IP == p.IP && q.Port == p.Port {
			verif.Assert("identity-returned-once", hit == nil)
			hit = q
		}
	}
	return hit
}

// VerifStoreRoundTrip: peers announced through the real UpdatePeer are
// returned by the real GetPeers (over the model Redis) with the identity,
// address, port and completion flag they announced; a peer that announces
// again as complete is returned once, complete.
func VerifStoreRoundTrip() {
	verif.Option("panic_is_violation", 1)
	r := &verifRedis{sets: map[string][]string{}, rotate: 1}
	clk := clock.NewMock()
	clk.Set(time.Unix(1000, 0))
	s := verifStore(r, clk)
	var h core.InfoHash
	h[3] = 0xab

	// p1 is symbolic (the value space is covered by the codec harnesses; here
	// the address is short, over the IPv6 or the host-name alphabet), p2 is a
	// fixed second peer with a symbolic flag.
	p1 := verifSymPeerN("p", verif.Bool("p_ipv6_alphabet"), 1, verif.Bound("store_ip_min", 1, 0), verif.Bound("store_ip_max", 2, 3))
	p2 := core.NewPeerInfo(p1.PeerID, "10.0.0.2", 7001, false, verif.Bool("q_complete"))
	verif.Assume(verif.Or(p1.IP != p2.IP, p1.Port != p2.Port))

	verif.Assert("update-1", s.UpdatePeer(h, p1) == nil)
	if verif.Bool("advance_window") {
		clk.Add(10 * time.Second)
	}
	verif.Assert("update-2", s.UpdatePeer(h, p2) == nil)
	reannounce := verif.Bool("p1_completes_later")
	if reannounce {
		verif.Assume(!p1.Complete)
		done := *p1
		done.Complete = true
		verif.Assert("update-3", s.UpdatePeer(h, &done) == nil)
	}

	peers, err := s.GetPeers(h, 10)
	verif.Assert("model-understood-all-commands", !r.unknown)
	verif.Assert("get-ok", err == nil)
	verif.Assert("exactly-the-announced-peers", len(peers) == 2)
	g1, g2 := verifFind(peers, p1), verifFind(peers, p2)
	verif.Assert("peer-1-returned", g1 != nil)
	verif.Assert("peer-2-returned", g2 != nil)
	if g1 != nil {
		verif.Assert("peer-1-complete-flag", g1.Complete == verif.Or(p1.Complete, reannounce))
	}
	if g2 != nil {
		verif.Assert("peer-2-complete-flag", g2.Complete == p2.Complete)
	}
	verif.Cover("two-windows", len(r.sets) == 2)
	verif.Cover("re-announced", reannounce)
}
