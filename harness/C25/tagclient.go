//kse:pkg build-index/tagclient
package tagclient

import (
	"errors"

	"github.com/uber/kraken/utils/httputil"
	"github.com/uber/kraken/utils/stringset"
	verif "github.com/uber/kraken/zzverif"
)

type verifHostList struct {
	set    stringset.Set
	failed []string
}

func (h *verifHostList) Resolve() stringset.Set { return h.set }
func (h *verifHostList) Failed(a string)        { h.failed = append(h.failed, a) }

var verifAddrs = []string{"h0:1", "h1:1", "h2:1", "h3:1", "h4:1", "h5:1"}

func verifRun(once bool) {
	verif.Option("map_order_symbolic", 1)
	maxHosts := verif.Bound("hosts", 4, 5)
	k := verif.Len("nhosts", 0, maxHosts)
	hl := &verifHostList{set: stringset.New(verifAddrs[:k]...)}
	cc := &clusterClient{hosts: hl}
	var contacted []string
	var outcomes []int
	req := func(c Client) error {
		sc := c.(*singleClient)
		contacted = append(contacted, sc.addr)
		o := verif.Choice("outcome", 3)
		outcomes = append(outcomes, o)
		switch o {
		case 0:
			return nil
		case 1:
			return httputil.NetworkError{}
		}
		return errors.New("status 500")
	}
	var err error
	if once {
		err = cc.doOnce(req)
	} else {
		err = cc.do(req)
	}
	if k == 0 {
		verif.Assert("empty-cluster-error", err != nil && len(contacted) == 0)
		return
	}
	limit := 3
	if once {
		limit = 1
	}
	verif.Cover("more-hosts-than-limit", k > limit)
	verif.Assert("at-most-limit-hosts", len(contacted) <= limit)
	verif.Assert("at-least-one", len(contacted) >= 1)
	for i, a := range contacted {
		verif.Assert("from-current-list", hl.set.Has(a))
		for j := 0; j < i; j++ {
			verif.Assert("distinct", contacted[j] != a)
		}
		if i < len(contacted)-1 {
			verif.Assert("continues-only-after-network-error", outcomes[i] == 1)
		}
	}
	last := outcomes[len(outcomes)-1]
	if last != 1 {
		verif.Assert("result-is-last-outcome", (err == nil) == (last == 0))
	} else if !once {
		want := k
		if want > limit {
			want = limit
		}
		verif.Assert("all-sampled-tried-when-network-fails", len(contacted) == want)
	}
}

func VerifClusterDo()     { verifRun(false) }
func VerifClusterDoOnce() { verifRun(true) }

// VerifClusterDoHistory: two successive requests with the host list changing
// in between; the second request must only contact hosts of the *current* list
// (at most three, distinct), whatever the first request did.
func VerifClusterDoHistory() {
	verif.Option("map_order_symbolic", 1)
	n := verif.Bound("history_second_list_candidates", 3, 4)
	mk := func(tag string) stringset.Set {
		s := stringset.New()
		for i := 1; i <= n; i++ {
			if verif.Choice(tag, 2) == 1 {
				s.Add(verifAddrs[i])
			}
		}
		return s
	}
	hl := &verifHostList{set: stringset.New(verifAddrs[0], verifAddrs[1])}
	cc := &clusterClient{hosts: hl}
	var contacted []string
	req := func(c Client) error {
		contacted = append(contacted, c.(*singleClient).addr)
		switch verif.Choice("outcome", 3) {
		case 0:
			return nil
		case 1:
			return httputil.NetworkError{}
		}
		return errors.New("status 500")
	}
	cc.do(req)
	hl.set = mk("in_second")
	contacted = nil
	cc.do(req)
	verif.Cover("second-list-differs", len(hl.set) > 0)
	verif.Assert("at-most-three", len(contacted) <= 3)
	for i, a := range contacted {
		verif.Assert("from-current-list", hl.set.Has(a))
		for j := 0; j < i; j++ {
			verif.Assert("distinct", contacted[j] != a)
		}
	}
}
