//kse:pkg origin/blobclient
package blobclient

import (
	"errors"

	"github.com/uber/kraken/core"
	"github.com/uber/kraken/utils/httputil"
	"github.com/uber/kraken/utils/stringset"
	verif "github.com/uber/kraken/zzverif"
)

type verifCluster struct{ set stringset.Set }

func (c *verifCluster) Resolve() stringset.Set { return c.set }

// verifStubClient implements only Locations; every other method of Client is
// inherited from the nil embedded interface and never called.
type verifStubClient struct {
	Client
	addr string
	rec  *verifRecorder
}

type verifRecorder struct {
	contacted []string
	outcomes  []int
}

func (c *verifStubClient) Locations(d core.Digest) ([]string, error) {
	c.rec.contacted = append(c.rec.contacted, c.addr)
	o := verif.Choice("outcome", 3)
	c.rec.outcomes = append(c.rec.outcomes, o)
	switch o {
	case 0:
		return []string{"loc0", "loc1"}, nil
	case 1:
		return nil, httputil.NetworkError{}
	}
	return nil, errors.New("status 503")
}

type verifProvider struct{ rec *verifRecorder }

func (p *verifProvider) Provide(addr string) Client {
	return &verifStubClient{addr: addr, rec: p.rec}
}

var verifOrigins = []string{"o0:1", "o1:1", "o2:1", "o3:1", "o4:1", "o5:1"}

// VerifLocations: one Locations / ClientResolver.Resolve request contacts at
// most three distinct hosts of the current list, whatever each of them answers.
func VerifLocations() {
	verif.Option("map_order_symbolic", 1)
	maxHosts := verif.Bound("hosts", 4, 5)
	k := verif.Len("nhosts", 0, maxHosts)
	rec := &verifRecorder{}
	cl := &verifCluster{set: stringset.New(verifOrigins[:k]...)}
	d, _ := core.NewSHA256DigestFromHex("aaaaaaaaaaaaaaaaaaaaaaaaaaaaaaaaaaaaaaaaaaaaaaaaaaaaaaaaaaaaaaaa")
	locs, err := Locations(&verifProvider{rec}, cl, d)
	if k == 0 {
		verif.Assert("empty-cluster-error", err != nil && len(rec.contacted) == 0)
		return
	}
	verif.Cover("more-hosts-than-limit", k > 3)
	verif.Assert("at-most-three-hosts", len(rec.contacted) <= 3)
	verif.Assert("at-least-one", len(rec.contacted) >= 1)
	for i, a := range rec.contacted {
		verif.Assert("from-current-list", cl.set.Has(a))
		for j := 0; j < i; j++ {
			verif.Assert("distinct", rec.contacted[j] != a)
		}
	}
	last := rec.outcomes[len(rec.outcomes)-1]
	verif.Assert("success-iff-last-succeeded", (err == nil) == (last == 0))
	if err == nil {
		verif.Assert("locations-returned", len(locs) == 2)
	}
}
