//kse:pkg utils/stringset
package stringset

import (
	verif "github.com/uber/kraken/zzverif"
)

var verifHosts = []string{"h0", "h1", "h2", "h3", "h4", "h5"}

// VerifSample: Sample(n) returns min(n,|s|) members of s and leaves s alone.
func VerifSample() {
	verif.Option("map_order_symbolic", 1)
	maxHosts := verif.Bound("hosts", 3, 5)
	k := verif.Len("nhosts", 0, maxHosts)
	n := verif.IntRange("n", 0, maxHosts+1)
	s := New(verifHosts[:k]...)
	out := s.Sample(n)
	verif.Cover("truncated", n < k)
	verif.Cover("whole", n >= k)
	want := verif.Ite(n < k, n, k)
	verif.Assert("size", len(out) == want)
	for x := range out {
		verif.Assert("member", s.Has(x))
	}
	verif.Assert("source-unchanged", len(s) == k)
}
