//kse:pkg utils/stringset
package stringset

// Engine self-tests: Go semantics facts stated as assertions over symbolic
// inputs. They must all be discharged (unsat) by the engine, and the sampled
// paths must agree with the native build (translator validation).

import (
	"errors"
	"fmt"
	"sort"
	"strconv"
	"strings"
	"sync"

	verif "github.com/uber/kraken/zzverif"
)

func VerifEngineIntegers() {
	x := verif.Int64("x")
	y := verif.Int64("y")
	u := verif.Uint64("u")
	b := verif.Byte("b")
	i32 := verif.Int32("i32")
	// wrap-around and conversions
	verif.Assert("add-commutes", x+y == y+x)
	verif.Assert("sub-neg", x-y == -(y-x))
	verif.Assert("trunc-int8", int8(x) == int8(uint8(uint64(x)&0xff)))
	verif.Assert("sext", int64(int8(b)) == int64(b)-verif.Ite64(b >= 128, 256, 0))
	verif.Assert("zext", uint64(b) < 256)
	verif.Assert("i32-widen", int64(i32) >= -2147483648 && int64(i32) <= 2147483647)
	verif.Assert("uint-wrap", u+1 > u || u == ^uint64(0))
	verif.Assert("and-or", (u&0xff)|(u&^0xff) == u)
	verif.Assert("xor", u^u == 0)
	// shifts with large counts
	s := verif.Uint("s")
	verif.Assume(s <= 200)
	verif.Assert("shl-big", verif.Implies(s >= 64, u<<s == 0))
	verif.Assert("shr-big", verif.Implies(s >= 64, u>>s == 0))
	verif.Assert("sar-big", verif.Implies(s >= 64, x>>s == verif.Ite64(x < 0, -1, 0)))
	verif.Assert("shl-mul", verif.Implies(s < 8, uint64(b)<<s == uint64(b)*(uint64(1)<<s)))
	// division semantics (truncation toward zero)
	// (8-bit operands: 64-bit symbolic multiplication/division is out of the solver's reach)
	x8, y8 := verif.Int8("x8"), verif.Int8("y8")
	if y8 != 0 && !(x8 == -128 && y8 == -1) {
		q, r := x8/y8, x8%y8
		verif.Assert("divmod", q*y8+r == x8)
		verif.Assert("rem-sign", verif.Or(r == 0, (r < 0) == (x8 < 0)))
	}
	// min/max builtins
	verif.Assert("min", min(x, y) <= x && min(x, y) <= y)
	verif.Assert("max", max(x, y) >= x && max(x, y) >= y)
}

func VerifEngineDivByZeroPanics() {
	x := verif.Int("x")
	y := verif.Int("y")
	recovered := false
	func() {
		defer func() {
			if r := recover(); r != nil {
				recovered = true
			}
		}()
		_ = x / y
	}()
	verif.Assert("panic-iff-zero", recovered == (y == 0))
}

type engShape interface{ Area() int }
type engRect struct{ w, h int }
type engSq struct{ s int }

func (r engRect) Area() int { return r.w * r.h }
func (s *engSq) Area() int  { return s.s * s.s }

func VerifEngineSlicesMapsIfaces() {
	n := verif.Len("n", 0, 4)
	a := make([]int, 0, 2)
	for i := 0; i < n; i++ {
		a = append(a, i*i)
	}
	verif.Assert("len", len(a) == n)
	b := a[:0]
	b = append(b, 99)
	if n > 0 {
		verif.Assert("alias", a[0] == 99)
	}
	// symbolic index read / write
	arr := []byte{10, 20, 30, 40}
	i := verif.IntRange("i", 0, 3)
	v := arr[i]
	verif.Assert("sym-read", v == byte(10*(i+1)))
	arr[i] = 7
	verif.Assert("sym-write", arr[i] == 7)
	sum := 0
	for _, x := range arr {
		sum += int(x)
	}
	verif.Assert("sum", sum == 100-10*(i+1)+7)
	// out-of-range index panics
	j := verif.Int("j")
	pan := false
	func() {
		defer func() {
			if recover() != nil {
				pan = true
			}
		}()
		_ = arr[j]
	}()
	verif.Assert("oob", pan == (j < 0 || j >= 4))
	// maps with symbolic keys
	m := map[int]string{1: "a", 2: "b"}
	k := verif.IntRange("k", 0, 3)
	_, ok := m[k]
	verif.Assert("map-has", ok == (k == 1 || k == 2))
	m[k] = "z"
	verif.Assert("map-len", len(m) == verif.Ite(ok, 2, 3))
	delete(m, 1)
	_, ok1 := m[1]
	verif.Assert("map-del", !ok1)
	// interfaces and method dispatch
	var sh engShape = engRect{2, 3}
	if verif.Bool("sq") {
		sh = &engSq{4}
	}
	_, isSq := sh.(*engSq)
	verif.Assert("dispatch", sh.Area() == verif.Ite(isSq, 16, 6))
	// struct copy semantics
	r1 := engRect{1, 2}
	r2 := r1
	r2.w = 5
	verif.Assert("copy", r1.w == 1)
	// arrays compare by value
	x1 := [3]byte{1, 2, verif.Byte("z")}
	x2 := x1
	verif.Assert("array-eq", x1 == x2)
	x2[2]++
	verif.Assert("array-ne", x1 != x2)
}

func VerifEngineStrings() {
	s := verif.String("s", 3)
	verif.Assert("concat-len", len("ab"+s) == 5)
	verif.Assert("index-prefix", strings.HasPrefix("ab"+s, "ab"))
	idx := strings.IndexByte(s, '/')
	if idx >= 0 {
		verif.Assert("index-hit", s[idx] == '/')
		for q := 0; q < idx; q++ {
			verif.Assert("index-first", s[q] != '/')
		}
	} else {
		verif.Assert("index-miss", s[0] != '/' && s[1] != '/' && s[2] != '/')
	}
	parts := strings.Split(s, "/")
	verif.Assert("split-join", strings.Join(parts, "/") == s)
	verif.Assert("split-count", len(parts) == strings.Count(s, "/")+1)
	n := verif.IntRange("n", -30, 30)
	str := strconv.Itoa(n)
	back, err := strconv.Atoi(str)
	verif.Assert("itoa-atoi", verif.And(err == nil, back == n))
	verif.Assert("sprintf", fmt.Sprintf("%s:%d", "h", 80) == "h:80")
	verif.Assert("compare", (s < "b") == (s[0] < 'b'))
}

func VerifEngineDeferRecoverErrors() {
	order := ""
	f := func() (res int, err error) {
		defer func() { order += "1" }()
		defer func() {
			if r := recover(); r != nil {
				order += "r"
				err = fmt.Errorf("wrapped: %w", errors.New("inner"))
				res = -1
			}
		}()
		if verif.Bool("boom") {
			panic("x")
		}
		return 7, nil
	}
	res, err := f()
	if err != nil {
		verif.Assert("recovered", res == -1 && order == "r1")
		verif.Assert("unwrap", errors.Unwrap(err) != nil && errors.Unwrap(err).Error() == "inner")
	} else {
		verif.Assert("normal", res == 7 && order == "1")
	}
	sentinel := errors.New("s")
	w := fmt.Errorf("ctx: %w", sentinel)
	verif.Assert("errors-is", errors.Is(w, sentinel))
	verif.Assert("errors-is-not", !errors.Is(w, errors.New("s")))
}

func VerifEngineSortClosures() {
	xs := []int{verif.IntRange("a", 0, 9), verif.IntRange("b", 0, 9), verif.IntRange("c", 0, 9)}
	total := xs[0] + xs[1] + xs[2]
	sort.Slice(xs, func(i, j int) bool { return xs[i] < xs[j] })
	verif.Assert("sorted", xs[0] <= xs[1] && xs[1] <= xs[2])
	verif.Assert("perm-sum", xs[0]+xs[1]+xs[2] == total)
	ys := []int{3, 1, 2}
	sort.Ints(ys)
	verif.Assert("sort-ints", ys[0] == 1 && ys[2] == 3)
	counter := 0
	inc := func() func() int { return func() int { counter++; return counter } }()
	inc()
	inc()
	verif.Assert("closure", counter == 2)
}

func VerifEngineGoroutines() {
	verif.Option("max_preempt", 2)
	var mu sync.Mutex
	total := 0
	var wg sync.WaitGroup
	ch := make(chan int, 1)
	for i := 1; i <= 2; i++ {
		wg.Add(1)
		go func(k int) {
			defer wg.Done()
			mu.Lock()
			total += k
			mu.Unlock()
		}(i)
	}
	go func() { ch <- 5 }()
	wg.Wait()
	v := <-ch
	verif.Assert("sum", total == 3)
	verif.Assert("chan", v == 5)
	// unsynchronised read-modify-write with a visible point in between can lose an update
	x := 0
	var wg2 sync.WaitGroup
	for i := 0; i < 2; i++ {
		wg2.Add(1)
		go func() {
			defer wg2.Done()
			t := x
			verif.Yield()
			x = t + 1
		}()
	}
	wg2.Wait()
	verif.Cover("lost-update-found", x == 1)
	verif.Cover("no-lost-update", x == 2)
	verif.Assert("range", x == 1 || x == 2)
}
