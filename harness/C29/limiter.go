//kse:pkg utils/dedup
package dedup

import (
	"sync"
	"time"

	"github.com/andres-erbsen/clock"
	verif "github.com/uber/kraken/zzverif"
)

// API-only harnesses of Limiter (NewLimiter, Run) and its task GC.

// verifRunner counts executions per input; an execution spans a schedule
// point, so overlapping executions are observable.
type verifRunner struct {
	inflight map[string]int
	overlap  bool
	runs     int
	ttl      time.Duration
}

func (r *verifRunner) Run(input interface{}) (interface{}, time.Duration) {
	k := input.(string)
	r.runs++
	id := r.runs
	r.inflight[k]++
	if r.inflight[k] > 1 {
		r.overlap = true
	}
	verif.Yield()
	r.inflight[k]--
	return id, r.ttl
}

func verifLimiter(withGC bool) {
	verif.Option("panic_is_violation", 1) // a panic must never end a path silently
	verif.Option("max_preempt", verif.Bound("preemptions", 2, 3))
	clk := clock.NewMock()
	clk.Set(time.Unix(1000, 0))
	runner := &verifRunner{inflight: map[string]int{}}
	if verif.Bool("outputs_expire_immediately") {
		runner.ttl = 0
	} else {
		runner.ttl = time.Hour
	}
	l := NewLimiter(clk, runner)
	if verif.Bool("task_exists_before") {
		l.Run("k") // a task for k with a cached output from an earlier run
	}
	var wg sync.WaitGroup
	out := make([]interface{}, 2)
	wg.Add(2)
	go func() {
		defer wg.Done()
		out[0] = l.Run("k")
	}()
	go func() {
		defer wg.Done()
		if withGC {
			// time passes: the task GC interval elapses before this caller arrives
			clk.Add(TaskGCInterval + time.Second)
		}
		out[1] = l.Run("k")
	}()
	wg.Wait()
	verif.Assert("at-most-one-execution-in-flight-per-input", !runner.overlap)
	for _, o := range out {
		id, ok := o.(int)
		verif.Assert("every-caller-gets-an-output-of-some-execution", ok && id >= 1 && id <= runner.runs)
	}
	verif.Cover("deduplicated", runner.runs < 3)
}

// VerifLimiterSingleFlight: concurrent Run calls for one input, clock at rest
// (no task GC): never two executions in flight, every caller gets an output.
func VerifLimiterSingleFlight() { verifLimiter(false) }

// VerifFindingLimiterGCRace: the same while the GC interval elapses between
// the two callers (see FINDINGS.md).
func VerifFindingLimiterGCRace() { verifLimiter(true) }
