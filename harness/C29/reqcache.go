//kse:pkg utils/dedup
package dedup

import (
	"errors"
	"time"

	"github.com/andres-erbsen/clock"
	"github.com/uber-go/tally"
	verif "github.com/uber/kraken/zzverif"
)

// API-only harnesses of RequestCache (NewRequestCache, SetNotFound, Start).

var (
	verifErrBoom     = errors.New("boom")
	verifErrNotFound = errors.New("not found")
)

const (
	verifErrorTTL    = 10 * time.Second
	verifNotFoundTTL = 20 * time.Second
)

// verifReq is a request whose completion is controlled by the harness: it
// blocks on gate, so that "a request is pending" is a fact and not a race.
type verifReq struct {
	gate     chan struct{}
	done     chan struct{}
	result   error
	runs     int
	inflight *int
	maxSeen  *int
}

func verifNewReq(result error, inflight, maxSeen *int) *verifReq {
	return &verifReq{gate: make(chan struct{}), done: make(chan struct{}), result: result, inflight: inflight, maxSeen: maxSeen}
}

func (q *verifReq) run() error {
	q.runs++
	*q.inflight++
	if *q.inflight > *q.maxSeen {
		*q.maxSeen = *q.inflight
	}
	<-q.gate
	*q.inflight--
	close(q.done)
	return q.result
}

// verifBusyClock: a mock clock on which every After() has already elapsed, so
// that "the busy timeout passed while waiting for a worker" needs no second
// thread racing to advance the clock. (With a free worker both select cases
// are ready and either may be taken, as in Go.)
type verifBusyClock struct{ *clock.Mock }

func (c verifBusyClock) After(d time.Duration) <-chan time.Time {
	ch := make(chan time.Time, 1)
	ch <- c.Now()
	return ch
}

func verifNewCache(clk clock.Clock, workers int) *RequestCache {
	rc := NewRequestCache(RequestCacheConfig{
		NumWorkers: workers, ErrorTTL: verifErrorTTL, NotFoundTTL: verifNotFoundTTL,
		CleanupInterval: 5 * time.Second, BusyTimeout: time.Minute,
	}, clk, tally.NoopScope)
	rc.SetNotFound(func(err error) bool { return err == verifErrNotFound })
	return rc
}

// VerifRequestCachePendingAndCachedError: a Start while the request is pending
// reports ErrRequestPending and does not run; after the request failed, starts
// within the TTL (error TTL or not-found TTL) report the cached error and do
// not run; after it succeeded or the TTL passed the next start runs again. At
// most one execution is in flight for the key at any time.
func VerifRequestCachePendingAndCachedError() {
	verif.Option("panic_is_violation", 1) // a panic must never end a path silently
	verif.Option("max_preempt", verif.Bound("preemptions", 1, 2))
	clk := clock.NewMock()
	rc := verifNewCache(clk, 4)
	inflight, maxSeen := 0, 0

	outcome := verif.Choice("first_request_outcome", 3)
	var result error
	ttl := verifErrorTTL
	switch outcome {
	case 1:
		result = verifErrBoom
	case 2:
		result, ttl = verifErrNotFound, verifNotFoundTTL
	}
	first := verifNewReq(result, &inflight, &maxSeen)
	second := verifNewReq(nil, &inflight, &maxSeen)
	otherInflight, otherMax := 0, 0
	other := verifNewReq(nil, &otherInflight, &otherMax)

	verif.Assert("first-start-accepted", rc.Start("k", first.run) == nil)
	// the first request cannot complete before the gate opens: it is pending
	verif.Assert("start-while-pending-reports-pending", rc.Start("k", second.run) == ErrRequestPending)
	verif.Assert("pending-key-does-not-block-other-keys", rc.Start("other", other.run) == nil)
	close(other.gate)
	// the request is slow: time passes (0..25 s) while it is executing
	slow := verif.IntRange("seconds_request_takes", 0, 25)
	clk.Add(time.Duration(slow) * time.Second)
	close(first.gate)
	<-first.done

	// more time passes (whole seconds, 0..30 s) after the request returned. The
	// error is recorded by the runner goroutine when the request fails, i.e. at
	// "slow" seconds or, if the goroutine is slow, after the clock moved again:
	// its expiry is at least ttl after the failure, so up to dt <= ttl it is
	// certainly unexpired. What happens after expiry is not part of the
	// statement (covered, not asserted).
	dt := verif.IntRange("seconds_later", 0, 30)
	clk.Add(time.Duration(dt) * time.Second)
	r := rc.Start("k", second.run)
	// the cache may still be between "request returned" and "result recorded"
	stillRecording := r == ErrRequestPending
	verif.Cover("result-recorded-before-next-start", !stillRecording)
	if !stillRecording {
		withinTTL := time.Duration(dt)*time.Second <= ttl
		switch {
		case outcome == 0:
			verif.Assert("after-success-next-start-runs", r == nil)
		case withinTTL:
			verif.Cover("cached-error-reported", true)
			verif.Assert("unexpired-error-is-reported", r == result)
		default:
			verif.Cover("error-expired-and-request-runs-again", r == nil)
		}
	}
	if r == nil {
		close(second.gate)
		<-second.done
	}
	verif.Assert("at-most-one-in-flight-per-key", maxSeen <= 1 && otherMax <= 1 && second.runs <= 1 && other.runs <= 1)
	verif.Assert("first-ran-once", first.runs == 1)
	if r != nil {
		verif.Assert("rejected-start-never-runs", second.runs == 0)
	}
}

// VerifRequestCacheSingleFlight: two requests for one key started back to back
// while the runner goroutines interleave freely: never two in flight, a
// request runs only if its Start was accepted, and exactly once.
func VerifRequestCacheSingleFlight() {
	verif.Option("panic_is_violation", 1) // a panic must never end a path silently
	verif.Option("max_preempt", verif.Bound("preemptions", 2, 3))
	clk := clock.NewMock()
	rc := verifNewCache(clk, 4)
	inflight, maxSeen, runs := 0, 0, 0
	fail := verif.Bool("request_fails")
	req := func() error {
		runs++
		inflight++
		if inflight > maxSeen {
			maxSeen = inflight
		}
		verif.Yield()
		inflight--
		if fail {
			return verifErrBoom
		}
		return nil
	}
	r1 := rc.Start("k", req)
	r2 := rc.Start("k", req)
	verif.Assert("first-accepted", r1 == nil)
	verif.Assert("second-is-accepted-pending-or-cached-error", r2 == nil || r2 == ErrRequestPending || (fail && r2 == verifErrBoom))
	verif.Cover("second-start-rejected-as-pending", r2 == ErrRequestPending)
	verif.Cover("second-start-accepted", r2 == nil)
	// drain: let every runner finish
	for i := 0; i < 8; i++ {
		verif.Yield()
	}
	verif.Assert("at-most-one-in-flight", maxSeen <= 1)
	accepted := 1
	if r2 == nil {
		accepted = 2
	}
	verif.Assert("runs-bounded-by-accepted-starts", runs <= accepted)
}

// VerifRequestCacheWorkersBusy: with every worker occupied, Start reports
// ErrWorkersBusy once the busy timeout passes, does not run the request, and
// leaves nothing pending for the key: a later Start for it is not rejected as
// pending.
func VerifRequestCacheWorkersBusy() {
	verif.Option("panic_is_violation", 1) // a panic must never end a path silently
	verif.Option("max_preempt", verif.Bound("preemptions", 1, 2))
	clk := verifBusyClock{clock.NewMock()}
	rc := verifNewCache(clk, 1)
	inflight, maxSeen := 0, 0
	a := verifNewReq(nil, &inflight, &maxSeen)
	b := verifNewReq(nil, &inflight, &maxSeen)
	verif.Assume(rc.Start("a", a.run) == nil) // (the timeout may also win the select: not the case of interest)

	// the only worker is occupied by a until its gate opens
	r := rc.Start("b", b.run)
	verif.Assert("no-free-worker-reported", r == ErrWorkersBusy)
	r2 := rc.Start("b", b.run)
	verif.Assert("busy-start-left-nothing-pending", r2 != ErrRequestPending)
	verif.Assert("second-busy-start-is-busy-again", r2 == ErrWorkersBusy)
	verif.Assert("busy-starts-did-not-run", b.runs == 0)
	close(a.gate)
	<-a.done
	for i := 0; i < 4; i++ { // let a's runner give the worker back
		verif.Yield()
	}
	r3 := rc.Start("b", b.run)
	verif.Assert("later-start-is-not-pending", r3 == nil || r3 == ErrWorkersBusy)
	verif.Cover("later-start-accepted", r3 == nil)
	if r3 == nil {
		close(b.gate)
		<-b.done
	}
	verif.Assert("a-ran-once", a.runs == 1)
	verif.Assert("b-ran-only-if-accepted", (r3 == nil && b.runs == 1) || (r3 != nil && b.runs == 0))
}
