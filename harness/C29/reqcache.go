//kse:pkg utils/dedup
package dedup

import (
	"errors"
	"sync"
	"time"

	"github.com/andres-erbsen/clock"
	"github.com/uber-go/tally"
	verif "github.com/uber/kraken/zzverif"
)

// VerifRequestCacheSingleFlight: concurrent Start calls on one key never run
// two requests at the same time; a Start during a pending request reports
// ErrRequestPending and does not run the request.
func VerifRequestCacheSingleFlight() {
	verif.Option("max_preempt", verif.Bound("preemptions", 2, 3))
	clk := clock.NewMock()
	rc := NewRequestCache(RequestCacheConfig{NumWorkers: 2, ErrorTTL: time.Second, NotFoundTTL: time.Second, CleanupInterval: time.Hour, BusyTimeout: time.Hour}, clk, tally.NoopScope)
	var mu sync.Mutex
	inflight, maxInflight, runs := 0, 0, 0
	fail := verif.Bool("request_fails")
	req := func() error {
		mu.Lock()
		inflight++
		runs++
		if inflight > maxInflight {
			maxInflight = inflight
		}
		mu.Unlock()
		verif.Yield()
		mu.Lock()
		inflight--
		mu.Unlock()
		if fail {
			return errors.New("boom")
		}
		return nil
	}
	var wg sync.WaitGroup
	results := make([]error, 2)
	for i := 0; i < 2; i++ {
		wg.Add(1)
		i := i
		go func() {
			defer wg.Done()
			results[i] = rc.Start("k", req)
		}()
	}
	wg.Wait()
	mu.Lock()
	verif.Assert("at-most-one-in-flight", maxInflight <= 1)
	started := 0
	for _, r := range results {
		if r == nil {
			started++
		}
	}
	verif.Assert("runs-bounded-by-accepted-starts", runs <= started)
	verif.Cover("second-start-rejected-as-pending", results[0] == ErrRequestPending || results[1] == ErrRequestPending)
	mu.Unlock()
}
