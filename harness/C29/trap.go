//kse:pkg utils/dedup
package dedup

import (
	"sync"
	"time"

	"github.com/andres-erbsen/clock"
	verif "github.com/uber/kraken/zzverif"
)

// API-only harness of IntervalTrap (NewIntervalTrap, Trap).

type verifTrapTask struct {
	clk      clock.Clock
	runAt    []time.Time
	inflight int
	overlap  bool
}

func (t *verifTrapTask) Run() {
	t.inflight++
	if t.inflight > 1 {
		t.overlap = true
	}
	t.runAt = append(t.runAt, t.clk.Now())
	verif.Yield()
	t.inflight--
}

// VerifIntervalTrapOncePerInterval: callers trap concurrently while time
// advances by arbitrary amounts: the task never runs twice within one
// interval and never concurrently with itself.
func VerifIntervalTrapOncePerInterval() {
	verif.Option("panic_is_violation", 1) // a panic must never end a path silently
	verif.Option("max_preempt", verif.Bound("preemptions", 1, 3))
	const interval = 10 * time.Second
	clk := clock.NewMock()
	clk.Set(time.Unix(1000, 0))
	task := &verifTrapTask{clk: clk}
	trap := NewIntervalTrap(interval, clk, task)

	d1 := verif.IntRange("advance1_seconds", 0, 25)
	d2 := verif.IntRange("advance2_seconds", 0, 25)
	clk.Add(time.Duration(d1) * time.Second)
	var wg sync.WaitGroup
	wg.Add(2)
	go func() {
		defer wg.Done()
		trap.Trap()
		if verif.Bound("second_trap_in_thread", 0, 1) == 1 {
			trap.Trap()
		}
	}()
	go func() {
		defer wg.Done()
		trap.Trap()
	}()
	wg.Wait()
	clk.Add(time.Duration(d2) * time.Second)
	trap.Trap()

	verif.Assert("task-never-overlaps-itself", !task.overlap)
	verif.Cover("ran-twice", len(task.runAt) == 2)
	verif.Cover("never-ran", len(task.runAt) == 0)
	for i := 1; i < len(task.runAt); i++ {
		gap := task.runAt[i].Sub(task.runAt[i-1])
		verif.Assert("at-most-one-run-per-interval", gap >= interval)
	}
	verif.Assert("at-most-one-run-per-clock-advance", len(task.runAt) <= 2)
}
