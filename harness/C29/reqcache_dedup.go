//kse:pkg utils/dedup
package dedup

import (
	"sync"
	"time"

	"github.com/andres-erbsen/clock"
	"github.com/uber-go/tally"
	verif "github.com/uber/kraken/zzverif"
)

// API-only harnesses of RequestCache (NewRequestCache, Start) for the
// "at most one execution of a key in flight" clause under (a) starts of one key
// that overlap while they wait for a worker and (b) retry histories around the
// expiry of a cached error and the lazy clean-up sweep.

// verifGaugeScope is the tally.Scope handed to the cache. The cache updates its
// "num_requests" gauge when a worker slot is taken (in Start, by the caller) and
// when it is given back (by the runner goroutine, after the result of the
// request was recorded). Every update is forwarded to a channel, which gives the
// harness an API-level way to wait until a finished request has been recorded:
// no sleeping, no polling, same behaviour natively and under the engine.
type verifGaugeScope struct {
	tally.Scope
	updates chan struct{}
}

type verifGauge struct{ s *verifGaugeScope }

func (g verifGauge) Update(float64) { g.s.updates <- struct{}{} }

func (s *verifGaugeScope) Tagged(map[string]string) tally.Scope { return s }
func (s *verifGaugeScope) Gauge(string) tally.Gauge             { return verifGauge{s} }

func verifNewGaugeScope() *verifGaugeScope {
	return &verifGaugeScope{Scope: tally.NoopScope, updates: make(chan struct{}, 256)}
}

// verifKeyGhost counts the executions of one key (under its own mutex: natively
// the runners are real goroutines).
type verifKeyGhost struct {
	mu       sync.Mutex
	runs     int
	inflight int
	maxSeen  int
}

func (g *verifKeyGhost) enter() {
	g.mu.Lock()
	g.runs++
	g.inflight++
	if g.inflight > g.maxSeen {
		g.maxSeen = g.inflight
	}
	g.mu.Unlock()
}

func (g *verifKeyGhost) leave() {
	g.mu.Lock()
	g.inflight--
	g.mu.Unlock()
}

func (g *verifKeyGhost) snapshot() (runs, maxSeen int) {
	g.mu.Lock()
	defer g.mu.Unlock()
	return g.runs, g.maxSeen
}

// verifHeldReq is a request that stays in flight until the harness opens its
// gate: it announces that it is executing (started), waits, and returns result.
type verifHeldReq struct {
	ghost   *verifKeyGhost
	started chan struct{}
	gate    chan struct{}
	done    chan struct{}
	result  error
	runs    int // executions of this request object (read after started/done)
}

func verifNewHeldReq(g *verifKeyGhost) *verifHeldReq {
	return &verifHeldReq{ghost: g, started: make(chan struct{}, 4), gate: make(chan struct{}), done: make(chan struct{}, 4)}
}

func (q *verifHeldReq) run() error {
	q.ghost.enter()
	q.ghost.mu.Lock()
	q.runs++
	q.ghost.mu.Unlock()
	q.started <- struct{}{}
	<-q.gate
	q.ghost.leave()
	res := q.result
	q.done <- struct{}{}
	return res
}

func (q *verifHeldReq) ran() int {
	q.ghost.mu.Lock()
	defer q.ghost.mu.Unlock()
	return q.runs
}

// VerifRequestCacheSameKeyStartsWaitingForWorker: every worker is occupied by
// requests of other keys (held by the harness). Two threads start the SAME key
// and a third thread frees the workers at an arbitrary point of the schedule
// (before, between or after the two starts reached the cache). The clock is at
// rest, so the busy timeout never passes. The execution of the key is held by
// the harness, so it is in flight from its beginning to the end of the check:
// at most one execution of the key may ever begin, exactly the accepted starts
// run, and the other start reports ErrRequestPending.
func VerifRequestCacheSameKeyStartsWaitingForWorker() {
	verif.Option("panic_is_violation", 1) // a panic must never end a path silently
	verif.Option("max_threads", 12)
	// blocking switches and the choice of the next thread at a blocking point
	// or thread exit are free: with 0 preemptions the starters, the releaser
	// and the runners are already interleaved at every point where one waits
	verif.Option("max_preempt", verif.Bound("preemptions", 0, 1))
	const workers = 2
	clk := clock.NewMock()
	rc := NewRequestCache(RequestCacheConfig{
		NumWorkers: workers, ErrorTTL: verifErrorTTL, NotFoundTTL: verifNotFoundTTL,
		CleanupInterval: 5 * time.Second, BusyTimeout: time.Hour,
	}, clk, tally.NoopScope)

	// occupy workers with other keys (quick: all of them; thorough: 0..all);
	// each of these requests is executing (and held) before the starters exist
	minOcc := verif.Bound("min_workers_occupied", workers, 0)
	occupied := minOcc + verif.Choice("workers_occupied_beyond_min", workers-minOcc+1)
	otherIDs := []string{"x", "y"}
	otherGhost := &verifKeyGhost{} // (counts both other keys together)
	others := make([]*verifHeldReq, occupied)
	for i := range others {
		others[i] = verifNewHeldReq(otherGhost)
		verif.Assert("other-key-start-accepted", rc.Start(otherIDs[i], others[i].run) == nil)
		<-others[i].started
	}

	ghost := &verifKeyGhost{}
	req := verifNewHeldReq(ghost) // one request body; both starters submit it
	var res [2]error
	var wg sync.WaitGroup
	for i := 0; i < 2; i++ {
		wg.Add(1)
		go func(i int) {
			defer wg.Done()
			res[i] = rc.Start("k", req.run)
		}(i)
	}
	wg.Add(1)
	go func() { // workers become free at some point of the schedule
		defer wg.Done()
		for _, o := range others {
			close(o.gate)
		}
	}()
	wg.Wait()

	accepted := 0
	for _, r := range res {
		verif.Assert("start-reports-accepted-or-pending", r == nil || r == ErrRequestPending)
		if r == nil {
			accepted++
		}
	}
	// every accepted start runs its request: wait until it is executing
	for i := 0; i < accepted; i++ {
		<-req.started
	}
	runs, maxSeen := ghost.snapshot()
	verif.Cover("one-start-accepted-the-other-reported-pending", accepted == 1 && (res[0] == ErrRequestPending || res[1] == ErrRequestPending))
	// the execution is held by the harness: nothing completed so far
	verif.Assert("at-most-one-execution-in-flight-per-key", maxSeen <= 1)
	verif.Assert("at-most-one-start-accepted-while-in-flight", accepted <= 1)
	verif.Assert("one-start-accepted", accepted == 1)
	verif.Assert("runs-equal-accepted-starts", runs == accepted)
	oruns, _ := otherGhost.snapshot()
	verif.Assert("other-keys-ran-once-each", oruns == occupied)
	close(req.gate)
	for i := 0; i < accepted; i++ {
		<-req.done
	}
}

// VerifRequestCacheRetryHistory: a sequential history on one key with a
// symbolic clock. Steps: time passes (symbolic 0..30 s), then either a Start
// of a fresh harness-held request, or the request in flight finishes (success
// or error, chosen). Error TTL and clean-up interval are symbolic, so every
// order of "error expires", "sweep is due" and the starts is covered. Ghost
// state: the request in flight, the last recorded error and when it was
// recorded. Oracle after every Start: never two executions in flight; while one
// is in flight the Start reports ErrRequestPending; while the last error is
// unexpired the Start reports it; a rejected Start never runs.
func VerifRequestCacheRetryHistory() {
	verif.Option("panic_is_violation", 1) // a panic must never end a path silently
	verif.Option("max_threads", 16)
	verif.Option("max_preempt", 0)
	verif.Option("sched_fixed", 1)
	verif.Option("solver_bv_tactic", 1) // small queries of 64-bit time arithmetic
	verif.Note("history harness: the runner goroutine of a finished request is waited for (gauge update after the result is recorded); schedules are the subject of the other RequestCache harnesses")
	ttlS := verif.IntRange("error_ttl_seconds", 1, 20)
	cleanS := verif.IntRange("cleanup_interval_seconds", 1, 40)
	ttl := time.Duration(ttlS) * time.Second
	clk := clock.NewMock()
	scope := verifNewGaugeScope()
	rc := NewRequestCache(RequestCacheConfig{
		NumWorkers: 8, ErrorTTL: ttl, NotFoundTTL: ttl,
		CleanupInterval: time.Duration(cleanS) * time.Second, BusyTimeout: 24 * time.Hour,
	}, clk, scope)
	<-scope.updates // the constructor sets the gauge once

	ghost := &verifKeyGhost{}
	var cur *verifHeldReq // accepted and held: in flight
	var rejected []*verifHeldReq
	haveErr := false
	var now, errAt time.Duration // ghost time (same unit as the clock: the oracle compares what the code compares)
	acceptedStarts := 0

	start := func() {
		req := verifNewHeldReq(ghost)
		r := rc.Start("k", req.run)
		if r == nil {
			<-scope.updates // worker taken
			<-req.started   // it is executing now
		}
		_, maxSeen := ghost.snapshot()
		verif.Assert("at-most-one-execution-in-flight-per-key", maxSeen <= 1)
		switch {
		case cur != nil:
			verif.Assert("start-while-in-flight-reports-pending", r == ErrRequestPending)
		case haveErr:
			unexpired := now-errAt <= ttl // expiry = time of failure + ttl; expired means strictly after
			verif.Cover("start-while-error-unexpired", unexpired)
			verif.Cover("start-after-error-expired", !unexpired)
			verif.Assert("unexpired-error-is-reported", verif.Implies(unexpired, r == verifErrBoom))
			verif.Assert("start-with-nothing-in-flight-runs-or-reports-the-error", r == nil || r == verifErrBoom)
		default:
			verif.Assert("start-with-nothing-in-flight-or-cached-runs", r == nil)
		}
		if r == nil {
			cur = req
			acceptedStarts++
		} else {
			rejected = append(rejected, req)
		}
	}
	finish := func(fail bool) {
		if fail {
			cur.result = verifErrBoom
		}
		close(cur.gate)
		<-cur.done
		<-scope.updates // worker given back: the result has been recorded
		haveErr = fail
		errAt = now
		cur = nil
	}

	start()
	steps := verif.Bound("history_steps", 4, 5)
	for i := 0; i < steps; i++ {
		d := verif.IntRange("seconds_pass", 0, 30)
		step := time.Duration(d) * time.Second
		clk.Add(step)
		now += step
		if cur != nil && verif.Choice("finish_or_start", 2) == 0 {
			fail := verif.Choice("request_fails", 2) == 1
			finish(fail)
			verif.Cover("request-failed", fail)
		} else {
			wasInFlight := cur != nil
			start()
			verif.Cover("start-while-in-flight", wasInFlight)
			verif.Cover("retry-accepted-after-error", !wasInFlight && haveErr && cur != nil)
		}
	}
	if cur != nil {
		finish(false)
	}
	runs, maxSeen := ghost.snapshot()
	verif.Assert("at-most-one-execution-in-flight-per-key", maxSeen <= 1)
	for _, q := range rejected {
		verif.Assert("rejected-start-never-runs", q.ran() == 0)
	}
	verif.Assert("runs-equal-accepted-starts", runs == acceptedStarts)
}
