//kse:pkg lib/healthcheck
package healthcheck

import (
	"context"
	"errors"
	"sync"

	"github.com/uber/kraken/utils/stringset"
	verif "github.com/uber/kraken/zzverif"
)

var verifAHosts = []string{"a:80", "b:80", "c:80", "d:80"}

// verifAChecker answers health checks from a table filled in by the harness
// before every round (so the outcome does not depend on the schedule).
type verifAChecker struct {
	mu   sync.Mutex
	fail map[string]bool
	seen map[string]int
}

func (c *verifAChecker) Check(ctx context.Context, addr string) error {
	c.mu.Lock()
	defer c.mu.Unlock()
	c.seen[addr]++
	if c.fail[addr] {
		return errors.New("unhealthy")
	}
	return nil
}

// verifASched: the history harnesses do not vary the schedule of the per-host
// check goroutines (one fixed schedule, no preemption); VerifActiveRunSchedules
// does that for a single round.
func verifASched() {
	verif.Option("max_preempt", 0)
	verif.Option("sched_fixed", 1)
	verif.Option("max_threads", 64)
	verif.Note("history harnesses run one fixed schedule of the check goroutines: outcomes are fixed before the round and all shared state is behind state's mutex")
}

// verifAGhost is the statement's hysteresis, per host.
type verifAGhost struct {
	present     bool // was in the previous list
	healthy     bool
	consecFails int // consecutive failed checks since the host (re)appeared
	consecPass  int
}

// step applies one check outcome of a round in which the host is listed.
func (g *verifAGhost) step(failed bool, fails, passes int) {
	if !g.present {
		// first appearance, or re-appearance after an absence: starts healthy
		g.present = true
		g.healthy = true
		g.consecFails = 0
		g.consecPass = 0
	}
	if failed {
		g.consecFails++
		g.consecPass = 0
		if g.healthy && g.consecFails >= fails {
			g.healthy = false
		}
	} else {
		g.consecPass++
		g.consecFails = 0
		if !g.healthy && g.consecPass >= passes {
			g.healthy = true
		}
	}
}

func (g *verifAGhost) leave() { g.present = false }

// verifActiveHistory runs `rounds` rounds of filter.Run. Host a is the host
// under observation: per round it is absent, passes or fails. Host b is always
// listed with a symbolic outcome (the same in every round in the quick tier),
// host c is always listed and passes (so every
// list has at least two hosts; the single-host rule is a separate harness).
// With rejoin == false host a never comes back after it left.
func verifActiveHistory(rounds int, rejoin bool) {
	verifASched()
	fails := verif.IntRange("fails", 1, 3)
	passes := verif.IntRange("passes", 1, 3)
	ck := &verifAChecker{fail: map[string]bool{}, seen: map[string]int{}}
	f := NewFilter(FilterConfig{Fails: fails, Passes: passes}, ck)
	ghost := make([]verifAGhost, len(verifAHosts))
	left := false
	// host b: one outcome for the whole run (quick) or one per round (thorough)
	bPerRound := verif.Bound("b_outcome_per_round", 0, 1) == 1
	bFails := verif.Bool("b_fails")
	for r := 0; r < rounds; r++ {
		addrs := stringset.New(verifAHosts[1], verifAHosts[2])
		aop := verif.Choice("a_listed", 2) // 0 absent, 1 listed
		if aop != 0 && left && !rejoin {
			verif.Assume(false)
		}
		if aop == 0 {
			if ghost[0].present {
				left = true
			}
		} else {
			addrs.Add(verifAHosts[0])
			if left {
				verif.Reach("host-rejoined")
			}
		}
		ck.fail[verifAHosts[0]] = verif.Bool("a_fails")
		if bPerRound && r > 0 {
			bFails = verif.Bool("b_fails")
		}
		ck.fail[verifAHosts[1]] = bFails
		ck.fail[verifAHosts[2]] = false

		got := f.Run(addrs)

		for h := range verifAHosts {
			if !addrs.Has(verifAHosts[h]) {
				ghost[h].leave()
				continue
			}
			was := ghost[h].healthy && ghost[h].present
			wasBad := !ghost[h].healthy && ghost[h].present
			ghost[h].step(ck.fail[verifAHosts[h]], fails, passes)
			if ghost[h].healthy {
				verif.Assert("host-that-should-be-healthy-is-reported", got.Has(verifAHosts[h]))
			} else {
				verif.Assert("host-that-should-be-unhealthy-is-not-reported", !got.Has(verifAHosts[h]))
			}
			if was && !ghost[h].healthy {
				verif.Reach("healthy-to-unhealthy")
			}
			if wasBad && ghost[h].healthy {
				verif.Reach("unhealthy-to-healthy")
			}
		}
	}
}

// VerifActiveHysteresis: hosts appear (possibly late), are checked, may leave
// and may rejoin (the no-rejoin restriction that stepped around the defect of
// FINDINGS.md is gone now that it is fixed).
func VerifActiveHysteresis() {
	verifActiveHistory(verif.Bound("rounds", 4, 6), true)
}

// VerifActiveFindingRejoin: shorter histories with rejoin (regression check for
// the fixed finding: a host that left and rejoins starts healthy again).
func VerifActiveFindingRejoin() {
	verifActiveHistory(verif.Bound("rounds_rejoin", 3, 5), true)
}

// VerifActiveSingleHost: whatever happened before, a list with a single host
// reports that host healthy.
func VerifActiveSingleHost() {
	verifASched()
	fails := verif.IntRange("fails", 1, 3)
	passes := verif.IntRange("passes", 1, 3)
	ck := &verifAChecker{fail: map[string]bool{}, seen: map[string]int{}}
	f := NewFilter(FilterConfig{Fails: fails, Passes: passes}, ck)
	rounds := verif.Bound("rounds_before_single", 2, 3)
	for r := 0; r < rounds; r++ {
		ck.fail[verifAHosts[0]] = verif.Bool("a_fails")
		ck.fail[verifAHosts[1]] = verif.Bool("b_fails")
		f.Run(stringset.New(verifAHosts[0], verifAHosts[1]))
	}
	ck.fail[verifAHosts[0]] = verif.Bool("a_fails")
	got := f.Run(stringset.New(verifAHosts[0]))
	verif.Assert("single-host-reported", got.Has(verifAHosts[0]))
	verif.Assert("single-host-only", len(got) == 1)
}

// VerifActiveRunSchedules: a round of Filter.Run under every schedule of its
// per-host check goroutines (free choice at blocking / exit switches plus
// preemptions) gives the same answer as the hysteresis and never deadlocks.
// A first round (fixed schedule) creates some history.
func VerifActiveRunSchedules() {
	verifASched()
	fails := verif.IntRange("fails", 1, 2)
	passes := verif.IntRange("passes", 1, 2)
	ck := &verifAChecker{fail: map[string]bool{}, seen: map[string]int{}}
	f := NewFilter(FilterConfig{Fails: fails, Passes: passes}, ck)
	ghost := make([]verifAGhost, 2)
	addrs := stringset.New(verifAHosts[0], verifAHosts[1])
	for r := 0; r < 2; r++ {
		if r == 1 {
			verif.Option("sched_fixed", 0)
			verif.Option("max_preempt", verif.Bound("preemptions", 0, 1))
			ck.fail[verifAHosts[0]] = verif.Bool("a_fails")
			ck.fail[verifAHosts[1]] = verif.Bool("b_fails")
		} else {
			ck.fail[verifAHosts[0]] = true
			ck.fail[verifAHosts[1]] = false
		}
		got := f.Run(addrs)
		for h := 0; h < 2; h++ {
			ghost[h].step(ck.fail[verifAHosts[h]], fails, passes)
			verif.Assert("reported-iff-healthy-under-any-schedule", got.Has(verifAHosts[h]) == ghost[h].healthy)
		}
	}
	ck.mu.Lock()
	verif.Assert("each-host-checked-once-per-round", ck.seen[verifAHosts[0]] == 2 && ck.seen[verifAHosts[1]] == 2)
	ck.mu.Unlock()
}

// VerifActiveMembershipChanges: two hosts (a and d) come and go independently,
// so the list can change without changing its size (one host replaced by
// another), shrink, grow or stay; b and c are always listed and passing. Every
// listed host must be reported according to the hysteresis, where a host that
// was not in the previous list starts healthy.
func VerifActiveMembershipChanges() {
	verifASched()
	maxT := verif.Bound("thresholds_membership", 2, 3)
	fails := verif.IntRange("fails", 1, maxT)
	passes := verif.IntRange("passes", 1, maxT)
	ck := &verifAChecker{fail: map[string]bool{}, seen: map[string]int{}}
	f := NewFilter(FilterConfig{Fails: fails, Passes: passes}, ck)
	ghost := make([]verifAGhost, len(verifAHosts))
	rounds := verif.Bound("rounds_membership", 3, 4)
	prev := -1
	for r := 0; r < rounds; r++ {
		addrs := stringset.New(verifAHosts[1], verifAHosts[2])
		m := verif.Choice("a_d_listed", 4) // bit 0: a listed, bit 1: d listed
		for _, h := range []int{0, 3} {
			listed := (h == 0 && m&1 != 0) || (h == 3 && m&2 != 0)
			ck.fail[verifAHosts[h]] = false
			if listed {
				addrs.Add(verifAHosts[h])
				ck.fail[verifAHosts[h]] = verif.Bool("check_fails")
			}
		}
		ck.fail[verifAHosts[1]] = false
		ck.fail[verifAHosts[2]] = false
		if prev == 1 && m == 2 || prev == 2 && m == 1 {
			verif.Reach("host-replaced-by-another-same-list-size")
		}
		prev = m

		got := f.Run(addrs)

		for h := range verifAHosts {
			if !addrs.Has(verifAHosts[h]) {
				ghost[h].leave()
				continue
			}
			ghost[h].step(ck.fail[verifAHosts[h]], fails, passes)
			verif.Assert("listed-host-reported-iff-healthy", got.Has(verifAHosts[h]) == ghost[h].healthy)
		}
	}
}
