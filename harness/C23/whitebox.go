//kse:pkg lib/healthcheck
package healthcheck

import (
	"github.com/uber/kraken/utils/stringset"
	verif "github.com/uber/kraken/zzverif"
)

// Inductive single-step variant (reads and builds the internal `state`, hence
// its own file). The pre-state is ANY state satisfying the representation
// invariant below, so one round from it stands for a round after a history of
// any length.
//
// Invariant, per host h, relating `state` to the statement's notions:
//   h was in the previous list  <=>  h in state.all
//   h not in state.all          =>   h not in state.healthy, no trend entry
//   trend[h] in [-Fails, Passes]
//   trend[h] = -c < 0 : the last c checks failed (c == Fails: "at least Fails")
//   trend[h] =  c > 0 : the last c checks passed (c == Passes: "at least Passes")
//   trend[h] = 0      : no check since the host (re)appeared, and it is healthy
//   healthy   => trend[h] > -Fails   (a streak of Fails failures made it unhealthy)
//   unhealthy => trend[h] < Passes and trend[h] != 0

type verifAPre struct {
	present bool
	healthy bool
	trend   int
}

func verifAInductiveStep(free int) {
	verifASched()
	fails := verif.IntRange("fails", 1, 3)
	passes := verif.IntRange("passes", 1, 3)
	ck := &verifAChecker{fail: map[string]bool{}, seen: map[string]int{}}
	f := NewFilter(FilterConfig{Fails: fails, Passes: passes}, ck).(*filter)
	st := f.state

	pre := make([]verifAPre, 3)
	for h := range verifAHosts[:3] {
		// hosts below `free`: any past (new or known) and may leave; the others
		// were listed and stay; host c is healthy and passing (keeps the list
		// at >= 2 hosts together with one more)
		pre[h].present = h >= free || verif.Choice("was_listed", 2) == 1
		pre[h].healthy = true
		if !pre[h].present {
			continue
		}
		var t int
		var healthy bool
		if h == 2 {
			t, healthy = passes, true
		} else {
			t = verif.IntRange("trend", -3, 3)
			healthy = verif.Bool("was_healthy")
		}
		verif.Assume(verif.And(t >= -fails, t <= passes))
		verif.Assume(verif.Implies(healthy, t > -fails))
		verif.Assume(verif.Implies(!healthy, verif.And(t < passes, t != 0)))
		pre[h].trend = t
		pre[h].healthy = healthy
		st.all.Add(verifAHosts[h])
		if healthy {
			st.healthy.Add(verifAHosts[h])
		}
		if t != 0 {
			st.trend[verifAHosts[h]] = t
		}
	}

	addrs := stringset.New()
	for h := range verifAHosts[:3] {
		listed := h >= free || verif.Choice("listed", 2) == 1
		if pre[h].present && !listed {
			verif.Reach("host-left")
		}
		if listed {
			addrs.Add(verifAHosts[h])
		}
		ck.fail[verifAHosts[h]] = h != 2 && verif.Bool("check_fails")
	}
	verif.Assume(len(addrs) >= 2)

	got := f.Run(addrs)

	for h, addr := range verifAHosts[:3] {
		if !addrs.Has(addr) {
			// left (or never there): forgotten completely
			verif.Assert("absent-host-not-in-all", !st.all.Has(addr))
			verif.Assert("absent-host-not-healthy", !st.healthy.Has(addr))
			_, hasTrend := st.trend[addr]
			verif.Assert("absent-host-has-no-trend", !hasTrend)
			continue
		}
		p := pre[h]
		if !p.present {
			p = verifAPre{present: true, healthy: true, trend: 0} // starts healthy
		}
		failed := ck.fail[addr]
		streakFails := verif.Ite(p.trend < 0, -p.trend, 0)
		streakPass := verif.Ite(p.trend > 0, p.trend, 0)
		var wantHealthy bool
		var wantTrend int
		if failed {
			// unhealthy exactly when the last Fails checks failed after it was healthy
			wantHealthy = verif.And(p.healthy, streakFails+1 < fails)
			wantTrend = -verif.Ite(streakFails+1 < fails, streakFails+1, fails)
			verif.Cover("becomes-unhealthy", verif.And(p.healthy, !wantHealthy))
		} else {
			// healthy again exactly after Passes consecutive passes
			wantHealthy = verif.Or(p.healthy, streakPass+1 >= passes)
			wantTrend = verif.Ite(streakPass+1 < passes, streakPass+1, passes)
			verif.Cover("becomes-healthy", verif.And(!p.healthy, wantHealthy))
		}
		verif.Assert("reported-iff-healthy-by-the-hysteresis", got.Has(addr) == wantHealthy)
		verif.Assert("listed-host-in-all", st.all.Has(addr))
		verif.Assert("healthy-set-matches", st.healthy.Has(addr) == wantHealthy)
		verif.Assert("trend-encodes-the-streak", st.trend[addr] == wantTrend)
	}
}

// VerifActiveInductiveStep: one round from any invariant-satisfying state; hosts
// a and b may be new or known and may stay, join or leave.
func VerifActiveInductiveStep() { verifAInductiveStep(2) }

// VerifActiveFindingInductiveLeave: only host a joins or leaves: the state must
// forget a host that left completely, otherwise a later rejoin does not start
// healthy (regression check for the fixed finding).
func VerifActiveFindingInductiveLeave() { verifAInductiveStep(1) }
