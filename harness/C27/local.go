//kse:pkg tracker/peerstore
package peerstore

import (
	"sync"
	"time"

	"github.com/andres-erbsen/clock"
	"github.com/uber/kraken/core"
	verif "github.com/uber/kraken/zzverif"
)

const verifLMaxT = int64(1) << 58

var (
	verifLPeers  = []core.PeerID{{1}, {2}, {3}}
	verifLHashes = []core.InfoHash{{0xa}, {0xb}}
	verifLIPs    = []string{"10.0.0.1", "10.0.0.2"}
)

// verifLAnn is the ghost record of the latest announcement of (hash, peer).
type verifLAnn struct {
	announced bool
	ip        string
	port      int
	complete  bool
	at        int64 // ns
}

type verifLGhost struct {
	ann  [2][3]verifLAnn
	nann int
	ttl  int64
}

func (g *verifLGhost) everAnnounced(h int) int {
	n := 0
	for p := range g.ann[h] {
		if g.ann[h][p].announced {
			n++
		}
	}
	return n
}

func verifLPeerIndex(id core.PeerID) int {
	for i, p := range verifLPeers {
		if p == id {
			return i
		}
	}
	return -1
}

// verifLCheckGet checks one GetPeers(h, n) result against the ghost at instant
// now: at most n distinct peers, each equal to that peer's latest announcement
// for h; no peer whose latest announcement is younger than ttl is missing when n
// covers every peer ever announced for h.
func verifLCheckGet(s *LocalStore, g *verifLGhost, h int, n int, now, ttl int64, npeers int, covers bool) {
	res, err := s.GetPeers(verifLHashes[h], n)
	verif.Assert("get-peers-no-error", err == nil)
	if n < 0 {
		verif.Assert("negative-n-gives-nothing", len(res) == 0)
		return
	}
	verif.Assert("at-most-n", len(res) <= n)
	var seen [3]bool
	for _, pi := range res {
		p := verifLPeerIndex(pi.PeerID)
		verif.Assert("returned-peer-was-announced-for-this-hash", p >= 0 && p < npeers && g.ann[h][p].announced)
		verif.Assert("distinct-peers", !seen[p])
		seen[p] = true
		a := &g.ann[h][p]
		verif.Assert("latest-ip-port-complete", verif.And(pi.IP == a.ip, pi.Port == a.port, pi.Complete == a.complete))
		if covers {
			verif.Cover("returned-expired-entry", now > a.at+ttl)
		}
	}
	all := g.everAnnounced(h)
	for p := 0; p < npeers; p++ {
		a := &g.ann[h][p]
		if !a.announced {
			continue
		}
		fresh := now < a.at+ttl
		if covers {
			verif.Cover("expired-entry-forgotten", verif.And(!fresh, !seen[p], n >= all))
		}
		if !seen[p] {
			// missing although everything was asked for: must not be fresh
			verif.Assert("fresh-announcement-never-forgotten", verif.Or(n < all, !fresh))
		}
	}
}

func verifLAnnounce(s *LocalStore, g *verifLGhost, h, p int, now int64) {
	g.nann++
	ip := verifLIPs[g.nann%2] // alternates, so a stale ip is visible
	// Solver hint, not a restriction: expiry instants are ordered like the
	// announcements (follows from at <= now and the range bound: no overflow).
	for h := range g.ann {
		for q := range g.ann[h] {
			if g.ann[h][q].announced {
				verif.Assume(now+g.ttl >= g.ann[h][q].at+g.ttl)
			}
		}
	}
	port := verif.Int("port")
	complete := verif.Bool("complete")
	err := s.UpdatePeer(verifLHashes[h], core.NewPeerInfo(verifLPeers[p], ip, port, false, complete))
	verif.Assert("update-peer-no-error", err == nil)
	g.ann[h][p] = verifLAnn{announced: true, ip: ip, port: port, complete: complete, at: now}
}

func verifLSetup() (*LocalStore, *clock.Mock, int64, int64) {
	// small, arithmetic-heavy queries: decided faster (and more robustly on
	// modified trees) by z3's bit-vector tactic than by the incremental core
	verif.Option("solver_bv_tactic", 1)
	ttl := verif.Int64("ttl")
	verif.Assume(ttl >= 1)
	verif.Assume(ttl <= verifLMaxT)
	now := verif.Int64("t0")
	verif.Assume(now >= 0)
	verif.Assume(now <= verifLMaxT)
	verif.Note("instants and TTL within [0, 2^58] ns; the clock never goes backwards; tickers never fire, cleanup passes are invoked by the harness")
	clk := clock.NewMock()
	clk.Set(time.Unix(0, now))
	s := NewLocalStore(LocalConfig{TTL: time.Duration(ttl)}, clk)
	return s, clk, now, ttl
}

// verifLAdvance moves the clock to a later (or the same) instant. The new
// instant is a fresh unknown constrained to be >= now rather than now+delta,
// which keeps the solver's terms free of addition chains.
func verifLAdvance(clk *clock.Mock, now int64) int64 {
	t := verif.Int64("t")
	verif.Assume(t >= now)
	verif.Assume(t <= verifLMaxT)
	clk.Set(time.Unix(0, t))
	return t
}

// VerifLocalStoreHistory: sequences of announcements, clock advances, cleanup
// passes and lookups on one torrent.
func VerifLocalStoreHistory() {
	verif.Option("max_preempt", 0)
	npeers := verif.Bound("peers", 2, 3)
	steps := verif.Bound("steps", 4, 6)
	s, clk, now, ttl := verifLSetup()
	defer s.Close()
	g := &verifLGhost{ttl: ttl}
	for i := 0; i < steps; i++ {
		now = verifLAdvance(clk, now)
		// GetPeers does not modify the store, so looking only after the last
		// step loses nothing: every shorter history is a prefix padded with
		// cleanup passes that find nothing to do.
		switch op := verif.Choice("op", npeers+2); {
		case op < npeers:
			verifLAnnounce(s, g, 0, op, now)
		case op == npeers:
			s.cleanupExpiredPeerEntries()
		default:
			s.cleanupExpiredPeerGroups()
		}
	}
	now = verifLAdvance(clk, now)
	verifLCheckGet(s, g, 0, verif.IntRange("n", -1, npeers+1), now, ttl, npeers, true)
}

// VerifLocalStoreTwoTorrents: announcements for one torrent never show up in,
// and cleanup of one torrent never affects, another.
func VerifLocalStoreTwoTorrents() {
	verif.Option("max_preempt", 0)
	steps := verif.Bound("steps_two_torrents", 3, 4)
	s, clk, now, ttl := verifLSetup()
	defer s.Close()
	g := &verifLGhost{ttl: ttl}
	for i := 0; i < steps; i++ {
		now = verifLAdvance(clk, now)
		switch op := verif.Choice("op", 4); op {
		case 0, 1:
			verifLAnnounce(s, g, op, verif.Choice("peer", 2), now)
		case 2:
			s.cleanupExpiredPeerEntries()
		default:
			s.cleanupExpiredPeerGroups()
		}
	}
	for h := 0; h < 2; h++ {
		verifLCheckGet(s, g, h, 3, now, ttl, 2, false)
	}
}

// VerifLocalStoreConcurrentCleanup: a cleanup pass (entries, then groups) runs
// concurrently with a renewal or a first announcement (1 | 2 peers announced
// before, at symbolic instants, so they may or may not be expired); the
// concurrent announcement is not lost and shows its latest data afterwards.
func VerifLocalStoreConcurrentCleanup() {
	verif.Option("max_preempt", verif.Bound("preemptions", 1, 2))
	s, clk, now, ttl := verifLSetup()
	defer s.Close()
	g := &verifLGhost{ttl: ttl}
	verifLAnnounce(s, g, 0, 0, now)
	if verif.Bound("peers_before_race", 1, 2) == 2 {
		now = verifLAdvance(clk, now)
		verifLAnnounce(s, g, 0, 1, now)
	}
	now = verifLAdvance(clk, now)
	verif.Cover("first-announcement-expired", now > g.ann[0][0].at+ttl)
	verif.Cover("first-announcement-still-fresh", now < g.ann[0][0].at+ttl)

	// what the announcer thread will send (drawn before the threads start)
	who := 2 * verif.Choice("announcer", 2) // renewal of peer 0, or first announcement of peer 2
	var gmu sync.Mutex
	var wg sync.WaitGroup
	wg.Add(2)
	go func() {
		defer wg.Done()
		s.cleanupExpiredPeerEntries()
		s.cleanupExpiredPeerGroups()
	}()
	go func() {
		defer wg.Done()
		gmu.Lock()
		defer gmu.Unlock()
		verifLAnnounce(s, g, 0, who, now)
	}()
	wg.Wait()
	gmu.Lock()
	defer gmu.Unlock()
	// the concurrent announcement is fresh (age 0 < ttl), so the lookup must
	// return it with its latest data
	verifLCheckGet(s, g, 0, 3, now, ttl, 3, false)
	// the history goes on after the race: every peer seen so far announces once
	// more (the store's two indexes must still agree, or a peer shows up twice)
	for p := 0; p < 3; p++ {
		if g.ann[0][p].announced {
			verifLAnnounce(s, g, 0, p, now)
		}
	}
	verifLCheckGet(s, g, 0, 3, now, ttl, 3, false)
}
