//kse:pkg lib/persistedretry/tagreplication
package tagreplication

import (
	"errors"
	"sync"

	"github.com/uber-go/tally"
	"github.com/uber/kraken/build-index/tagclient"
	"github.com/uber/kraken/core"
	"github.com/uber/kraken/origin/blobclient"
	verif "github.com/uber/kraken/zzverif"
)

// Two replication tasks on ONE Executor at the same time, as the persisted-retry
// manager runs them (several workers share the executor): two tags of one
// image that share a dependency blob, same destination. A remote-origin
// replication takes time (it spans a schedule point), so the other task can
// arrive at the shared blob while it is still on its way. API-only.

type verifShared struct {
	mu        sync.Mutex
	deps      map[string]core.DigestList // tag -> dependencies
	confirmed map[core.Digest]bool       // a ReplicateToRemote for the blob has returned nil
	putOK     map[string]bool
	early     bool // a tag was put before all of its blobs were confirmed
}

type verifSharedOrigin struct {
	blobclient.Client
	w *verifShared
}

func (o *verifSharedOrigin) Addr() string { return "o0" }

func (o *verifSharedOrigin) ReplicateToRemote(namespace string, d core.Digest, remoteDNS string) error {
	fails := verif.Bool("replicate_fails")
	verif.Yield() // the upload to the remote origin cluster is in progress
	if fails {
		return errors.New("remote origin: connection reset")
	}
	o.w.mu.Lock()
	o.w.confirmed[d] = true
	o.w.mu.Unlock()
	return nil
}

type verifSharedResolver struct{ w *verifShared }

func (r *verifSharedResolver) Resolve(d core.Digest) ([]blobclient.Client, error) {
	return []blobclient.Client{&verifSharedOrigin{w: r.w}}, nil
}

type verifSharedTagClient struct {
	tagclient.Client
	w *verifShared
}

func (c *verifSharedTagClient) Has(tag string) (bool, error) { return false, nil }
func (c *verifSharedTagClient) Origin() (string, error)       { return verifRemoteDNS, nil }

func (c *verifSharedTagClient) PutAndReplicate(tag string, d core.Digest) error {
	w := c.w
	w.mu.Lock()
	defer w.mu.Unlock()
	for _, dep := range w.deps[tag] {
		if !w.confirmed[dep] {
			w.early = true
		}
	}
	w.putOK[tag] = true
	return nil
}

type verifSharedProvider struct{ c *verifSharedTagClient }

func (p *verifSharedProvider) Provide(addr string) tagclient.Client { return p.c }

// VerifConcurrentTasksSharedDependency
func VerifConcurrentTasksSharedDependency() {
	verif.Option("panic_is_violation", 1)
	verif.Option("max_preempt", verif.Bound("preemptions", 1, 2))
	shared, own1, own2 := verifDigest(0), verifDigest(1), verifDigest(2)
	tags := []string{"repo/image:v1", "repo/image:latest"}
	w := &verifShared{
		deps:      map[string]core.DigestList{tags[0]: {shared, own1}, tags[1]: {shared, own2}},
		confirmed: map[core.Digest]bool{},
		putOK:     map[string]bool{},
	}
	if verif.Bound("private_dependencies", 0, 1) == 0 {
		w.deps = map[string]core.DigestList{tags[0]: {shared}, tags[1]: {shared}}
	}
	e := NewExecutor(tally.NoopScope, blobclient.NewClusterClient(&verifSharedResolver{w}),
		&verifSharedProvider{&verifSharedTagClient{w: w}})
	errs := make([]error, 2)
	var wg sync.WaitGroup
	for i := range tags {
		wg.Add(1)
		i := i
		go func() {
			defer wg.Done()
			errs[i] = e.Exec(NewTask(tags[i], verifDigest(9), w.deps[tags[i]], verifDestination, 0))
		}()
	}
	wg.Wait()
	verif.Assert("tag-put-only-after-every-dependency-confirmed-remote", !w.early)
	for i, tag := range tags {
		verif.Cover("a-task-succeeded", errs[i] == nil)
		verif.Cover("a-task-failed", errs[i] != nil)
		if errs[i] == nil {
			verif.Assert("success-means-remote-holds-the-tag", w.putOK[tag])
			for _, dep := range w.deps[tag] {
				verif.Assert("success-means-every-dependency-is-remote", w.confirmed[dep])
			}
		}
	}
}
