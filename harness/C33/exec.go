//kse:pkg lib/persistedretry/tagreplication
package tagreplication

import (
	"errors"

	"github.com/uber-go/tally"
	"github.com/uber/kraken/build-index/tagclient"
	"github.com/uber/kraken/core"
	"github.com/uber/kraken/origin/blobclient"
	"github.com/uber/kraken/utils/httputil"
	verif "github.com/uber/kraken/zzverif"
)

const (
	verifTag         = "repo/image:v1"
	verifDestination = "remote-build-index:80"
	verifRemoteDNS   = "remote-origin-dns:80"
)

// verifRemote is the ghost state of the remote cluster and the call log.
type verifRemote struct {
	deps          core.DigestList
	confirmed     []bool // dependency i was confirmed present by some remote-origin replicate call
	hasTag        bool   // the remote build-index answered Has == true
	putCalls      int
	putOK         bool
	replicateLog  int
	accepted      int
	maxAccepted   int
	maxReplicates int
	originKnown   bool
}

func (w *verifRemote) depIndex(d core.Digest) int {
	for i, x := range w.deps {
		if x == d {
			return i
		}
	}
	return -1
}

// verifOrigin: one local origin as seen through blobclient.Client.
type verifOrigin struct {
	blobclient.Client
	addr string
	w    *verifRemote
}

func (o *verifOrigin) Addr() string { return o.addr }

func (o *verifOrigin) ReplicateToRemote(namespace string, d core.Digest, remoteDNS string) error {
	w := o.w
	w.replicateLog++
	verif.Assume(w.replicateLog <= w.maxReplicates)
	verif.Assert("replicate-names-the-tag-as-namespace", namespace == verifTag)
	verif.Assert("replicate-targets-the-remote-origin-cluster", remoteDNS == verifRemoteDNS)
	i := w.depIndex(d)
	verif.Assert("replicate-only-dependencies", i >= 0)
	switch verif.Choice("replicate_outcome", 3) {
	case 0: // 200: the blob is in the remote origin cluster
		w.confirmed[i] = true
		return nil
	case 1: // any other status: 202 (still fetching), 4xx, 5xx
		status := verif.IntRange("replicate_status", 100, 599)
		verif.Assume(status != 200)
		if status == 202 {
			w.accepted++
			verif.Assume(w.accepted <= w.maxAccepted)
		}
		return httputil.StatusError{Method: "POST", URL: "http://" + o.addr, Status: status}
	}
	return httputil.NetworkError{}
}

type verifResolver struct{ w *verifRemote }

func (r *verifResolver) Resolve(d core.Digest) ([]blobclient.Client, error) {
	if verif.Bool("resolve_fails") {
		return nil, errors.New("cluster is empty")
	}
	n := verif.Len("origins", 1, 2)
	cs := []blobclient.Client{&verifOrigin{addr: "o0", w: r.w}, &verifOrigin{addr: "o1", w: r.w}}
	return cs[:n], nil
}

// verifTagClient: the remote build-index.
type verifTagClient struct {
	tagclient.Client
	w *verifRemote
}

func (c *verifTagClient) Has(tag string) (bool, error) {
	verif.Assert("has-asks-for-the-tag", tag == verifTag)
	switch verif.Choice("has_outcome", 3) {
	case 0:
		c.w.hasTag = true
		return true, nil
	case 1:
		return false, nil
	}
	return false, errors.New("has: 503")
}

func (c *verifTagClient) Origin() (string, error) {
	if verif.Bool("origin_lookup_fails") {
		return "", errors.New("origin: 503")
	}
	c.w.originKnown = true
	return verifRemoteDNS, nil
}

func (c *verifTagClient) PutAndReplicate(tag string, d core.Digest) error {
	w := c.w
	w.putCalls++
	verif.Assert("put-names-the-tag", tag == verifTag)
	verif.Assert("put-carries-the-task-digest", d == verifDigest(9))
	for i := range w.deps {
		verif.Assert("tag-put-only-after-every-dependency-confirmed-remote", w.confirmed[i])
	}
	if verif.Bool("put_fails") {
		return errors.New("put: 500")
	}
	w.putOK = true
	return nil
}

type verifProvider struct {
	c        *verifTagClient
	provided []string
}

func (p *verifProvider) Provide(addr string) tagclient.Client {
	p.provided = append(p.provided, addr)
	return p.c
}

func verifDigest(i int) core.Digest {
	hex := []byte("00112233445566778899aabbccddeeff00112233445566778899aabbccddee00")
	hex[63] = "0123456789"[i]
	d, err := core.NewSHA256DigestFromHex(string(hex))
	if err != nil {
		panic(err)
	}
	return d
}

// VerifExecOrder: one execution of a tag replication task through the real
// Executor.Exec, the real blobclient cluster client (ReplicateToRemote -> Poll
// with its exponential backoff) and model remote services.
func VerifExecOrder() {
	verif.Option("panic_is_violation", 1) // a panic must never end a path silently
	ndeps := verif.Len("dependencies", 0, verif.Bound("max_dependencies", 2, 3))
	w := &verifRemote{
		maxAccepted:   verif.Bound("max_202_answers", 1, 2),
		maxReplicates: verif.Bound("max_replicate_calls", 4, 6),
	}
	for i := 0; i < ndeps; i++ {
		w.deps = append(w.deps, verifDigest(i))
		w.confirmed = append(w.confirmed, false)
	}
	p := &verifProvider{c: &verifTagClient{w: w}}
	e := NewExecutor(tally.NoopScope, blobclient.NewClusterClient(&verifResolver{w}), p)
	task := NewTask(verifTag, verifDigest(9), w.deps, verifDestination, 0)

	err := e.Exec(task)

	verif.Assert("remote-client-for-the-task-destination", len(p.provided) >= 1 && p.provided[0] == verifDestination)
	verif.Cover("exec-ok-after-put", err == nil && w.putOK)
	verif.Cover("exec-ok-noop", err == nil && w.hasTag)
	verif.Cover("exec-failed", err != nil)
	verif.Cover("polled-on-202", w.accepted > 0)
	verif.Cover("second-origin-used", w.replicateLog > ndeps && ndeps > 0)
	if err == nil {
		// the task leaves the retry queue only if the remote holds the tag
		verif.Assert("success-means-remote-holds-the-tag", w.hasTag || w.putOK)
	}
	verif.Assert("at-most-one-put", w.putCalls <= 1)
	if w.putCalls > 0 {
		verif.Assert("put-after-origin-lookup", w.originKnown)
	}
}
