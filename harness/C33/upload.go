//kse:pkg origin/blobclient
package blobclient

import (
	"bytes"
	"context"
	"errors"
	"io"

	"github.com/uber/kraken/core"
	"github.com/uber/kraken/utils/httputil"
	verif "github.com/uber/kraken/zzverif"
)

// The remote half of "the dependency blob is confirmed present in the remote
// origin cluster": a local origin answers ReplicateToRemote with 200 exactly
// when ClusterClient.UploadBlob against the remote cluster returned nil
// (blobserver.Server.replicateToRemote passes the result through). This
// harness runs the real clusterClient.UploadBlob over model remote origins.
// API-only (NewClusterClient, Client / ClientResolver interfaces).

type verifRemoteCluster struct {
	blob     []byte
	accepted bool // some remote origin took the complete blob
	wrong    bool // an origin accepted something else than the blob
	calls    int
}

type verifRemoteOrigin struct {
	Client
	addr string
	w    *verifRemoteCluster
}

func (o *verifRemoteOrigin) Addr() string { return o.addr }

func (o *verifRemoteOrigin) UploadBlob(ctx context.Context, namespace string, d core.Digest, blob io.Reader, size uint64) error {
	w := o.w
	w.calls++
	switch verif.Choice("remote_origin_outcome", 3) {
	case 0: // the origin reads the whole body and commits
		b, err := io.ReadAll(blob)
		if err != nil || !bytes.Equal(b, w.blob) || size != uint64(len(w.blob)) {
			w.wrong = true
		}
		w.accepted = true
		return nil
	case 1: // any error status; part of the body may have been consumed
		io.CopyN(io.Discard, blob, int64(verif.Len("bytes_consumed", 0, len(w.blob))))
		status := verif.IntRange("upload_status", 400, 599)
		return httputil.StatusError{Method: "POST", URL: "http://" + o.addr, Status: status}
	}
	// transport-level failure (origin down, connection reset)
	io.CopyN(io.Discard, blob, int64(verif.Len("bytes_consumed", 0, len(w.blob))))
	return httputil.NetworkError{}
}

type verifRemoteResolver struct {
	clients []Client
	fail    bool
}

func (r *verifRemoteResolver) Resolve(d core.Digest) ([]Client, error) {
	if r.fail {
		return nil, errors.New("remote cluster is empty")
	}
	return r.clients, nil
}

func verifUploadDigest() core.Digest {
	d, err := core.NewSHA256DigestFromHex("00112233445566778899aabbccddeeff00112233445566778899aabbccddeeff")
	if err != nil {
		panic(err)
	}
	return d
}

// VerifUploadToRemoteCluster: for every failure pattern of the remote origins,
// UploadBlob reports success only if one of them accepted the complete blob,
// and whenever one did, it reports success.
func VerifUploadToRemoteCluster() {
	verif.Option("panic_is_violation", 1)
	w := &verifRemoteCluster{blob: verif.Bytes("blob", 2)}
	// ClientResolver contract (cluster_client.go): "Resolve must return an ordered,
	// stable, non-empty list of Clients": at least one remote origin.
	verif.Note("ClientResolver.Resolve returns a non-empty list (its documented contract); with an empty list UploadBlob returns nil")
	n := verif.Len("remote_origins", 1, verif.Bound("max_remote_origins", 3, 3))
	r := &verifRemoteResolver{fail: verif.Bool("resolve_fails")}
	for i := 0; i < n; i++ {
		r.clients = append(r.clients, &verifRemoteOrigin{addr: []string{"r0", "r1", "r2"}[i], w: w})
	}
	err := NewClusterClient(r).UploadBlob(context.Background(), "repo/image:v1", verifUploadDigest(),
		bytes.NewReader(w.blob), uint64(len(w.blob)))
	verif.Cover("uploaded", err == nil)
	verif.Cover("all-remote-origins-failed", err != nil && w.calls >= 2)
	verif.Assert("an-accepting-origin-got-exactly-the-blob", !w.wrong)
	if err == nil {
		verif.Assert("success-only-if-a-remote-origin-accepted-the-blob", w.accepted)
	} else {
		verif.Assert("accepted-blob-means-success", !w.accepted)
	}
}
