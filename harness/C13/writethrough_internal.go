//kse:pkg lib/store
package store

import (
	"errors"
	"path/filepath"

	"github.com/andres-erbsen/clock"
	"github.com/uber-go/tally"
	verif "github.com/uber/kraken/zzverif"
)

// C13, part 3: the write-through path of CAStore
// (WriteBlobToCacheWithMetaInfo / addToMemoryCache / drainNext). Reads the
// unexported memCache field and uses newCAStore (mock clock: the ticker-driven
// workers stay parked; the drain worker's body is called directly).

// verifWTNames[n] is the SHA-256 of n zero bytes: the memory path verifies the
// digest of what was streamed, so the blob of n zero bytes is written under
// its true name.
var verifWTNames = []string{
	"e3b0c44298fc1c149afbf4c8996fb92427ae41e4649b934ca495991b7852b855",
	"6e340b9cffb37a989ca544e6bb780a2c78901d3fb33738768511a30617afa01d",
	"96a296d224f285c67bee93c30f8a309157f0daa35dc5b87e410b78630a09cfc7",
}

func verifWTStore(maxSize uint64) *CAStore {
	verif.Option("max_preempt", 0)
	root := verif.TempDir()
	cas, err := newCAStore(CAStoreConfig{
		UploadDir:     filepath.Join(root, "upload"),
		CacheDir:      filepath.Join(root, "cache"),
		UploadCleanup: CleanupConfig{Disabled: true},
		CacheCleanup:  CleanupConfig{Disabled: true},
		MemoryCache:   MemoryCacheConfig{Enabled: true, MaxSize: maxSize, DrainWorkers: 1, DrainMaxRetries: 1},
	}, tally.NoopScope, clock.NewMock())
	verif.Assert("new-store", err == nil)
	return cas
}

// verifWTBalance: at quiescence (no write in progress, hence no outstanding
// reservation) the accounted bytes equal the bytes of the stored entries.
func verifWTBalance(cas *CAStore, maxSize uint64) {
	var stored uint64
	n := 0
	for _, name := range verifWTNames {
		if e := cas.memCache.Get(name); e != nil {
			stored += uint64(len(e.Data))
			n++
		}
	}
	verif.Assert("entry-count", cas.memCache.NumEntries() == n)
	verif.Assert("accounted-bytes-equal-stored-bytes", cas.memCache.TotalBytes() == stored)
	verif.Assert("within-budget", cas.memCache.TotalBytes() <= maxSize)
}

// verifWTWrite performs one write-through write: the backend reported `size`
// bytes, the stream delivers `streamed` bytes and then succeeds or fails.
func verifWTWrite(cas *CAStore, name string, size uint64, streamed int, fail bool) error {
	return cas.WriteBlobToCacheWithMetaInfo(name, size, func(w FileReadWriter) error {
		if streamed > 0 {
			if _, err := w.Write(make([]byte, streamed)); err != nil {
				return err
			}
		}
		if fail {
			return errors.New("backend stream broke")
		}
		return nil
	}, 1)
}

func verifWTRun() {
	maxSize := verif.Uint64("max_size")
	cas := verifWTStore(maxSize)
	k := verif.Bound("ops", 2, 3)
	for i := 0; i < k; i++ {
		switch verif.Choice("op", 2) {
		case 0:
			streamed := verif.Len("streamed_len", verif.Bound("min_streamed_len", 1, 0), 2)
			name := verifWTNames[streamed]
			// the backend-reported size may differ from what the stream delivers
			size := uint64(streamed + verif.Choice("reported_size_delta", 3) - 1)
			if streamed == 0 && size > 1 {
				size = 0
			}
			verif.Cover("reported-size-differs", size != uint64(streamed))
			fail := verif.Choice("stream_outcome", 2) == 1
			inMem := cas.memCache.Get(name) != nil
			err := verifWTWrite(cas, name, size, streamed, fail)
			verif.Cover("write-failed", err != nil)
			verif.Cover("duplicate-while-in-memory", inMem)
			verif.Cover("went-to-memory", !inMem && cas.memCache.Get(name) != nil)
			verif.Cover("budget-refused", !inMem && !fail && cas.memCache.Get(name) == nil)
		case 1:
			cas.drainNext() // body of the drain worker
			verif.Reach("drained")
		}
		verifWTBalance(cas, maxSize)
	}
}

// VerifWriteThroughAccounting: writes that succeed, fail mid-stream or
// duplicate a blob already in memory, interleaved with drains, with the
// backend-reported size equal to the streamed length.
func VerifWriteThroughAccounting() {
	verifWTRun()
}

// VerifFindingWriteThroughSizeMismatch (fires on the current tree, see
// FINDINGS.md): one successful write whose backend-reported size differs from
// the streamed length, optionally followed by the drain of that blob.
func VerifFindingWriteThroughSizeMismatch() {
	maxSize := verif.Uint64("max_size")
	cas := verifWTStore(maxSize)
	streamed := verif.Len("streamed_len", 1, 2)
	size := uint64(verif.Len("reported_size", 0, 3))
	// (when the budget refuses the reservation the blob goes to disk)
	verifWTWrite(cas, verifWTNames[streamed], size, streamed, false)
	// regression check of the repaired defect F2: a blob whose length differs
	// from the reserved size must not be admitted to the memory cache
	verif.Cover("size-mismatch", size != uint64(streamed))
	verif.Assert("mismatching-blob-not-in-memory", verif.Implies(size != uint64(streamed), cas.memCache.Get(verifWTNames[streamed]) == nil))
	verifWTBalance(cas, maxSize)
	cas.drainNext()
	verifWTBalance(cas, maxSize)
}
