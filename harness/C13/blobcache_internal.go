//kse:pkg utils/cache
package cache

import (
	"time"

	"github.com/uber-go/tally"
	verif "github.com/uber/kraken/zzverif"
)

// Writes the unexported fields entries / totalSize of BlobMemoryCache to build
// an arbitrary pre-state; everything else (ghost, step, oracle) is in
// blobcache.go and uses the exported API only.

// VerifBlobMemoryCacheStep: inductive step. The cache is put into an
// arbitrary state satisfying the accounting invariant (any subset of the
// names stored with lengths 0..2 and symbolic creation times, up to two
// outstanding reservations of arbitrary size, any MaxSize with
// totalSize ≤ MaxSize), then one arbitrary operation runs and the invariant
// is checked again. With VerifBlobMemoryCacheAccounting (base case from the
// empty cache) this covers histories of any length over these universes.
func VerifBlobMemoryCacheStep() {
	verif.Option("solver_bv_tactic", 1) // 64-bit sums of symbolic sizes: the incremental core times out on a few of them
	g := &verifGhost{max: verif.Uint64("max_size"), entries: map[string]int{}, created: map[string]time.Time{}}
	c := NewBlobMemoryCache(BlobMemoryCacheConfig{MaxSize: g.max}, tally.NoopScope)
	for _, name := range verifNames {
		n := verif.Len("stored_len", -1, verif.Bound("blob_len", 1, 2))
		if n < 0 {
			continue
		}
		created := verifInstant("created_ns")
		c.entries[name] = &MemoryEntry{Name: name, Data: make([]byte, n), CreatedAt: created}
		g.entries[name] = n
		g.created[name] = created
		g.total += uint64(n)
	}
	nres := verif.Len("outstanding", 0, verif.Bound("outstanding", 1, 2))
	for i := 0; i < nres; i++ {
		var r verifReservation
		if verif.Choice("reservation_kind", 2) == 0 {
			r = verifReservation{verif.Uint64("outstanding_size"), -1}
		} else {
			n := verif.Len("outstanding_len", 0, verif.Bound("blob_len", 1, 2))
			r = verifReservation{uint64(n), n}
		}
		verif.Assume(r.size <= ^uint64(0)-g.total) // well-formed pre-state: the sum below is the true sum
		g.total += r.size
		g.reserved = append(g.reserved, r)
	}
	verif.Assume(g.total <= g.max) // the invariant
	c.totalSize = g.total
	verifCheckBalance(c, g)
	verifBlobCacheStep(c, g)
	verifCheckBalance(c, g)
}

