//kse:pkg utils/cache
package cache

import (
	"sync"
	"time"

	"github.com/uber-go/tally"
	verif "github.com/uber/kraken/zzverif"
)

// C13, part 1: BlobMemoryCache accounting. Ghost accounting lives in the
// harness: the set of stored entries with their lengths and the multiset of
// outstanding reservations. Callers follow the documented protocol
// (TryReserve(n) must succeed before Add of an n-byte entry; a refused Add or
// an abandoned write releases the reservation).

var verifNames = []string{"b0", "b1"}

type verifReservation struct {
	size uint64
	conc int // concrete size usable for an entry, -1 for a symbolic size
}

type verifGhost struct {
	max      uint64
	total    uint64 // Σ entries + Σ reservations; ≤ max by the invariant
	entries  map[string]int
	created  map[string]time.Time
	reserved []verifReservation
}

// verifInstant is a symbolic wall-clock instant in a range where Time.Sub
// cannot overflow (natively it would saturate, in the model it would wrap).
func verifInstant(name string) time.Time {
	ns := verif.Int64(name)
	verif.Assume(ns >= 0)
	verif.Assume(ns <= 1<<61)
	return time.Unix(0, ns)
}

func (g *verifGhost) dropReservation(i int) verifReservation {
	r := g.reserved[i]
	g.reserved = append(g.reserved[:i:i], g.reserved[i+1:]...)
	return r
}

// verifReserve performs TryReserve(sz) and checks the admission rule:
// admitted ⇒ total + sz ≤ max.
func verifReserve(c *BlobMemoryCache, g *verifGhost, sz uint64, conc int) bool {
	ok := c.TryReserve(sz)
	// total + sz ≤ max in overflow-free form (g.total ≤ g.max by the invariant)
	fits := verif.And(sz <= g.max, g.total <= g.max-sz)
	verif.Assert("admitted-reservation-fits-budget", verif.Implies(ok, fits))
	if ok {
		verif.Reach("reservation-admitted")
		g.reserved = append(g.reserved, verifReservation{sz, conc})
		g.total += sz
	} else {
		verif.Reach("reservation-refused")
	}
	return ok
}

func verifCheckBalance(c *BlobMemoryCache, g *verifGhost) {
	verif.Assert("accounted-bytes-balance", c.TotalBytes() == g.total)
	verif.Assert("within-budget", c.TotalBytes() <= g.max)
	verif.Assert("entry-count", c.NumEntries() == len(g.entries))
	for _, n := range verifNames {
		_, in := g.entries[n]
		e := c.Get(n)
		verif.Assert("membership", (e != nil) == in)
		if e != nil {
			verif.Assert("entry-length", len(e.Data) == g.entries[n])
		}
	}
}

func verifBlobCacheStep(c *BlobMemoryCache, g *verifGhost) {
	switch verif.Choice("op", 7) {
	case 0: // reserve an arbitrary amount
		sz := verif.Uint64("reserve_size")
		verifReserve(c, g, sz, -1)
	case 1: // reserve for a small blob that may later be added
		n := verif.Len("blob_len", 0, verif.Bound("blob_len", 1, 2))
		verifReserve(c, g, uint64(n), n)
	case 2: // abandon a reservation
		if len(g.reserved) == 0 {
			return
		}
		r := g.dropReservation(verif.Choice("which_reservation", len(g.reserved)))
		c.ReleaseReservation(r.size)
		g.total -= r.size
		verif.Reach("released")
	case 3: // complete a write: Add under a reservation; release if refused
		if len(g.reserved) == 0 {
			return
		}
		i := verif.Choice("which_reservation", len(g.reserved))
		if g.reserved[i].conc < 0 {
			return
		}
		r := g.dropReservation(i)
		name := verifNames[verif.Choice("name", len(verifNames))]
		created := verifInstant("created_ns")
		e := &MemoryEntry{Name: name, Data: make([]byte, r.conc), CreatedAt: created}
		_, dup := g.entries[name]
		added := c.Add(e)
		verif.Assert("add-refused-iff-duplicate", added == !dup)
		if added {
			g.entries[name] = r.conc
			g.created[name] = created
			verif.Reach("added")
		} else {
			c.ReleaseReservation(r.size)
			g.total -= r.size
			verif.Reach("duplicate-add-released")
		}
	case 4: // Remove
		name := verifNames[verif.Choice("name", len(verifNames))]
		c.Remove(name)
		if n, in := g.entries[name]; in {
			g.total -= uint64(n)
			delete(g.entries, name)
			delete(g.created, name)
			verif.Reach("removed")
		}
	case 5: // RemoveBatch of a subset (absent names are skipped)
		mask := verif.Choice("batch", 1<<len(verifNames))
		var names []string
		for i, n := range verifNames {
			if mask&(1<<i) != 0 {
				names = append(names, n)
			}
		}
		c.RemoveBatch(names)
		for _, name := range names {
			if n, in := g.entries[name]; in {
				g.total -= uint64(n)
				delete(g.entries, name)
				delete(g.created, name)
			}
		}
	case 6: // expiry sweep as done by CAStore.cleanupMemoryCacheExpiredEntries
		now := verifInstant("now_ns")
		ttl := time.Duration(verif.Int64("ttl_ns"))
		expired := c.GetExpiredEntries(now, ttl)
		seen := map[string]bool{}
		for _, name := range expired {
			cr, in := g.created[name]
			verif.Assert("expired-is-stored", in)
			verif.Assert("expired-is-older-than-ttl", now.Sub(cr) > ttl)
			verif.Assert("expired-listed-once", !seen[name])
			seen[name] = true
		}
		for name, cr := range g.created {
			if !seen[name] {
				verif.Assert("older-than-ttl-is-listed", !(now.Sub(cr) > ttl))
			}
		}
		c.RemoveBatch(expired)
		for _, name := range expired {
			g.total -= uint64(g.entries[name])
			delete(g.entries, name)
			delete(g.created, name)
			verif.Reach("expired-removed")
		}
	}
}

// VerifBlobMemoryCacheAccounting: every history of reserve / release / add /
// duplicate add / remove / batch remove / expiry keeps the accounted bytes
// equal to entries + outstanding reservations and within MaxSize.
func VerifBlobMemoryCacheAccounting() {
	g := &verifGhost{max: verif.Uint64("max_size"), entries: map[string]int{}, created: map[string]time.Time{}}
	c := NewBlobMemoryCache(BlobMemoryCacheConfig{MaxSize: g.max}, tally.NoopScope)
	k := verif.Bound("ops", 3, 5)
	for i := 0; i < k; i++ {
		verifBlobCacheStep(c, g)
		verifCheckBalance(c, g)
	}
}

// VerifBlobMemoryCacheExpiry: up to three entries with symbolic creation
// times, one expiry sweep with symbolic now/TTL: exactly the entries older
// than the TTL are listed and removed, and the accounting still balances.
func VerifBlobMemoryCacheExpiry() {
	g := &verifGhost{max: verif.Uint64("max_size"), entries: map[string]int{}, created: map[string]time.Time{}}
	c := NewBlobMemoryCache(BlobMemoryCacheConfig{MaxSize: g.max}, tally.NoopScope)
	n := verif.Len("entries", 1, len(verifNames))
	for i := 0; i < n; i++ {
		if !verifReserve(c, g, 1, 1) {
			return
		}
		g.dropReservation(0)
		created := verifInstant("created_ns")
		verif.Assert("added", c.Add(&MemoryEntry{Name: verifNames[i], Data: make([]byte, 1), CreatedAt: created}))
		g.entries[verifNames[i]] = 1
		g.created[verifNames[i]] = created
	}
	verifCheckBalance(c, g)
	now := verifInstant("now_ns")
	ttl := time.Duration(verif.Int64("ttl_ns"))
	expired := c.GetExpiredEntries(now, ttl)
	verif.Cover("some-expired", len(expired) > 0)
	verif.Cover("some-kept", len(expired) < n)
	c.RemoveBatch(expired)
	for _, name := range expired {
		cr := g.created[name]
		verif.Assert("expired-is-older-than-ttl", now.Sub(cr) > ttl)
		g.total -= uint64(g.entries[name])
		delete(g.entries, name)
		delete(g.created, name)
	}
	for _, cr := range g.created {
		verif.Assert("kept-is-not-older-than-ttl", !(now.Sub(cr) > ttl))
	}
	verifCheckBalance(c, g)
}

// VerifBlobMemoryCacheConcurrent: two writers following the write-through
// protocol (reserve, add, release when refused) and a remover run in every
// interleaving; at quiescence the accounted bytes equal the stored bytes.
func VerifBlobMemoryCacheConcurrent() {
	verif.Option("max_preempt", verif.Bound("preemptions", 1, 2))
	max := verif.Uint64("max_size")
	c := NewBlobMemoryCache(BlobMemoryCacheConfig{MaxSize: max}, tally.NoopScope)
	sameName := verif.Bool("same_name")
	var wg sync.WaitGroup
	var mu sync.Mutex
	abandoned := 0
	writer := func(name string, n int, abandon bool) {
		defer wg.Done()
		if !c.TryReserve(uint64(n)) {
			return
		}
		if abandon { // the write failed before Add
			c.ReleaseReservation(uint64(n))
			mu.Lock()
			abandoned++
			mu.Unlock()
			return
		}
		if !c.Add(&MemoryEntry{Name: name, Data: make([]byte, n)}) {
			c.ReleaseReservation(uint64(n))
		}
	}
	n0, n1 := 1, 2
	name1 := "b1"
	if sameName {
		name1 = "b0"
	}
	wg.Add(3)
	go writer("b0", n0, verif.Bool("abandon0"))
	go writer(name1, n1, verif.Bool("abandon1"))
	go func() {
		defer wg.Done()
		c.Remove("b0")
	}()
	wg.Wait()
	var stored uint64
	for _, name := range []string{"b0", "b1"} {
		if e := c.Get(name); e != nil {
			stored += e.Size()
		}
	}
	verif.Cover("both-stored", c.NumEntries() == 2)
	verif.Cover("write-abandoned", abandoned > 0)
	verif.Assert("quiescent-balance", c.TotalBytes() == stored)
	verif.Assert("within-budget", c.TotalBytes() <= max)
}
