//kse:pkg utils/cache
package cache

import (
	"time"

	verif "github.com/uber/kraken/zzverif"
)

// C13, part 2: LRUCache (key cache with size and TTL limits).

var verifKeys = []string{"k0", "k1", "k2", "k3"}

// verifLRUGhost is the reference: keys ordered by last Add, oldest first.
type verifLRUGhost struct {
	size  int
	order []string
}

func (g *verifLRUGhost) index(k string) int {
	for i, x := range g.order {
		if x == k {
			return i
		}
	}
	return -1
}

func (g *verifLRUGhost) remove(k string) {
	if i := g.index(k); i >= 0 {
		g.order = append(g.order[:i:i], g.order[i+1:]...)
	}
}

func (g *verifLRUGhost) add(k string) {
	g.remove(k)
	g.order = append(g.order, k)
	for len(g.order) > g.size {
		g.order = g.order[1:]
	}
}

func verifLRUCheck(c *LRUCache, g *verifLRUGhost, nkeys int) {
	verif.Assert("size-equals-reference", c.Size() == len(g.order))
	verif.Assert("size-within-limit", c.Size() <= g.size)
	for _, key := range verifKeys[:nkeys] {
		verif.Assert("membership-follows-lru-order", c.Has(key) == (g.index(key) >= 0))
	}
}

// VerifLRUEvictionOrder: without expiry (TTL one hour, no time passes) the
// cache holds at most Size keys and always drops the least recently added or
// refreshed key first: membership equals that of the reference list after
// every operation. Histories are made of the two operations that shape the
// order, Add and Delete, over every key, long enough for delete / re-add /
// overflow chains (Add a, Add b, Delete a, Add a, Add c needs five).
func VerifLRUEvictionOrder() {
	nkeys := verif.Bound("keys", 3, 4)
	size := verif.Len("size", verif.Bound("min_size", 2, 1), verif.Bound("max_size", 2, 3))
	c := NewLRUCache(LRUCacheConfig{Size: size, TTL: time.Hour})
	g := &verifLRUGhost{size: size}
	k := verif.Bound("ops", 5, 6)
	for i := 0; i < k; i++ {
		key := verifKeys[verif.Choice("key", nkeys)]
		if verif.Choice("op", 2) == 0 {
			present := g.index(key) >= 0
			full := len(g.order) == size
			c.Add(key)
			g.add(key)
			verif.Cover("refresh", present)
			verif.Cover("evict-on-add", full && !present)
		} else {
			verif.Cover("delete-present", g.index(key) >= 0)
			c.Delete(key)
			g.remove(key)
		}
		verifLRUCheck(c, g, nkeys)
	}
	// drain: adding fresh keys until everything older is pushed out exposes
	// any stale bookkeeping left behind by the history above
	for j := 0; j < size; j++ {
		c.Add(verifDrainKeys[j])
		g.add(verifDrainKeys[j])
		verif.Assert("size-equals-reference", c.Size() == len(g.order))
		for _, key := range verifKeys[:nkeys] {
			verif.Assert("membership-follows-lru-order", c.Has(key) == (g.index(key) >= 0))
		}
	}
}

var verifDrainKeys = []string{"d0", "d1", "d2"}

// VerifLRUClear: Clear in the middle of short histories (all four operations).
func VerifLRUClear() {
	nkeys := 2
	size := verif.Len("size", 1, 2)
	c := NewLRUCache(LRUCacheConfig{Size: size, TTL: time.Hour})
	g := &verifLRUGhost{size: size}
	k := verif.Bound("ops", 4, 5)
	for i := 0; i < k; i++ {
		switch verif.Choice("op", 3) {
		case 0:
			key := verifKeys[verif.Choice("key", nkeys)]
			c.Add(key)
			g.add(key)
		case 1:
			key := verifKeys[verif.Choice("key", nkeys)]
			c.Delete(key)
			g.remove(key)
		case 2:
			c.Clear()
			g.order = nil
			verif.Reach("cleared")
		}
		verifLRUCheck(c, g, nkeys)
	}
}

// VerifLRUExpiry: wall-clock time passes between operations (time.Sleep; the
// engine advances its clock by exactly the slept duration, natively at least
// that much passes). A key whose TTL had already elapsed before Has was called
// is never reported, and the size limit holds throughout. The oracle only
// uses instants the harness itself read from the clock, so it is exact under
// the engine and conservative natively.
func VerifLRUExpiry() {
	size := verif.Len("size", 1, 2)
	ttl := time.Duration(verif.IntRange("ttl_ns", 1_000_000, 20_000_000))
	c := NewLRUCache(LRUCacheConfig{Size: size, TTL: ttl})
	addedBy := map[string]time.Time{} // clock reading after the last Add returned
	k := verif.Bound("ops", 4, 6)
	for i := 0; i < k; i++ {
		switch verif.Choice("op", 3) {
		case 0:
			key := verifKeys[verif.Choice("key", 3)]
			c.Add(key)
			addedBy[key] = time.Now()
		case 1:
			time.Sleep(time.Duration(verif.IntRange("sleep_ns", 0, 30_000_000)))
		case 2:
		}
		verif.Assert("size-within-limit", c.Size() <= size)
		for _, key := range verifKeys[:3] {
			before := time.Now()
			has := c.Has(key)
			at, added := addedBy[key]
			if !added {
				verif.Assert("never-added-not-reported", !has)
				continue
			}
			expired := before.After(at.Add(ttl))
			verif.Cover("expired-key-queried", expired)
			verif.Cover("live-key-reported", has)
			verif.Assert("expired-key-not-reported", verif.Implies(expired, !has))
		}
	}
}
