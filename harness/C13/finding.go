//kse:pkg utils/cache
package cache

import (
	"github.com/uber-go/tally"
	verif "github.com/uber/kraken/zzverif"
)

// VerifFindingTryReserveOverflow (fires on the current tree, see FINDINGS.md):
// with some bytes already accounted, a reservation whose size makes the 64-bit
// sum totalSize+size wrap around is admitted although it takes the accounted
// bytes far above MaxSize, and the accounted total then shrinks.
func VerifFindingTryReserveOverflow() {
	max := verif.Uint64("max_size")
	c := NewBlobMemoryCache(BlobMemoryCacheConfig{MaxSize: max}, tally.NoopScope)
	first := verif.Uint64("first_size")
	if !c.TryReserve(first) {
		return
	}
	verif.Assert("first-fits", first <= max)
	second := verif.Uint64("second_size")
	ok := c.TryReserve(second)
	// first + second ≤ max in unbounded arithmetic
	fits := verif.And(second <= max, first <= max-second)
	verif.Assert("admitted-reservation-fits-budget", verif.Implies(ok, fits))
}
