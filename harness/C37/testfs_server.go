//kse:pkg lib/backend/testfs
package testfs

import (
	"bytes"
	"io"
	"net/http"
	"net/url"
	"strconv"

	verif "github.com/uber/kraken/zzverif"
)

// The testfs CLIENT is an HTTP client (net/http transport: not modelled). The
// testfs SERVER side is reached directly: the real Server built by NewServer,
// its real chi router (Handler()), and requests built by hand and served
// synchronously with ServeHTTP into a recording ResponseWriter. The files live
// in the engine's model file system.

// verifRecorder is a minimal http.ResponseWriter.
type verifRecorder struct {
	hdr    http.Header
	status int
	body   []byte
}

func (w *verifRecorder) Header() http.Header { return w.hdr }
func (w *verifRecorder) WriteHeader(s int) {
	if w.status == 0 {
		w.status = s
	}
}
func (w *verifRecorder) Write(p []byte) (int, error) {
	if w.status == 0 {
		w.status = http.StatusOK
	}
	w.body = append(w.body, p...)
	return len(p), nil
}

// verifServe sends one request to the handler the way the testfs client
// phrases it (method + /files/<path>) and returns what the server answered.
func verifServe(h http.Handler, method, path string, body []byte) *verifRecorder {
	r := &http.Request{
		Method:     method,
		URL:        &url.URL{Scheme: "http", Host: "testfs", Path: path},
		Proto:      "HTTP/1.1",
		ProtoMajor: 1,
		ProtoMinor: 1,
		Header:     http.Header{},
		Host:       "testfs",
	}
	if body != nil {
		r.Body = io.NopCloser(bytes.NewReader(body))
		r.ContentLength = int64(len(body))
	} else {
		r.Body = http.NoBody
	}
	w := &verifRecorder{hdr: http.Header{}}
	h.ServeHTTP(w, r)
	if w.status == 0 {
		// net/http sends 200 when the handler returns without writing.
		w.status = http.StatusOK
	}
	return w
}

// VerifTestfsServerHistory: a symbolic sequence of uploads (symbolic bytes,
// symbolic length), downloads and stats over two names (one in a
// sub-directory, as the pathers produce) against the real testfs Server.
// Oracle: download answers 200 with exactly the bytes last uploaded, stat
// answers 200 with that size in the Size header, names never uploaded get 404
// (which the client maps to ErrBlobNotFound).
func VerifTestfsServerHistory() {
	verif.Option("sched_fixed", 1)
	s := NewServer()
	h := s.Handler()
	names := []string{"root/aa11", "bb22"}
	last := make([][]byte, len(names))
	steps := verif.Bound("testfs_steps", 3, 4)
	maxSize := verif.Bound("testfs_max_size", 3, 4)
	for k := 0; k < steps; k++ {
		i := verif.Choice("name", len(names))
		p := "/files/" + names[i]
		switch verif.Choice("op", 3) {
		case 0: // upload
			n := verif.Len("size", 0, maxSize)
			data := verif.Bytes("data", n)
			w := verifServe(h, http.MethodPost, p, data)
			verif.Assert("upload-ok", w.status == http.StatusOK)
			if last[i] != nil && len(data) < len(last[i]) {
				verif.Cover("overwritten-with-shorter-content", true)
			}
			last[i] = append([]byte{}, data...)
		case 1: // download
			w := verifServe(h, http.MethodGet, p, nil)
			if last[i] == nil {
				verif.Assert("download-never-uploaded-is-404", w.status == http.StatusNotFound)
			} else {
				verif.Cover("downloaded-after-upload", true)
				verif.Assert("download-ok", w.status == http.StatusOK)
				verif.Assert("download-length", len(w.body) == len(last[i]))
				for j := range last[i] {
					verif.Assert("download-bytes", w.body[j] == last[i][j])
				}
			}
		default: // stat
			w := verifServe(h, http.MethodHead, p, nil)
			if last[i] == nil {
				verif.Assert("stat-never-uploaded-is-404", w.status == http.StatusNotFound)
			} else {
				verif.Cover("stat-after-upload", true)
				verif.Assert("stat-ok", w.status == http.StatusOK)
				size, err := strconv.ParseInt(w.hdr.Get("Size"), 10, 64)
				verif.Assert("stat-size-parses", err == nil)
				verif.Assert("stat-size", size == int64(len(last[i])))
			}
		}
	}
}
