//kse:pkg lib/backend/s3backend
package s3backend

import (
	"strings"

	"github.com/uber/kraken/lib/backend"
	"github.com/uber/kraken/lib/backend/namepath"
	verif "github.com/uber/kraken/zzverif"
)

var verifTagNames = []string{"r/a:1", "r/a:2", "r/b:1", "s:1"}

// VerifS3ListPaginatedDockerTags: the docker_tag path scheme. The bucket also
// holds objects under the same prefix that are not tags (the pather rejects
// their keys, the client skips them and asks for further pages); listing the
// tags of a prefix page by page returns every stored tag exactly once.
func VerifS3ListPaginatedDockerTags() {
	m := verifNewS3("bkt")
	c := verifClient(m, "/root", namepath.DockerTag, 0)
	base := "root/docker/registry/v2/repositories/"
	n := len(verifTagNames)
	stored := make([]bool, n)
	for i := 0; i < n; i++ {
		stored[i] = verif.Choice("stored", 2) == 1
		if stored[i] {
			rt := strings.Split(verifTagNames[i], ":")
			m.objects[base+rt[0]+"/_manifests/tags/"+rt[1]+"/current/link"] = []byte{1}
		}
	}
	junk := []string{base + "r/a/_layers/sha256/00/link", base + "r/a/_manifests/tags/1/index/sha256/00/link", base + "r/b/_uploads/u/data"}
	for _, k := range junk[:verif.Choice("junk_objects", len(junk)+1)] {
		m.objects[k] = []byte{2}
		verif.Cover("non-tag-object-under-prefix", true)
	}
	pageSize := 1 + verif.Choice("page_size", verif.Bound("max_page_size", 2, 3))
	prefixes := []string{"r", "r/a", ""}
	prefix := prefixes[verif.Choice("prefix", len(prefixes))]

	all := verifListAll(c, m, prefix, pageSize, n+len(junk)+3)

	for i := 0; i < n; i++ {
		cnt := 0
		for _, g := range all {
			if g == verifTagNames[i] {
				cnt++
			}
		}
		repo := strings.Split(verifTagNames[i], ":")[0]
		under := prefix == "" || repo == prefix || strings.HasPrefix(repo, prefix+"/")
		switch {
		case stored[i] && under:
			verif.Assert("stored-name-listed-exactly-once", cnt == 1)
		case !stored[i]:
			verif.Assert("never-uploaded-name-not-listed", cnt == 0)
		default:
			verif.Assert("listed-at-most-once", cnt <= 1)
		}
	}
	for _, g := range all {
		known := false
		for _, nme := range verifTagNames {
			known = known || g == nme
		}
		verif.Assert("only-tag-names-listed", known)
	}
}

// VerifS3ListUnpaginated: List without pagination options (page size is the
// configured list_max_keys). The result never contains a name twice or a name
// that was not stored, and when it carries no continuation token it is
// complete.
func VerifS3ListUnpaginated() {
	m := verifNewS3("bkt")
	maxKeys := 1 + verif.Choice("list_max_keys", 3)
	c := verifClient(m, "/root", namepath.Identity, maxKeys)
	n := verif.Bound("names", 4, 5)
	stored := make([]bool, n)
	for i := 0; i < n; i++ {
		stored[i] = verif.Choice("stored", 2) == 1
		if stored[i] {
			m.objects["root/"+verifNames[i]] = []byte{1}
		}
	}
	prefix := []string{"a", ""}[verif.Choice("prefix", 2)]
	res, err := c.List(prefix)
	verif.Assert("list-ok", err == nil)
	verif.Cover("truncated-result-carries-token", res.ContinuationToken != "")
	verif.Cover("complete-result", res.ContinuationToken == "")
	for i := 0; i < n; i++ {
		cnt := 0
		for _, g := range res.Names {
			if g == verifNames[i] {
				cnt++
			}
		}
		verif.Assert("listed-at-most-once", cnt <= 1)
		if !stored[i] {
			verif.Assert("never-uploaded-name-not-listed", cnt == 0)
		}
		if stored[i] && strings.HasPrefix(verifNames[i], prefix) && res.ContinuationToken == "" {
			verif.Assert("complete-when-no-continuation-token", cnt == 1)
		}
	}
	// the same listing continued with pagination from the returned token
	if res.ContinuationToken != "" {
		rest, err := c.List(prefix, backend.ListWithPagination(), backend.ListWithMaxKeys(n), backend.ListWithContinuationToken(res.ContinuationToken))
		verif.Assert("continuation-ok", err == nil)
		for i := 0; i < n; i++ {
			cnt := 0
			for _, g := range append(append([]string{}, res.Names...), rest.Names...) {
				if g == verifNames[i] {
					cnt++
				}
			}
			if stored[i] && strings.HasPrefix(verifNames[i], prefix) {
				verif.Assert("token-of-unpaginated-listing-continues-it", cnt == 1)
			}
		}
	}
}
