//kse:pkg lib/backend/s3backend
package s3backend

import (
	"github.com/uber-go/tally"
	"github.com/uber/kraken/lib/backend"
	"github.com/uber/kraken/lib/backend/namepath"
	verif "github.com/uber/kraken/zzverif"
)

// verifClient builds the client through its constructor, with the in-memory
// S3 plugged into the S3 seam (WithS3).
func verifClient(m *verifS3, root, pather string, listMaxKeys int) *Client {
	cfg := Config{Username: "u", Region: "r", Bucket: m.bucket, RootDirectory: root, NamePath: pather, ListMaxKeys: listMaxKeys}
	c, err := NewClient(cfg, UserAuthConfig{"u": AuthConfig{}}, tally.NoopScope, WithS3(m))
	verif.Assert("new-client", err == nil)
	return c
}

var verifNames = []string{"a/x", "a/y", "a/z", "ab", "b/x", "a/w"}

// verifListAll follows continuation tokens until the client reports none and
// returns all names in order of arrival.
func verifListAll(c *Client, m *verifS3, prefix string, pageSize int, maxCalls int) []string {
	var all []string
	token := ""
	for i := 0; ; i++ {
		verif.Assert("listing-terminates", i < maxCalls)
		res, err := c.List(prefix, backend.ListWithPagination(), backend.ListWithMaxKeys(pageSize), backend.ListWithContinuationToken(token))
		verif.Assert("list-ok", err == nil)
		all = append(all, res.Names...)
		if res.ContinuationToken == "" {
			return all
		}
		verif.Cover("followed-continuation-token", true)
		token = res.ContinuationToken
	}
}

// VerifS3ListPaginated: a subset of a small name space is stored (plus
// optionally an object outside the root and objects listed with a nil key);
// listing a prefix page by page returns every stored name under the prefix
// exactly once.
func VerifS3ListPaginated() {
	m := verifNewS3("bkt")
	c := verifClient(m, "/root", namepath.Identity, 0)
	n := verif.Bound("names", 5, 6)
	stored := make([]bool, n)
	for i := 0; i < n; i++ {
		stored[i] = verif.Choice("stored", 2) == 1
		if stored[i] {
			m.objects["root/"+verifNames[i]] = []byte{1}
		}
	}
	if verif.Choice("nil_key_object", 2) == 1 {
		// an object whose key S3 reports as nil: not a stored name
		m.objects["root/a/n"] = nil
		m.nilKeys["root/a/n"] = true
		verif.Cover("nil-key-listed", true)
	}
	m.omitTruncatedFlag = verif.Choice("omit_truncated_flag", 2) == 1
	pageSize := 1 + verif.Choice("page_size", verif.Bound("max_page_size", 3, 4))
	prefixes := []string{"a", "a/", ""}
	prefix := prefixes[verif.Choice("prefix", len(prefixes))]

	all := verifListAll(c, m, prefix, pageSize, n+3)

	want := 0
	for i := 0; i < n; i++ {
		under := len(verifNames[i]) >= len(prefix) && verifNames[i][:len(prefix)] == prefix
		cnt := 0
		for _, g := range all {
			if g == verifNames[i] {
				cnt++
			}
		}
		switch {
		case stored[i] && under:
			want++
			verif.Assert("stored-name-listed-exactly-once", cnt == 1)
		case !stored[i]:
			verif.Assert("never-uploaded-name-not-listed", cnt == 0)
		default:
			// Stored but not under the prefix as a string: the statement makes
			// no claim (the client cleans "a/" to "a", so "ab" is listed too).
			verif.Assert("listed-at-most-once", cnt <= 1)
		}
	}
	verif.Cover("several-pages", want > pageSize)
}
