//kse:pkg lib/backend/shadowbackend
package shadowbackend

import (
	"bytes"
	"errors"
	"io"

	"github.com/uber-go/tally"
	"github.com/uber/kraken/core"
	"github.com/uber/kraken/lib/backend"
	"github.com/uber/kraken/lib/backend/backenderrors"
	verif "github.com/uber/kraken/zzverif"
)

// verifMem is a remembering in-memory backend.Client with injectable failures:
// the two backends behind the shadow client.
type verifMem struct {
	blobs map[string][]byte
	// failNext: outcome of the next operation is an injected error
	fail func() bool
}

var verifInjected = errors.New("injected backend failure")

func (m *verifMem) Stat(namespace, name string) (*core.BlobInfo, error) {
	if m.fail() {
		return nil, verifInjected
	}
	b, ok := m.blobs[name]
	if !ok {
		return nil, backenderrors.ErrBlobNotFound
	}
	return core.NewBlobInfo(int64(len(b))), nil
}

func (m *verifMem) Upload(namespace, name string, src io.Reader) error {
	if m.fail() {
		return verifInjected
	}
	b, err := io.ReadAll(src)
	if err != nil {
		return err
	}
	m.blobs[name] = b
	return nil
}

func (m *verifMem) Download(namespace, name string, dst io.Writer) error {
	if m.fail() {
		return verifInjected
	}
	b, ok := m.blobs[name]
	if !ok {
		return backenderrors.ErrBlobNotFound
	}
	_, err := dst.Write(b)
	return err
}

func (m *verifMem) List(prefix string, opts ...backend.ListOption) (*backend.ListResult, error) {
	if m.fail() {
		return nil, verifInjected
	}
	var names []string
	for n := range m.blobs {
		if len(n) >= len(prefix) && n[:len(prefix)] == prefix {
			names = append(names, n)
		}
	}
	return &backend.ListResult{Names: names}, nil
}

func (m *verifMem) Close() error { return nil }

// VerifShadowHistory: uploads, downloads, stats through the shadow client over
// two remembering backends that may fail any operation. A successful upload is
// readable with the same bytes and size; not-found is reported only for names
// that were never (even partially) uploaded.
func VerifShadowHistory() {
	failures := verif.Bound("failures_injected", 1, 1) == 1
	mk := func(tag string) *verifMem {
		return &verifMem{blobs: map[string][]byte{}, fail: func() bool {
			return failures && verif.Choice("fail_"+tag, 2) == 1
		}}
	}
	a, s := mk("active"), mk("shadow")
	c := &Client{active: a, shadow: s, stats: tally.NoopScope}
	names := []string{"n1", "n2"}[:verif.Bound("names", 1, 2)]
	// last successfully uploaded content; attempted[i]: some upload was started
	last := make([][]byte, len(names))
	attempted := make([]bool, len(names))
	dirty := make([]bool, len(names)) // a failed upload after the last successful one
	steps := verif.Bound("steps", 3, 3)
	for st := 0; st < steps; st++ {
		i := verif.Choice("name", len(names))
		switch verif.Choice("op", 3) {
		case 0:
			data := verif.Bytes("data", verif.Len("size", 1, verif.Bound("max_size", 1, 2)))
			attempted[i] = true
			err := c.Upload("ns", names[i], bytes.NewReader(data))
			if err == nil {
				last[i] = append([]byte{}, data...)
				dirty[i] = false
				verif.Cover("upload-succeeded", true)
				verif.Assert("upload-ok-means-both-backends-hold-it", bytes.Equal(a.blobs[names[i]], data) && bytes.Equal(s.blobs[names[i]], data))
			} else {
				dirty[i] = true
				verif.Cover("upload-failed", true)
			}
		case 1:
			var b bytes.Buffer
			err := c.Download("ns", names[i], &b)
			if err == backenderrors.ErrBlobNotFound {
				verif.Assert("not-found-only-if-never-uploaded", last[i] == nil)
			}
			if err == nil && last[i] != nil && !dirty[i] {
				verif.Cover("download-after-upload", true)
				verif.Assert("download-bytes", bytes.Equal(b.Bytes(), last[i]))
			}
			if err == nil {
				verif.Assert("download-ok-only-if-upload-attempted", attempted[i])
			}
		default:
			info, err := c.Stat("ns", names[i])
			if err == backenderrors.ErrBlobNotFound {
				verif.Assert("not-found-only-if-never-uploaded", last[i] == nil)
			}
			if err == nil {
				verif.Assert("stat-ok-only-if-upload-attempted", attempted[i])
				if last[i] != nil && !dirty[i] {
					verif.Cover("stat-after-upload", true)
					verif.Assert("stat-size", info.Size == int64(len(last[i])))
				}
			}
		}
	}
}
