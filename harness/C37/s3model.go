//kse:pkg lib/backend/s3backend
package s3backend

import (
	"bytes"
	"io"
	"sort"
	"strings"

	"github.com/aws/aws-sdk-go/aws"
	"github.com/aws/aws-sdk-go/aws/awserr"
	"github.com/aws/aws-sdk-go/service/s3"
	"github.com/aws/aws-sdk-go/service/s3/s3manager"
	verif "github.com/uber/kraken/zzverif"
)

// verifS3 is an in-memory S3 that remembers uploads: the reference
// implementation of the four operations of the S3 seam (s3.go) that the client
// uses. It is the environment of the check, not the code under check.
//
// Listing follows the ListObjectsV2 contract: keys in lexicographic order,
// filtered by Prefix, at most MaxKeys per page, IsTruncated and
// NextContinuationToken set when more keys remain, ContinuationToken resumes
// after the last key of the previous page. ListObjectsV2Pages drives the
// callback the way the SDK paginator does (next page requested while the
// callback returns true and the page was truncated).
type verifS3 struct {
	bucket  string
	objects map[string][]byte
	// nilKeys: keys reported with a nil Key pointer in listings (the client has
	// a branch for this).
	nilKeys map[string]bool
	// omitTruncatedFlag: report IsTruncated == nil on the last page, which the
	// SDK type permits.
	omitTruncatedFlag bool
	listCalls         int
}

func verifNewS3(bucket string) *verifS3 {
	return &verifS3{bucket: bucket, objects: map[string][]byte{}, nilKeys: map[string]bool{}}
}

func (m *verifS3) checkBucket(b *string) {
	verif.Assert("s3-bucket-argument", b != nil && *b == m.bucket)
}

func (m *verifS3) HeadObject(input *s3.HeadObjectInput) (*s3.HeadObjectOutput, error) {
	m.checkBucket(input.Bucket)
	verif.Assert("s3-key-argument", input.Key != nil)
	b, ok := m.objects[*input.Key]
	if !ok {
		return nil, awserr.New("NotFound", "not found", nil)
	}
	return &s3.HeadObjectOutput{ContentLength: aws.Int64(int64(len(b)))}, nil
}

func (m *verifS3) Download(w io.WriterAt, input *s3.GetObjectInput, options ...func(*s3manager.Downloader)) (int64, error) {
	m.checkBucket(input.Bucket)
	verif.Assert("s3-key-argument", input.Key != nil)
	b, ok := m.objects[*input.Key]
	if !ok {
		return 0, awserr.New(s3.ErrCodeNoSuchKey, "no such key", nil)
	}
	// two parts, second first, as the concurrent downloader may do
	h := len(b) / 2
	if _, err := w.WriteAt(b[h:], int64(h)); err != nil {
		return 0, err
	}
	if _, err := w.WriteAt(b[:h], 0); err != nil {
		return 0, err
	}
	return int64(len(b)), nil
}

func (m *verifS3) Upload(input *s3manager.UploadInput, options ...func(*s3manager.Uploader)) (*s3manager.UploadOutput, error) {
	m.checkBucket(input.Bucket)
	verif.Assert("s3-key-argument", input.Key != nil)
	var buf bytes.Buffer
	if _, err := io.Copy(&buf, input.Body); err != nil {
		return nil, err
	}
	m.objects[*input.Key] = append([]byte(nil), buf.Bytes()...)
	return &s3manager.UploadOutput{}, nil
}

func (m *verifS3) sortedKeys() []string {
	keys := make([]string, 0, len(m.objects))
	for k := range m.objects {
		keys = append(keys, k)
	}
	sort.Strings(keys)
	return keys
}

func (m *verifS3) listPage(input *s3.ListObjectsV2Input, token *string) *s3.ListObjectsV2Output {
	maxKeys := int64(1000)
	if input.MaxKeys != nil {
		maxKeys = *input.MaxKeys
	}
	prefix := ""
	if input.Prefix != nil {
		prefix = *input.Prefix
	}
	out := &s3.ListObjectsV2Output{}
	var last string
	more := false
	for _, k := range m.sortedKeys() {
		if !strings.HasPrefix(k, prefix) {
			continue
		}
		if token != nil && k <= *token {
			continue
		}
		if int64(len(out.Contents)) >= maxKeys {
			more = true
			break
		}
		obj := &s3.Object{Key: aws.String(k)}
		if m.nilKeys[k] {
			obj.Key = nil
		}
		out.Contents = append(out.Contents, obj)
		last = k
	}
	out.KeyCount = aws.Int64(int64(len(out.Contents)))
	if more {
		out.IsTruncated = aws.Bool(true)
		out.NextContinuationToken = aws.String(last)
	} else if !m.omitTruncatedFlag {
		out.IsTruncated = aws.Bool(false)
	}
	return out
}

func (m *verifS3) ListObjectsV2Pages(input *s3.ListObjectsV2Input, fn func(*s3.ListObjectsV2Output, bool) bool) error {
	m.checkBucket(input.Bucket)
	m.listCalls++
	token := input.ContinuationToken
	for {
		page := m.listPage(input, token)
		lastPage := page.NextContinuationToken == nil
		if !fn(page, lastPage) {
			return nil
		}
		if lastPage {
			return nil
		}
		token = page.NextContinuationToken
	}
}
