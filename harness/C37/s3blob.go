//kse:pkg lib/backend/s3backend
package s3backend

import (
	"bytes"

	"github.com/uber/kraken/lib/backend/backenderrors"
	"github.com/uber/kraken/lib/backend/namepath"
	verif "github.com/uber/kraken/zzverif"
)

// verifPlainWriter hides every optional interface of bytes.Buffer, so that the
// client takes its capped-buffer download path.
type verifPlainWriter struct{ b *bytes.Buffer }

func (w verifPlainWriter) Write(p []byte) (int, error) { return w.b.Write(p) }

// verifWriterAt is a destination that supports WriteAt (direct download path).
type verifWriterAt struct{ buf []byte }

func (w *verifWriterAt) Write(p []byte) (int, error) {
	w.buf = append(w.buf, p...)
	return len(p), nil
}
func (w *verifWriterAt) WriteAt(p []byte, off int64) (int, error) {
	for int64(len(w.buf)) < off+int64(len(p)) {
		w.buf = append(w.buf, 0)
	}
	copy(w.buf[off:], p)
	return len(p), nil
}

// VerifS3BlobHistory: a symbolic sequence of uploads, downloads and stats over
// two names with symbolic contents against the remembering S3; every
// download returns the bytes last uploaded, Stat their length, names never
// uploaded give ErrBlobNotFound.
func VerifS3BlobHistory() {
	m := verifNewS3("bkt")
	pather := []string{namepath.Identity, namepath.ShardedDockerBlob}[verif.Choice("pather", 2)]
	c := verifClient(m, "/root", pather, 0)
	names := []string{"aa11", "bb22"}
	last := make([][]byte, len(names))
	steps := verif.Bound("steps", 3, 4)
	for s := 0; s < steps; s++ {
		i := verif.Choice("name", len(names))
		switch verif.Choice("op", 3) {
		case 0: // upload
			n := verif.Len("size", 0, verif.Bound("max_size", 1, 2))
			data := verif.Bytes("data", n)
			err := c.Upload("ns", names[i], bytes.NewReader(data))
			verif.Assert("upload-ok", err == nil)
			last[i] = append([]byte{}, data...)
		case 1: // download
			var got []byte
			var err error
			if verif.Choice("writer_at", 2) == 1 {
				w := &verifWriterAt{}
				err = c.Download("ns", names[i], w)
				got = w.buf
			} else {
				var b bytes.Buffer
				err = c.Download("ns", names[i], verifPlainWriter{&b})
				got = b.Bytes()
			}
			if last[i] == nil {
				verif.Assert("download-never-uploaded-is-not-found", err == backenderrors.ErrBlobNotFound)
			} else {
				verif.Cover("downloaded-after-upload", true)
				verif.Assert("download-ok", err == nil)
				verif.Assert("download-length", len(got) == len(last[i]))
				for k := range last[i] {
					verif.Assert("download-bytes", got[k] == last[i][k])
				}
			}
		default: // stat
			info, err := c.Stat("ns", names[i])
			if last[i] == nil {
				verif.Assert("stat-never-uploaded-is-not-found", err == backenderrors.ErrBlobNotFound)
			} else {
				verif.Cover("stat-after-upload", true)
				verif.Assert("stat-ok", err == nil)
				verif.Assert("stat-size", info.Size == int64(len(last[i])))
			}
		}
	}
}
