//kse:pkg lib/backend/testfs
package testfs

import (
	"net/http"
	"strings"

	verif "github.com/uber/kraken/zzverif"
)

// verifParseList parses the body listHandler writes: a JSON array of strings
// (or null) followed by a newline. The names used here need no escaping, so the
// strings are the text between successive pairs of double quotes. ok is false
// when the body does not have that shape.
func verifParseList(body []byte) (names []string, ok bool) {
	s := string(body)
	if s == "null\n" || s == "[]\n" {
		return nil, true
	}
	if !strings.HasPrefix(s, "[\"") || !strings.HasSuffix(s, "\"]\n") {
		return nil, false
	}
	s = s[2 : len(s)-3]
	return strings.Split(s, "\",\""), true
}

// VerifTestfsServerList: any sequence of uploads over three names (two of them
// under the directory "root", one written in repo:tag form, which the server
// stores as repo/tag), then a listing of the whole store or of "root". Oracle:
// the listing answers 200 and contains every stored name under the prefix
// exactly once and no name that was never uploaded.
func VerifTestfsServerList() {
	verif.Option("sched_fixed", 1)
	s := NewServer()
	h := s.Handler()
	// name as uploaded, and the path the server lists it under.
	names := []string{"root/aa11", "root/sub:bb22", "cc33"}
	listed := []string{"root/aa11", "root/sub/bb22", "cc33"}
	stored := make([]bool, len(names))
	steps := verif.Bound("testfs_list_uploads", 3, 4)
	for k := 0; k < steps; k++ {
		if verif.Choice("stop", 2) == 1 {
			break
		}
		i := verif.Choice("name", len(names))
		data := verif.Bytes("data", verif.Len("size", 0, 1))
		w := verifServe(h, http.MethodPost, "/files/"+names[i], data)
		verif.Assert("upload-ok", w.status == http.StatusOK)
		stored[i] = true
	}
	prefix := []string{"", "root"}[verif.Choice("prefix", 2)]
	under := 0
	for i := range names {
		if stored[i] && strings.HasPrefix(listed[i], prefix) {
			under++
		}
	}
	w := verifServe(h, http.MethodGet, "/list/"+prefix, nil)
	if prefix != "" && under == 0 {
		// Nothing was ever stored under the prefix: the directory does not
		// exist and the server answers with an error; the statement is about
		// stored names, nothing to check.
		return
	}
	verif.Assert("list-ok", w.status == http.StatusOK)
	got, ok := verifParseList(w.body)
	verif.Assert("list-body-is-a-json-string-array", ok)
	for i := range names {
		count := 0
		for _, g := range got {
			if g == listed[i] {
				count++
			}
		}
		if stored[i] && strings.HasPrefix(listed[i], prefix) {
			verif.Cover("stored-name-under-prefix", true)
			verif.Assert("stored-name-listed-exactly-once", count == 1)
		} else {
			verif.Assert("other-name-not-listed", count == 0)
		}
	}
	verif.Assert("nothing-else-listed", len(got) == under)
}
