//kse:pkg build-index/tagserver
package tagserver

import (
	"bytes"
	"context"

	"github.com/uber/kraken/core"
	verif "github.com/uber/kraken/zzverif"
)

var verifTags = []string{"repo:t1", "repo:t2"}

// verifHistory: a symbolic sequence of tag puts (unknown digests, one present
// dependency) and gets over two tags on one build-index node, with failures of
// the backend and of the write-back queue injected at every call.
//
// Oracle (per tag): once a put has succeeded, every later Get on this node
// succeeds and returns one and the same digest, which is one of the digests
// put for that tag; in write-through mode the backend holds exactly that
// digest when the put returns; in write-back mode a write-back task for the
// tag has been stored (or the backend already holds it), and executing the
// stored tasks with a healthy backend makes the backend hold that digest.
func verifHistory(writeThrough bool) {
	// The property quantifies over histories and fault sequences, not over
	// schedules: if the code under check spawns goroutines inside a put (e.g. a
	// fanned-out dependency check) they run in a fixed order here; schedules of
	// the dependency check are explored by VerifPutTagChecksEveryDependency.
	verif.Option("sched_fixed", 1)
	verif.Option("max_preempt", 0)
	verif.Option("max_threads", 64)
	n := verifNewNode(writeThrough)
	n.backend.faults = true
	n.wb.faults = true
	dep, err := core.NewSHA256DigestFromHex(verifDepHex[0])
	verif.Assert("dep-fixture", err == nil)
	n.origin.deps = core.DigestList{dep}
	n.origin.outcome = []int{0}
	n.origin.statted = []bool{false}

	put := make([][]core.Digest, len(verifTags)) // digests put so far per tag (successful or not)
	succeeded := make([]bool, len(verifTags))
	resolved := make([]core.Digest, len(verifTags)) // digest observed after the first success

	checkGet := func(i int, where string) {
		got, gerr := n.store.Get(verifTags[i])
		if gerr == nil {
			among := false
			for _, d := range put[i] {
				among = verif.Or(among, got == d)
			}
			verif.Assert("resolves-to-a-digest-that-was-put-for-it", among)
		}
		if !succeeded[i] {
			return
		}
		verif.Assert("get-after-successful-put-succeeds", gerr == nil)
		if resolved[i] == (core.Digest{}) {
			resolved[i] = got
		} else {
			verif.Cover("get-repeated-after-success", true)
			verif.Assert("tag-does-not-change-once-stored", got == resolved[i])
		}
	}

	steps := verif.Bound("steps", 2, 4)
	for st := 0; st < steps; st++ {
		i := verif.Choice("tag", len(verifTags))
		if verif.Choice("op", 2) == 0 {
			d := verifDigest("digest")
			put[i] = append(put[i], d)
			err := n.server.putTag(context.Background(), verifTags[i], d, n.origin.deps)
			verif.Cover("put-failed", err != nil)
			if err != nil {
				continue
			}
			verif.Cover("put-succeeded", true)
			verif.Cover("second-put-for-tag-succeeded", len(put[i]) > 1)
			succeeded[i] = true
			checkGet(i, "after-put")
			if writeThrough {
				held, ok := n.backend.blobs[verifTags[i]]
				verif.Assert("write-through-backend-holds-tag-when-put-returns", ok)
				verif.Assert("write-through-backend-holds-resolved-digest", bytes.Equal(held, []byte(resolved[i].String())))
			} else {
				_, inBackend := n.backend.blobs[verifTags[i]]
				verif.Assert("write-back-task-stored", n.wb.hasTaskFor(verifTags[i]) || inBackend)
			}
		} else {
			checkGet(i, "get")
		}
	}

	// "eventually": the backend becomes healthy and the stored write-back tasks run.
	n.backend.faults = false
	for _, t := range n.wb.tasks {
		verif.Assert("write-back-exec-with-healthy-backend", n.wb.exec.Exec(t) == nil)
	}
	for i := range verifTags {
		if !succeeded[i] {
			continue
		}
		checkGet(i, "final")
		held, ok := n.backend.blobs[verifTags[i]]
		verif.Assert("backend-eventually-holds-tag", ok)
		verif.Assert("backend-eventually-holds-resolved-digest", bytes.Equal(held, []byte(resolved[i].String())))
	}
}

func VerifTagHistoryWriteThrough() { verifHistory(true) }
func VerifTagHistoryWriteBack()    { verifHistory(false) }
