//kse:pkg build-index/tagserver
package tagserver

import (
	"context"
	"fmt"

	"github.com/uber/kraken/core"
	verif "github.com/uber/kraken/zzverif"
)

// verifDepUniverse: n distinct fixed dependency digests registered with the
// origin model; presence of each one is an unknown (0 present, 1 not found,
// 2 origin error) that the origin model branches on only when it is asked.
func verifDepUniverse(n *verifNode, count int) {
	n.origin.deps = nil
	n.origin.outcome = nil
	n.origin.statted = nil
	for i := 0; i < count; i++ {
		d, err := core.NewSHA256DigestFromHex(fmt.Sprintf("%02x", 0xa0+i) + verifHexTail)
		verif.Assert("dep-fixture", err == nil)
		n.origin.deps = append(n.origin.deps, d)
		n.origin.outcome = append(n.origin.outcome, 0)
		n.origin.statted = append(n.origin.statted, false)
	}
}

// verifDrawPresence: a fresh unknown presence for every dependency of the
// universe (what the origin cluster holds may change between two puts).
func verifDrawPresence(n *verifNode) {
	for i := range n.origin.outcome {
		n.origin.outcome[i] = verif.IntRange("dep_presence", 0, 2)
		n.origin.statted[i] = false
	}
}

// VerifPutTagManyDependencies: one tag put with 4..6 (thorough ..9)
// dependencies (an image with several layers), presence of each dependency
// unknown. The put succeeds only if every dependency is present: a dependency
// the code did not ask the origin about is unconstrained, so the solver makes
// it missing.
func VerifPutTagManyDependencies() {
	// Dependency checking is not a property about schedules: if the code under
	// check fans the lookups out over goroutines, run them in a fixed order.
	verif.Option("sched_fixed", 1)
	verif.Option("max_preempt", 0)
	verif.Option("max_threads", 64)
	n := verifNewNode(true)
	k := verif.Len("deps", 4, verif.Bound("many_deps", 6, 9))
	verifDepUniverse(n, k)
	verifDrawPresence(n)
	d := verifDigest("digest")
	err := n.server.putTag(context.Background(), "repo:t1", d, n.origin.deps)
	verif.Cover("many-deps-put-succeeded", err == nil)
	verif.Cover("many-deps-put-rejected", err != nil)
	if err == nil {
		allPresent := true
		for i := 0; i < k; i++ {
			allPresent = verif.And(allPresent, n.origin.outcome[i] == 0)
		}
		verif.Assert("every-dependency-is-present", allPresent)
		got, gerr := n.store.Get("repo:t1")
		verif.Assert("many-deps-tag-resolves", verif.And(gerr == nil, got == d))
	}
}
