//kse:pkg build-index/tagserver
package tagserver

import (
	"context"

	"github.com/uber/kraken/core"
	verif "github.com/uber/kraken/zzverif"
)

var verifDepHex = []string{
	"11" + verifHexTail, "22" + verifHexTail, "33" + verifHexTail,
}

// VerifPutTagChecksEveryDependency: a tag put with 0..3 dependencies, each of
// which the origin cluster reports present, missing, or fails to check, with
// any backend / write-back failure pattern in both write-back modes. The put
// succeeds only if every dependency was checked and reported present.
func VerifPutTagChecksEveryDependency() {
	n := verifNewNode(verif.Choice("write_through", 2) == 1)
	n.backend.faults = true
	n.wb.faults = true
	k := verif.Len("deps", 0, verif.Bound("deps", 3, 3))
	for i := 0; i < k; i++ {
		d, err := core.NewSHA256DigestFromHex(verifDepHex[i])
		verif.Assert("dep-fixture", err == nil)
		n.origin.deps = append(n.origin.deps, d)
		n.origin.outcome = append(n.origin.outcome, verif.Choice("dep_outcome", 3))
		n.origin.statted = append(n.origin.statted, false)
	}
	d := verifDigest("digest")
	err := n.server.putTag(context.Background(), "repo:t1", d, n.origin.deps)
	verif.Cover("put-succeeded-with-dependencies", err == nil && k > 0)
	verif.Cover("put-rejected", err != nil)
	if err == nil {
		for i := 0; i < k; i++ {
			verif.Assert("dependency-was-checked", n.origin.statted[i])
			verif.Assert("dependency-is-present", n.origin.outcome[i] == 0)
		}
	}
}
