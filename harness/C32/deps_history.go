//kse:pkg build-index/tagserver
package tagserver

import (
	"context"

	"github.com/uber/kraken/core"
	verif "github.com/uber/kraken/zzverif"
)

// VerifPutTagDependencyHistory: a sequence of tag puts on one build-index node
// whose dependency lists are drawn from two blobs A and B. What the origin
// cluster holds is an unknown that is drawn afresh before every put (a blob
// that was missing can have been uploaded, a blob that was there can have been
// deleted, the origin can be unreachable). Every put is judged on its own: it
// succeeds only if every blob of ITS dependency list is present in the origin
// cluster at that put, whatever earlier puts (accepted or rejected, of this
// tag or of another tag sharing the blob) saw.
func VerifPutTagDependencyHistory() {
	verif.Option("sched_fixed", 1)
	verif.Option("max_preempt", 0)
	verif.Option("max_threads", 64)
	n := verifNewNode(true)
	verifDepUniverse(n, 2)
	a, b := n.origin.deps[0], n.origin.deps[1]
	lists := []core.DigestList{{a}, {a, b}, {b}, {b, a}}

	puts := verif.Bound("dep_history_puts", 2, 3)
	rejectedBefore := false
	acceptedBefore := false
	for st := 0; st < puts; st++ {
		nlists := len(lists)
		if st == 0 {
			// A and B are interchangeable before the first put: its list starts with A.
			nlists = 2
		}
		deps := lists[verif.Choice("dep_list", nlists)]
		tag := verifTags[0]
		if st > 0 {
			tag = verifTags[verif.Choice("tag", len(verifTags))]
		}
		verifDrawPresence(n)
		d := verifDigest("digest")
		err := n.server.putTag(context.Background(), tag, d, deps)
		if err != nil {
			verif.Cover("history-put-rejected", true)
			rejectedBefore = true
			continue
		}
		verif.Cover("history-put-accepted", true)
		verif.Cover("history-put-accepted-after-a-rejected-put", rejectedBefore)
		verif.Cover("history-put-accepted-after-an-accepted-put", acceptedBefore)
		acceptedBefore = true
		allPresent := true
		for i, u := range n.origin.deps {
			listed := false
			for _, dep := range deps {
				if dep == u {
					listed = true
				}
			}
			if listed {
				allPresent = verif.And(allPresent, n.origin.outcome[i] == 0)
			}
		}
		verif.Assert("every-dependency-is-present-at-this-put", allPresent)
	}
}
