//kse:pkg build-index/tagserver
package tagserver

import (
	"errors"
	"io"
	"path/filepath"

	"github.com/uber-go/tally"
	"github.com/uber/kraken/build-index/tagstore"
	"github.com/uber/kraken/core"
	"github.com/uber/kraken/lib/backend"
	"github.com/uber/kraken/lib/backend/backenderrors"
	"github.com/uber/kraken/lib/persistedretry"
	"github.com/uber/kraken/lib/persistedretry/writeback"
	"github.com/uber/kraken/lib/store"
	"github.com/uber/kraken/origin/blobclient"
	"github.com/uber/kraken/utils/stringset"
	verif "github.com/uber/kraken/zzverif"
)

var verifInjected = errors.New("injected failure")

// verifOrigin: the origin cluster seen through blobclient.ClusterClient. Only
// Stat is used by putTag; the outcome per dependency is chosen by the harness.
type verifOrigin struct {
	blobclient.ClusterClient
	deps    core.DigestList
	outcome []int // per dependency: 0 present, 1 not found, 2 other error
	statted []bool
}

func (o *verifOrigin) Stat(namespace string, d core.Digest) (*core.BlobInfo, error) {
	for i, dep := range o.deps {
		if dep == d {
			o.statted[i] = true
			switch o.outcome[i] {
			case 0:
				return core.NewBlobInfo(1), nil
			case 1:
				return nil, blobclient.ErrBlobNotFound
			}
			return nil, verifInjected
		}
	}
	verif.Fail("origin-stat-of-unknown-digest", d.Hex())
	return nil, nil
}

// verifNoNeighbors: a build-index cluster of one node (neighbour replication
// is outside this property).
type verifNoNeighbors struct{}

func (verifNoNeighbors) Resolve() stringset.Set { return stringset.New() }

// verifBackend: remembering remote storage with failures injected per call
// (when faults is set).
type verifBackend struct {
	blobs  map[string][]byte
	faults bool
}

func (b *verifBackend) fail(op string) bool {
	return b.faults && verif.Choice("backend_"+op+"_fails", 2) == 1
}

func (b *verifBackend) Stat(namespace, name string) (*core.BlobInfo, error) {
	if b.fail("stat") {
		return nil, verifInjected
	}
	v, ok := b.blobs[name]
	if !ok {
		return nil, backenderrors.ErrBlobNotFound
	}
	return core.NewBlobInfo(int64(len(v))), nil
}

func (b *verifBackend) Upload(namespace, name string, src io.Reader) error {
	if b.fail("upload") {
		return verifInjected
	}
	v, err := io.ReadAll(src)
	if err != nil {
		return err
	}
	b.blobs[name] = v
	return nil
}

func (b *verifBackend) Download(namespace, name string, dst io.Writer) error {
	if b.fail("download") {
		return verifInjected
	}
	v, ok := b.blobs[name]
	if !ok {
		return backenderrors.ErrBlobNotFound
	}
	_, err := dst.Write(v)
	return err
}

func (b *verifBackend) List(prefix string, opts ...backend.ListOption) (*backend.ListResult, error) {
	return nil, verifInjected
}

func (b *verifBackend) Close() error { return nil }

// verifWriteBack: the persisted-retry manager seam. SyncExec runs the real
// write-back executor once (the retry policy belongs to C30); Add stores the
// task (the task table is sqlite) unless a failure is injected.
type verifWriteBack struct {
	exec   *writeback.Executor
	tasks  []persistedretry.Task
	faults bool
}

func (w *verifWriteBack) Add(t persistedretry.Task) error {
	if w.faults && verif.Choice("writeback_add_fails", 2) == 1 {
		return verifInjected
	}
	w.tasks = append(w.tasks, t)
	return nil
}

func (w *verifWriteBack) SyncExec(t persistedretry.Task) error { return w.exec.Exec(t) }
func (w *verifWriteBack) Close()                               {}
func (w *verifWriteBack) Find(interface{}) ([]persistedretry.Task, error) {
	return nil, nil
}

func (w *verifWriteBack) hasTaskFor(tag string) bool {
	for _, t := range w.tasks {
		if wt, ok := t.(*writeback.Task); ok && wt.Name == tag && wt.Namespace == tag {
			return true
		}
	}
	return false
}

type verifNode struct {
	server  *Server
	origin  *verifOrigin
	backend *verifBackend
	wb      *verifWriteBack
	store   tagstore.Store
}

func verifNewNode(writeThrough bool) *verifNode {
	root := verif.TempDir()
	fs, err := store.NewSimpleStore(store.SimpleStoreConfig{
		UploadDir:     filepath.Join(root, "upload"),
		CacheDir:      filepath.Join(root, "cache"),
		UploadCleanup: store.CleanupConfig{Disabled: true},
		CacheCleanup:  store.CleanupConfig{Disabled: true},
	}, tally.NoopScope)
	verif.Assert("simple-store", err == nil)
	be := &verifBackend{blobs: map[string][]byte{}}
	backends := &backend.Manager{}
	verif.Assert("register-backend", backends.Register(".*", be, false) == nil)
	wb := &verifWriteBack{exec: writeback.NewExecutor(tally.NoopScope, fs, backends)}
	ts := tagstore.New(tagstore.Config{WriteThrough: writeThrough}, fs, backends, wb)
	o := &verifOrigin{}
	s := New(Config{}, tally.NoopScope, backends, "", o, verifNoNeighbors{}, ts, nil, nil, nil, nil, nil)
	return &verifNode{server: s, origin: o, backend: be, wb: wb, store: ts}
}

const verifHexTail = "3a5c916c92643ff77519ffa742d3ec61b7f591b6b7504599d95a4a41134e28"

// verifDigest: a SHA-256 digest whose first two hex digits are unknown.
func verifDigest(name string) core.Digest {
	b := verif.Bytes(name, 2)
	for _, c := range b {
		verif.Assume(verif.Or(verif.And(c >= '0', c <= '9'), verif.And(c >= 'a', c <= 'f')))
	}
	d, err := core.NewSHA256DigestFromHex(string(b) + verifHexTail)
	verif.Assert("digest-fixture", err == nil)
	return d
}
