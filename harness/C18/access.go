//kse:pkg lib/torrent/scheduler/dispatch
package dispatch

import (
	"errors"
	"io"
	"time"

	"github.com/andres-erbsen/clock"
	"github.com/uber-go/tally"
	"github.com/uber/kraken/core"
	"github.com/uber/kraken/gen/go/proto/p2p"
	"github.com/uber/kraken/lib/torrent/networkevent"
	"github.com/uber/kraken/lib/torrent/scheduler/conn"
	"github.com/uber/kraken/lib/torrent/scheduler/torrentlog"
	"github.com/uber/kraken/lib/torrent/storage"
	verif "github.com/uber/kraken/zzverif"
	"github.com/willf/bitset"
	"go.uber.org/zap"
)

const verif18MaxTime = int64(1) << 40

var verif18Err = errors.New("verif: injected failure")

// V18InjectedErr is the injected failure (for harness files of other packages).
func V18InjectedErr() error { return verif18Err }

// ---- stubs at the storage / connection boundary ----

type Verif18Reader struct {
	CloseErr error
	Closed   int
}

func (r *Verif18Reader) Read(p []byte) (int, error) { return 0, io.EOF }
func (r *Verif18Reader) Close() error               { r.Closed++; return r.CloseErr }
func (r *Verif18Reader) Length() int                { return 1 }

// Verif18Torrent is a storage.Torrent with n one-byte pieces held in memory.
type Verif18Torrent struct {
	N        int
	Bits     *bitset.BitSet
	WriteErr error // result of the next WritePiece
	CloseErr error // result of Close of the next piece reader
	Hash     core.InfoHash
	Dig      core.Digest

	// CompleteCalls counts Complete() observations (reset by a harness before
	// the phase it is interested in); ObsAtCompletion is its value at the moment
	// the last missing piece was written (-1: the torrent has not completed
	// since the last reset).
	CompleteCalls   int
	ObsAtCompletion int
}

func Verif18NewTorrent(n int, complete bool) *Verif18Torrent {
	t := &Verif18Torrent{N: n, Bits: bitset.New(uint(n)), ObsAtCompletion: -1}
	t.Hash[0] = 7
	dig, err := core.NewSHA256DigestFromHex("00112233445566778899aabbccddeeff00112233445566778899aabbccddeeff")
	verif.Assert("fixed-digest", err == nil)
	t.Dig = dig
	if complete {
		for i := 0; i < n; i++ {
			t.Bits.Set(uint(i))
		}
	}
	return t
}

func (t *Verif18Torrent) Digest() core.Digest { verif.Yield(); return t.Dig }
func (t *Verif18Torrent) Stat() *storage.TorrentInfo {
	return nil
}
func (t *Verif18Torrent) NumPieces() int              { return t.N }
func (t *Verif18Torrent) Length() int64               { return int64(t.N) }
func (t *Verif18Torrent) PieceLength(piece int) int64 { return 1 }
func (t *Verif18Torrent) MaxPieceLength() int64       { return 1 }
func (t *Verif18Torrent) InfoHash() core.InfoHash     { return t.Hash }
func (t *Verif18Torrent) Complete() bool {
	verif.Yield() // storage is shared with the connection goroutines: schedule point
	t.CompleteCalls++
	return t.Bits.Count() == uint(t.N)
}
func (t *Verif18Torrent) BytesDownloaded() int64   { return int64(t.Bits.Count()) }
func (t *Verif18Torrent) Bitfield() *bitset.BitSet { return t.Bits.Clone() }
func (t *Verif18Torrent) String() string           { return "verif18torrent" }
func (t *Verif18Torrent) HasPiece(piece int) bool  { return t.Bits.Test(uint(piece)) }
func (t *Verif18Torrent) MissingPieces() []int {
	var m []int
	for i := 0; i < t.N; i++ {
		if !t.Bits.Test(uint(i)) {
			m = append(m, i)
		}
	}
	return m
}
func (t *Verif18Torrent) WritePiece(src storage.PieceReader, piece int) error {
	if t.WriteErr != nil {
		return t.WriteErr
	}
	if t.Bits.Test(uint(piece)) {
		return storage.ErrPieceComplete
	}
	t.Bits.Set(uint(piece))
	if t.Bits.Count() == uint(t.N) {
		t.ObsAtCompletion = t.CompleteCalls
	}
	return nil
}
func (t *Verif18Torrent) GetPieceReader(piece int) (storage.PieceReader, error) {
	if piece < 0 || piece >= t.N || !t.Bits.Test(uint(piece)) {
		return nil, verif18Err
	}
	return &Verif18Reader{CloseErr: t.CloseErr}, nil
}

type Verif18Messages struct {
	Sent []*conn.Message
	recv chan *conn.Message
}

func (m *Verif18Messages) Send(msg *conn.Message) error   { m.Sent = append(m.Sent, msg); return nil }
func (m *Verif18Messages) Receiver() <-chan *conn.Message { return m.recv }
func (m *Verif18Messages) Close()                         {}

type verif18Events struct{}

func (verif18Events) DispatcherComplete(*Dispatcher)         {}
func (verif18Events) PeerRemoved(core.PeerID, core.InfoHash) {}

type verif18NoEvents struct{}

func (verif18NoEvents) Produce(*networkevent.Event) {}
func (verif18NoEvents) Close() error                { return nil }

// Verif18NewDispatcher builds a dispatcher over t without the background
// request watcher (timers never fire under the engine).
func Verif18NewDispatcher(clk clock.Clock, events Events, t storage.Torrent) *Dispatcher {
	var local core.PeerID
	local[0] = 0xEE
	d, err := newDispatcher(Config{}, tally.NoopScope, clk, verif18NoEvents{}, events, local, t,
		zap.NewNop().Sugar(), torrentlog.NewNopLogger())
	verif.Assert("new-dispatcher", err == nil)
	if t.Complete() {
		d.complete()
	}
	return d
}

// Verif18AddPeer registers a remote peer that has every piece.
func Verif18AddPeer(d *Dispatcher, id byte, n int) (*peer, *Verif18Messages) {
	var pid core.PeerID
	pid[0] = id
	b := bitset.New(uint(n))
	for i := 0; i < n; i++ {
		b.Set(uint(i))
	}
	msgs := &Verif18Messages{recv: make(chan *conn.Message)}
	p, err := d.addPeer(pid, false, b, msgs)
	verif.Assert("add-peer", err == nil)
	return p, msgs
}

// Verif18Serve: the remote peer asks for piece i; the dispatcher answers; the
// connection then writes the payload out and closes its reader (as
// conn.sendPiecePayload does). Returns whether the piece was served, i.e. a
// payload message was produced and its reader closed without error.
func Verif18Serve(d *Dispatcher, p *peer, msgs *Verif18Messages, i int) bool {
	before := len(msgs.Sent)
	d.handlePieceRequest(p, &p2p.PieceRequestMessage{Index: int32(i), Offset: 0, Length: 1})
	if len(msgs.Sent) == before {
		return false
	}
	m := msgs.Sent[len(msgs.Sent)-1]
	if m.Payload == nil {
		return false // error message
	}
	return m.Payload.Close() == nil
}

// Verif18Receive: the remote peer delivers piece i.
func Verif18Receive(d *Dispatcher, p *peer, i int) {
	d.handlePiecePayload(p, &p2p.PiecePayloadMessage{Index: int32(i), Offset: 0, Length: 1}, &Verif18Reader{})
}

type verif18Env struct {
	clk         *clock.Mock
	t           *Verif18Torrent
	d           *Dispatcher
	p           *peer
	msgs        *Verif18Messages
	now         int64
	lastServe   int64 // ghost: time of the last piece served (or creation)
	lastReceive int64 // ghost: time of the last piece received (or creation)
}

func verif18NewEnv(n int, complete bool) *verif18Env {
	e := &verif18Env{clk: clock.NewMock()}
	e.t = Verif18NewTorrent(n, complete)
	e.d = Verif18NewDispatcher(e.clk, verif18Events{}, e.t)
	e.p, e.msgs = Verif18AddPeer(e.d, 1, n)
	return e
}

func (e *verif18Env) advance() {
	dt := verif.Int64("dt_ns")
	verif.Assume(verif.And(dt >= 0, dt <= verif18MaxTime))
	e.clk.Add(time.Duration(dt))
	e.now += dt
}

func (e *verif18Env) check() {
	// the idle clocks may never be older than the last real activity
	lr := e.d.LastReadTime().Sub(time.Unix(0, 0))
	lw := e.d.LastWriteTime().Sub(time.Unix(0, 0))
	verif.Assert("last-read-not-before-last-piece-served", int64(lr) >= e.lastServe)
	verif.Assert("last-write-not-before-last-piece-received", int64(lw) >= e.lastReceive)
	verif.Assert("last-read-not-in-future", int64(lr) <= e.now)
	verif.Assert("last-write-not-in-future", int64(lw) <= e.now)
}

// VerifAccessLeecherTimeline: a leeching torrent receives pieces (good,
// failing, duplicate) at symbolic times; LastWriteTime is never older than the
// last piece actually received.
func VerifAccessLeecherTimeline() {
	n := 3
	e := verif18NewEnv(n, false)
	k := verif.Bound("events", 3, 5)
	for s := 0; s < k; s++ {
		e.advance()
		i := verif.Choice("piece", n)
		e.t.WriteErr = nil
		if verif.Bool("write_fails") {
			e.t.WriteErr = verif18Err
		}
		had := e.t.HasPiece(i)
		Verif18Receive(e.d, e.p, i)
		if e.t.WriteErr == nil && !had {
			verif.Reach("piece-received")
			verif.Assert("piece-stored", e.t.HasPiece(i))
			e.lastReceive = e.now
		}
		e.check()
	}
}

// VerifAccessFindingSeederServe: a seeding torrent serves pieces at symbolic
// times; LastReadTime must not be older than the last piece served.
// Regression check for FINDINGS.md (fixed upstream by 25099d2).
func VerifAccessFindingSeederServe() {
	n := 2
	e := verif18NewEnv(n, true)
	k := verif.Bound("serve_events", 2, 4)
	for s := 0; s < k; s++ {
		e.advance()
		i := verif.Choice("piece", n)
		e.t.CloseErr = nil
		if verif.Bool("close_fails") {
			e.t.CloseErr = verif18Err
		}
		if Verif18Serve(e.d, e.p, e.msgs, i) {
			verif.Reach("piece-served")
			e.lastServe = e.now
		}
		e.check()
	}
}

// VerifAccessSeederRejects: requests that serve nothing (unknown
// piece, chunk request) never make the idle clock run ahead of the wall clock
// and never panic; pieces are not written by serving.
func VerifAccessSeederRejects() {
	n := 2
	e := verif18NewEnv(n, true)
	e.advance()
	idx := verif.Int32("index")
	verif.Assume(verif.Or(idx < 0, idx >= int32(n)))
	before := len(e.msgs.Sent)
	e.d.handlePieceRequest(e.p, &p2p.PieceRequestMessage{Index: idx, Offset: 0, Length: 1})
	verif.Assert("rejected-with-one-message", len(e.msgs.Sent) == before+1)
	verif.Assert("rejected-without-payload", e.msgs.Sent[before].Payload == nil)
	e.check()
}
