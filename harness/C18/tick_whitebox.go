//kse:pkg lib/torrent/scheduler
package scheduler

import (
	"time"

	"github.com/andres-erbsen/clock"
	"github.com/uber-go/tally"
	"github.com/uber/kraken/core"
	"github.com/uber/kraken/lib/torrent/networkevent"
	"github.com/uber/kraken/lib/torrent/scheduler/announcequeue"
	"github.com/uber/kraken/lib/torrent/scheduler/announcer"
	"github.com/uber/kraken/lib/torrent/scheduler/dispatch"
	"github.com/uber/kraken/lib/torrent/scheduler/torrentlog"
	"github.com/uber/kraken/lib/torrent/storage"
	"github.com/uber/kraken/tracker/announceclient"
	verif "github.com/uber/kraken/zzverif"
	"go.uber.org/zap"
)

// C18, scheduler level (white-box file: the scheduler value is assembled
// field by field and state.torrentControls is read): the real
// preemptionTickEvent.apply / state.removeTorrent decide about a torrent whose
// real Dispatcher (over the in-memory stub torrent of access.go) served /
// received pieces at symbolic times.

const verif18MaxNs = int64(1) << 40

type verif18Loop struct{}

func (verif18Loop) send(event) bool                        { return true }
func (verif18Loop) sendTimeout(event, time.Duration) error { return nil }
func (verif18Loop) run(*state)                             {}
func (verif18Loop) stop()                                  {}

type verif18NoNet struct{}

func (verif18NoNet) Produce(*networkevent.Event) {}
func (verif18NoNet) Close() error                { return nil }

type verif18Archive struct {
	t               *dispatch.Verif18Torrent
	deleted         int
	deletedComplete int // DeleteTorrent calls that hit a completed torrent
}

func (a *verif18Archive) Stat(string, core.Digest) (*storage.TorrentInfo, error) {
	return nil, storage.ErrNotFound
}
func (a *verif18Archive) CreateTorrent(string, core.Digest) (storage.Torrent, error) { return a.t, nil }
func (a *verif18Archive) GetTorrent(string, core.Digest) (storage.Torrent, error)    { return a.t, nil }
func (a *verif18Archive) DeleteTorrent(d core.Digest) error {
	if d == a.t.Dig {
		a.deleted++
		if a.t.Bits.Count() == uint(a.t.N) {
			a.deletedComplete++
		}
	}
	return nil
}

type verif18Sched struct {
	clk        *clock.Mock
	arch       *verif18Archive
	st         *state
	seederTTI  int64
	leecherTTI int64
	now        int64
	created    int64
}

func verif18NewSched(n int, complete bool) *verif18Sched {
	return verif18NewSchedOpt(n, complete, true)
}

func verif18NewSchedOpt(n int, complete bool, sequential bool) *verif18Sched {
	// The goroutines started by the code under test (request watcher, announce,
	// completion notice into a loop stub that drops events) do not influence
	// the decisions checked here: no preemption, fixed resume order.
	verif.Option("max_preempt", 0)
	verif.Option("sched_fixed", 1)
	return verif18BuildSched(n, complete)
}

func verif18BuildSched(n int, complete bool) *verif18Sched {
	e := &verif18Sched{clk: clock.NewMock()}
	e.seederTTI = verif.Int64("seeder_tti_ns")
	e.leecherTTI = verif.Int64("leecher_tti_ns")
	verif.Assume(verif.And(e.seederTTI >= 1, e.seederTTI <= verif18MaxNs, e.leecherTTI >= 1, e.leecherTTI <= verif18MaxNs))
	e.arch = &verif18Archive{t: dispatch.Verif18NewTorrent(n, complete)}
	lifted := liftEventLoop(verif18Loop{})
	logger := zap.NewNop().Sugar()
	var pid core.PeerID
	pid[0] = 0xEE
	s := &scheduler{
		pctx: core.PeerContext{PeerID: pid, IP: "localhost", Port: 1},
		config: Config{SeederTTI: time.Duration(e.seederTTI), LeecherTTI: time.Duration(e.leecherTTI),
			ConnTTI: time.Hour, ConnTTL: time.Hour},
		clock:          e.clk,
		torrentArchive: e.arch,
		stats:          tally.NoopScope,
		eventLoop:      lifted,
		announceClient: announceclient.Disabled(),
		announcer:      announcer.Default(announceclient.Disabled(), lifted, e.clk, logger),
		netevents:      verif18NoNet{},
		torrentlog:     torrentlog.NewNopLogger(),
		logger:         logger,
		done:           make(chan struct{}),
	}
	e.st = newState(s, announcequeue.New())
	return e
}

func (e *verif18Sched) advance() {
	dt := verif.Int64("dt_ns")
	verif.Assume(verif.And(dt >= 0, dt <= verif18MaxNs))
	e.clk.Add(time.Duration(dt))
	e.now += dt
}

func (e *verif18Sched) present() bool {
	_, ok := e.st.torrentControls[e.arch.t.Hash]
	return ok
}

// VerifIdleTickLeecher: an in-progress torrent receives pieces (good or
// failing) at symbolic times, then a tick comes at a symbolic time. It is
// dropped only if no piece was received for the leecher limit, and dropping
// it deletes the partial file; if it is kept nothing is deleted.
func VerifIdleTickLeecher() {
	e := verif18NewSched(3, false)
	e.advance()
	// the control is opened by a local Download, or by a remote peer's incoming
	// connection for a partially downloaded blob (state.addIncomingConn)
	local := verif.Choice("opened_by_local_download", 2) == 1
	ctrl, err := e.st.addTorrent("ns", e.arch.t, local)
	verif.Assert("add-torrent", err == nil)
	lastReceive := e.now // creation counts as the start of the idle period
	p, _ := dispatch.Verif18AddPeer(ctrl.dispatcher, 1, 3)
	k := verif.Bound("receive_events", 2, 4)
	for s := 0; s < k; s++ {
		e.advance()
		i := verif.Choice("piece", 2) // never the last missing one: stays in progress
		e.arch.t.WriteErr = nil
		if verif.Bool("write_fails") {
			e.arch.t.WriteErr = dispatch.V18InjectedErr()
		}
		had := e.arch.t.HasPiece(i)
		dispatch.Verif18Receive(ctrl.dispatcher, p, i)
		if e.arch.t.WriteErr == nil && !had {
			verif.Reach("piece-received")
			lastReceive = e.now
		}
	}
	e.advance()
	preemptionTickEvent{}.apply(e.st)
	if !e.present() {
		verif.Reach("leecher-dropped")
		verif.Assert("dropped-only-after-leecher-idle-limit", e.now-lastReceive >= e.leecherTTI)
		verif.Assert("dropping-in-progress-deletes-partial-file", e.arch.deleted == 1)
	} else {
		verif.Reach("leecher-kept")
		verif.Assert("kept-torrent-not-deleted", e.arch.deleted == 0)
	}
}

// VerifIdleTickSeederIdle: a completed torrent that serves nothing: dropped
// only after the seeder limit since it was opened, and never deleted.
func VerifIdleTickSeederIdle() {
	e := verif18NewSched(2, true)
	e.advance()
	_, err := e.st.addTorrent("ns", e.arch.t, false)
	verif.Assert("add-torrent", err == nil)
	opened := e.now
	e.advance()
	preemptionTickEvent{}.apply(e.st)
	verif.Cover("seeder-dropped", !e.present())
	verif.Cover("seeder-kept", e.present())
	if !e.present() {
		verif.Assert("dropped-only-after-seeder-idle-limit", e.now-opened >= e.seederTTI)
	}
	verif.Assert("completed-blob-never-deleted-by-idle-drop", e.arch.deleted == 0)
}

// VerifIdleTickFindingSeederServed: a completed torrent serves pieces at
// symbolic times, then a tick: dropped only if nothing was served for the
// seeder limit. Regression check for FINDINGS.md (fixed upstream by 25099d2).
func VerifIdleTickFindingSeederServed() {
	e := verif18NewSched(2, true)
	ctrl, err := e.st.addTorrent("ns", e.arch.t, false)
	verif.Assert("add-torrent", err == nil)
	lastServe := e.now
	p, msgs := dispatch.Verif18AddPeer(ctrl.dispatcher, 1, 2)
	e.advance()
	if dispatch.Verif18Serve(ctrl.dispatcher, p, msgs, verif.Choice("piece", 2)) {
		verif.Reach("piece-served")
		lastServe = e.now
	}
	e.advance()
	preemptionTickEvent{}.apply(e.st)
	if !e.present() {
		verif.Reach("seeder-dropped")
		verif.Assert("dropped-only-after-seeder-idle-limit", e.now-lastServe >= e.seederTTI)
	}
	verif.Assert("completed-blob-never-deleted-by-idle-drop", e.arch.deleted == 0)
}

// VerifCancelDeletesPartialFile: manual removal of an in-progress download
// deletes its partial file.
func VerifCancelDeletesPartialFile() {
	e := verif18NewSched(2, false)
	local := verif.Choice("opened_by_local_download", 2) == 1
	_, err := e.st.addTorrent("ns", e.arch.t, local)
	verif.Assert("add-torrent", err == nil)
	errc := make(chan error, 1)
	removeTorrentEvent{e.arch.t.Dig, errc}.apply(e.st)
	verif.Assert("cancelled-torrent-gone", !e.present())
	verif.Assert("cancel-deletes-partial-file", e.arch.deleted >= 1)
}

// ---- the last piece lands on the connection's goroutine while the tick runs ----
//
// The event loop observes the torrent's completeness through
// storage.Torrent.Complete(); the stub counts those observations and records
// how many the loop had made (all of them "incomplete") when the last missing
// piece was written by the other goroutine. On the current code the tick that
// drops an idle in-progress torrent observes completeness four times: for the
// idle-seeder test, for the idle-leecher test, for the log line, and finally
// removeTorrent's own check, which decides about teardown and deletion.
const verif18ObsBeforeRemovalCheck = 3 // observations that precede removeTorrent's own check

// verif18Race runs the tick against a concurrent delivery of the last piece
// and returns the number of "incomplete" observations the loop had made when
// the torrent completed, and the answer the waiting download got (ok=false:
// none yet).
func verif18Race() (e *verif18Sched, obs int, answer error, answered bool) {
	verif.Option("max_preempt", 1)
	e = verif18BuildSched(2, false)
	// the race, not the limits, is the subject: fix them
	verif.Assume(e.leecherTTI == int64(10*time.Second) && e.seederTTI == int64(10*time.Second))
	ctrl, err := e.st.addTorrent("ns", e.arch.t, true)
	verif.Assert("add-torrent", err == nil)
	errc := make(chan error, 1)
	ctrl.errors = append(ctrl.errors, errc) // a Download waits for this torrent
	p, _ := dispatch.Verif18AddPeer(ctrl.dispatcher, 1, 2)
	dispatch.Verif18Receive(ctrl.dispatcher, p, 0)
	e.clk.Add(11 * time.Second) // idle for longer than the leecher limit
	e.arch.t.CompleteCalls = 0
	e.arch.t.ObsAtCompletion = -1
	done := make(chan struct{})
	go func() {
		dispatch.Verif18Receive(ctrl.dispatcher, p, 1) // the last missing piece
		close(done)
	}()
	preemptionTickEvent{}.apply(e.st)
	<-done
	verif.Assert("last-piece-written", e.arch.t.ObsAtCompletion >= 0)
	select {
	case answer = <-errc:
		answered = true
	default:
	}
	return e, e.arch.t.ObsAtCompletion, answer, answered
}

// VerifIdleTickCompletionBeforeRemoval: the last piece lands before the tick
// looks at the torrent, between its looks, or at the latest right before
// removeTorrent's own completeness check. Then the completed blob is not
// deleted, and the waiting download is either still waiting (torrent kept:
// the completion notice will answer it) or answered with success; it is never
// told "timed out" about a blob that stays in the cache.
func VerifIdleTickCompletionBeforeRemoval() {
	e, obs, answer, answered := verif18Race()
	verif.Assume(obs <= verif18ObsBeforeRemovalCheck)
	verif.Cover("completion-before-the-tick-looks", obs == 0)
	verif.Cover("completion-after-idle-decision-before-removal-check", obs >= 2 && !e.present())
	verif.Assert("completed-blob-survives-idle-drop", e.arch.deletedComplete == 0 && e.arch.deleted == 0)
	if e.present() {
		verif.Reach("completed-torrent-kept")
		verif.Assert("kept-torrent-waiter-not-failed", !answered)
	} else {
		verif.Reach("completed-torrent-forgotten")
		verif.Assert("forgotten-completed-torrent-answers-success", answered && answer == nil)
	}
}

// VerifIdleTickFindingCompletionRace: the last piece lands after
// removeTorrent's own completeness check (teardown already decided). Known open
// finding (FINDINGS.md F2): the just completed blob is deleted.
func VerifIdleTickFindingCompletionRace() {
	e, obs, _, _ := verif18Race()
	verif.Assume(obs > verif18ObsBeforeRemovalCheck)
	verif.Cover("dropped-before-completion", !e.present() && e.arch.deleted == 1 && e.arch.deletedComplete == 0)
	verif.Assert("blob-survives-completion-inside-removeTorrent-window", e.arch.deletedComplete == 0)
}
