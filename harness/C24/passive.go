//kse:pkg lib/healthcheck
package healthcheck

import (
	"time"

	"github.com/andres-erbsen/clock"
	"github.com/uber/kraken/utils/stringset"
	verif "github.com/uber/kraken/zzverif"
)

var verifPHosts = []string{"h0:80", "h1:80", "h2:80"}

// Range of instants and FailTimeout.
//
// thorough tier: 64-bit unknowns in [0, 2^60] ns (2^60 only keeps differences of
// instants inside int64: time.Time.Sub saturates there, the engine's time model
// does not).
//
// quick tier: 16-bit unknowns (zero-extended to int64 ns). The filter looks at
// instants only through comparisons of differences with FailTimeout. Whether a
// given combination of such comparisons (over the at most 9 unknowns of a quick
// history) is possible does not depend on magnitudes: if it has a solution at
// all it has one in small integers (the constraints are linear with
// coefficients in {-1,0,1}; vertex solutions are bounded by small determinants),
// far below 2^16. So every behaviour of the timeline logic is still reached;
// what the quick tier does not see is behaviour that depends on magnitude
// (overflow near the ends of int64), which the thorough tier covers up to 2^60.
// The narrow unknowns make the solver's 64-bit arithmetic collapse to ~19 bits,
// which keeps the quick tier fast also on trees that phrase the window
// arithmetic differently (e.g. now.Add(-FailTimeout) instead of now.Sub(t)).
var (
	verifPBits = 60
	verifPMaxT = int64(1) << 60
)

func verifPTimeRange() {
	verifPBits = verif.Bound("time_bits", 16, 60)
	verifPMaxT = int64(1) << uint(verifPBits)
}

// verifPNonNeg is an unknown in [0, verifPMaxT].
func verifPNonNeg(name string) int64 {
	if verifPBits <= 16 {
		return int64(verif.Uint16(name))
	}
	v := verif.Int64(name)
	verif.Assume(v >= 0)
	verif.Assume(v <= verifPMaxT)
	return v
}

type verifPHostList struct{ set stringset.Set }

func (h *verifPHostList) Resolve() stringset.Set { return h.set.Copy() }

// verifPFiltered is the statement's rule evaluated on the ghost list of failure
// times fs at instant now: some failure f_i no older than ft has at least
// `fails` recorded failures in [f_i-ft, f_i]. Because fs is non-decreasing, "at
// least k of f_0..f_i lie within ft before f_i" is the same as "the k-th most
// recent of them, f_(i-k+1), does" — written that way (k ranges over the
// possible values of fails) to keep the solver's formula free of counters.
func verifPFiltered(fs []int64, now, ft int64, fails int) bool {
	res := false
	for i := range fs {
		enough := false
		for k := 1; k <= 3 && k <= i+1; k++ {
			enough = verif.Or(enough, verif.And(fails == k, fs[i]-fs[i-k+1] <= ft))
		}
		res = verif.Or(res, verif.And(now-fs[i] <= ft, enough))
	}
	return res
}

// verifPassiveTimeline drives one passiveFilter (through Passive) with a
// symbolic timeline of Failed / Run events at symbolic non-decreasing instants
// and compares every Run and Resolve against the window rule.
func verifPassiveTimeline(nhosts, steps int) {
	verifPTimeRange()
	// small, arithmetic-heavy queries: z3's bit-vector tactic decides them in
	// milliseconds also when the code under test phrases the window arithmetic
	// differently from the oracle (the incremental core then needs seconds)
	verif.Option("solver_bv_tactic", 1)
	fails := verif.IntRange("fails", 1, 3)
	ft := verifPNonNeg("fail_timeout")
	verif.Assume(ft >= 1)
	verif.Note("instants and FailTimeout are time_bits-wide unknowns (quick: 16-bit, by the small-model argument in the harness source; thorough: up to 2^60 ns); clock never goes backwards")

	clk := clock.NewMock()
	now := verifPNonNeg("t0")
	clk.Set(time.Unix(0, now))

	pf := NewPassiveFilter(PassiveFilterConfig{Fails: fails, FailTimeout: time.Duration(ft)}, clk)
	all := stringset.New(verifPHosts[:nhosts]...)
	p := NewPassive(&verifPHostList{all}, pf)

	ghost := make([][]int64, nhosts)

	check := func() {
		got := pf.Run(all)
		nfiltered := 0
		for h := 0; h < nhosts; h++ {
			want := verifPFiltered(ghost[h], now, ft, fails)
			verif.Cover("some-host-filtered", want)
			verif.Cover("host-with-failures-not-filtered", verif.And(!want, len(ghost[h]) > 0))
			if got.Has(verifPHosts[h]) {
				verif.Assert("kept-host-is-not-over-threshold", !want)
			} else {
				verif.Assert("filtered-host-is-over-threshold", want)
				nfiltered++
			}
		}
		verif.Assert("run-returns-only-given-hosts", len(got) == nhosts-nfiltered)
		verif.Cover("all-hosts-filtered", nfiltered == nhosts)
		r := p.Resolve()
		verif.Assert("resolve-never-empty", len(r) > 0)
	}

	advance := func() {
		d := verifPNonNeg("advance")
		prev := now
		now += d
		if verifPBits > 16 {
			verif.Assume(now <= verifPMaxT)
		}
		// Solver hints, not restrictions: both facts follow from prev <= now,
		// the order of the recorded failures and the range bound (no overflow);
		// stating them spares the solver a bit-level proof of monotonicity.
		for h := range ghost {
			for j, f := range ghost[h] {
				verif.Assume(now-f >= prev-f)
				if j > 0 {
					verif.Assume(now-f <= now-ghost[h][j-1])
				}
			}
		}
		clk.Set(time.Unix(0, now))
	}
	for s := 0; s < steps; s++ {
		advance()
		op := verif.Choice("op", nhosts+1)
		if op < nhosts {
			p.Failed(verifPHosts[op])
			ghost[op] = append(ghost[op], now)
		} else {
			check()
		}
	}
	advance()
	check()
}

// VerifPassiveWindowOneHost: a longer timeline on a single host.
func VerifPassiveWindowOneHost() {
	verifPassiveTimeline(1, verif.Bound("events_one_host", 4, 7))
}

// VerifPassiveWindowInterleaved: one host, a history long enough for the mark
// and the failure list to drift apart: a marking burst, a straggler failure after
// the marking window (count restarts, mark not moved), an observation that
// expires the old mark, and further failures that complete a new window together
// with the straggler (needs >= 5 events + the final observation for Fails = 2).
func VerifPassiveWindowInterleaved() {
	verifPassiveTimeline(1, verif.Bound("events_interleaved", 6, 8))
}

// VerifPassiveWindowTwoHosts: failures of one host never influence another.
func VerifPassiveWindowTwoHosts() {
	verifPassiveTimeline(2, verif.Bound("events_two_hosts", 3, 6))
}
