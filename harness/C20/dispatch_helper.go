//kse:pkg lib/torrent/scheduler/dispatch
package dispatch

import (
	"errors"
	"io"

	"github.com/uber/kraken/core"
	"github.com/uber/kraken/gen/go/proto/p2p"
	"github.com/uber/kraken/lib/torrent/scheduler/conn"
	"github.com/uber/kraken/lib/torrent/storage"
	verif "github.com/uber/kraken/zzverif"
	"github.com/willf/bitset"
)

// Storage stub and piece delivery for the scheduler-level harness of C20
// (API-only: addPeer, handlePiecePayload, removePeer).

var errVerif20 = errors.New("verif: no such piece")

type verif20Reader struct{}

func (verif20Reader) Read(p []byte) (int, error) { return 0, io.EOF }
func (verif20Reader) Close() error               { return nil }
func (verif20Reader) Length() int                { return 1 }

// Verif20Torrent: n one-byte pieces in memory.
type Verif20Torrent struct {
	N    int
	Bits *bitset.BitSet
	Hash core.InfoHash
	Dig  core.Digest
}

func Verif20NewTorrent(n int) *Verif20Torrent {
	t := &Verif20Torrent{N: n, Bits: bitset.New(uint(n))}
	t.Hash[0] = 7
	dig, err := core.NewSHA256DigestFromHex("00112233445566778899aabbccddeeff00112233445566778899aabbccddeeff")
	verif.Assert("fixed-digest", err == nil)
	t.Dig = dig
	return t
}

func (t *Verif20Torrent) Digest() core.Digest         { return t.Dig }
func (t *Verif20Torrent) Stat() *storage.TorrentInfo  { return nil }
func (t *Verif20Torrent) NumPieces() int              { return t.N }
func (t *Verif20Torrent) Length() int64               { return int64(t.N) }
func (t *Verif20Torrent) PieceLength(piece int) int64 { return 1 }
func (t *Verif20Torrent) MaxPieceLength() int64       { return 1 }
func (t *Verif20Torrent) InfoHash() core.InfoHash     { return t.Hash }
func (t *Verif20Torrent) Complete() bool              { return t.Bits.Count() == uint(t.N) }
func (t *Verif20Torrent) BytesDownloaded() int64      { return int64(t.Bits.Count()) }
func (t *Verif20Torrent) Bitfield() *bitset.BitSet    { return t.Bits.Clone() }
func (t *Verif20Torrent) String() string              { return "verif20torrent" }
func (t *Verif20Torrent) HasPiece(piece int) bool     { return t.Bits.Test(uint(piece)) }
func (t *Verif20Torrent) MissingPieces() []int {
	var m []int
	for i := 0; i < t.N; i++ {
		if !t.Bits.Test(uint(i)) {
			m = append(m, i)
		}
	}
	return m
}
func (t *Verif20Torrent) WritePiece(src storage.PieceReader, piece int) error {
	if t.Bits.Test(uint(piece)) {
		return storage.ErrPieceComplete
	}
	t.Bits.Set(uint(piece))
	return nil
}
func (t *Verif20Torrent) GetPieceReader(piece int) (storage.PieceReader, error) {
	if piece < 0 || piece >= t.N || !t.Bits.Test(uint(piece)) {
		return nil, errVerif20
	}
	return verif20Reader{}, nil
}

type verif20Messages struct{ recv chan *conn.Message }

func (m *verif20Messages) Send(msg *conn.Message) error   { return nil }
func (m *verif20Messages) Receiver() <-chan *conn.Message { return m.recv }
func (m *verif20Messages) Close()                         {}

// Verif20DeliverMissingPieces lets a remote peer deliver every missing piece
// through the real handler, which ends in d.complete() and the asynchronous
// completion notice.
func Verif20DeliverMissingPieces(d *Dispatcher, numPieces int, missing []int) {
	var pid core.PeerID
	pid[0] = 0x51
	b := bitset.New(uint(numPieces))
	b.SetTo(0, true)
	p, err := d.addPeer(pid, false, b, &verif20Messages{recv: make(chan *conn.Message)})
	verif.Assert("add-peer", err == nil)
	for _, i := range missing {
		d.handlePiecePayload(p, &p2p.PiecePayloadMessage{Index: int32(i), Offset: 0, Length: 1}, verif20Reader{})
	}
	d.removePeer(p)
}
