//kse:pkg lib/torrent/scheduler/announcequeue
package announcequeue

import (
	"github.com/uber/kraken/core"
	verif "github.com/uber/kraken/zzverif"
)

// White-box harness file for C20: reads and builds readyQueue / pending
// directly (representation invariant, inductive single step). Kept separate
// from api.go: if the representation changes this file may stop compiling
// while api.go keeps checking the property.

func wbHash(i int) core.InfoHash {
	var h core.InfoHash
	h[0] = byte(i + 1)
	h[19] = byte(0xA0 + i)
	return h
}

func wbIndex(h core.InfoHash) int {
	for i := 0; i < 3; i++ {
		if h == wbHash(i) {
			return i
		}
	}
	return -1
}

// wbGhost: 0 absent, 1 ready, 2 in flight; FIFO of ready torrents.
type wbGhost struct {
	st    [3]int
	ready []int
}

// wbCheck compares the representation with the ghost: same ready sequence
// (no duplicate, FIFO order), pending == in-flight set (disjointness).
func wbCheck(q *QueueImpl, g *wbGhost) {
	verif.Assert("ready-length", q.readyQueue.Len() == len(g.ready))
	i := 0
	var seen [3]int
	for e := q.readyQueue.Front(); e != nil; e = e.Next() {
		h, ok := e.Value.(core.InfoHash)
		verif.Assert("ready-value-type", ok)
		t := wbIndex(h)
		verif.Assert("ready-known-torrent", t >= 0)
		seen[t]++
		verif.Assert("never-twice-in-ready-queue", seen[t] == 1)
		verif.Assert("not-both-ready-and-in-flight", !q.pending[h])
		if i < len(g.ready) {
			verif.Assert("ready-order-matches-fifo-model", g.ready[i] == t)
		}
		i++
	}
	np := 0
	for t := 0; t < 3; t++ {
		p := q.pending[wbHash(t)]
		verif.Assert("in-flight-set-matches-model", p == (g.st[t] == 2))
		if p {
			np++
		}
	}
	verif.Assert("no-stray-pending", len(q.pending) == np)
}

func wbStep(q *QueueImpl, g *wbGhost) {
	c := verif.Choice("op", 10)
	op, t := 1, 0
	if c > 0 {
		op, t = []int{0, 2, 3}[(c-1)/3], (c-1)%3
	}
	switch op {
	case 0:
		if g.st[t] != 0 {
			verif.Assume(false)
		}
		q.Add(wbHash(t))
		g.st[t] = 1
		g.ready = append(g.ready, t)
	case 1:
		h, ok := q.Next()
		if len(g.ready) == 0 {
			verif.Assert("next-empty-reports-none", !ok)
		} else {
			head := g.ready[0]
			verif.Assert("next-is-first-come-first-served", ok && h == wbHash(head))
			g.ready = g.ready[1:]
			g.st[head] = 2
		}
	case 2:
		q.Ready(wbHash(t))
		if g.st[t] == 2 {
			g.st[t] = 1
			g.ready = append(g.ready, t)
		}
	case 3:
		q.Eject(wbHash(t))
		g.st[t] = 0
		out := make([]int, 0, len(g.ready))
		for _, x := range g.ready {
			if x != t {
				out = append(out, x)
			}
		}
		g.ready = out
		verif.Assert("ejected-not-pending", !q.pending[wbHash(t)])
		for e := q.readyQueue.Front(); e != nil; e = e.Next() {
			verif.Assert("ejected-not-ready", e.Value.(core.InfoHash) != wbHash(t))
		}
	}
}

// VerifQueueHistory: histories from New(), representation compared with the
// ghost after every step.
func VerifQueueHistory() {
	k := verif.Bound("steps", 2, 5)
	q := New()
	g := &wbGhost{}
	for i := 0; i < k; i++ {
		wbStep(q, g)
		wbCheck(q, g)
	}
}

// VerifQueueStepInductive: single step from EVERY representable state over 3
// torrents that satisfies the invariant (ready list without duplicates,
// disjoint from pending). Together with New() being such a state this covers
// histories of any length over 3 torrents.
func VerifQueueStepInductive() {
	q := New()
	g := &wbGhost{}
	n := verif.Len("nready", 0, 3)
	for i := 0; i < n; i++ {
		t := verif.Choice("ready_torrent", 3)
		if g.st[t] != 0 {
			verif.Assume(false)
		}
		g.st[t] = 1
		g.ready = append(g.ready, t)
		q.readyQueue.PushBack(wbHash(t))
	}
	for t := 0; t < 3; t++ {
		if g.st[t] == 0 && verif.Choice("inflight", 2) == 1 {
			g.st[t] = 2
			q.pending[wbHash(t)] = true
		}
	}
	verif.Cover("pre-full-ready-list", n == 3)
	verif.Cover("pre-empty", n == 0 && len(q.pending) == 0)
	wbStep(q, g)
	wbCheck(q, g)
}
