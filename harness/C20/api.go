//kse:pkg lib/torrent/scheduler/announcequeue
package announcequeue

import (
	"github.com/uber/kraken/core"
	verif "github.com/uber/kraken/zzverif"
)

// API-only harness file for C20: uses New, Add, Next, Ready, Eject and nothing
// of the representation, so it survives refactorings of QueueImpl.

// Ghost state of one torrent.
const (
	verifAbsent   = 0
	verifReady    = 1
	verifInFlight = 2
)

const verifNT = 3

func verifHash(i int) core.InfoHash {
	var h core.InfoHash
	h[0] = byte(i + 1)
	h[19] = byte(0xA0 + i)
	return h
}

// verifGhost is the reference model: per torrent state and FIFO list of ready
// torrents.
type verifGhost struct {
	st    [verifNT]int
	ready []int
}

func (g *verifGhost) removeReady(t int) {
	out := make([]int, 0, len(g.ready))
	for _, x := range g.ready {
		if x != t {
			out = append(out, x)
		}
	}
	g.ready = out
}

// verifStep performs one symbolic operation on q and g through the API and
// checks what the operation returns.
func verifStep(q *QueueImpl, g *verifGhost) {
	// One case split per step: 0 = Next, then (op, torrent) pairs.
	c := verif.Choice("op", 1+3*verifNT)
	op, t := 1, 0
	if c > 0 {
		op, t = []int{0, 2, 3}[(c-1)/verifNT], (c-1)%verifNT
	}
	switch op {
	case 0: // Add: documented precondition: torrent not in the queue.
		if g.st[t] != verifAbsent {
			verif.Assume(false)
		}
		q.Add(verifHash(t))
		g.st[t] = verifReady
		g.ready = append(g.ready, t)
	case 1: // Next
		h, ok := q.Next()
		if len(g.ready) == 0 {
			verif.Reach("next-on-empty")
			verif.Assert("next-empty-reports-none", !ok)
		} else {
			verif.Reach("next-hands-out")
			verif.Assert("next-nonempty-reports-some", ok)
			head := g.ready[0]
			verif.Assert("next-is-first-come-first-served", h == verifHash(head))
			g.ready = g.ready[1:]
			g.st[head] = verifInFlight
		}
	case 2: // Ready: any torrent, in any state.
		q.Ready(verifHash(t))
		if g.st[t] == verifInFlight {
			verif.Reach("ready-after-in-flight")
			g.st[t] = verifReady
			g.ready = append(g.ready, t)
		} else {
			// Not in flight: must not become (more) ready.
			verif.Reach("ready-without-in-flight-is-noop")
		}
	case 3: // Eject: any torrent, in any state.
		q.Eject(verifHash(t))
		switch g.st[t] {
		case verifReady:
			verif.Reach("eject-ready")
		case verifInFlight:
			verif.Reach("eject-in-flight")
		}
		g.st[t] = verifAbsent
		g.removeReady(t)
	}
}

// verifObserve determines the abstract state of q through the API alone and
// compares it with the ghost: draining with Next yields exactly the ghost's
// ready sequence (FIFO, nothing twice, nothing ejected); afterwards Ready(t)
// followed by Next hands out t exactly for the torrents the ghost has in
// flight (so an in-flight torrent was not also ready, an absent or ejected
// one is in neither structure).
func verifObserve(q *QueueImpl, g *verifGhost) {
	for i := 0; i <= len(g.ready); i++ {
		h, ok := q.Next()
		if i < len(g.ready) {
			verif.Assert("drain-some", ok)
			verif.Assert("drain-order", h == verifHash(g.ready[i]))
			g.st[g.ready[i]] = verifInFlight
		} else {
			verif.Assert("drain-ends-with-model", !ok)
		}
	}
	for t := 0; t < verifNT; t++ {
		q.Ready(verifHash(t))
		h, ok := q.Next()
		if g.st[t] == verifInFlight {
			verif.Assert("in-flight-becomes-ready-once", ok && h == verifHash(t))
			_, again := q.Next()
			verif.Assert("in-flight-was-held-once", !again)
		} else {
			verif.Assert("absent-torrent-not-handed-out", !ok)
		}
	}
}

// VerifQueueHistoryObservable: all histories of k steps over 3 torrents from
// the empty queue, judged only through the public API.
func VerifQueueHistoryObservable() {
	k := verif.Bound("steps_observable", 4, 6)
	q := New()
	g := &verifGhost{}
	for i := 0; i < k; i++ {
		verifStep(q, g)
	}
	verifObserve(q, g)
}
