//kse:pkg lib/torrent/scheduler
package scheduler

import (
	"sync"
	"time"

	"github.com/andres-erbsen/clock"
	"github.com/uber-go/tally"
	"github.com/uber/kraken/core"
	"github.com/uber/kraken/lib/torrent/networkevent"
	"github.com/uber/kraken/lib/torrent/scheduler/announcequeue"
	"github.com/uber/kraken/lib/torrent/scheduler/dispatch"
	"github.com/uber/kraken/lib/torrent/storage"
	"github.com/uber/kraken/tracker/announceclient"
	verif "github.com/uber/kraken/zzverif"
)

// C20, scheduler level (white-box file: reads state.torrentControls and
// state.announceQueue): the callers' protocol around the real QueueImpl in
// newTorrentEvent / announceTickEvent / announceErrEvent /
// dispatcherCompleteEvent / removeTorrentEvent / preemptionTickEvent.apply and
// state.addTorrent / removeTorrent, for a torrent that completes.
//
// The scheduler is built by newScheduler with the withEventLoop seam; the loop
// stub only COLLECTS the events that the code under test sends (the
// asynchronous completion notice); the harness applies events itself, in an
// order chosen by the solver.

type verif20Loop struct {
	mu     sync.Mutex
	events []event
	sig    chan struct{}
}

func (l *verif20Loop) send(e event) bool {
	l.mu.Lock()
	l.events = append(l.events, e)
	l.mu.Unlock()
	l.sig <- struct{}{}
	return true
}
func (l *verif20Loop) sendTimeout(e event, d time.Duration) error { l.send(e); return nil }
func (l *verif20Loop) run(*state)                                 {}
func (l *verif20Loop) stop()                                      {}

type verif20NoNet struct{}

func (verif20NoNet) Produce(*networkevent.Event) {}
func (verif20NoNet) Close() error                { return nil }

type verif20Archive struct{ t *dispatch.Verif20Torrent }

func (a verif20Archive) Stat(string, core.Digest) (*storage.TorrentInfo, error) {
	return nil, storage.ErrNotFound
}
func (a verif20Archive) CreateTorrent(string, core.Digest) (storage.Torrent, error) { return a.t, nil }
func (a verif20Archive) GetTorrent(string, core.Digest) (storage.Torrent, error)    { return a.t, nil }
func (a verif20Archive) DeleteTorrent(core.Digest) error {
	a.t.Bits.ClearAll() // the blob is gone: a later download starts from scratch
	return nil
}

type verif20Env struct {
	clk  *clock.Mock
	loop *verif20Loop
	t    *dispatch.Verif20Torrent
	st   *state

	applied int // completion events of loop.events[:applied] were applied
}

func verif20NewEnv() *verif20Env {
	// the goroutines started by the code (announce with a disabled client,
	// request watcher) do not touch the queue; the completion notice is waited
	// for explicitly: no preemption needed
	verif.Option("max_preempt", 0)
	verif.Option("sched_fixed", 1)
	verif.Option("max_threads", 32)
	e := &verif20Env{clk: clock.NewMock(), loop: &verif20Loop{sig: make(chan struct{}, 16)}}
	e.t = dispatch.Verif20NewTorrent(2)
	var pid core.PeerID
	pid[0] = 0xEE
	sched, err := newScheduler(
		Config{SeederTTI: 10 * time.Second, LeecherTTI: 10 * time.Second, ConnTTI: time.Hour, ConnTTL: time.Hour,
			PreemptionInterval: time.Hour, EmitStatsInterval: time.Hour},
		verif20Archive{e.t}, tally.NoopScope, core.PeerContext{PeerID: pid, IP: "localhost", Port: 1},
		announceclient.Disabled(), verif20NoNet{}, withClock(e.clk), withEventLoop(e.loop))
	verif.Assert("new-scheduler", err == nil)
	e.st = newState(sched, announcequeue.New())
	return e
}

func (e *verif20Env) ctrl() *torrentControl { return e.st.torrentControls[e.t.Hash] }

// download applies a newTorrentEvent (a local Download of the blob). A new
// dispatcher over an already complete blob fires its completion notice at
// once: wait until it reached the loop.
func (e *verif20Env) download() {
	before := e.ctrl()
	newTorrentEvent{"ns", e.t, make(chan error, 1)}.apply(e.st)
	if c := e.ctrl(); c != nil && c != before && c.dispatcher.Complete() {
		<-e.loop.sig
	}
}

// applyNotices applies every completion event that reached the loop and has
// not been applied yet.
func (e *verif20Env) applyNotices() {
	for e.applied < len(e.loop.events) {
		ev := e.loop.events[e.applied]
		e.applied++
		ev.apply(e.st)
	}
}

// occurrences determines through the queue's API how often the torrent is in
// the announce queue: Ready moves an in-flight entry back to the ready list,
// draining with Next then counts ready + in-flight occurrences.
func (e *verif20Env) occurrences() int {
	q := e.st.announceQueue
	q.Ready(e.t.Hash)
	n := 0
	for i := 0; i < 4; i++ {
		h, ok := q.Next()
		if !ok {
			break
		}
		verif.Assert("only-known-torrents-in-queue", h == e.t.Hash)
		n++
	}
	return n
}

// verif20Run: a download is opened (announce queue: waiting, or in flight
// after an announce tick, or waiting again after an announce round), a peer
// delivers the missing pieces (the completion notice is now on its way), and
// then up to `steps` of {completion event, manual removal, idle-seeder tick,
// new download of the blob} are applied in an order chosen by the solver
// (each at most once). If drain is set the completion event is applied at the
// end in any case (it always arrives eventually).
func verif20Run(steps int, drain bool) (e *verif20Env, completionApplied bool) {
	e = verif20NewEnv()
	e.download()
	verif.Assert("control-created", e.ctrl() != nil)
	switch verif.Choice("announce_phase", 3) {
	case 1: // announce in flight
		announceTickEvent{}.apply(e.st)
	case 2: // one full announce round
		announceTickEvent{}.apply(e.st)
		announceErrEvent{e.t.Hash, storage.ErrNotFound}.apply(e.st)
	}
	dispatch.Verif20DeliverMissingPieces(e.ctrl().dispatcher, e.t.NumPieces(), e.t.MissingPieces())
	<-e.loop.sig // the asynchronous completion notice reached the loop
	verif.Assert("completion-notice-sent", len(e.loop.events) == 1)
	var used [4]bool
	for s := 0; s < steps; s++ {
		c := verif.Choice("event", 5)
		if c == 4 {
			break
		}
		if used[c] {
			verif.Assume(false)
		}
		used[c] = true
		switch c {
		case 0:
			e.applyNotices()
			completionApplied = true
		case 1:
			removeTorrentEvent{e.t.Dig, make(chan error, 1)}.apply(e.st)
		case 2:
			e.clk.Add(30 * time.Second) // past the idle limits
			preemptionTickEvent{}.apply(e.st)
		case 3:
			e.download()
		}
	}
	if drain {
		e.applyNotices()
		completionApplied = true
	}
	return e, completionApplied
}

// VerifSchedulerQueueAfterCompletion: once every completion event has been
// applied (they always are, eventually), whatever removal / idle drop /
// repeated download happened before or after and in whatever order: the
// torrent is in the announce queue at most once, and a torrent the scheduler
// no longer tracks, or tracks as complete, is not in it at all (removal takes
// it out completely).
func VerifSchedulerQueueAfterCompletion() {
	e, _ := verif20Run(verif.Bound("scheduler_events", 3, 4), true)
	c := e.ctrl()
	gone := c == nil || c.dispatcher.Complete()
	verif.Cover("removed-before-completion-event", c == nil)
	verif.Cover("downloaded-again-after-removal", !gone)
	n := e.occurrences()
	verif.Assert("never-twice", n <= 1)
	verif.Cover("re-downloaded-torrent-queued-once", !gone && n == 1)
	if gone {
		verif.Assert("removed-or-completed-torrent-not-in-announce-queue", n == 0)
	}
}

// VerifSchedulerQueueFindingReAddBeforeCompletionEvent: at ANY point of such a
// history (the completion event possibly still on its way) the torrent is in
// the queue at most once, never both waiting and in flight.
func VerifSchedulerQueueFindingReAddBeforeCompletionEvent() {
	e, _ := verif20Run(verif.Bound("scheduler_events", 3, 4), false)
	verif.Assert("never-twice-nor-both-while-completion-event-is-on-its-way", e.occurrences() <= 1)
}
