//kse:pkg lib/torrent/scheduler/announcequeue
package announcequeue

import (
	"github.com/uber/kraken/core"
	verif "github.com/uber/kraken/zzverif"
)

// Ghost state of one torrent.
const (
	verifAbsent   = 0
	verifReady    = 1
	verifInFlight = 2
)

const verifNT = 3

func verifHash(i int) core.InfoHash {
	var h core.InfoHash
	h[0] = byte(i + 1)
	h[19] = byte(0xA0 + i)
	return h
}

func verifIndex(h core.InfoHash) int {
	for i := 0; i < verifNT; i++ {
		if h == verifHash(i) {
			return i
		}
	}
	return -1
}

// verifGhost is the reference model: per torrent state and FIFO list of ready
// torrents.
type verifGhost struct {
	st    [verifNT]int
	ready []int
}

func (g *verifGhost) removeReady(t int) {
	out := make([]int, 0, len(g.ready))
	for _, x := range g.ready {
		if x != t {
			out = append(out, x)
		}
	}
	g.ready = out
}

// verifCheckAgainstGhost compares the real representation (readyQueue list and
// pending set) with the ghost: same ready sequence (which implies no duplicate
// and FIFO order), pending == in-flight set (implies disjointness).
func verifCheckAgainstGhost(q *QueueImpl, g *verifGhost) {
	verif.Assert("ready-length", q.readyQueue.Len() == len(g.ready))
	i := 0
	var seen [verifNT]int
	for e := q.readyQueue.Front(); e != nil; e = e.Next() {
		h, ok := e.Value.(core.InfoHash)
		verif.Assert("ready-value-type", ok)
		t := verifIndex(h)
		verif.Assert("ready-known-torrent", t >= 0)
		seen[t]++
		verif.Assert("never-twice-in-ready-queue", seen[t] == 1)
		verif.Assert("not-both-ready-and-in-flight", !q.pending[h])
		if i < len(g.ready) {
			verif.Assert("ready-order-matches-fifo-model", g.ready[i] == t)
		}
		i++
	}
	np := 0
	for t := 0; t < verifNT; t++ {
		p := q.pending[verifHash(t)]
		verif.Assert("in-flight-set-matches-model", p == (g.st[t] == verifInFlight))
		if p {
			np++
		}
	}
	verif.Assert("no-stray-pending", len(q.pending) == np)
}

// verifStep performs one symbolic operation on q and g and checks the
// operation's contract.
func verifStep(q *QueueImpl, g *verifGhost) {
	// One case split per step: 0 = Next, then (op, torrent) pairs.
	c := verif.Choice("op", 1+3*verifNT)
	op, t := 1, 0
	if c > 0 {
		op, t = []int{0, 2, 3}[(c-1)/verifNT], (c-1)%verifNT
	}
	switch op {
	case 0: // Add: documented precondition: torrent not in the queue.
		if g.st[t] != verifAbsent {
			verif.Assume(false)
		}
		q.Add(verifHash(t))
		g.st[t] = verifReady
		g.ready = append(g.ready, t)
	case 1: // Next
		h, ok := q.Next()
		if len(g.ready) == 0 {
			verif.Reach("next-on-empty")
			verif.Assert("next-empty-reports-none", !ok)
		} else {
			verif.Reach("next-hands-out")
			verif.Assert("next-nonempty-reports-some", ok)
			head := g.ready[0]
			verif.Assert("next-is-first-come-first-served", h == verifHash(head))
			g.ready = g.ready[1:]
			g.st[head] = verifInFlight
		}
	case 2: // Ready: any torrent, in any state.
		q.Ready(verifHash(t))
		if g.st[t] == verifInFlight {
			verif.Reach("ready-after-in-flight")
			g.st[t] = verifReady
			g.ready = append(g.ready, t)
		} else {
			// Not in flight: must not become (more) ready.
			verif.Reach("ready-without-in-flight-is-noop")
		}
	case 3: // Eject: any torrent, in any state.
		q.Eject(verifHash(t))
		switch g.st[t] {
		case verifReady:
			verif.Reach("eject-ready")
		case verifInFlight:
			verif.Reach("eject-in-flight")
		}
		g.st[t] = verifAbsent
		g.removeReady(t)
		// Removal takes it out completely.
		verif.Assert("ejected-not-pending", !q.pending[verifHash(t)])
		for e := q.readyQueue.Front(); e != nil; e = e.Next() {
			verif.Assert("ejected-not-ready", e.Value.(core.InfoHash) != verifHash(t))
		}
	}
}

// VerifQueueHistory: all histories of length k over 3 torrents from the empty
// queue.
func VerifQueueHistory() {
	k := verif.Bound("steps", 3, 6)
	q := New()
	g := &verifGhost{}
	for i := 0; i < k; i++ {
		verifStep(q, g)
		verifCheckAgainstGhost(q, g)
	}
}

// VerifQueueHistoryObservable: the same histories judged only through the
// public API: drain the queue with Next at the end and compare the sequence
// with the model; a torrent handed out once is not handed out again before
// Ready.
func VerifQueueHistoryObservable() {
	k := verif.Bound("steps_observable", 3, 5)
	q := New()
	g := &verifGhost{}
	for i := 0; i < k; i++ {
		verifStep(q, g)
	}
	for i := 0; i <= verifNT; i++ {
		h, ok := q.Next()
		if i < len(g.ready) {
			verif.Assert("drain-some", ok)
			verif.Assert("drain-order", h == verifHash(g.ready[i]))
		} else {
			verif.Assert("drain-ends-with-model", !ok)
			break
		}
	}
}

// VerifQueueStepInductive: single step from EVERY representable state over 3
// torrents that satisfies the invariant (ready list without duplicates,
// disjoint from pending). Together with New() being such a state this covers
// histories of any length over 3 torrents.
func VerifQueueStepInductive() {
	q := New()
	g := &verifGhost{}
	// Build an arbitrary valid state directly in the representation (not via
	// the API): choose an arbitrary ordered sequence of distinct torrents for
	// the ready list, then each remaining torrent in-flight or absent.
	n := verif.Len("nready", 0, verifNT)
	for i := 0; i < n; i++ {
		t := verif.Choice("ready_torrent", verifNT)
		if g.st[t] != verifAbsent {
			verif.Assume(false)
		}
		g.st[t] = verifReady
		g.ready = append(g.ready, t)
		q.readyQueue.PushBack(verifHash(t))
	}
	for t := 0; t < verifNT; t++ {
		if g.st[t] == verifAbsent && verif.Choice("inflight", 2) == 1 {
			g.st[t] = verifInFlight
			q.pending[verifHash(t)] = true
		}
	}
	verif.Cover("pre-full-ready-list", n == verifNT)
	verif.Cover("pre-empty", n == 0 && len(q.pending) == 0)
	verifStep(q, g)
	verifCheckAgainstGhost(q, g)
}
