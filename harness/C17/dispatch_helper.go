//kse:pkg lib/torrent/scheduler/dispatch
package dispatch

import (
	"errors"
	"io"

	"github.com/uber/kraken/core"
	"github.com/uber/kraken/gen/go/proto/p2p"
	"github.com/uber/kraken/lib/torrent/scheduler/conn"
	"github.com/uber/kraken/lib/torrent/storage"
	verif "github.com/uber/kraken/zzverif"
	"github.com/willf/bitset"
)

// Stubs at the storage boundary for the scheduler harnesses of C17.

var errVerif17 = errors.New("verif: no such piece")

type verif17Reader struct{}

func (verif17Reader) Read(p []byte) (int, error) { return 0, io.EOF }
func (verif17Reader) Close() error               { return nil }
func (verif17Reader) Length() int                { return 1 }

// Verif17Torrent: n one-byte pieces in memory.
type Verif17Torrent struct {
	N    int
	Bits *bitset.BitSet
	Hash core.InfoHash
	Dig  core.Digest
}

func Verif17NewTorrent(n int) *Verif17Torrent {
	t := &Verif17Torrent{N: n, Bits: bitset.New(uint(n))}
	t.Hash[0] = 7
	dig, err := core.NewSHA256DigestFromHex("00112233445566778899aabbccddeeff00112233445566778899aabbccddeeff")
	verif.Assert("fixed-digest", err == nil)
	t.Dig = dig
	return t
}

func (t *Verif17Torrent) Reset()                      { t.Bits = bitset.New(uint(t.N)) }
func (t *Verif17Torrent) Digest() core.Digest         { return t.Dig }
func (t *Verif17Torrent) Stat() *storage.TorrentInfo  { return nil }
func (t *Verif17Torrent) NumPieces() int              { return t.N }
func (t *Verif17Torrent) Length() int64               { return int64(t.N) }
func (t *Verif17Torrent) PieceLength(piece int) int64 { return 1 }
func (t *Verif17Torrent) MaxPieceLength() int64       { return 1 }
func (t *Verif17Torrent) InfoHash() core.InfoHash     { return t.Hash }
func (t *Verif17Torrent) Complete() bool              { return t.Bits.Count() == uint(t.N) }
func (t *Verif17Torrent) BytesDownloaded() int64      { return int64(t.Bits.Count()) }
func (t *Verif17Torrent) Bitfield() *bitset.BitSet    { return t.Bits.Clone() }
func (t *Verif17Torrent) String() string              { return "verif17torrent" }
func (t *Verif17Torrent) HasPiece(piece int) bool     { return t.Bits.Test(uint(piece)) }
func (t *Verif17Torrent) MissingPieces() []int {
	var m []int
	for i := 0; i < t.N; i++ {
		if !t.Bits.Test(uint(i)) {
			m = append(m, i)
		}
	}
	return m
}
func (t *Verif17Torrent) WritePiece(src storage.PieceReader, piece int) error {
	if t.Bits.Test(uint(piece)) {
		return storage.ErrPieceComplete
	}
	t.Bits.Set(uint(piece))
	return nil
}
func (t *Verif17Torrent) GetPieceReader(piece int) (storage.PieceReader, error) {
	if piece < 0 || piece >= t.N || !t.Bits.Test(uint(piece)) {
		return nil, errVerif17
	}
	return verif17Reader{}, nil
}

type verif17Messages struct{ recv chan *conn.Message }

func (m *verif17Messages) Send(msg *conn.Message) error   { return nil }
func (m *verif17Messages) Receiver() <-chan *conn.Message { return m.recv }
func (m *verif17Messages) Close()                         {}

// Verif17DeliverMissingPieces lets a remote peer deliver every missing piece
// through the real handler (handlePiecePayload), which ends in d.complete()
// and the asynchronous completion notice.
func Verif17DeliverMissingPieces(d *Dispatcher, numPieces int, missing []int) {
	var pid core.PeerID
	pid[0] = 0x51
	b := bitset.New(uint(numPieces))
	b.SetTo(0, true)
	p, err := d.addPeer(pid, false, b, &verif17Messages{recv: make(chan *conn.Message)})
	verif.Assert("add-peer", err == nil)
	for _, i := range missing {
		d.handlePiecePayload(p, &p2p.PiecePayloadMessage{Index: int32(i), Offset: 0, Length: 1}, verif17Reader{})
	}
	d.removePeer(p)
}

// Verif17ServePiece lets a remote peer request piece 0 of a completed torrent
// and close the payload reader (the torrent is actively seeding).
func Verif17ServePiece(d *Dispatcher) {
	var pid core.PeerID
	pid[0] = 0x52
	msgs := &verif17Capture{}
	p, err := d.addPeer(pid, false, bitset.New(0), msgs)
	verif.Assert("add-peer", err == nil)
	d.handlePieceRequest(p, &p2p.PieceRequestMessage{Index: 0, Offset: 0, Length: 1})
	verif.Assert("piece-served", msgs.last != nil && msgs.last.Payload != nil)
	verif.Assert("reader-closed", msgs.last.Payload.Close() == nil)
	d.removePeer(p)
}

type verif17Capture struct{ last *conn.Message }

func (m *verif17Capture) Send(msg *conn.Message) error   { m.last = msg; return nil }
func (m *verif17Capture) Receiver() <-chan *conn.Message { return nil }
func (m *verif17Capture) Close()                         {}
