//kse:pkg lib/torrent/scheduler
package scheduler

import (
	"github.com/uber/kraken/lib/torrent/scheduler/dispatch"
	verif "github.com/uber/kraken/zzverif"
)

// White-box harness file for C17: reads state.torrentControls, the control's
// dispatcher / errors and the dispatcher carried by dispatcherCompleteEvent, to
// let a remote peer complete the torrent between events and to recognise the
// window of FINDINGS.md. Uses the environment of api.go; api.go does not
// depend on this file.

var verif17Noticed = map[*dispatch.Dispatcher]bool{}

// verif17WindowRemovals counts removals (manual or idle) applied while a
// completed torrent's completion notice was still waiting (FINDINGS.md).
var verif17WindowRemovals int

func (e *verif17Env) ctrl() *torrentControl { return e.st.torrentControls[e.arch.t.Hash] }

// noteNotices accounts for completion notices fired by dispatchers created or
// completed during the last step (each fires exactly one asynchronous send).
func (e *verif17Env) noteNotices() {
	if c := e.ctrl(); c != nil && c.dispatcher.Complete() && !verif17Noticed[c.dispatcher] {
		verif17Noticed[c.dispatcher] = true
		e.expected++
	}
	if e.arch.t.Complete() {
		e.everComplete = true
	}
}

// completeTorrent: a remote peer delivers the remaining pieces (runs on the
// dispatcher's own goroutine in reality, i.e. outside the event loop).
func (e *verif17Env) completeTorrent() bool {
	c := e.ctrl()
	if c == nil || c.dispatcher.Complete() {
		return false
	}
	dispatch.Verif17DeliverMissingPieces(c.dispatcher, e.arch.t.NumPieces(), e.arch.t.MissingPieces())
	e.noteNotices()
	e.settle()
	return true
}

// wbHooks installs the bookkeeping around every applied event: completion
// notices fired by dispatchers (each is one more asynchronous sender), and the
// recognition of the window written up in FINDINGS.md (nothing is excluded any
// more: the defect was fixed upstream by e656c79).
func (e *verif17Env) wbHooks() {
	verif17Noticed = map[*dispatch.Dispatcher]bool{}
	verif17WindowRemovals = 0
	// A completed torrent may go on seeding for ever: the recurring tick must
	// not be what finally answers a caller. Right before the final tick a peer
	// is served a piece, so the torrent is not an idle seeder.
	e.hookFinalTick = func() {
		if c := e.ctrl(); c != nil && c.dispatcher.Complete() {
			dispatch.Verif17ServePiece(c.dispatcher)
		}
	}
	// remember the result channel each Download caller waits on (the newest
	// newTorrentEvent in the pool is the one it has just parked)
	var waits [2]chan error
	e.hookStarted = func(i int) {
		e.loop.mu.Lock()
		defer e.loop.mu.Unlock()
		for k := len(e.loop.pool) - 1; k >= 0; k-- {
			if ne, ok := e.loop.pool[k].e.(newTorrentEvent); ok {
				waits[i] = ne.errc
				return
			}
		}
	}
	e.hookBefore = func(ev event) func() {
		cachedBefore := e.arch.t.Complete()
		// a caller is answered by the event that takes its channel out of the
		// tracked control's waiter list (or never puts it there)
		waiting := func(ch chan error) bool {
			if c := e.ctrl(); c != nil {
				for _, x := range c.errors {
					if x == ch {
						return true
					}
				}
			}
			return false
		}
		var waitedBefore [2]bool
		for i := range waits {
			waitedBefore[i] = waits[i] != nil && waiting(waits[i])
		}
		own := -1
		if ne, ok := ev.(newTorrentEvent); ok {
			for i := range waits {
				if waits[i] == ne.errc {
					own = i
				}
			}
		}
		// window of FINDINGS.md: a completed torrent whose waiters have not been
		// notified yet and whose completion notice is still waiting to be received
		c0 := e.ctrl()
		inWindow := false
		if c0 != nil && c0.dispatcher.Complete() && len(c0.errors) > 0 {
			e.loop.mu.Lock()
			for _, q := range e.loop.pool {
				if ce, ok := q.e.(dispatcherCompleteEvent); ok && ce.dispatcher == c0.dispatcher {
					inWindow = true
				}
			}
			e.loop.mu.Unlock()
		}
		return func() {
			if inWindow && e.ctrl() != c0 {
				switch ev.(type) {
				case removeTorrentEvent, preemptionTickEvent:
					// the control was removed inside the window
					verif17WindowRemovals++
				}
			}
			e.noteNotices()
			// which callers were answered by this event, and was the blob in
			// the cache then (before the event, or after it: a manual removal
			// answers first and deletes afterwards)
			for i := range waits {
				if waits[i] != nil && !e.answerKnown[i] && (waitedBefore[i] || own == i) && !waiting(waits[i]) {
					e.answerKnown[i] = true
					e.answerCached[i] = cachedBefore || e.arch.t.Complete()
				}
			}
		}
	}
}

// run: all callers start at once and block in send (as real callers do on the
// unbuffered event channel); the loop then receives them in every order, and
// the remote peer may complete the torrent between any two events (its
// completion notice then joins the blocked senders).
//
//	withD2: a second Download of the same blob
//	x: 0 nothing else, 1 RemoveTorrent, 2 preemption tick, 3 Stop
func (e *verif17Env) run() {
	e.wbHooks()
	verif.Option("max_preempt", 0)
	verif.Option("max_threads", 24)
	// Senders, waiters and helper goroutines only interact through the pool
	// and the result channels; the order in which the loop receives them is
	// the explicit Choice below, so the order in which parked goroutines are
	// resumed carries no further behaviour.
	verif.Option("sched_fixed", 1)
	withD2 := verif.Choice("second_download", 2) == 1
	x := verif.Choice("other_event", 4)
	if verif.Choice("torrent_opened_by_remote_peer_first", 2) == 1 {
		// the control already exists because a remote peer connected for this
		// torrent earlier (state.addIncomingConn -> addTorrent(.., false))
		_, err := e.st.addTorrent("ns", e.arch.t, false)
		verif.Assert("add-torrent", err == nil)
	}
	e.startDownload(0)
	if withD2 {
		e.startDownload(1)
	}
	switch x {
	case 1:
		e.startRemove()
	case 2:
		e.startTick()
	case 3:
		e.startShutdown()
	}
	for step := 0; step < 8; step++ {
		n := e.poolLen()
		c := e.ctrl()
		canComplete := !e.completed && !e.loop.stopped && c != nil && !c.dispatcher.Complete()
		if n == 0 {
			if !canComplete || verif.Choice("complete_at_end", 2) == 0 {
				break
			}
			e.completeTorrent()
			e.completed = true
			continue
		}
		k := n
		if canComplete {
			k++
		}
		j := verif.Choice("next", k)
		if j == n {
			verif.Reach("torrent-completed-by-peer")
			e.completeTorrent()
			e.completed = true
			continue
		}
		e.applyOne(j)
	}
	if e.onlyWindow {
		verif.Assume(verif17WindowRemovals > 0)
		verif.Reach("removal-inside-completion-window")
	}
	e.finish()
}

// VerifDownloadReturnsOnce: every interleaving (the former exclusion of the
// window of FINDINGS.md was removed after the upstream fix e656c79).
func VerifDownloadReturnsOnce() {
	e := verif17NewEnv(false)
	e.run()
	verif.Cover("removal-inside-completion-window", verif17WindowRemovals > 0)
}

// VerifDownloadFindingRemovalRace: regression check for FINDINGS.md: only the
// interleavings in which a removal (manual or idle) is received while the
// completed torrent's completion notice is still waiting. Every caller must
// still return (used to hang: fixed upstream by e656c79).
func VerifDownloadFindingRemovalRace() {
	e := verif17NewEnv(false)
	e.onlyWindow = true
	e.run()
}
