//kse:pkg lib/torrent/scheduler
package scheduler

import (
	"sync"
	"time"

	"github.com/andres-erbsen/clock"
	"github.com/uber-go/tally"
	"github.com/uber/kraken/core"
	"github.com/uber/kraken/lib/torrent/networkevent"
	"github.com/uber/kraken/lib/torrent/scheduler/announcequeue"
	"github.com/uber/kraken/lib/torrent/scheduler/dispatch"
	"github.com/uber/kraken/lib/torrent/storage"
	"github.com/uber/kraken/tracker/announceclient"
	verif "github.com/uber/kraken/zzverif"
)

// API-only harness file for C17: the scheduler is built by newScheduler with
// the existing seams withClock / withEventLoop, the state by newState, callers
// use doDownload / RemoveTorrent, events are the package's event types applied
// through their apply methods. No struct field of scheduler or state is read
// here (that is whitebox.go).

// ---- harness event loop (plugged in through the eventLoop seam) ----
//
// Semantics of the real baseEventLoop: an unbuffered channel; every sender
// blocks in send until the loop receives its event (send returns true) or the
// loop is stopped (send returns false); the loop applies one event at a time
// and may receive the blocked senders in any order. verif17Loop keeps the
// blocked senders in a pool; the harness main thread plays the loop and picks
// the next one by verif.Choice.

type verif17Pending struct {
	e        event
	accepted chan bool
}

type verif17Loop struct {
	mu      sync.Mutex
	pool    []*verif17Pending
	stopped bool
	sig     chan struct{} // one token per event that entered the pool (or was refused)
}

func (l *verif17Loop) send(e event) bool {
	l.mu.Lock()
	if l.stopped {
		l.mu.Unlock()
		l.sig <- struct{}{}
		return false
	}
	p := &verif17Pending{e: e, accepted: make(chan bool, 1)}
	l.pool = append(l.pool, p)
	l.mu.Unlock()
	l.sig <- struct{}{}
	return <-p.accepted
}

func (l *verif17Loop) sendTimeout(e event, timeout time.Duration) error {
	if !l.send(e) {
		return ErrSchedulerStopped
	}
	return nil
}

func (l *verif17Loop) run(*state) {}

func (l *verif17Loop) stop() {
	l.mu.Lock()
	l.stopped = true
	pool := l.pool
	l.pool = nil
	l.mu.Unlock()
	for _, p := range pool {
		p.accepted <- false
	}
}

type verif17NoEvents struct{}

func (verif17NoEvents) Produce(*networkevent.Event) {}
func (verif17NoEvents) Close() error                { return nil }

// ---- stub archive with one torrent ----

type verif17Archive struct {
	t       *dispatch.Verif17Torrent
	deleted int
}

func (a *verif17Archive) Stat(namespace string, d core.Digest) (*storage.TorrentInfo, error) {
	return nil, storage.ErrNotFound
}
func (a *verif17Archive) CreateTorrent(namespace string, d core.Digest) (storage.Torrent, error) {
	if d != a.t.Dig {
		return nil, storage.ErrNotFound
	}
	return a.t, nil
}
func (a *verif17Archive) GetTorrent(namespace string, d core.Digest) (storage.Torrent, error) {
	return a.CreateTorrent(namespace, d)
}
func (a *verif17Archive) DeleteTorrent(d core.Digest) error {
	if d == a.t.Dig {
		a.deleted++
		a.t.Reset()
	}
	return nil
}

// ---- environment ----

type verif17Env struct {
	clk   *clock.Mock
	loop  *verif17Loop
	arch  *verif17Archive
	sched *scheduler
	st    *state

	tokens       int // tokens consumed from loop.sig
	expected     int // tokens that will eventually arrive
	everComplete bool

	// hookBefore (set by whitebox.go) runs before an event is applied and
	// returns what to run after it.
	hookBefore func(event) func()
	// hookFinalTick (set by whitebox.go) runs right before the final fairness
	// tick is applied, after the clock was advanced.
	hookFinalTick func()
	// hookStarted (set by whitebox.go) runs when Download caller i has parked
	// its event in the pool.
	hookStarted func(i int)
	// answerKnown[i]: whitebox.go saw the event during which caller i was
	// answered; answerCached[i]: the blob was complete at that event.
	answerKnown  [2]bool
	answerCached [2]bool

	results [2]chan error
	started [2]bool
	cut     bool // unused since the upstream fix (kept for the constructor signature)

	onlyWindow bool // whitebox.go: keep only paths through the window of FINDINGS.md

	tickDelay int  // 0: symbolic choice, >0: fixed seconds
	completed bool // the remote peer delivered the pieces once
}

func verif17NewEnv(cut bool) *verif17Env {
	e := &verif17Env{clk: clock.NewMock(), cut: cut}
	e.loop = &verif17Loop{sig: make(chan struct{}, 64)}
	e.arch = &verif17Archive{t: dispatch.Verif17NewTorrent(2)}
	var pid core.PeerID
	pid[0] = 0xEE
	sched, err := newScheduler(
		Config{SeederTTI: 10 * time.Second, LeecherTTI: 10 * time.Second, ConnTTI: time.Hour, ConnTTL: time.Hour},
		e.arch, tally.NoopScope, core.PeerContext{PeerID: pid, IP: "localhost", Port: 1},
		announceclient.Disabled(), verif17NoEvents{}, withClock(e.clk), withEventLoop(e.loop))
	verif.Assert("new-scheduler", err == nil)
	e.sched = sched
	e.st = newState(e.sched, announcequeue.New())
	for i := range e.results {
		e.results[i] = make(chan error, 1)
	}
	return e
}

// settle waits until every sender that is going to send has entered the pool.
func (e *verif17Env) settle() {
	for e.tokens < e.expected {
		<-e.loop.sig
		e.tokens++
	}
}

// ---- sender actions (each runs on its own goroutine like a real caller) ----

func (e *verif17Env) startDownload(i int) {
	e.started[i] = true
	e.expected++
	go func() {
		_, err := e.sched.doDownload("ns", e.arch.t.Dig)
		e.results[i] <- err
	}()
	e.settle()
	if e.hookStarted != nil {
		e.hookStarted(i)
	}
}

func (e *verif17Env) startRemove() {
	e.expected++
	go func() { e.sched.RemoveTorrent(e.arch.t.Dig) }()
	e.settle()
}

func (e *verif17Env) startTick() {
	e.expected++
	go func() { e.sched.eventLoop.send(preemptionTickEvent{}) }()
	e.settle()
}

func (e *verif17Env) startShutdown() {
	e.expected++
	go func() { e.sched.eventLoop.send(shutdownEvent{}) }()
	e.settle()
}

// applyOne lets the loop receive pool[j] and apply it.
func (e *verif17Env) applyOne(j int) {
	e.loop.mu.Lock()
	p := e.loop.pool[j]
	e.loop.pool = append(e.loop.pool[:j:j], e.loop.pool[j+1:]...)
	e.loop.mu.Unlock()
	var after func()
	if e.hookBefore != nil {
		after = e.hookBefore(p.e)
	}
	if _, ok := p.e.(preemptionTickEvent); ok && e.tickDelay >= 0 {
		// the tick arrives some time after the previous events: before / at /
		// after the 10 s idle limits
		dt := e.tickDelay
		if dt == 0 {
			dt = []int{1, 10, 30}[verif.Choice("tick_after", 3)]
		}
		e.clk.Add(time.Duration(dt) * time.Second)
		if e.tickDelay > 0 && e.hookFinalTick != nil {
			e.hookFinalTick()
		}
	}
	p.accepted <- true
	p.e.apply(e.st)
	if after != nil {
		after()
	}
	e.settle()
}

func (e *verif17Env) loopStopped() bool {
	e.loop.mu.Lock()
	defer e.loop.mu.Unlock()
	return e.loop.stopped
}

func (e *verif17Env) poolLen() int {
	e.loop.mu.Lock()
	defer e.loop.mu.Unlock()
	return len(e.loop.pool)
}

// finish drains the pool in arbitrary order (the loop is live: it eventually
// receives every blocked sender), then lets the periodic preemption tick come
// once more long after everything else (fairness: ticks never stop while the
// scheduler runs), and states the property for every caller.
func (e *verif17Env) finish() {
	for e.poolLen() > 0 {
		e.applyOne(verif.Choice("drain", e.poolLen()))
	}
	if !e.loopStopped() {
		e.tickDelay = 30
		e.startTick()
		for e.poolLen() > 0 {
			e.applyOne(verif.Choice("drain", e.poolLen()))
		}
	}
	for i := range e.results {
		if !e.started[i] {
			continue
		}
		var err error
		if verif.Symbolic() {
			// a caller that never gets a result leaves the main thread blocked
			// here: reported by the engine as no-deadlock
			err = <-e.results[i]
		} else {
			select {
			case err = <-e.results[i]:
			case <-time.After(3 * time.Second):
				verif.Fail("download-returns", "Download never returned")
			}
		}
		verif.Reach("download-returned")
		if err == nil {
			verif.Reach("download-succeeded")
			verif.Assert("success-only-when-blob-was-cached", e.everComplete)
			if e.answerKnown[i] {
				// the blob was in the cache when this caller was answered (not
				// merely at some earlier time, for some earlier download)
				verif.Assert("success-only-when-blob-cached-at-answer", e.answerCached[i])
			}
		} else {
			verif.Assert("documented-error", err == ErrTorrentNotFound || err == ErrTorrentTimeout ||
				err == ErrTorrentRemoved || err == ErrSchedulerStopped)
		}
	}
}

// VerifDownloadNotFound: a blob the archive does not know returns not-found
// without involving the loop.
func VerifDownloadNotFound() {
	e := verif17NewEnv(true)
	var other core.Digest
	d, err := core.NewSHA256DigestFromHex("ff112233445566778899aabbccddeeff00112233445566778899aabbccddeeff")
	verif.Assert("digest", err == nil)
	other = d
	_, derr := e.sched.doDownload("ns", other)
	verif.Assert("not-found", derr == ErrTorrentNotFound)
	verif.Assert("no-event", e.poolLen() == 0)
}

// runNoCompletion: all callers start at once and block in send; the loop
// receives them in every order; the torrent never completes, so every caller
// must end with one of the documented errors (manual removal, idle timeout by
// the recurring tick, or shutdown).
func (e *verif17Env) runNoCompletion() {
	verif.Option("max_preempt", 0)
	verif.Option("max_threads", 24)
	// see whitebox.go run(): the receive order is the explicit Choice
	verif.Option("sched_fixed", 1)
	withD2 := verif.Choice("second_download", 2) == 1
	x := verif.Choice("other_event", 4)
	if verif.Choice("torrent_opened_by_remote_peer_first", 2) == 1 {
		// the control already exists because a remote peer connected for this
		// torrent earlier (state.addIncomingConn -> addTorrent(.., false))
		_, err := e.st.addTorrent("ns", e.arch.t, false)
		verif.Assert("add-torrent", err == nil)
	}
	e.startDownload(0)
	if withD2 {
		e.startDownload(1)
	}
	switch x {
	case 1:
		e.startRemove()
	case 2:
		e.startTick()
	case 3:
		e.startShutdown()
	}
	for e.poolLen() > 0 {
		e.applyOne(verif.Choice("next", e.poolLen()))
	}
	e.finish()
}

// VerifDownloadNeverCompletes: API-only exploration (no completion).
func VerifDownloadNeverCompletes() {
	e := verif17NewEnv(false)
	e.runNoCompletion()
}
