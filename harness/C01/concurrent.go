//kse:pkg lib/store
package store

import (
	"io"
	"sync"

	"github.com/uber/kraken/core"
	verif "github.com/uber/kraken/zzverif"
)

// VerifReaderDuringWrite: a reader (GetCacheFileReader + read, Stat) runs
// concurrently with one write of arbitrary bytes through any write path, at
// any schedule point of the write (file-system and lock operations): whatever
// the reader obtains under the name hashes to it — unverified bytes are never
// visible, not even for the duration of a commit.
func VerifReaderDuringWrite() {
	// one byte of content, one arbitrary written byte: the schedule is the
	// subject here, the content shapes are covered by the sequential harnesses
	verifGood = []byte("a")
	d, err0 := core.NewDigester().FromBytes(verifGood)
	if err0 != nil {
		panic(err0)
	}
	verifD = d.Hex()
	path := verif.Choice("path", 3)
	b := verifBlob{data: verif.Bytes("data", 1), size: 1, pieceLength: 1}
	cas := verifCAS(false, 0)
	verif.Option("max_preempt", 1)
	var (
		wg   sync.WaitGroup
		got  []byte
		saw  bool
		size int64 = -1
	)
	wg.Add(1)
	go func() {
		defer wg.Done()
		if fi, err := cas.GetCacheFileStat(verifD); err == nil {
			size = fi.Size()
		}
		r, err := cas.GetCacheFileReader(verifD)
		if err != nil {
			return
		}
		bb, err := io.ReadAll(r)
		r.Close()
		if err == nil {
			got, saw = bb, true
		}
	}()
	err := verifWrite(cas, path, b.data, b.size, b.pieceLength)
	wg.Wait()
	verif.Cover("reader-saw-blob", saw)
	verif.Cover("reader-saw-nothing", !saw)
	verif.Cover("write-rejected", err != nil)
	if saw {
		verif.Assert("concurrently-read-bytes-hash-to-name", verifMatches(got))
	}
	if size >= 0 {
		verif.Assert("concurrently-read-size-is-size-of-matching-content", size == int64(len(verifGood)))
	}
}
