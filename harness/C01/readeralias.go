//kse:pkg lib/store
package store

import (
	"io"

	"github.com/uber/kraken/core"
	verif "github.com/uber/kraken/zzverif"
)

// verifNamed is one name of a two-name history: digest, the one content that
// really hashes to it, and the reader opened under the name (if any) together
// with how many bytes it has handed out so far.
type verifNamed struct {
	tag  string
	d    string
	good []byte
	r    FileReader
	pos  int
}

func verifNewNamed(tag, alphabet string, n int) *verifNamed {
	x := &verifNamed{tag: tag, good: []byte(alphabet[:n])}
	d, err := core.NewDigester().FromBytes(x.good)
	if err != nil {
		panic(err)
	}
	x.d = d.Hex()
	return x
}

// refresh sends symbolic bytes of the reference length through the backend
// refresh path (memory write-through cache if there is room).
func (x *verifNamed) refresh(cas *CAStore) error {
	data := verif.Bytes(x.tag+"-data", len(x.good))
	verifMatchesName(data, x.d, x.good)
	return cas.WriteBlobToCacheWithMetaInfo(x.d, uint64(len(data)), func(w FileReadWriter) error {
		_, err := w.Write(data)
		return err
	}, 1)
}

// step: open a reader under the name if none is open, otherwise read the next
// chunk from the open one. Every byte handed out must be the corresponding
// byte of the content whose digest is the name, and no more bytes than that
// content has may ever come out.
func (x *verifNamed) step(cas *CAStore, maxChunk int) {
	if x.r == nil {
		r, err := cas.GetCacheFileReader(x.d)
		if err != nil {
			// nothing visible under the name (yet): a later step retries
			return
		}
		x.r, x.pos = r, 0
		verif.Reach(x.tag + "-reader-opened")
		return
	}
	p := make([]byte, verif.Len(x.tag+"-chunk", 1, maxChunk))
	n, _ := x.r.Read(p)
	x.check(p[:n])
}

func (x *verifNamed) check(got []byte) {
	verif.Assert("reader-returns-no-more-than-the-named-content", x.pos+len(got) <= len(x.good))
	ok := true
	for i := range got {
		if x.pos+i < len(x.good) {
			ok = verif.And(ok, got[i] == x.good[x.pos+i])
		}
	}
	verif.Assert("bytes-from-reader-opened-under-name-belong-to-named-content", ok)
	x.pos += len(got)
}

// finish drains an open reader to its end: in total it must have produced
// exactly the named content.
func (x *verifNamed) finish() {
	if x.r == nil {
		return
	}
	rest, err := io.ReadAll(x.r)
	verif.Assert("reader-read-ok", err == nil)
	x.check(rest)
	verif.Assert("reader-produced-the-whole-named-content", x.pos == len(x.good))
	x.r.Close()
	x.r = nil
}

// fresh: what a newly opened reader under the name sees, start to end.
func (x *verifNamed) fresh(cas *CAStore, mustExist bool) {
	r, err := cas.GetCacheFileReader(x.d)
	if err != nil {
		verif.Assert(x.tag+"-stays-readable", !mustExist)
		return
	}
	y := &verifNamed{tag: x.tag, d: x.d, good: x.good, r: r}
	y.finish()
}

// VerifReaderAcrossHistory: memory write-through cache on with room for two
// blobs. Blob A (symbolic bytes, accepted) is refreshed; then a symbolic
// history of drain steps, the refresh of a second blob B (symbolic bytes, size
// not above A's) and steps of a long-lived reader (opened at a symbolic point
// under A and continued in chunks of symbolic size across whatever happens
// later; B is read by readers opened at the end). Oracle: every byte ever
// returned by a reader opened under name d is the corresponding byte of the
// content whose digest is d, however the store moves that content around
// (memory entry, drain to disk, buffers of later blobs) while the reader is
// open; readers opened afresh at the end see exactly the named content too.
func VerifReaderAcrossHistory() {
	maxLen := verif.Bound("blob-len", 2, 3)
	steps := verif.Bound("history-steps", 4, 4)
	maxChunk := verif.Bound("read-chunk", 2, 2)
	ka := verif.Len("len-a", 1, maxLen)
	kb := verif.Len("len-b", 1, ka)
	a := verifNewNamed("a", "abcd", ka)
	b := verifNewNamed("b", "wxyz", kb)
	verif.Note("SHA-256 collision freeness assumed for both names: bytes hashing to a name equal its reference content")
	cas := verifCAS(true, uint64(2*maxLen))

	err := a.refresh(cas)
	verif.Assume(err == nil)
	verif.Cover("a-in-memory", cas.CheckInMemCache(a.d))
	bDone, bOK := false, false
	for i := 0; i < steps; i++ {
		switch verif.Choice("op", 3) {
		case 0:
			cas.drainNext()
		case 1:
			// one refresh of B per history
			verif.Assume(!bDone)
			bDone = true
			bOK = b.refresh(cas) == nil
			verif.Cover("b-accepted-into-memory", bOK && cas.CheckInMemCache(b.d))
			verif.Cover("b-accepted-after-a-left-memory", bOK && !cas.CheckInMemCache(a.d))
			if !bOK {
				// a rejected refresh: nothing under B, A and its reader untouched
				_, e := cas.GetCacheFileReader(b.d)
				verif.Assert("rejected-refresh-leaves-nothing-readable", e != nil)
				a.finish()
				a.fresh(cas, true)
				return
			}
		default:
			a.step(cas, maxChunk)
		}
	}
	verif.Cover("reader-a-spans-refresh-of-b", a.r != nil && bOK)
	verif.Cover("a-drained", !cas.CheckInMemCache(a.d))
	a.finish()
	a.fresh(cas, true)
	b.fresh(cas, bOK)
}
