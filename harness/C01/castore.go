//kse:pkg lib/store
package store

import (
	"bytes"
	"io"
	"path/filepath"

	"github.com/andres-erbsen/clock"
	"github.com/uber-go/tally"
	"github.com/uber/kraken/core"
	"github.com/uber/kraken/lib/store/metadata"
	verif "github.com/uber/kraken/zzverif"
)

// verifD is the claimed name of every write in these harnesses: one fixed,
// well-formed digest. SHA-256 of symbolic bytes is an uninterpreted function,
// so whether the written bytes hash to verifD is the solver's choice and both
// outcomes are explored.
var verifD = "3a7bd3e2360a3d29eea436fcfb7e44c735d117c42d1c1835420b6b9942dd4f1b"

func verifCAS(mem bool, maxSize uint64) *CAStore {
	root := filepath.Join(verif.TempDir(), "c01")
	cas, err := newCAStore(CAStoreConfig{
		UploadDir:     filepath.Join(root, "upload"),
		CacheDir:      filepath.Join(root, "cache"),
		UploadCleanup: CleanupConfig{Disabled: true},
		CacheCleanup:  CleanupConfig{Disabled: true},
		MemoryCache: MemoryCacheConfig{
			Enabled: mem, MaxSize: maxSize, DrainWorkers: 1, DrainMaxRetries: 1,
		},
	}, tally.NoopScope, clock.NewMock())
	if err != nil {
		panic(err)
	}
	return cas
}

// verifMatches is the (symbolic) fact "b hashes to verifD".
func verifMatches(b []byte) bool {
	d, err := core.NewDigester().FromBytes(b)
	if err != nil {
		panic(err)
	}
	return d.Hex() == verifD
}

// verifReaders checks every read API of the store for name verifD: whatever
// is readable must hash to the name, and size and metainfo must describe the
// readable bytes. Returns whether anything is visible under the name.
func verifReaders(cas *CAStore, pieceLength int64) bool {
	visible := false
	var content []byte
	haveContent := false
	if r, err := cas.GetCacheFileReader(verifD); err == nil {
		visible = true
		b, err := io.ReadAll(r)
		r.Close()
		verif.Assert("read-ok", err == nil)
		verif.Assert("readable-bytes-hash-to-name", verifMatches(b))
		content, haveContent = b, true
	}
	if fi, err := cas.GetCacheFileStat(verifD); err == nil {
		visible = true
		if haveContent {
			verif.Assert("size-describes-content", fi.Size() == int64(len(content)))
		}
	}
	var tm metadata.TorrentMeta
	if err := cas.GetCacheFileMetadata(verifD, &tm); err == nil {
		visible = true
		mi := tm.MetaInfo
		verif.Assert("metainfo-digest-is-name", mi.Digest().Hex() == verifD)
		if haveContent {
			verif.Reach("metainfo-checked-against-content")
			verif.Assert("metainfo-length", mi.Length() == int64(len(content)))
			pl := mi.PieceLength()
			verif.Assert("metainfo-piece-length", pieceLength == 0 || pl == pieceLength)
			n := int64(len(content))
			want := 0
			if n > 0 {
				want = int((n-1)/pl + 1)
			}
			verif.Assert("metainfo-num-pieces", mi.NumPieces() == want)
			for i := 0; i < mi.NumPieces() && i < want; i++ {
				lo := int64(i) * pl
				hi := lo + pl
				if hi > n {
					hi = n
				}
				verif.Assert("metainfo-piece-sum", mi.GetPieceSum(i) == core.PieceSum(content[lo:hi]))
			}
		}
	}
	names, err := cas.ListCacheFiles()
	verif.Assert("list-ok", err == nil)
	for _, nm := range names {
		if nm == verifD {
			visible = true
			verif.Assert("listed-name-is-readable", haveContent)
		}
	}
	return visible
}

// verifWrite performs one write of data under the name verifD through the
// chosen write path. size is what the caller claims as blob size (the backend
// Stat result on the refresh path).
func verifWrite(cas *CAStore, path int, data []byte, size uint64, pieceLength int64) error {
	switch path {
	case 0: // client upload: create, write, commit
		uid := "upload-" + verifD[:4]
		if err := cas.CreateUploadFile(uid, 0); err != nil {
			return err
		}
		w, err := cas.GetUploadFileReadWriter(uid)
		if err != nil {
			return err
		}
		if _, err := w.Write(data); err != nil {
			return err
		}
		w.Close()
		return cas.MoveUploadFileToCache(uid, verifD)
	case 1: // internal transfer
		return cas.CreateCacheFile(verifD, bytes.NewReader(data))
	default: // refresh from a storage backend
		return cas.WriteBlobToCacheWithMetaInfo(verifD, size, func(w FileReadWriter) error {
			_, err := w.Write(data)
			return err
		}, pieceLength)
	}
}

// verifBlob is one symbolic write request: bytes, claimed size and piece length
// (the latter two only matter on the refresh path).
type verifBlob struct {
	data        []byte
	size        uint64
	pieceLength int64
}

func verifSymBlob(tag string, path int) verifBlob {
	maxLen := verif.Bound("blob-len", 2, 4)
	b := verifBlob{pieceLength: 1}
	b.data = verif.Bytes(tag+"data", verif.Len(tag+"len", 0, maxLen))
	if path == 2 {
		// the backend's Stat size is independent of what it then streams:
		// equal, truncated or extended
		b.size = uint64(verif.Len(tag+"claimed-size", 0, maxLen))
		b.pieceLength = int64(verif.Len(tag+"piece-length", 1, 2))
	}
	return b
}

func verifWriteAndCheck(cas *CAStore, path int, b verifBlob) {
	matches := verifMatches(b.data)
	verif.Assert("nothing-visible-initially", !verifReaders(cas, b.pieceLength))
	err := verifWrite(cas, path, b.data, b.size, b.pieceLength)
	verif.Cover("write-accepted", err == nil)
	verif.Cover("write-rejected", err != nil)
	if err != nil {
		verif.Assert("rejected-write-leaves-nothing-visible", !verifReaders(cas, b.pieceLength))
		return
	}
	verif.Assert("accepted-write-matches-name", matches)
	verif.Assert("accepted-write-is-visible", verifReaders(cas, b.pieceLength))
}

// VerifDiskWritePaths: memory cache disabled; client upload, internal transfer
// and backend refresh each verify the digest before anything becomes visible,
// and what becomes visible (bytes, size, metainfo, listing) describes bytes
// that hash to the name.
func VerifDiskWritePaths() {
	path := verif.Choice("path", 3)
	b := verifSymBlob("", path)
	verifWriteAndCheck(verifCAS(false, 0), path, b)
}

// VerifMemCacheFullFallsBackToDisk: memory cache enabled but without room for
// the claimed size: the refresh goes through the verified disk path.
func VerifMemCacheFullFallsBackToDisk() {
	b := verifSymBlob("", 2)
	maxSize := verif.Uint64("max-size")
	verif.Assume(maxSize < b.size)
	cas := verifCAS(true, maxSize)
	verifWriteAndCheck(cas, 2, b)
	verif.Assert("not-in-memory", !cas.CheckInMemCache(verifD))
}

// VerifSecondWriteKeepsName: a correct blob is cached; any further write under
// the same name, through any path, leaves the readable content hashing to it.
func VerifSecondWriteKeepsName() {
	good := []byte("ab")
	d, err := core.NewDigester().FromBytes(good)
	if err != nil {
		panic(err)
	}
	verifD = d.Hex()
	mem := verif.Choice("mem", 2) == 1
	cas := verifCAS(mem, 8)
	if err := cas.CreateCacheFile(verifD, bytes.NewReader(good)); err != nil {
		panic(err)
	}
	path := verif.Choice("path", 3)
	b := verifSymBlob("second-", path)
	verif.Assert("first-visible", verifReaders(cas, 0))
	err = verifWrite(cas, path, b.data, b.size, b.pieceLength)
	verif.Cover("second-write-error", err != nil)
	verif.Cover("second-write-nil", err == nil)
	verif.Assert("still-visible", verifReaders(cas, 0))
	if mem {
		cas.drainNext()
		verif.Assert("still-visible-after-drain", verifReaders(cas, 0))
	}
}
