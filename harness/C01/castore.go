//kse:pkg lib/store
package store

import (
	"bytes"
	"crypto/sha256"
	"encoding/hex"
	"io"
	"path/filepath"

	"github.com/andres-erbsen/clock"
	"github.com/uber-go/tally"
	"github.com/uber/kraken/core"
	"github.com/uber/kraken/lib/store/metadata"
	verif "github.com/uber/kraken/zzverif"
)

// verifD is the claimed name of every write in a harness run and verifGood the
// one content that really hashes to it (a prefix of "abcd" of chosen length,
// digest computed with the real SHA-256). Symbolic written bytes hash through
// an uninterpreted function, so "these bytes hash to verifD" is the solver's
// choice; verifMatches ties that choice to collision freeness (bytes that hash
// to verifD are verifGood), which keeps every counterexample natively
// reproducible.
var (
	verifD    string
	verifGood []byte
)

func verifPickName() { verifPickNameLen(0, verif.Bound("blob-len", 2, 3)) }

func verifPickNameLen(lo, hi int) {
	k := verif.Len("good-len", lo, hi)
	verifGood = []byte("abcd"[:k])
	d, err := core.NewDigester().FromBytes(verifGood)
	if err != nil {
		panic(err)
	}
	verifD = d.Hex()
	verif.Note("SHA-256 collision freeness assumed for the name under test: bytes hashing to it equal the reference content")
}

func verifCAS(mem bool, maxSize uint64) *CAStore {
	// The drain and TTL workers only wait on tickers that never fire; the
	// harnesses call drainNext themselves at chosen positions, so no
	// preemptive switches to those goroutines are explored.
	verif.Option("max_preempt", 0)
	root := filepath.Join(verif.TempDir(), "c01")
	cas, err := newCAStore(CAStoreConfig{
		UploadDir:     filepath.Join(root, "upload"),
		CacheDir:      filepath.Join(root, "cache"),
		UploadCleanup: CleanupConfig{Disabled: true},
		CacheCleanup:  CleanupConfig{Disabled: true},
		MemoryCache: MemoryCacheConfig{
			Enabled: mem, MaxSize: maxSize, DrainWorkers: 1, DrainMaxRetries: 1,
		},
	}, tally.NoopScope, clock.NewMock())
	if err != nil {
		panic(err)
	}
	return cas
}

// verifMatches is the (symbolic) fact "b hashes to verifD", stated on the raw
// SHA-256 bytes (hex encoding is injective, so this is the same fact as
// comparing the hex digests, but far cheaper for the solver than 64
// table-lookup characters).
func verifMatches(b []byte) bool { return verifMatchesName(b, verifD, verifGood) }

// verifMatchesName is verifMatches for an explicit (name, reference content)
// pair (harnesses with two names).
func verifMatchesName(b []byte, d string, good []byte) bool {
	sum := sha256.Sum256(b)
	want, err := hex.DecodeString(d)
	if err != nil || len(want) != len(sum) {
		panic("bad reference digest")
	}
	m := true
	for i := range sum {
		m = verif.And(m, sum[i] == want[i])
	}
	verif.Assume(verif.Implies(m, bytes.Equal(b, good)))
	return m
}

// verifReaders checks every read API of the store for name verifD: whatever
// is readable must hash to the name, and size and metainfo must describe the
// readable bytes. Returns whether anything is visible under the name.
func verifReaders(cas *CAStore, pieceLength int64) bool {
	visible := false
	var content []byte
	haveContent := false
	if r, err := cas.GetCacheFileReader(verifD); err == nil {
		visible = true
		b, err := io.ReadAll(r)
		r.Close()
		verif.Assert("read-ok", err == nil)
		verif.Assert("readable-bytes-hash-to-name", verifMatches(b))
		content, haveContent = b, true
	}
	if fi, err := cas.GetCacheFileStat(verifD); err == nil {
		visible = true
		if haveContent {
			verif.Assert("size-describes-content", fi.Size() == int64(len(content)))
		}
	}
	var tm metadata.TorrentMeta
	if err := cas.GetCacheFileMetadata(verifD, &tm); err == nil {
		visible = true
		mi := tm.MetaInfo
		verif.Assert("metainfo-digest-is-name", mi.Digest().Hex() == verifD)
		if haveContent {
			verif.Reach("metainfo-checked-against-content")
			verif.Assert("metainfo-length", mi.Length() == int64(len(content)))
			pl := mi.PieceLength()
			verif.Assert("metainfo-piece-length", pieceLength == 0 || pl == pieceLength)
			n := int64(len(content))
			want := 0
			if n > 0 {
				want = int((n-1)/pl + 1)
			}
			verif.Assert("metainfo-num-pieces", mi.NumPieces() == want)
			for i := 0; i < mi.NumPieces() && i < want; i++ {
				lo := int64(i) * pl
				hi := lo + pl
				if hi > n {
					hi = n
				}
				verif.Assert("metainfo-piece-sum", mi.GetPieceSum(i) == core.PieceSum(content[lo:hi]))
			}
		}
	}
	names, err := cas.ListCacheFiles()
	verif.Assert("list-ok", err == nil)
	for _, nm := range names {
		if nm == verifD {
			visible = true
			verif.Assert("listed-name-is-readable", haveContent)
		}
	}
	return visible
}

// verifWrite performs one write of data under the name verifD through the
// chosen write path. size is what the caller claims as blob size (the backend
// Stat result on the refresh path).
func verifWrite(cas *CAStore, path int, data []byte, size uint64, pieceLength int64) error {
	switch path {
	case 0: // client upload: create, write, commit
		uid := "upload-" + verifD[:4]
		if err := cas.CreateUploadFile(uid, 0); err != nil {
			return err
		}
		w, err := cas.GetUploadFileReadWriter(uid)
		if err != nil {
			return err
		}
		if _, err := w.Write(data); err != nil {
			return err
		}
		w.Close()
		return cas.MoveUploadFileToCache(uid, verifD)
	case 1: // internal transfer
		return cas.CreateCacheFile(verifD, bytes.NewReader(data))
	default: // refresh from a storage backend
		return cas.WriteBlobToCacheWithMetaInfo(verifD, size, func(w FileReadWriter) error {
			_, err := w.Write(data)
			return err
		}, pieceLength)
	}
}

// verifBlob is one symbolic write request: bytes, claimed size and piece length
// (the latter two only matter on the refresh path).
type verifBlob struct {
	data        []byte
	size        uint64
	pieceLength int64
}

func verifSymBlob(tag string, path int) verifBlob {
	maxLen := verif.Bound("blob-len", 2, 3)
	b := verifBlob{pieceLength: 1}
	b.data = verif.Bytes(tag+"data", verif.Len(tag+"len", 0, maxLen))
	if path == 2 {
		// the backend's Stat size is independent of what it then streams:
		// equal, truncated or extended
		b.size = uint64(verif.Len(tag+"claimed-size", 0, maxLen))
		b.pieceLength = int64(verif.Len(tag+"piece-length", 1, 2))
	}
	return b
}

func verifWriteAndCheck(cas *CAStore, path int, b verifBlob) {
	matches := verifMatches(b.data)
	verif.Assert("nothing-visible-initially", !verifReaders(cas, b.pieceLength))
	err := verifWrite(cas, path, b.data, b.size, b.pieceLength)
	verif.Cover("write-accepted", err == nil)
	verif.Cover("write-rejected", err != nil)
	if err != nil {
		verif.Assert("rejected-write-leaves-nothing-visible", !verifReaders(cas, b.pieceLength))
		return
	}
	verif.Assert("accepted-write-matches-name", matches)
	verif.Assert("accepted-write-is-visible", verifReaders(cas, b.pieceLength))
}

// VerifDiskWritePaths: memory cache disabled; client upload, internal transfer
// and backend refresh each verify the digest before anything becomes visible,
// and what becomes visible (bytes, size, metainfo, listing) describes bytes
// that hash to the name.
func VerifDiskWritePaths() {
	verifPickName()
	path := verif.Choice("path", 3)
	b := verifSymBlob("", path)
	verifWriteAndCheck(verifCAS(false, 0), path, b)
}

// VerifMemCacheFullFallsBackToDisk: memory cache enabled but without room for
// the claimed size: the refresh goes through the verified disk path.
func VerifMemCacheFullFallsBackToDisk() {
	verifPickName()
	b := verifSymBlob("", 2)
	maxSize := verif.Uint64("max-size")
	verif.Assume(maxSize < b.size)
	cas := verifCAS(true, maxSize)
	verifWriteAndCheck(cas, 2, b)
	verif.Assert("not-in-memory", !cas.CheckInMemCache(verifD))
}

// VerifSecondWriteKeepsName: a correct blob is cached (on disk, or still in
// the memory write-through cache); any further write under the same name,
// through any path, leaves the readable content hashing to it, also after the
// memory entries were drained to disk.
func VerifSecondWriteKeepsName() {
	verifPickName()
	good := verifGood
	var err error
	mem := verif.Choice("mem", 2) == 1
	cas := verifCAS(mem, 8)
	// the correct blob arrives through the disk path or, with the memory cache
	// on, through the memory write-through path (and is still undrained when
	// the second write arrives)
	first := 1
	if mem {
		first = 1 + verif.Choice("first-path", 2)
	}
	if err := verifWrite(cas, first, good, uint64(len(good)), 1); err != nil {
		panic(err)
	}
	verif.Cover("first-blob-in-memory", mem && cas.CheckInMemCache(verifD))
	path := verif.Choice("path", 3)
	b := verifSymBlob("second-", path)
	verif.Assert("first-visible", verifReaders(cas, 0))
	err = verifWrite(cas, path, b.data, b.size, b.pieceLength)
	verif.Cover("second-write-error", err != nil)
	verif.Cover("second-write-nil", err == nil)
	verif.Assert("still-visible", verifReaders(cas, 0))
	if mem {
		for i := 0; i < 2; i++ {
			cas.drainNext()
			verif.Assert("still-visible-after-drain", verifReaders(cas, 0))
		}
		verif.Cover("drained", !cas.CheckInMemCache(verifD))
	}
}

// VerifFindingMemoryPathUnverified: one backend refresh of arbitrary bytes
// through the memory write-through path (room for the claimed size), with
// reads before, between and after a chosen number of drain steps. Recorded as
// finding F1 (mismatching bytes were served from memory until the drain);
// fixed in /repo by 9c49c36, now the regression check of that path.
func VerifFindingMemoryPathUnverified() {
	verifPickName()
	b := verifSymBlob("", 2)
	cas := verifCAS(true, uint64(verif.Bound("blob-len", 2, 3)))
	matches := verifMatches(b.data)
	err := verifWrite(cas, 2, b.data, b.size, b.pieceLength)
	verif.Cover("in-memory", err == nil && cas.CheckInMemCache(verifD))
	verif.Cover("rejected", err != nil)
	if err == nil {
		verif.Assert("accepted-write-matches-name", matches)
		verif.Assert("accepted-write-is-visible", verifReaders(cas, b.pieceLength))
	} else {
		verif.Assert("rejected-write-leaves-nothing-visible", !verifReaders(cas, b.pieceLength))
	}
	drains := verif.Len("drains", 0, 2)
	for i := 0; i < drains; i++ {
		cas.drainNext()
		vis := verifReaders(cas, b.pieceLength)
		if err == nil {
			verif.Assert("still-visible-after-drain", vis)
		} else {
			verif.Assert("still-nothing-visible-after-drain", !vis)
		}
	}
	if drains > 0 {
		verif.Cover("drained-to-disk", err == nil && !cas.CheckInMemCache(verifD))
	}
}
