//kse:pkg lib/store
package store

import (
	"bytes"
	"io"
	"path/filepath"

	"github.com/andres-erbsen/clock"
	"github.com/uber-go/tally"
	"github.com/uber/kraken/core"
	"github.com/uber/kraken/lib/store/metadata"
	verif "github.com/uber/kraken/zzverif"
)

// verifD is the claimed name of every write in these harnesses: one fixed,
// well-formed digest. SHA-256 of symbolic bytes is an uninterpreted function,
// so whether the written bytes hash to verifD is the solver's choice and both
// outcomes are explored.
const verifD = "3a7bd3e2360a3d29eea436fcfb7e44c735d117c42d1c1835420b6b9942dd4f1b"

func verifCAS(mem bool, maxSize uint64) *CAStore {
	root := filepath.Join(verif.TempDir(), "c01")
	cas, err := newCAStore(CAStoreConfig{
		UploadDir:     filepath.Join(root, "upload"),
		CacheDir:      filepath.Join(root, "cache"),
		UploadCleanup: CleanupConfig{Disabled: true},
		CacheCleanup:  CleanupConfig{Disabled: true},
		MemoryCache: MemoryCacheConfig{
			Enabled: mem, MaxSize: maxSize, DrainWorkers: 1, DrainMaxRetries: 1,
		},
	}, tally.NoopScope, clock.NewMock())
	if err != nil {
		panic(err)
	}
	return cas
}

// verifMatches is the (symbolic) fact "b hashes to verifD".
func verifMatches(b []byte) bool {
	d, err := core.NewDigester().FromBytes(b)
	if err != nil {
		panic(err)
	}
	return d.Hex() == verifD
}

// verifReaders checks every read API of the store for name verifD: whatever
// is readable must hash to the name, and size and metainfo must describe the
// readable bytes. Returns whether anything is visible under the name.
func verifReaders(cas *CAStore, pieceLength int64) bool {
	visible := false
	var content []byte
	haveContent := false
	if r, err := cas.GetCacheFileReader(verifD); err == nil {
		visible = true
		b, err := io.ReadAll(r)
		r.Close()
		verif.Assert("read-ok", err == nil)
		verif.Assert("readable-bytes-hash-to-name", verifMatches(b))
		content, haveContent = b, true
	}
	if fi, err := cas.GetCacheFileStat(verifD); err == nil {
		visible = true
		if haveContent {
			verif.Assert("size-describes-content", fi.Size() == int64(len(content)))
		}
	}
	var tm metadata.TorrentMeta
	if err := cas.GetCacheFileMetadata(verifD, &tm); err == nil {
		visible = true
		mi := tm.MetaInfo
		verif.Assert("metainfo-digest-is-name", mi.Digest().Hex() == verifD)
		if haveContent {
			verif.Reach("metainfo-checked-against-content")
			verif.Assert("metainfo-length", mi.Length() == int64(len(content)))
			pl := mi.PieceLength()
			verif.Assert("metainfo-piece-length", pl == pieceLength)
			n := int64(len(content))
			want := 0
			if n > 0 {
				want = int((n-1)/pl + 1)
			}
			verif.Assert("metainfo-num-pieces", mi.NumPieces() == want)
			for i := 0; i < mi.NumPieces() && i < want; i++ {
				lo := int64(i) * pl
				hi := lo + pl
				if hi > n {
					hi = n
				}
				verif.Assert("metainfo-piece-sum", mi.GetPieceSum(i) == core.PieceSum(content[lo:hi]))
			}
		}
	}
	names, err := cas.ListCacheFiles()
	verif.Assert("list-ok", err == nil)
	for _, nm := range names {
		if nm == verifD {
			visible = true
			verif.Assert("listed-name-is-readable", haveContent)
		}
	}
	return visible
}

// verifWrite performs one write of data under the name verifD through the
// chosen write path. size is what the caller claims as blob size (the backend
// Stat result on the refresh path).
func verifWrite(cas *CAStore, path int, data []byte, size uint64, pieceLength int64) error {
	switch path {
	case 0: // client upload: create, write, commit
		uid := "upload-" + verifD[:4]
		if err := cas.CreateUploadFile(uid, 0); err != nil {
			return err
		}
		w, err := cas.GetUploadFileReadWriter(uid)
		if err != nil {
			return err
		}
		if _, err := w.Write(data); err != nil {
			return err
		}
		w.Close()
		return cas.MoveUploadFileToCache(uid, verifD)
	case 1: // internal transfer
		return cas.CreateCacheFile(verifD, bytes.NewReader(data))
	default: // refresh from a storage backend
		return cas.WriteBlobToCacheWithMetaInfo(verifD, size, func(w FileReadWriter) error {
			_, err := w.Write(data)
			return err
		}, pieceLength)
	}
}

// VerifDiskWritePaths: memory cache disabled, or enabled but too small for the
// blob: every write path verifies before anything becomes visible.
func VerifDiskWritePaths() {
	maxLen := verif.Bound("blob-len", 2, 4)
	n := verif.Len("len", 0, maxLen)
	data := verif.Bytes("data", n)
	size := uint64(verif.Len("claimed-size", 0, maxLen))
	pieceLength := int64(verif.Len("piece-length", 1, 2))
	mem := verif.Choice("mem", 2) == 1
	// memory cache too small for the claimed size: falls back to disk
	cas := verifCAS(mem, 0)
	verif.Cover("mem-enabled-but-full", mem && size > 0)
	path := verif.Choice("path", 3)
	if mem && size == 0 {
		// TryReserve(0) succeeds with MaxSize 0: that is the memory path.
		verif.Assume(path != 2)
	}

	matches := verifMatches(data)
	verif.Assert("nothing-visible-initially", !verifReaders(cas, pieceLength))
	err := verifWrite(cas, path, data, size, pieceLength)
	verif.Cover("write-accepted", err == nil)
	verif.Cover("write-rejected", err != nil)
	if err == nil {
		verif.Assert("accepted-write-matches-name", matches)
	} else {
		verif.Assert("mismatching-or-failed-write-leaves-nothing-visible", !verifReaders(cas, pieceLength))
		return
	}
	vis := verifReaders(cas, pieceLength)
	verif.Assert("accepted-write-is-visible", vis)

	// a second write of other bytes under the same name must not replace them
	data2 := verif.Bytes("data2", verif.Len("len2", 0, maxLen))
	path2 := verif.Choice("path2", 3)
	if mem && size == 0 {
		verif.Assume(path2 != 2)
	}
	verifWrite(cas, path2, data2, size, pieceLength)
	verifReaders(cas, pieceLength)
}
