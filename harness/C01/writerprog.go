//kse:pkg lib/store
package store

import (
	"strconv"

	verif "github.com/uber/kraken/zzverif"
)

// A write callback is not obliged to stream its bytes front to back: what the
// store hands it is a FileReadWriter (Write, WriteAt, Seek, Read share one file
// offset), and backend clients do use it that way (parallel chunked downloads,
// retries that rewind). verifWriterOp is one step of such a callback and
// verifWriterProg a little symbolic program of them: which operations, in which
// order, with which payload bytes, offsets and whence values are all unknowns.
type verifWriterOp struct {
	kind   int // 0 Write, 1 Seek, 2 WriteAt, 3 Read
	data   []byte
	off    int64
	whence int
}

// Two program shapes: "wide" programs of 1..2 steps over all operation kinds,
// and "long" programs of exactly 3 steps over Write and Seek-from-start only
// (write, rewind, write again: what a retrying streamer does).
func verifDrawWriterProg() []verifWriterOp {
	maxLen := verif.Bound("writer-payload-len", 2, 2)
	maxOff := verif.Bound("writer-offset", 1, 1)
	kinds := verif.Bound("writer-op-kinds", 3, 4)
	long := verif.Choice("writer-shape", 2) == 1
	n := 3
	if !long {
		n = verif.Len("writer-ops", 1, verif.Bound("writer-wide-ops", 2, 2))
	}
	prog := make([]verifWriterOp, n)
	for i := range prog {
		tag := "op" + strconv.Itoa(i) + "-"
		var op verifWriterOp
		if long {
			op.kind = verif.Choice(tag+"kind", 2)
		} else {
			op.kind = verif.Choice(tag+"kind", kinds)
		}
		switch op.kind {
		case 0:
			op.data = verif.Bytes(tag+"data", verif.Len(tag+"len", 1, maxLen))
		case 1:
			if long {
				op.off = int64(verif.Len(tag+"off", 0, maxOff))
				break
			}
			// -1 .. maxOff relative to start, current offset or end
			op.off = int64(verif.Len(tag+"off", 0, maxOff+1) - 1)
			op.whence = verif.Choice(tag+"whence", 3)
		case 2:
			op.data = verif.Bytes(tag+"data", verif.Len(tag+"len", 1, maxLen))
			op.off = int64(verif.Len(tag+"off", 0, maxOff))
		default:
			op.data = make([]byte, verif.Len(tag+"len", 1, maxLen))
		}
		prog[i] = op
	}
	return prog
}

// verifProgAssumeCollisionFree states the collision freeness assumption for
// every byte string the program hands to the store in one piece or as a
// stream (each payload, and all Write payloads in program order), so that a
// store which hashes any of them instead of the resulting file gets the real
// SHA-256 answer, not a solver-chosen collision.
func verifProgAssumeCollisionFree(prog []verifWriterOp) {
	var stream []byte
	for _, op := range prog {
		if op.kind == 0 || op.kind == 2 {
			verifMatches(op.data)
		}
		if op.kind == 0 {
			stream = append(stream, op.data...)
			verifMatches(stream)
		}
	}
	// Also for the file a POSIX-like writer is expected to leave behind (holes
	// read as zero). This is not the oracle (that reads the store back), it only
	// states the same assumption early, so that the digest branch inside the
	// store is decided where it is taken instead of at the final read.
	verifMatches(verifProgExpectedFile(prog))
}

func verifProgExpectedFile(prog []verifWriterOp) []byte {
	var file []byte
	var pos int64
	put := func(p []byte, at int64) {
		for int64(len(file)) < at+int64(len(p)) {
			file = append(file, 0)
		}
		copy(file[at:], p)
	}
	for _, op := range prog {
		switch op.kind {
		case 0:
			put(op.data, pos)
			pos += int64(len(op.data))
		case 1:
			np := op.off
			switch op.whence {
			case 1:
				np += pos
			case 2:
				np += int64(len(file))
			}
			if np < 0 {
				return file
			}
			pos = np
		case 2:
			put(op.data, op.off)
		default:
			if rest := int64(len(file)) - pos; rest > 0 {
				if rest > int64(len(op.data)) {
					rest = int64(len(op.data))
				}
				pos += rest
			}
		}
	}
	return file
}

func verifRunWriterProg(w FileReadWriter, prog []verifWriterOp) error {
	for _, op := range prog {
		var err error
		switch op.kind {
		case 0:
			_, err = w.Write(op.data)
		case 1:
			// a callback that ignores a failed Seek and one that gives up are
			// both writers; giving up is the plain "callback error" case
			_, err = w.Seek(op.off, op.whence)
		case 2:
			_, err = w.WriteAt(op.data, op.off)
		default:
			w.Read(op.data)
		}
		if err != nil {
			return err
		}
	}
	return nil
}

// VerifWriterProgram: the write callback given to WriteCacheFile (internal
// transfer, drain) or to WriteBlobToCacheWithMetaInfo (backend refresh, memory
// cache on with room for the claimed size) is a symbolic program of Write /
// Seek / WriteAt (thorough: also Read) steps (verifDrawWriterProg). If the call
// returns nil, whatever is then readable under the name (bytes, size, metainfo,
// listing) describes bytes hashing to the name — the resulting file, not the
// sequence of bytes that went through Write, is what must match; if it returns
// an error nothing is visible.
func VerifWriterProgram() {
	verifPickNameLen(1, verif.Bound("writer-content-len", 2, 2))
	prog := verifDrawWriterProg()
	verifProgAssumeCollisionFree(prog)
	// 0 WriteCacheFile, 2 refresh with the memory cache on (a program the memory
	// path turns down is run again by the disk path of the refresh, so the quick
	// tier reaches writeCacheFile with and without metadata generation through
	// these two); 1 would be the refresh with the memory cache off
	path := 2 * verif.Choice("path", 2)
	var cas *CAStore
	if path == 2 {
		cas = verifCAS(true, 8)
	} else {
		cas = verifCAS(false, 0)
	}
	write := func(w FileReadWriter) error { return verifRunWriterProg(w, prog) }
	var (
		err         error
		pieceLength int64
	)
	switch path {
	case 0:
		err = cas.WriteCacheFile(verifD, write)
	default:
		pieceLength = 1
		// the claimed size is the size of the content the name stands for (a
		// backend Stat answering for the right object); other claimed sizes are
		// the subject of VerifDiskWritePaths / VerifFindingMemoryPathUnverified
		err = cas.WriteBlobToCacheWithMetaInfo(verifD, uint64(len(verifGood)), write, pieceLength)
	}
	verif.Cover("program-accepted", err == nil)
	verif.Cover("program-rejected", err != nil)
	if path == 2 {
		verif.Cover("program-accepted-into-memory", err == nil && cas.CheckInMemCache(verifD))
	}
	if err != nil {
		verif.Assert("rejected-program-leaves-nothing-visible", !verifReaders(cas, pieceLength))
		return
	}
	verif.Assert("accepted-program-result-is-visible-and-hashes-to-name", verifReaders(cas, pieceLength))
	if path == 2 {
		cas.drainNext()
		verif.Assert("accepted-program-result-after-drain", verifReaders(cas, pieceLength))
	}
}
