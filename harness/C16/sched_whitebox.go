//kse:pkg lib/torrent/scheduler
package scheduler

import (
	"time"

	"github.com/andres-erbsen/clock"
	"github.com/uber-go/tally"
	"github.com/uber/kraken/core"
	"github.com/uber/kraken/lib/torrent/networkevent"
	"github.com/uber/kraken/lib/torrent/scheduler/announcequeue"
	"github.com/uber/kraken/lib/torrent/scheduler/conn"
	"github.com/uber/kraken/lib/torrent/scheduler/connstate"
	"github.com/uber/kraken/lib/torrent/storage"
	"github.com/uber/kraken/tracker/announceclient"
	verif "github.com/uber/kraken/zzverif"
	"github.com/willf/bitset"
)

// C16, scheduler level (white-box file: reads state.conns): the real
// announceResultEvent.apply must not open (add as pending / dial) a connection
// to a peer whose blacklisting for that torrent has not expired.

type verif16Loop struct{}

func (verif16Loop) send(event) bool                        { return true }
func (verif16Loop) sendTimeout(event, time.Duration) error { return nil }
func (verif16Loop) run(*state)                             {}
func (verif16Loop) stop()                                  {}

type verif16NoNet struct{}

func (verif16NoNet) Produce(*networkevent.Event) {}
func (verif16NoNet) Close() error                { return nil }

// verif16Torrent: an in-progress torrent of 2 one-byte pieces.
type verif16Torrent struct {
	hash core.InfoHash
	dig  core.Digest
	mi   *core.MetaInfo
}

func (t *verif16Torrent) Digest() core.Digest { return t.dig }
func (t *verif16Torrent) Stat() *storage.TorrentInfo {
	return storage.NewTorrentInfo(t.mi, bitset.New(2))
}
func (t *verif16Torrent) NumPieces() int                            { return 2 }
func (t *verif16Torrent) Length() int64                             { return 2 }
func (t *verif16Torrent) PieceLength(piece int) int64               { return 1 }
func (t *verif16Torrent) MaxPieceLength() int64                     { return 1 }
func (t *verif16Torrent) InfoHash() core.InfoHash                   { return t.hash }
func (t *verif16Torrent) Complete() bool                            { return false }
func (t *verif16Torrent) BytesDownloaded() int64                    { return 0 }
func (t *verif16Torrent) Bitfield() *bitset.BitSet                  { return bitset.New(2) }
func (t *verif16Torrent) String() string                            { return "verif16torrent" }
func (t *verif16Torrent) HasPiece(piece int) bool                   { return false }
func (t *verif16Torrent) MissingPieces() []int                      { return []int{0, 1} }
func (t *verif16Torrent) WritePiece(storage.PieceReader, int) error { return storage.ErrNotFound }
func (t *verif16Torrent) GetPieceReader(int) (storage.PieceReader, error) {
	return nil, storage.ErrNotFound
}

type verif16Archive struct{ t *verif16Torrent }

func (a verif16Archive) Stat(string, core.Digest) (*storage.TorrentInfo, error) {
	return nil, storage.ErrNotFound
}
func (a verif16Archive) CreateTorrent(string, core.Digest) (storage.Torrent, error) { return a.t, nil }
func (a verif16Archive) GetTorrent(string, core.Digest) (storage.Torrent, error)    { return a.t, nil }
func (a verif16Archive) DeleteTorrent(core.Digest) error                            { return nil }

func verif16Peer(i int) core.PeerID {
	var p core.PeerID
	p[0] = byte(i + 1)
	p[19] = byte(0xB0 + i)
	return p
}

// VerifAnnounceResultSkipsBlacklisted: 3 peers, each blacklisted or not at
// time 0 with a symbolic blacklist duration; after a symbolic clock advance an
// announce response lists all of them (and ourselves).
func VerifAnnounceResultSkipsBlacklisted() {
	// the dial goroutines started by apply must not run (net is not modelled
	// and dialling is exactly what is being excluded): no preemption
	verif.Option("max_preempt", 0)
	verif.Option("sched_fixed", 1)
	// all times stay below the scheduler's own timers (announce timer 5 s, the
	// tickers are set to one hour) so that advancing the mock clock fires none
	const maxNs = int64(1) << 31
	clk := clock.NewMock()
	dur := verif.Int64("blacklist_duration_ns")
	dt := verif.Int64("dt_ns")
	verif.Assume(verif.And(dur >= 1, dur <= maxNs, dt >= 0, dt <= maxNs))
	t := &verif16Torrent{}
	t.hash[0] = 7
	dg, err := core.NewSHA256DigestFromHex("00112233445566778899aabbccddeeff00112233445566778899aabbccddeeff")
	verif.Assert("digest", err == nil)
	t.dig = dg
	mi, err := core.NewMetaInfoFromBytes(dg, []byte{1, 2}, 1)
	verif.Assert("metainfo", err == nil)
	t.mi = mi
	t.hash = mi.InfoHash()
	var self core.PeerID
	self[0] = 0xEE
	sched, err := newScheduler(
		Config{PreemptionInterval: time.Hour, EmitStatsInterval: time.Hour,
			ConnState: connstate.Config{MaxOpenConnectionsPerTorrent: 10, BlacklistDuration: time.Duration(dur)}},
		verif16Archive{t}, tally.NoopScope, core.PeerContext{PeerID: self, IP: "localhost", Port: 1},
		announceclient.Disabled(), verif16NoNet{}, withClock(clk), withEventLoop(verif16Loop{}))
	verif.Assert("new-scheduler", err == nil)
	st := newState(sched, announcequeue.New())
	_, err = st.addTorrent("ns", t, true)
	verif.Assert("add-torrent", err == nil)

	var listed [3]bool
	for i := 0; i < 3; i++ {
		if verif.Bool("blacklisted") {
			listed[i] = true
			verif.Assert("blacklist", st.conns.Blacklist(verif16Peer(i), t.hash) == nil)
		}
	}
	clk.Add(time.Duration(dt))
	peers := []*core.PeerInfo{core.NewPeerInfo(self, "localhost", 1, false, false)}
	for i := 0; i < 3; i++ {
		peers = append(peers, core.NewPeerInfo(verif16Peer(i), "localhost", 2+i, false, false))
	}
	announceResultEvent{t.hash, peers}.apply(st)

	for i := 0; i < 3; i++ {
		// pending after apply <=> a dial was started for the peer
		dialled := st.conns.MovePendingToActive(conn.VerifNewConnFor(t.Stat(), verif16Peer(i))) == nil
		stillBlacklisted := verif.And(listed[i], dur-dt > 0) // remaining time positive
		verif.Cover("skipped-blacklisted-peer", verif.And(stillBlacklisted, !dialled))
		verif.Cover("dialled-after-expiry", verif.And(listed[i], dialled))
		verif.Assert("blacklisted-peer-not-dialled-before-expiry", verif.Implies(stillBlacklisted, !dialled))
	}
}
