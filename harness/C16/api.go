//kse:pkg lib/torrent/scheduler/connstate
package connstate

import (
	"time"

	"github.com/andres-erbsen/clock"
	"github.com/uber/kraken/core"
	"github.com/uber/kraken/lib/torrent/networkevent"
	"github.com/uber/kraken/lib/torrent/scheduler/conn"
	verif "github.com/uber/kraken/zzverif"
	"go.uber.org/zap"
)

const (
	verifNT      = 2 // torrents
	verifMaxNP   = 3 // peers
	verifNV      = 2 // connection objects per (torrent, peer): an older and a newer one
	verifMaxTime = int64(1) << 40
)

func verifHash(i int) core.InfoHash { return conn.VerifTorrentHash(i) }

func verifPeer(i int) core.PeerID {
	var p core.PeerID
	p[0] = byte(i + 1)
	p[19] = byte(0xB0 + i)
	return p
}

type verifNoEvents struct{}

func (verifNoEvents) Produce(*networkevent.Event) {}
func (verifNoEvents) Close() error                { return nil }

// API-only harness file for C16: uses New, AddPending, DeletePending,
// MovePendingToActive, DeleteActive, ActiveConns, Saturated, Blacklist,
// Blacklisted, ClearBlacklist and the exported error values only.

// ghost status of one (torrent, peer)
const (
	verifNone    = 0
	verifPending = 1
	verifActive  = 2
)

// ghost entry of one (torrent, peer)
type verifGhostEntry struct {
	status int // verifNone, verifPending, verifActive
	ver    int // which connection object is active
}

type verifEnv struct {
	s       *State
	clk     *clock.Mock
	np      int
	max     int
	mutual  int
	blDur   int64
	nowNs   int64
	conns   [verifNT][verifMaxNP][verifNV]*conn.Conn
	g       [verifNT][verifMaxNP]verifGhostEntry
	blUntil [verifNT][verifMaxNP]int64 // ghost blacklist expiry (ns)
	blSet   [verifNT][verifMaxNP]bool

	inductive bool
}

func verifNewEnv(np int) *verifEnv {
	// connstate.State is single-threaded by contract (owned by the event loop);
	// the only goroutine here is the one Conn.Close starts for its callbacks.
	verif.Option("max_preempt", 0)
	verif.Option("sched_fixed", 1)
	e := &verifEnv{np: np}
	e.clk = clock.NewMock()
	e.max = verif.IntRange("max_open_conn", 1, np)
	e.mutual = verif.IntRange("max_mutual_conn", 1, np)
	e.blDur = verif.Int64("blacklist_duration_ns")
	verif.Assume(verif.And(e.blDur >= 1, e.blDur <= verifMaxTime))
	e.s = New(Config{
		MaxOpenConnectionsPerTorrent: e.max,
		MaxMutualConnections:         e.mutual,
		BlacklistDuration:            time.Duration(e.blDur),
	}, e.clk, verifPeer(9), verifNoEvents{}, zap.NewNop().Sugar())
	for t := 0; t < verifNT; t++ {
		for p := 0; p < np; p++ {
			for v := 0; v < verifNV; v++ {
				e.conns[t][p][v] = conn.VerifNewConn(t, verifPeer(p))
			}
		}
	}
	return e
}

func (e *verifEnv) count(t int) int {
	n := 0
	for p := 0; p < e.np; p++ {
		if e.g[t][p].status != verifNone {
			n++
		}
	}
	return n
}

// checkState: what the public API shows == ghost. Active connections are
// compared by identity (so a connection removed on behalf of a replaced, older
// one is seen); pending entries are observed at the end (observePending).
func (e *verifEnv) checkState() {
	active := e.s.ActiveConns()
	nActive := 0
	ok := true
	for t := 0; t < verifNT; t++ {
		nt := 0
		for p := 0; p < e.np; p++ {
			if e.g[t][p].status != verifActive {
				continue
			}
			nActive++
			nt++
			found := 0
			for _, c := range active {
				if c == e.conns[t][p][e.g[t][p].ver] {
					found++
				}
			}
			verif.Assert("active-conn-is-the-one-activated-last", found == 1)
		}
		ok = verif.And(ok, e.count(t) <= e.max, e.s.Saturated(verifHash(t)) == (nt == e.max))
	}
	verif.Assert("within-maximum-and-saturated-iff-active-at-maximum", ok)
	verif.Assert("active-conns-view", len(active) == nActive)
}

// observePending (end of a history): MovePendingToActive with a fresh open
// connection succeeds exactly for the (torrent, peer) pairs the ghost has
// pending, so pending and active sets are disjoint and their union is the
// ghost's, which is within the maximum.
func (e *verifEnv) observePending() {
	for t := 0; t < verifNT; t++ {
		total := 0
		for p := 0; p < e.np; p++ {
			c := conn.VerifNewConn(t, verifPeer(p))
			err := e.s.MovePendingToActive(c)
			switch e.g[t][p].status {
			case verifPending:
				verif.Assert("pending-entry-can-be-activated", err == nil)
				total++
			case verifActive:
				verif.Assert("active-entry-is-not-also-pending", err != nil)
				total++
			default:
				verif.Assert("absent-entry-cannot-be-activated", err != nil)
			}
		}
		verif.Assert("pending-plus-active-within-maximum", total <= e.max)
	}
}

func (e *verifEnv) addPending(t, p int, neighbors []int) {
	var ns []core.PeerID
	mutual := 0
	// the whole list counts, however long it is and wherever the connected
	// peers stand in it; indices >= verifMaxNP are peers we never heard of
	for _, q := range neighbors {
		ns = append(ns, verifPeer(q))
		if q < verifMaxNP && e.g[t][q].status != verifNone {
			mutual++
		}
	}
	err := e.s.AddPending(verifPeer(p), verifHash(t), ns)
	if err == nil {
		verif.Reach("add-pending-accepted")
		verif.Assert("accepted-only-below-capacity", e.count(t) < e.max)
		verif.Assert("accepted-only-when-absent", e.g[t][p].status == verifNone)
		verif.Assert("refused-when-too-many-mutual-connections", mutual <= e.mutual)
		e.g[t][p] = verifGhostEntry{status: verifPending}
	} else {
		verif.Cover("refused-capacity", err == ErrTorrentAtCapacity)
		if e.inductive {
			verif.Cover("refused-mutual", err == ErrTooManyMutualConns)
		}
	}
}

func (e *verifEnv) deletePending(t, p int) {
	e.s.DeletePending(verifPeer(p), verifHash(t))
	if e.g[t][p].status == verifPending {
		e.g[t][p] = verifGhostEntry{}
	}
}

func (e *verifEnv) moveToActive(t, p, v int) {
	c := e.conns[t][p][v]
	e.mayClose(c)
	err := e.s.MovePendingToActive(c)
	if err == nil {
		verif.Assert("activated-only-from-pending", e.g[t][p].status == verifPending)
		verif.Assert("activated-only-open-conn", !c.IsClosed())
		e.g[t][p] = verifGhostEntry{status: verifActive, ver: v}
	}
}

// mayClose: a connection can close at any moment (remote side, preemption);
// before an operation that involves c it is, symbolically, already closed or
// still open. Once closed it stays closed.
func (e *verifEnv) mayClose(c *conn.Conn) {
	if !c.IsClosed() && verif.Bool("conn_closed") {
		conn.VerifMarkClosed(c)
	}
}

func (e *verifEnv) deleteActive(t, p, v int) {
	g := e.g[t][p]
	e.mayClose(e.conns[t][p][v])
	if g.status == verifActive && g.ver != v {
		// the tracked (newer) connection may itself be closed already while
		// its own close event is still on its way
		e.mayClose(e.conns[t][p][g.ver])
	}
	e.s.DeleteActive(e.conns[t][p][v])
	if g.status == verifActive && g.ver == v {
		e.g[t][p] = verifGhostEntry{}
	} else if g.status == verifActive {
		verif.Reach("delete-on-behalf-of-replaced-conn")
		// checkState asserts the newer conn is still in place
	}
}

func (e *verifEnv) advance() {
	dt := verif.Int64("dt_ns")
	verif.Assume(verif.And(dt >= 0, dt <= verifMaxTime))
	e.clk.Add(time.Duration(dt))
	e.nowNs += dt
}

// connStep: one symbolic operation on torrent 0 (torrent 1 is the frame: its
// entries must never change), then the state check.
func (e *verifEnv) connStep() {
	const t = 0
	// neighbour lists reported by the remote handshake: none; every other
	// peer; the same preceded / followed by two peers unknown to us (the list
	// is then longer than any MaxOpenConnectionsPerTorrent used here);
	// thorough also one unknown peer on either side
	shapes := verif.Bound("neighbour_list_shapes", 3, 5)
	nAdd := e.np * shapes
	c := verif.Choice("op", nAdd+e.np+2*e.np*verifNV)
	switch {
	case c < nAdd:
		p, shape := c/shapes, c%shapes
		var others []int
		for q := 0; q < e.np; q++ {
			if q != p {
				others = append(others, q)
			}
		}
		var nb []int
		switch shape {
		case 1:
			nb = others
		case 2:
			nb = append([]int{verifMaxNP + 1, verifMaxNP + 2}, others...)
		case 3:
			nb = append(append(nb, others...), verifMaxNP+1, verifMaxNP+2)
		case 4:
			nb = append(append([]int{verifMaxNP + 1}, others...), verifMaxNP+2)
		}
		e.addPending(t, p, nb)
	case c < nAdd+e.np:
		e.deletePending(t, c-nAdd)
	case c < nAdd+e.np+e.np*verifNV:
		k := c - nAdd - e.np
		e.moveToActive(t, k/verifNV, k%verifNV)
	default:
		k := c - nAdd - e.np - e.np*verifNV
		e.deleteActive(t, k/verifNV, k%verifNV)
	}
	e.checkState()
}

// VerifConnStateHistory: histories from the empty state (torrent 1 holds one
// entry that must stay untouched).
func VerifConnStateHistory() {
	e := verifNewEnv(verifMaxNP)
	// frame entry on torrent 1: pending, or active
	e.addPending(1, 0, nil)
	if verif.Choice("frame", 2) == 1 {
		e.moveToActive(1, 0, 0)
	}
	frame := e.g[1][0]
	k := verif.Bound("steps", 2, 4)
	for i := 0; i < k; i++ {
		e.connStep()
	}
	verif.Assert("other-torrent-untouched", e.g[1][0] == frame)
	e.observePending()
}

// VerifBlacklistHistory: blacklist / clear / clock advance; Blacklisted reports
// exactly the peers whose blacklisting has not expired, and nothing of another
// torrent is cleared.
func VerifBlacklistHistory() {
	e := verifNewEnv(2)
	k := verif.Bound("blacklist_steps", 3, 6)
	for i := 0; i < k; i++ {
		e.advance()
		c := verif.Choice("blop", verifNT*e.np+verifNT)
		if c < verifNT*e.np {
			t, p := c/e.np, c%e.np
			was := verif.And(e.blSet[t][p], e.blUntil[t][p]-e.nowNs > 0)
			err := e.s.Blacklist(verifPeer(p), verifHash(t))
			verif.Assert("blacklist-error-iff-still-blacklisted", (err != nil) == was)
			if err == nil {
				e.blSet[t][p] = true
				e.blUntil[t][p] = e.nowNs + e.blDur
			}
		} else {
			t := c - verifNT*e.np
			e.s.ClearBlacklist(verifHash(t))
			for p := 0; p < e.np; p++ {
				e.blSet[t][p] = false
			}
		}
		ok := true
		for t := 0; t < verifNT; t++ {
			for p := 0; p < e.np; p++ {
				want := verif.And(e.blSet[t][p], e.blUntil[t][p]-e.nowNs > 0) // remaining time positive (no overflow: all values <= 2^42)
				got := e.s.Blacklisted(verifPeer(p), verifHash(t))
				verif.Cover("some-blacklisted", got)
				ok = verif.And(ok, got == want)
			}
		}
		verif.Assert("blacklisted-until-expiry-and-not-after", ok)
	}
}
