//kse:pkg lib/torrent/scheduler/conn
package conn

import (
	"github.com/uber/kraken/core"
	"go.uber.org/atomic"
)

// VerifNewConn builds a Conn value field by field (no socket, no loops): the
// connection-state code only uses its identity, PeerID, InfoHash and IsClosed.
func VerifNewConn(h core.InfoHash, p core.PeerID) *Conn {
	return &Conn{peerID: p, infoHash: h, closed: atomic.NewBool(false), done: make(chan struct{})}
}

// VerifMarkClosed sets the closed flag, as Close would.
func VerifMarkClosed(c *Conn) { c.closed.Store(true) }
