//kse:pkg lib/torrent/scheduler/conn
package conn

import (
	"io"
	"net"
	"time"

	"github.com/andres-erbsen/clock"
	"github.com/uber-go/tally"
	"github.com/uber/kraken/core"
	"github.com/uber/kraken/lib/torrent/networkevent"
	"github.com/uber/kraken/lib/torrent/storage"
	verif "github.com/uber/kraken/zzverif"
	"github.com/willf/bitset"
	"go.uber.org/zap"
)

// Helper for the connstate / scheduler harnesses of C16: real Conn values
// built through the package's own constructors (NewHandshaker, newConn) over a
// dead socket; the connection loops are never started. API-only: no struct
// field of Conn is touched.

type verif16Sock struct{}

func (verif16Sock) Read(p []byte) (int, error)         { return 0, io.EOF }
func (verif16Sock) Write(p []byte) (int, error)        { return len(p), nil }
func (verif16Sock) Close() error                       { return nil }
func (verif16Sock) LocalAddr() net.Addr                { return nil }
func (verif16Sock) RemoteAddr() net.Addr               { return nil }
func (verif16Sock) SetDeadline(t time.Time) error      { return nil }
func (verif16Sock) SetReadDeadline(t time.Time) error  { return nil }
func (verif16Sock) SetWriteDeadline(t time.Time) error { return nil }

type verif16NoEvents struct{}

func (verif16NoEvents) Produce(*networkevent.Event) {}
func (verif16NoEvents) Close() error                { return nil }

type verif16ConnEvents struct{}

func (verif16ConnEvents) ConnClosed(*Conn) {}

var (
	verif16Infos [2]*storage.TorrentInfo
	verif16H     *Handshaker
)

func verif16Setup() {
	if verif16H != nil {
		return
	}
	var local core.PeerID
	local[0] = 0xEE
	h, err := NewHandshaker(Config{}, tally.NoopScope, clock.NewMock(), verif16NoEvents{}, local,
		verif16ConnEvents{}, zap.NewNop().Sugar())
	verif.Assert("new-handshaker", err == nil)
	verif16H = h
	names := [2]string{
		"00112233445566778899aabbccddeeff00112233445566778899aabbccddeeff",
		"11112233445566778899aabbccddeeff00112233445566778899aabbccddeeff",
	}
	for t := range names {
		d, err := core.NewSHA256DigestFromHex(names[t])
		verif.Assert("digest", err == nil)
		mi, err := core.NewMetaInfoFromBytes(d, []byte{byte(1 + t), 2}, 1)
		verif.Assert("metainfo", err == nil)
		verif16Infos[t] = storage.NewTorrentInfo(mi, bitset.New(2))
	}
}

// VerifReset forgets the cached handshaker / torrents (package variables do
// not survive between native sample runs in one process otherwise harmlessly).
func VerifReset(bool) { verif16H = nil }

// VerifTorrentHash is the info hash of harness torrent t (0 or 1).
func VerifTorrentHash(t int) core.InfoHash {
	verif16Setup()
	return verif16Infos[t].InfoHash()
}

// VerifNewConn is a fresh, open connection to peer p for harness torrent t.
func VerifNewConn(t int, p core.PeerID) *Conn {
	verif16Setup()
	c, err := verif16H.newConn(verif16Sock{}, p, false, verif16Infos[t], true)
	verif.Assert("new-conn", err == nil)
	return c
}

// VerifNewConnFor is a fresh, open connection to peer p for a torrent info.
func VerifNewConnFor(info *storage.TorrentInfo, p core.PeerID) *Conn {
	verif16Setup()
	c, err := verif16H.newConn(verif16Sock{}, p, false, info, true)
	verif.Assert("new-conn", err == nil)
	return c
}

// VerifMarkClosed closes the connection (its loops were never started).
func VerifMarkClosed(c *Conn) { c.Close() }
