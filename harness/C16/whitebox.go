//kse:pkg lib/torrent/scheduler/connstate
package connstate

import (
	"github.com/uber/kraken/core"
	verif "github.com/uber/kraken/zzverif"
)

// White-box harness file for C16: builds and reads State.conns directly
// (representation invariant, inductive single step). Uses the environment and
// the operations of api.go; api.go does not depend on this file.

// wbSetPre writes a pre-state entry directly into the representation.
func wbSetPre(e *verifEnv, t, p, c int) {
	if c == 0 {
		return
	}
	h := verifHash(t)
	if e.s.conns[h] == nil {
		e.s.conns[h] = make(map[core.PeerID]entry)
	}
	if c == 1 {
		e.g[t][p] = verifGhostEntry{status: verifPending}
		e.s.conns[h][verifPeer(p)] = entry{status: _pending}
	} else {
		e.g[t][p] = verifGhostEntry{status: verifActive, ver: c - 2}
		e.s.conns[h][verifPeer(p)] = entry{status: _active, conn: e.conns[t][p][c-2]}
	}
}

// wbCheckRep: real representation == ghost, and the statement's invariants.
func wbCheckRep(e *verifEnv) {
	for t := 0; t < verifNT; t++ {
		peers := e.s.conns[verifHash(t)]
		verif.Assert("pending-plus-active-within-maximum", len(peers) <= e.max)
		verif.Assert("entry-count-matches-model", len(peers) == e.count(t))
		for p := 0; p < e.np; p++ {
			en, ok := peers[verifPeer(p)]
			g := e.g[t][p]
			verif.Assert("presence-matches-model", ok == (g.status != verifNone))
			if ok {
				// one entry per (torrent, peer) with exactly one status: never both
				verif.Assert("status-is-pending-or-active", en.status == _pending || en.status == _active)
				verif.Assert("status-matches-model", (en.status == _pending) == (g.status == verifPending))
				if g.status == verifActive {
					verif.Assert("active-conn-matches-model", en.conn == e.conns[t][p][g.ver])
				}
			}
		}
	}
}

// VerifConnStateStepInductive: one step from every state of torrent 0 over 3
// peers that satisfies the representation invariant (at most max entries,
// each pending or active with one of its two connection objects, no empty
// inner map). New() satisfies it, so this covers histories of any length over
// this universe; torrent 1 holds a frame entry that must not change.
func VerifConnStateStepInductive() {
	e := verifNewEnv(verifMaxNP)
	e.inductive = true
	for p := 0; p < e.np; p++ {
		wbSetPre(e, 0, p, verif.Choice("pre", 2+verifNV))
	}
	verif.Assume(e.count(0) <= e.max)
	wbSetPre(e, 1, 0, 1+verif.Choice("frame", 2))
	verif.Cover("pre-at-capacity", e.count(0) == e.max)
	e.connStep()
	wbCheckRep(e)
}
