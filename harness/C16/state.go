//kse:pkg lib/torrent/scheduler/connstate
package connstate

import (
	"time"

	"github.com/andres-erbsen/clock"
	"github.com/uber/kraken/core"
	"github.com/uber/kraken/lib/torrent/networkevent"
	"github.com/uber/kraken/lib/torrent/scheduler/conn"
	verif "github.com/uber/kraken/zzverif"
	"go.uber.org/zap"
)

const (
	verifNT      = 2 // torrents
	verifMaxNP   = 3 // peers
	verifNV      = 2 // connection objects per (torrent, peer): an older and a newer one
	verifMaxTime = int64(1) << 40
)

func verifHash(i int) core.InfoHash {
	var h core.InfoHash
	h[0] = byte(i + 1)
	h[19] = byte(0xA0 + i)
	return h
}

func verifPeer(i int) core.PeerID {
	var p core.PeerID
	p[0] = byte(i + 1)
	p[19] = byte(0xB0 + i)
	return p
}

type verifNoEvents struct{}

func (verifNoEvents) Produce(*networkevent.Event) {}
func (verifNoEvents) Close() error               { return nil }

// ghost entry of one (torrent, peer)
type verifGhostEntry struct {
	status status // _uninit, _pending, _active
	ver    int    // which connection object is active
}

type verifEnv struct {
	s       *State
	clk     *clock.Mock
	np      int
	max     int
	mutual  int
	blDur   int64
	nowNs   int64
	conns   [verifNT][verifMaxNP][verifNV]*conn.Conn
	g       [verifNT][verifMaxNP]verifGhostEntry
	blUntil [verifNT][verifMaxNP]int64 // ghost blacklist expiry (ns)
	blSet   [verifNT][verifMaxNP]bool

	inductive bool
}

func verifNewEnv(np int) *verifEnv {
	e := &verifEnv{np: np}
	e.clk = clock.NewMock()
	e.max = verif.IntRange("max_open_conn", 1, np)
	e.mutual = verif.IntRange("max_mutual_conn", 1, np)
	e.blDur = verif.Int64("blacklist_duration_ns")
	verif.Assume(verif.And(e.blDur >= 1, e.blDur <= verifMaxTime))
	e.s = New(Config{
		MaxOpenConnectionsPerTorrent: e.max,
		MaxMutualConnections:         e.mutual,
		BlacklistDuration:            time.Duration(e.blDur),
	}, e.clk, verifPeer(9), verifNoEvents{}, zap.NewNop().Sugar())
	for t := 0; t < verifNT; t++ {
		for p := 0; p < np; p++ {
			for v := 0; v < verifNV; v++ {
				e.conns[t][p][v] = conn.VerifNewConn(verifHash(t), verifPeer(p))
			}
		}
	}
	return e
}

func (e *verifEnv) count(t int) int {
	n := 0
	for p := 0; p < e.np; p++ {
		if e.g[t][p].status != _uninit {
			n++
		}
	}
	return n
}

// checkState: real representation == ghost, and the statement's invariants.
func (e *verifEnv) checkState() {
	for t := 0; t < verifNT; t++ {
		peers := e.s.conns[verifHash(t)]
		verif.Assert("pending-plus-active-within-maximum", len(peers) <= e.max)
		verif.Assert("entry-count-matches-model", len(peers) == e.count(t))
		for p := 0; p < e.np; p++ {
			en, ok := peers[verifPeer(p)]
			g := e.g[t][p]
			verif.Assert("presence-matches-model", ok == (g.status != _uninit))
			if ok {
				// one entry per (torrent, peer) with exactly one status: never both
				verif.Assert("status-matches-model", en.status == g.status)
				verif.Assert("status-is-pending-or-active", en.status == _pending || en.status == _active)
				if g.status == _active {
					verif.Assert("active-conn-matches-model", en.conn == e.conns[t][p][g.ver])
				}
			}
		}
	}
	// public view
	nActive := 0
	for t := 0; t < verifNT; t++ {
		for p := 0; p < e.np; p++ {
			if e.g[t][p].status == _active {
				nActive++
			}
		}
	}
	verif.Assert("active-conns-view", len(e.s.ActiveConns()) == nActive)
}

func (e *verifEnv) addPending(t, p int, neighbors []int) {
	var ns []core.PeerID
	mutual := 0
	for _, q := range neighbors {
		ns = append(ns, verifPeer(q))
		if e.g[t][q].status != _uninit {
			mutual++
		}
	}
	err := e.s.AddPending(verifPeer(p), verifHash(t), ns)
	if err == nil {
		verif.Reach("add-pending-accepted")
		verif.Assert("accepted-only-below-capacity", e.count(t) < e.max)
		verif.Assert("accepted-only-when-absent", e.g[t][p].status == _uninit)
		verif.Assert("refused-when-too-many-mutual-connections", mutual <= e.mutual)
		e.g[t][p] = verifGhostEntry{status: _pending}
	} else {
		verif.Cover("refused-capacity", err == ErrTorrentAtCapacity)
		if e.inductive {
			verif.Cover("refused-mutual", err == ErrTooManyMutualConns)
		}
	}
}

func (e *verifEnv) deletePending(t, p int) {
	e.s.DeletePending(verifPeer(p), verifHash(t))
	if e.g[t][p].status == _pending {
		e.g[t][p] = verifGhostEntry{}
	}
}

func (e *verifEnv) moveToActive(t, p, v int) {
	c := e.conns[t][p][v]
	if verif.Bool("conn_closed") {
		conn.VerifMarkClosed(c)
	}
	err := e.s.MovePendingToActive(c)
	if err == nil {
		verif.Assert("activated-only-from-pending", e.g[t][p].status == _pending)
		verif.Assert("activated-only-open-conn", !c.IsClosed())
		e.g[t][p] = verifGhostEntry{status: _active, ver: v}
	}
}

func (e *verifEnv) deleteActive(t, p, v int) {
	g := e.g[t][p]
	e.s.DeleteActive(e.conns[t][p][v])
	if g.status == _active && g.ver == v {
		e.g[t][p] = verifGhostEntry{}
	} else if g.status == _active {
		verif.Reach("delete-on-behalf-of-replaced-conn")
		// checkState asserts the newer conn is still in place
	}
}

func (e *verifEnv) advance() {
	dt := verif.Int64("dt_ns")
	verif.Assume(verif.And(dt >= 0, dt <= verifMaxTime))
	e.clk.Add(time.Duration(dt))
	e.nowNs += dt
}

// connStep: one symbolic operation on torrent 0 (torrent 1 is the frame: its
// entries must never change), then the state check.
func (e *verifEnv) connStep() {
	const t = 0
	nAdd := e.np * 2
	c := verif.Choice("op", nAdd+e.np+2*e.np*verifNV)
	switch {
	case c < nAdd:
		p, withNb := c/2, c%2
		var nb []int
		if withNb == 1 {
			// neighbours: every other peer
			for q := 0; q < e.np; q++ {
				if q != p {
					nb = append(nb, q)
				}
			}
		}
		e.addPending(t, p, nb)
	case c < nAdd+e.np:
		e.deletePending(t, c-nAdd)
	case c < nAdd+e.np+e.np*verifNV:
		k := c - nAdd - e.np
		e.moveToActive(t, k/verifNV, k%verifNV)
	default:
		k := c - nAdd - e.np - e.np*verifNV
		e.deleteActive(t, k/verifNV, k%verifNV)
	}
	e.checkState()
}

// setPre writes a pre-state entry directly into the representation.
func (e *verifEnv) setPre(t, p, c int) {
	if c == 0 {
		return
	}
	h := verifHash(t)
	if e.s.conns[h] == nil {
		e.s.conns[h] = make(map[core.PeerID]entry)
	}
	if c == 1 {
		e.g[t][p] = verifGhostEntry{status: _pending}
		e.s.conns[h][verifPeer(p)] = entry{status: _pending}
	} else {
		e.g[t][p] = verifGhostEntry{status: _active, ver: c - 2}
		e.s.conns[h][verifPeer(p)] = entry{status: _active, conn: e.conns[t][p][c-2]}
	}
}

// VerifConnStateHistory: histories from the empty state (torrent 1 holds one
// entry that must stay untouched).
func VerifConnStateHistory() {
	e := verifNewEnv(verifMaxNP)
	e.setPre(1, 0, 1+verif.Choice("frame", 2))
	k := verif.Bound("steps", 2, 4)
	for i := 0; i < k; i++ {
		e.connStep()
	}
}

// VerifConnStateStepInductive: one step from every state of torrent 0 over 3
// peers that satisfies the representation invariant (at most max entries,
// each pending or active with one of its two connection objects, no empty
// inner map). New() satisfies it, so this covers histories of any length over
// this universe; torrents only interact through nothing (checked by the frame
// entry of torrent 1).
func VerifConnStateStepInductive() {
	e := verifNewEnv(verifMaxNP)
	e.inductive = true
	for p := 0; p < e.np; p++ {
		e.setPre(0, p, verif.Choice("pre", 2+verifNV))
	}
	verif.Assume(e.count(0) <= e.max)
	e.setPre(1, 0, verif.Choice("frame", 3))
	verif.Cover("pre-at-capacity", e.count(0) == e.max)
	e.connStep()
}

// VerifBlacklistHistory: blacklist / clear / clock advance; Blacklisted reports
// exactly the peers whose blacklisting has not expired, and nothing of another
// torrent is cleared.
func VerifBlacklistHistory() {
	e := verifNewEnv(2)
	k := verif.Bound("blacklist_steps", 4, 6)
	for i := 0; i < k; i++ {
		e.advance()
		c := verif.Choice("blop", verifNT*e.np+verifNT)
		if c < verifNT*e.np {
			t, p := c/e.np, c%e.np
			was := verif.And(e.blSet[t][p], e.blUntil[t][p]-e.nowNs > 0)
			err := e.s.Blacklist(verifPeer(p), verifHash(t))
			verif.Assert("blacklist-error-iff-still-blacklisted", (err != nil) == was)
			if err == nil {
				e.blSet[t][p] = true
				e.blUntil[t][p] = e.nowNs + e.blDur
			}
		} else {
			t := c - verifNT*e.np
			e.s.ClearBlacklist(verifHash(t))
			for p := 0; p < e.np; p++ {
				e.blSet[t][p] = false
			}
		}
		ok := true
		for t := 0; t < verifNT; t++ {
			for p := 0; p < e.np; p++ {
				want := verif.And(e.blSet[t][p], e.blUntil[t][p]-e.nowNs > 0) // remaining time positive (no overflow: all values <= 2^42)
				got := e.s.Blacklisted(verifPeer(p), verifHash(t))
				verif.Cover("some-blacklisted", got)
				ok = verif.And(ok, got == want)
			}
		}
		verif.Assert("blacklisted-until-expiry-and-not-after", ok)
	}
}
