// Package verif is the harness API of kse (see /verif/DESIGN.md §5.1).
//
// Under the symbolic executor every function here is intercepted: the bodies
// below are never interpreted. Compiled natively, the same functions read the
// solver's assignment from the replay file named by $KSE_REPLAY, so a harness
// runs unchanged against the real build, the real runtime and the real OS.
package verif

import (
	"encoding/json"
	"fmt"
	"os"
	"path/filepath"
	"strconv"
	"sync"
	"testing"
)

type fsEntry struct {
	Path    string `json:"path"`
	Kind    string `json:"kind"` // file, dir, symlink
	Data    []int  `json:"data,omitempty"`
	Target  string `json:"target,omitempty"`
	ModTime int64  `json:"mtime,omitempty"`
}

type replayFile struct {
	Harness string            `json:"harness"`
	Label   string            `json:"label"`
	Values  map[string]string `json:"values"`
	FS      []fsEntry         `json:"fs"`
	Crashed bool              `json:"crashed"`
}

var (
	rep     replayFile
	seq     = map[string]int{}
	tempDir string
	curT    *testing.T
)

type assumeFailed struct{}
type assertFailed struct{ label string }

var valMu sync.Mutex

func val(name string) uint64 {
	valMu.Lock()
	defer valMu.Unlock()
	k := seq[name]
	seq[name] = k + 1
	s, ok := rep.Values[name+"#"+strconv.Itoa(k)]
	if !ok {
		return 0
	}
	v, _ := strconv.ParseUint(s, 10, 64)
	return v
}

func Int(name string) int       { return int(val(name)) }
func Int64(name string) int64   { return int64(val(name)) }
func Int32(name string) int32   { return int32(val(name)) }
func Int16(name string) int16   { return int16(val(name)) }
func Int8(name string) int8     { return int8(val(name)) }
func Uint64(name string) uint64 { return val(name) }
func Uint32(name string) uint32 { return uint32(val(name)) }
func Uint16(name string) uint16 { return uint16(val(name)) }
func Uint(name string) uint     { return uint(val(name)) }
func Byte(name string) byte     { return byte(val(name)) }
func Bool(name string) bool     { return val(name) != 0 }

// Bytes returns n bytes (n is concrete), each an independent unknown.
func Bytes(name string, n int) []byte {
	b := make([]byte, n)
	for i := range b {
		b[i] = byte(val(name + "." + strconv.Itoa(i)))
	}
	return b
}

func String(name string, n int) string { return string(Bytes(name, n)) }

// IntRange is an unknown in [lo, hi] that stays symbolic.
func IntRange(name string, lo, hi int) int { return int(val(name)) }

// Choice is an unknown in [0, n) resolved by case split.
func Choice(name string, n int) int { return int(val(name)) }

// Len is an unknown in [lo, hi] resolved by case split.
func Len(name string, lo, hi int) int { return int(val(name)) }

// Concrete case-splits on x.
func Concrete(x int) int { return x }

func Assume(c bool) {
	if !c {
		panic(assumeFailed{})
	}
}

func Assert(label string, c bool) {
	if !c {
		panic(assertFailed{label})
	}
}

func Fail(label string, msg string) { panic(assertFailed{label + ": " + msg}) }

func Cover(label string, c bool) {}
func Reach(label string)         {}
func Note(s string)              {}

func Implies(a, b bool) bool { return !a || b }
func And(a ...bool) bool {
	for _, x := range a {
		if !x {
			return false
		}
	}
	return true
}
func Or(a ...bool) bool {
	for _, x := range a {
		if x {
			return true
		}
	}
	return false
}
func Ite(c bool, a, b int) int {
	if c {
		return a
	}
	return b
}
func Ite64(c bool, a, b int64) int64 {
	if c {
		return a
	}
	return b
}
func IteU64(c bool, a, b uint64) uint64 {
	if c {
		return a
	}
	return b
}

// Bound is a stated bound of the harness, by tier.
func Bound(name string, quick, thorough int) int {
	if os.Getenv("KSE_TIER") == "thorough" {
		return thorough
	}
	return quick
}

// Option sets an engine option for this harness (no effect natively).
func Option(name string, v int) {}

// Symbolic reports whether the harness runs under the symbolic executor.
func Symbolic() bool { return false }

// Yield is a visible operation (possible context switch).
func Yield() {}

// TempDir is the root directory for stores under test.
func TempDir() string {
	if tempDir == "" {
		d, err := os.MkdirTemp("", "kse-replay-")
		if err != nil {
			panic(err)
		}
		tempDir = d
	}
	return tempDir
}

// CrashScope runs f; under the engine a process crash may happen before any
// file-system step inside it, in which case CrashScope returns true and all
// in-memory state created by f must be considered lost. Natively, a replay of
// a crash counterexample skips f and materialises the file system as it was
// at the crash point.
func CrashScope(f func()) bool {
	if rep.Crashed {
		root := TempDir()
		// the snapshot is the whole tree under root: drop what a set-up that
		// ran natively before the scope left there and the snapshot lacks
		if old, err := os.ReadDir(root); err == nil {
			for _, o := range old {
				os.RemoveAll(filepath.Join(root, o.Name()))
			}
		}
		for _, e := range rep.FS {
			p := filepath.Join(root, e.Path)
			switch e.Kind {
			case "dir":
				os.MkdirAll(p, 0o755)
			case "file":
				os.MkdirAll(filepath.Dir(p), 0o755)
				b := make([]byte, len(e.Data))
				for i, x := range e.Data {
					b[i] = byte(x)
				}
				os.WriteFile(p, b, 0o644)
			case "symlink":
				os.MkdirAll(filepath.Dir(p), 0o755)
				os.Symlink(e.Target, p)
			}
		}
		return true
	}
	f()
	return false
}

// Replay runs the harness(es) named in $KSE_REPLAY natively. The file holds
// either one replay record or a JSON array of them; one result line is printed
// per record.
func Replay(t *testing.T, harnesses map[string]func()) {
	path := os.Getenv("KSE_REPLAY")
	if path == "" {
		t.Skip("KSE_REPLAY not set")
	}
	b, err := os.ReadFile(path)
	if err != nil {
		t.Fatal(err)
	}
	var recs []replayFile
	if len(b) > 0 && b[0] == '[' {
		if err := json.Unmarshal(b, &recs); err != nil {
			t.Fatal(err)
		}
	} else {
		var one replayFile
		if err := json.Unmarshal(b, &one); err != nil {
			t.Fatal(err)
		}
		recs = []replayFile{one}
	}
	curT = t
	for i, r := range recs {
		rep = r
		seq = map[string]int{}
		tempDir = ""
		h, ok := harnesses[rep.Harness]
		if !ok {
			fmt.Printf("KSE-REPLAY-RESULT[%d]: skipped (harness %s not in this package)\n", i, rep.Harness)
			continue
		}
		outcome := "completed-without-violation"
		func() {
			defer func() {
				r := recover()
				switch r := r.(type) {
				case nil:
				case assumeFailed:
					outcome = "assumption-failed"
				case assertFailed:
					outcome = "assert-failed " + r.label
				default:
					outcome = fmt.Sprintf("panic %v", r)
				}
			}()
			h()
		}()
		if tempDir != "" {
			os.RemoveAll(tempDir)
		}
		if len(recs) == 1 {
			fmt.Println("KSE-REPLAY-RESULT: " + outcome)
		} else {
			fmt.Printf("KSE-REPLAY-RESULT[%d]: %s\n", i, outcome)
		}
	}
}
