//kse:pkg lib/hrw
package hrw

import (
	"hash"
	"strings"

	verif "github.com/uber/kraken/zzverif"
)

// Keys of every length, node labels unknown.
//
// The harnesses of rendezvous.go replace the whole Score method by an
// uninterpreted, tie-free function of (label, weight, key). That abstraction
// assumes what Score has to establish first: that two different labels are
// scored from different hasher inputs for the same key. Here the REAL Score
// body runs (hex decoding of the key, assembling the hasher input, Write, Sum,
// ScoreFunc, the -W/ln(s) formula) and only the two pluggable parts of
// RendezvousHash are supplied by the harness:
//   * Hash: a recording hash (Sum returns exactly the bytes written), i.e. an
//     ideal, collision-free hash;
//   * ScoreFunc: a deterministic function of the hash value with no ties between
//     different hash values and an arbitrary order: the j-th distinct input it
//     sees gets a score whose rank is drawn by case split. Whether an input is
//     "the same as one seen before" is a byte-wise comparison of symbolic bytes,
//     decided by the solver.
// The node labels are unknown byte strings (pairwise different), the key is a
// hex string whose length is case split over 0..max bytes, weights are equal
// (as in hashring, where ties of the hash would show). The property: the
// ordered list is the same for both insertion orders and descending by score.

type verifKScorer struct {
	inputs [][]byte
	scores []float64
	rank   []int // rank[j]: score rank of the j-th distinct hasher input
}

func (k *verifKScorer) hashFactory() hash.Hash { return &verifRecHash{} }

func (k *verifKScorer) scoreFunc(b []byte, max []byte, hasher hash.Hash) float64 {
	for j, in := range k.inputs {
		if len(in) != len(b) {
			continue
		}
		eq := true
		for i := range in {
			eq = verif.And(eq, in[i] == b[i])
		}
		if eq {
			return k.scores[j]
		}
	}
	j := len(k.inputs)
	k.inputs = append(k.inputs, append([]byte(nil), b...))
	s := float64(k.rank[j%len(k.rank)]+1) / float64(len(k.rank)+2) // in (0,1)
	k.scores = append(k.scores, s)
	return s
}

func verifKIndex(rh *RendezvousHash, order []int, node *RendezvousHashNode) int {
	for p, m := range rh.Nodes {
		if m == node {
			return order[p]
		}
	}
	return -1
}

// VerifRendezvousInsertionOrderKeyLengths: insertion independence and
// descending order through the real Score body, for keys of every length up to
// the bound and unknown node labels.
func VerifRendezvousInsertionOrderKeyLengths() {
	n := verif.Bound("nodes_keylength", 2, 3)
	labelBytes := verif.Bound("label_bytes", 4, 6)
	maxKey := verif.Bound("max_key_bytes", 160, 288)
	verif.Option("max_concretize", 400) // the key length is case-split over its whole range
	verif.Note("hash = identity on the bytes written (collision-free), ScoreFunc = tie-free function of the hash value with case-split order; equal weights; the key's digits are fixed (ab..), its length is the unknown")
	keyBytes := verif.Len("key_bytes", 0, maxKey)
	key := strings.Repeat("ab", keyBytes)

	labels := make([]string, n)
	for i := range labels {
		labels[i] = verif.String("label", labelBytes)
		for j := 0; j < i; j++ {
			verif.Assume(labels[i] != labels[j])
		}
	}
	sc := &verifKScorer{rank: verifRPermutation(n)}
	a := NewRendezvousHash(sc.hashFactory, sc.scoreFunc)
	b := NewRendezvousHash(sc.hashFactory, sc.scoreFunc)
	orderA := make([]int, n)
	for i := 0; i < n; i++ {
		orderA[i] = i
		a.AddNode(labels[i], 100)
	}
	orderB := verifRPermutation(n)
	for _, i := range orderB {
		b.AddNode(labels[i], 100)
	}
	la := a.GetOrderedNodes(key, n)
	lb := b.GetOrderedNodes(key, n)
	verif.Assert("lists-every-node", len(la) == n && len(lb) == n)
	seen := make([]int, n)
	for i := 0; i < n; i++ {
		ia := verifKIndex(a, orderA, la[i])
		ib := verifKIndex(b, orderB, lb[i])
		verif.Assert("listed-node-is-a-node-of-the-hash", ia >= 0 && ib >= 0)
		if ia < 0 || ib < 0 {
			return
		}
		seen[ia]++
		verif.Assert("same-list-for-both-insertion-orders", ia == ib)
		if i+1 < n {
			verif.Assert("descending-score", la[i].Score(key) >= la[i+1].Score(key))
		}
	}
	for i := 0; i < n; i++ {
		verif.Assert("each-node-exactly-once", seen[i] == 1)
	}
	verif.Cover("shard-sized-key", keyBytes == 2)
	verif.Cover("digest-sized-key", keyBytes == 32)
	verif.Cover("long-key", keyBytes > 128)
}
