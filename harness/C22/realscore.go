//kse:pkg lib/hrw
package hrw

import (
	verif "github.com/uber/kraken/zzverif"
)

var verifRealKeys = []string{"0000", "00ff", "a1b2", "ffff", "7f3c9d"}

// VerifRendezvousRealScore: supplementary run of the REAL score function
// (murmur3, UInt64ToFloat64, math.Log) on a few concrete keys and weights:
// scores are finite positive numbers that do not depend on the insertion
// position of the node, and the order agrees for two insertion orders. Here the
// engine only interprets (floating point is concrete-only); the insertion
// order is the only case-split unknown.
func VerifRendezvousRealScore() {
	verif.Note("real murmur3/float scores are computed concretely for a handful of keys; the symbolic claim about ordering is made by the uninterpreted-score harnesses")
	key := verifRealKeys[verif.Choice("key", len(verifRealKeys))]
	n := 3
	weights := []int{100, 100, 250}
	a := NewRendezvousHash(Murmur3Hash, UInt64ToFloat64)
	b := NewRendezvousHash(Murmur3Hash, UInt64ToFloat64)
	for i := 0; i < n; i++ {
		a.AddNode(verifRLabels[i], weights[i])
	}
	for _, i := range verifRPermutation(n) {
		b.AddNode(verifRLabels[i], weights[i])
	}
	la := a.GetOrderedNodes(key, n)
	lb := b.GetOrderedNodes(key, n)
	verif.Assert("same-list-for-both-insertion-orders", verifRSame(verifRLabelsOf(la), verifRLabelsOf(lb)))
	for i := 0; i < n; i++ {
		sa := la[i].Score(key)
		sb := lb[i].Score(key)
		verif.Assert("score-independent-of-insertion-position", sa == sb)
		verif.Assert("score-is-a-positive-number", sa > 0)
		if i+1 < n {
			verif.Assert("descending-real-score", sa >= la[i+1].Score(key))
		}
	}
}
