//kse:pkg lib/hrw
package hrw

import (
	"hash"
	"math"
	"sort"

	verif "github.com/uber/kraken/zzverif"
)

// Scores. Under the engine (option hrw_score_uninterpreted) the method
// RendezvousHashNode.Score is an uninterpreted function of (label, weight, key):
// the solver picks any tie-free, NaN-free score assignment, so one run covers
// every key, every hash function and every score arithmetic at once. Natively
// (replay of a counterexample) the same assignment is installed through
// RendezvousHash's pluggable Hash / ScoreFunc fields: the hash records the
// bytes written, the score function maps the label to a value s such that the
// real Score formula -Weight/ln(s) reproduces the counterexample's order.

var verifRLabels = []string{"n0", "n1", "n2", "n3", "n4"}

const verifRKey = "ab12"

type verifRecHash struct{ buf []byte }

func (h *verifRecHash) Write(p []byte) (int, error) { h.buf = append(h.buf, p...); return len(p), nil }
func (h *verifRecHash) Sum(b []byte) []byte         { return append(b, h.buf...) }
func (h *verifRecHash) Reset()                      { h.buf = nil }
func (h *verifRecHash) Size() int                   { return 0 }
func (h *verifRecHash) BlockSize() int              { return 1 }

type verifRScores struct {
	weights map[string]int
	rank    map[string]int // native only
}

func verifRNewScores(weights map[string]int) *verifRScores {
	sc := &verifRScores{weights: weights, rank: map[string]int{}}
	if !verif.Symbolic() {
		type kv struct {
			label string
			k     int64
		}
		var ks []kv
		for _, l := range verifRLabels {
			ks = append(ks, kv{l, verif.Int64("hrwscore:" + l + ":" + verifRKey)})
		}
		sort.Slice(ks, func(i, j int) bool {
			if ks[i].k != ks[j].k {
				return ks[i].k < ks[j].k
			}
			return ks[i].label < ks[j].label
		})
		for r, e := range ks {
			sc.rank[e.label] = r
		}
	}
	return sc
}

func (sc *verifRScores) hashFactory() hash.Hash { return &verifRecHash{} }

// scoreFunc is reached only natively: bytes = decoded key + label.
func (sc *verifRScores) scoreFunc(b []byte, max []byte, hasher hash.Hash) float64 {
	label := string(b[len(verifRKey)/2:])
	target := float64(sc.rank[label]+1) * 1000
	return math.Exp(-float64(sc.weights[label]) / target)
}

func (sc *verifRScores) newHash() *RendezvousHash {
	return NewRendezvousHash(sc.hashFactory, sc.scoreFunc)
}

func verifRWeights(n int) map[string]int {
	w := map[string]int{}
	for i := 0; i < n; i++ {
		w[verifRLabels[i]] = verif.IntRange("weight", 1, 1000)
	}
	return w
}

// verifRPermutation returns a permutation of 0..n-1 chosen by case split.
func verifRPermutation(n int) []int {
	p := make([]int, 0, n)
	used := make([]bool, n)
	for i := 0; i < n; i++ {
		k := verif.Choice("insert_next", n-i)
		for j := 0; j < n; j++ {
			if used[j] {
				continue
			}
			if k == 0 {
				used[j] = true
				p = append(p, j)
				break
			}
			k--
		}
	}
	return p
}

func verifRLabelsOf(nodes []*RendezvousHashNode) []string {
	var out []string
	for _, n := range nodes {
		out = append(out, n.Label)
	}
	return out
}

func verifRWithout(xs []string, x string) []string {
	var out []string
	for _, s := range xs {
		if s != x {
			out = append(out, s)
		}
	}
	return out
}

func verifRSame(a, b []string) bool {
	if len(a) != len(b) {
		return false
	}
	for i := range a {
		if a[i] != b[i] {
			return false
		}
	}
	return true
}

// verifRCheckSorted: nodes is a permutation of the hash's nodes in strictly
// descending score order.
func verifRCheckSorted(rh *RendezvousHash, nodes []*RendezvousHashNode) {
	verif.Assert("lists-every-node", len(nodes) == len(rh.Nodes))
	for _, member := range rh.Nodes {
		cnt := 0
		for _, n := range nodes {
			if n.Label == member.Label {
				cnt++
			}
		}
		verif.Assert("each-node-exactly-once", cnt == 1)
	}
	for i := 0; i+1 < len(nodes); i++ {
		verif.Assert("descending-score", nodes[i].Score(verifRKey) >= nodes[i+1].Score(verifRKey))
	}
}

// VerifRendezvousInsertionOrder: the ordered list is the node set sorted by
// descending score, whatever order the nodes were added in.
func VerifRendezvousInsertionOrder() {
	verif.Option("hrw_score_uninterpreted", 1)
	n := verif.Len("nodes", 1, verif.Bound("nodes", 3, 4))
	sc := verifRNewScores(verifRWeights(n))
	a, b := sc.newHash(), sc.newHash()
	for i := 0; i < n; i++ {
		a.AddNode(verifRLabels[i], sc.weights[verifRLabels[i]])
	}
	for _, i := range verifRPermutation(n) {
		b.AddNode(verifRLabels[i], sc.weights[verifRLabels[i]])
	}
	la := a.GetOrderedNodes(verifRKey, n)
	lb := b.GetOrderedNodes(verifRKey, n)
	verifRCheckSorted(a, la)
	verifRCheckSorted(b, lb)
	verif.Assert("same-list-for-both-insertion-orders", verifRSame(verifRLabelsOf(la), verifRLabelsOf(lb)))
	// a truncated request is a prefix of the full order
	k := verif.IntRange("request", 0, n+1)
	lk := a.GetOrderedNodes(verifRKey, k)
	want := verif.Ite(k < n, k, n)
	verif.Assert("truncated-length", len(lk) == want)
	verif.Assert("truncated-is-prefix", verifRSame(verifRLabelsOf(lk), verifRLabelsOf(la)[:len(lk)]))
}

// VerifRendezvousHistory: minimal disruption holds for every single-node
// change, not only for the first one on a freshly filled hash: after the nodes
// were added in an arbitrary order, a sequence of steps each removes a present
// node or adds an absent one (case split over the label universe), and after
// every step the list is sorted and differs from the previous list by exactly
// that node.
func VerifRendezvousHistory() {
	verif.Option("hrw_score_uninterpreted", 1)
	n := verif.Len("nodes", 2, verif.Bound("nodes_history", 3, 4))
	steps := verif.Bound("steps_history", 2, 3)
	universe := n + 1 // one label that is absent at the start
	weights := verifRWeights(universe)
	sc := verifRNewScores(weights)
	rh := sc.newHash()
	present := make([]bool, universe)
	count := 0
	for _, i := range verifRPermutation(n) {
		rh.AddNode(verifRLabels[i], weights[verifRLabels[i]])
		present[i] = true
		count++
	}
	before := verifRLabelsOf(rh.GetOrderedNodes(verifRKey, count))
	removals := 0
	for s := 0; s < steps; s++ {
		t := verif.Choice("changed_node", universe)
		x := verifRLabels[t]
		if present[t] {
			rh.RemoveNode(x)
			present[t] = false
			count--
			removals++
			after := rh.GetOrderedNodes(verifRKey, count)
			verifRCheckSorted(rh, after)
			verif.Assert("removal-only-removes-the-node", verifRSame(verifRLabelsOf(after), verifRWithout(before, x)))
			before = verifRLabelsOf(after)
		} else {
			rh.AddNode(x, weights[x])
			present[t] = true
			count++
			after := rh.GetOrderedNodes(verifRKey, count)
			verifRCheckSorted(rh, after)
			verif.Assert("addition-only-inserts-the-node", verifRSame(verifRWithout(verifRLabelsOf(after), x), before))
			before = verifRLabelsOf(after)
		}
	}
	verif.Cover("two-removals", removals >= 2)
}

// VerifRendezvousTopN: a request for k nodes returns the first min(k, n) nodes of
// the full descending order, for every k (case split 0..n+1) on a hash of
// 4 | 5 nodes -- in particular odd k >= 3 below the hash size. The insertion
// order is fixed: scores and weights are unknowns per label, so permuting the
// insertion order is a relabelling (the other harnesses vary it).
func VerifRendezvousTopN() {
	verif.Option("hrw_score_uninterpreted", 1)
	n := verif.Bound("nodes_topn", 4, 5)
	weights := verifRWeights(n)
	sc := verifRNewScores(weights)
	rh := sc.newHash()
	for i := 0; i < n; i++ {
		rh.AddNode(verifRLabels[i], weights[verifRLabels[i]])
	}
	full := rh.GetOrderedNodes(verifRKey, n)
	verifRCheckSorted(rh, full)
	k := verif.Choice("request", n+2)
	lk := rh.GetOrderedNodes(verifRKey, k)
	want := k
	if want > n {
		want = n
	}
	verif.Assert("truncated-length", len(lk) == want)
	if len(lk) != want {
		return
	}
	verif.Assert("truncated-is-prefix", verifRSame(verifRLabelsOf(lk), verifRLabelsOf(full)[:want]))
	for i := 0; i+1 < len(lk); i++ {
		verif.Assert("descending-score", lk[i].Score(verifRKey) >= lk[i+1].Score(verifRKey))
	}
	verif.Cover("odd-request-below-hash-size", k == 3)
	verif.Cover("request-above-hash-size", k > n)
}

// VerifRendezvousRepeatedLookups: the list of a key depends on the current node
// set only, not on what was looked up before: the key is looked up, then 2 | 3
// membership changes happen with no lookup in between (remove a present node or
// add an absent one, case split -- e.g. replace one node by another, which
// keeps the node count), then the SAME key is looked up again. The second list
// must be the current nodes in descending score order, and the nodes present at
// both lookups must keep their relative order (removal only removes, addition
// only inserts). Insertion order fixed, as in VerifRendezvousTopN.
func VerifRendezvousRepeatedLookups() {
	verif.Option("hrw_score_uninterpreted", 1)
	n := verif.Bound("nodes_repeat", 3, 4)
	changes := verif.Bound("changes_between_lookups", 2, 3)
	universe := n + 1
	weights := verifRWeights(universe)
	sc := verifRNewScores(weights)
	rh := sc.newHash()
	present := make([]bool, universe)
	count := 0
	for i := 0; i < n; i++ {
		rh.AddNode(verifRLabels[i], weights[verifRLabels[i]])
		present[i] = true
		count++
	}
	first := rh.GetOrderedNodes(verifRKey, count)
	verifRCheckSorted(rh, first)
	before := verifRLabelsOf(first)
	was := append([]bool(nil), present...)
	for c := 0; c < changes; c++ {
		t := verif.Choice("changed_node", universe+1)
		if t == universe {
			continue // no change in this slot: any number of changes up to the bound
		}
		if present[t] {
			rh.RemoveNode(verifRLabels[t])
			present[t] = false
			count--
		} else {
			rh.AddNode(verifRLabels[t], weights[verifRLabels[t]])
			present[t] = true
			count++
		}
	}
	second := rh.GetOrderedNodes(verifRKey, count)
	verifRCheckSorted(rh, second)
	after := verifRLabelsOf(second)
	// restrict both lists to the nodes present at both lookups
	var keptBefore, keptAfter []string
	replaced := false
	for _, l := range before {
		for i := 0; i < universe; i++ {
			if verifRLabels[i] == l && was[i] && present[i] {
				keptBefore = append(keptBefore, l)
			}
		}
	}
	for _, l := range after {
		for i := 0; i < universe; i++ {
			if verifRLabels[i] == l && was[i] && present[i] {
				keptAfter = append(keptAfter, l)
			}
		}
	}
	for i := 0; i < universe; i++ {
		if was[i] != present[i] {
			replaced = true
		}
	}
	verif.Assert("other-nodes-keep-their-relative-order", verifRSame(keptBefore, keptAfter))
	verif.Cover("node-set-changed-node-count-unchanged", replaced && count == n)
	verif.Cover("node-count-changed", count != n)
}

// VerifRendezvousMinimalDisruption: removing a node only removes it from the
// key's list; adding one only inserts it.
func VerifRendezvousMinimalDisruption() {
	verif.Option("hrw_score_uninterpreted", 1)
	n := verif.Len("nodes", 1, verif.Bound("nodes_disruption", 3, 4))
	weights := verifRWeights(n + 1)
	sc := verifRNewScores(weights)
	rh := sc.newHash()
	for _, i := range verifRPermutation(n) {
		rh.AddNode(verifRLabels[i], weights[verifRLabels[i]])
	}
	before := verifRLabelsOf(rh.GetOrderedNodes(verifRKey, n))

	if verif.Choice("change", 2) == 0 {
		x := verifRLabels[verif.Choice("removed", n)]
		rh.RemoveNode(x)
		after := rh.GetOrderedNodes(verifRKey, n)
		verifRCheckSorted(rh, after)
		verif.Assert("removal-only-removes-the-node", verifRSame(verifRLabelsOf(after), verifRWithout(before, x)))
		verif.Reach("removed")
	} else {
		x := verifRLabels[n]
		rh.AddNode(x, weights[x])
		after := rh.GetOrderedNodes(verifRKey, n+1)
		verifRCheckSorted(rh, after)
		verif.Assert("addition-only-inserts-the-node", verifRSame(verifRWithout(verifRLabelsOf(after), x), before))
		verif.Reach("added")
	}
}
