//kse:pkg tracker/trackerserver
package trackerserver

import (
	"errors"
	"time"

	"github.com/andres-erbsen/clock"
	"github.com/uber-go/tally"
	"github.com/uber/kraken/core"
	"github.com/uber/kraken/tracker/peerhandoutpolicy"
	"github.com/uber/kraken/tracker/peerstore"
	verif "github.com/uber/kraken/zzverif"
)

var (
	verifHAgents  = []core.PeerID{{1}, {2}, {3}, {4}}
	verifHOrigins = []core.PeerID{{0xa1}, {0xa2}}
	verifHIPs     = []string{"10.0.0.1", "10.0.0.2"}
)

// verifHOriginStore stands for the origin cluster lookup: it hands out the
// blob's origins (fresh PeerInfo objects on every call, as the real store
// does after a cache refresh) or fails.
type verifHOriginStore struct {
	n        int
	complete [2]bool
	fail     bool
}

func (o *verifHOriginStore) GetOrigins(d core.Digest) ([]*core.PeerInfo, error) {
	if o.fail {
		return nil, errors.New("origins unavailable")
	}
	var res []*core.PeerInfo
	for i := 0; i < o.n; i++ {
		res = append(res, core.NewPeerInfo(verifHOrigins[i], "10.1.0.1", 7000+i, true, o.complete[i]))
	}
	return res, nil
}

func verifHIsOrigin(id core.PeerID) bool {
	return id == verifHOrigins[0] || id == verifHOrigins[1]
}

// verifHandout drives Server.announce (UpdatePeer on the real LocalStore,
// getPeerHandout, SortPeers) with a sequence of announces and checks every
// response. checkSelf selects the "never lists the announcing peer" clause; it
// used to be confined to the Finding harness while the defect of FINDINGS.md was
// open and is now checked everywhere.
func verifHandout(policyName string, nannounce int, nagents int, checkSelf bool) {
	verif.Option("max_preempt", 0)
	verif.Option("sched_fixed", 1)
	limit := verif.IntRange("handout_limit", 1, nagents)
	// origin lookup for the whole run: no origins, two origins, or failing
	origins := &verifHOriginStore{}
	switch verif.Choice("origin_scenario", 3) {
	case 1:
		origins.n = 2
	case 2:
		origins.n = 2
		origins.fail = true
	}
	origins.complete[0] = verif.Bool("origin_complete")
	origins.complete[1] = verif.Bool("origin_complete")
	policy, err := peerhandoutpolicy.NewPriorityPolicy(tally.NoopScope, policyName)
	verif.Assert("policy-exists", err == nil)
	ps := peerstore.NewLocalStore(peerstore.LocalConfig{TTL: time.Hour}, clock.NewMock())
	defer ps.Close()
	s := New(Config{PeerHandoutLimit: limit, AnnounceInterval: time.Second}, tally.NoopScope, policy, ps, origins, nil)
	d, _ := core.NewSHA256DigestFromHex("e3b0c44298fc1c149afbf4c8996fb92427ae41e4649b934ca495991b7852b855")
	h := core.InfoHash{7}
	verif.Note("agents are interchangeable: the i-th announce comes from one of the first i+1 agents")
	verif.Note("origins never announce (they run with announcing disabled), so origin and agent peer ids are disjoint")

	for i := 0; i < nannounce; i++ {
		// the i-th announce comes from one of the first i+1 agents: the code
		// only ever compares peer ids for equality, so which fresh agent
		// announces next does not matter
		nwho := i + 1
		if nwho > nagents {
			nwho = nagents
		}
		who := verif.Choice("announcer", nwho)
		complete := verif.Bool("complete")
		me := core.NewPeerInfo(verifHAgents[who], verifHIPs[i%2], 5000+i, false, complete)
		resp, err := s.announce(d, h, me)
		verif.Assert("announce-succeeds", err == nil)
		if err != nil {
			return
		}
		if complete {
			verif.Assert("complete-announcer-gets-empty-handout", len(resp.Peers) == 0)
			continue
		}
		verif.Reach("incomplete-announcer")
		agents := 0
		lastPrio := -1
		for j, p := range resp.Peers {
			if checkSelf {
				verif.Assert("handout-never-lists-announcer", p.PeerID != me.PeerID)
			}
			for _, q := range resp.Peers[:j] {
				verif.Assert("no-peer-twice", q.PeerID != p.PeerID)
			}
			if !verifHIsOrigin(p.PeerID) {
				agents++
			}
			if policyName == "completeness" {
				// seeders, then origins, then incomplete peers
				prio := 2
				if verifHIsOrigin(p.PeerID) {
					prio = 1
					verif.Reach("origin-in-handout")
				} else if p.Complete {
					prio = 0
					verif.Reach("seeder-in-handout")
				}
				verif.Assert("ordered-seeders-origins-incomplete", prio >= lastPrio)
				lastPrio = prio
			}
		}
		verif.Assert("at-most-limit-agents", agents <= limit)
		norig := origins.n
		if origins.fail {
			norig = 0
		}
		verif.Assert("at-most-limit-agents-plus-origins", len(resp.Peers) <= limit+norig)
		verif.Cover("handout-truncated-by-limit", agents == limit)
	}
}

// VerifHandoutCompleteness: completeness policy, every clause.
func VerifHandoutCompleteness() {
	verifHandout("completeness", verif.Bound("announces", 3, 4), verif.Bound("agents", 3, 4), true)
}

// VerifHandoutDefault: default policy (single priority class).
func VerifHandoutDefault() {
	verifHandout("default", verif.Bound("announces_default", 2, 3), verif.Bound("agents_default", 2, 3), true)
}

// VerifHandoutFindingAnnouncerListed: the announcer never finds itself in its
// own handout (regression check for the fixed finding, FINDINGS.md).
func VerifHandoutFindingAnnouncerListed() {
	verifHandout("completeness", verif.Bound("announces_self", 2, 3), verif.Bound("agents_self", 2, 3), true)
}
