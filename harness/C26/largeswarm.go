//kse:pkg tracker/trackerserver
package trackerserver

import (
	"time"

	"github.com/uber-go/tally"
	"github.com/uber/kraken/core"
	"github.com/uber/kraken/tracker/peerhandoutpolicy"
	verif "github.com/uber/kraken/zzverif"
)

// Large handouts. The harnesses of handout.go run the real LocalStore, whose
// rand.Perm makes swarms above a handful of peers intractable (n! draws), so
// their handouts have at most 6 entries. sort.Slice -- which SortPeers relies on
// -- is an insertion sort (stable) up to 12 elements and pdqsort (unstable)
// above, so the ordering clause has to be checked on a handout of more than 12
// entries as well. Here the peer store is stubbed at the peerstore.Store
// interface: it holds the announcer and `others` further agents and hands them
// out in list order. Every agent's completion flag is an unknown, and agents are
// interchangeable apart from that flag, so "any flags on a fixed order" covers
// every subset the real store could draw and every order it could draw it in.

var verifLOrigins = []core.PeerID{{0xb1}, {0xb2}, {0xb3}}

func verifLIsOrigin(id core.PeerID) bool {
	for _, o := range verifLOrigins {
		if id == o {
			return true
		}
	}
	return false
}

type verifLEntry struct {
	id       core.PeerID
	complete bool
}

// verifLStore: peerstore.Store stub. UpdatePeer records the announcer like the
// real store (new entry or refreshed flag); GetPeers returns fresh PeerInfo
// objects for the first n entries.
type verifLStore struct{ list []*verifLEntry }

func (s *verifLStore) Close() {}

func (s *verifLStore) UpdatePeer(h core.InfoHash, p *core.PeerInfo) error {
	for _, e := range s.list {
		if e.id == p.PeerID {
			e.complete = p.Complete
			return nil
		}
	}
	s.list = append(s.list, &verifLEntry{id: p.PeerID, complete: p.Complete})
	return nil
}

func (s *verifLStore) GetPeers(h core.InfoHash, n int) ([]*core.PeerInfo, error) {
	if len(s.list) < n {
		n = len(s.list)
	}
	var res []*core.PeerInfo
	for i := 0; i < n; i++ {
		e := s.list[i]
		res = append(res, core.NewPeerInfo(e.id, "10.0.0.9", 6000+i, false, e.complete))
	}
	return res, nil
}

// verifLOriginStore: the blob's origins; complete as the real origin store
// reports them (core.PeerInfoFromContext(pctx, true)).
type verifLOriginStore struct{ n int }

func (o *verifLOriginStore) GetOrigins(d core.Digest) ([]*core.PeerInfo, error) {
	var res []*core.PeerInfo
	for i := 0; i < o.n; i++ {
		res = append(res, core.NewPeerInfo(verifLOrigins[i], "10.1.0.1", 7000+i, true, true))
	}
	return res, nil
}

// VerifHandoutLargeSwarmOrder: an incomplete announcer in a swarm large enough
// for a handout of more than 12 entries (others + origins >= 13): every clause
// of the statement on that response, in particular the order seeders, origins,
// incomplete peers.
func VerifHandoutLargeSwarmOrder() {
	verif.Option("max_preempt", 0)
	verif.Option("sched_fixed", 1)
	others := verif.Bound("large_swarm_other_agents", 10, 12)
	norigins := len(verifLOrigins)
	verif.Note("peer store stubbed at the peerstore.Store interface (fixed hand-out order, symbolic completion flag per agent); origins are complete, as the origin store reports them")
	ps := &verifLStore{}
	for i := 0; i < others; i++ {
		ps.list = append(ps.list, &verifLEntry{id: core.PeerID{0x20, byte(i)}, complete: verif.Bool("agent_complete")})
	}
	limit := others + 1 // the whole swarm fits
	policy, err := peerhandoutpolicy.NewPriorityPolicy(tally.NoopScope, "completeness")
	verif.Assert("policy-exists", err == nil)
	s := New(Config{PeerHandoutLimit: limit, AnnounceInterval: time.Second}, tally.NoopScope, policy, ps, &verifLOriginStore{n: norigins}, nil)
	d, _ := core.NewSHA256DigestFromHex("e3b0c44298fc1c149afbf4c8996fb92427ae41e4649b934ca495991b7852b855")
	h := core.InfoHash{7}

	me := core.NewPeerInfo(core.PeerID{1}, "10.0.0.1", 5000, false, false)
	resp, err := s.announce(d, h, me)
	verif.Assert("announce-succeeds", err == nil)
	if err != nil {
		return
	}
	verif.Assert("large-handout", len(resp.Peers) == others+norigins)
	agents, seeders, leechers := 0, 0, 0
	lastPrio := -1
	for j, p := range resp.Peers {
		verif.Assert("handout-never-lists-announcer", p.PeerID != me.PeerID)
		for _, q := range resp.Peers[:j] {
			verif.Assert("no-peer-twice", q.PeerID != p.PeerID)
		}
		// seeders, then origins, then incomplete peers
		prio := 2
		if verifLIsOrigin(p.PeerID) {
			prio = 1
		} else {
			agents++
			if p.Complete {
				prio = 0
				seeders++
			} else {
				leechers++
			}
		}
		verif.Assert("ordered-seeders-origins-incomplete", prio >= lastPrio)
		lastPrio = prio
	}
	verif.Assert("at-most-limit-agents", agents <= limit)
	verif.Assert("at-most-limit-agents-plus-origins", len(resp.Peers) <= limit+norigins)
	verif.Cover("seeders-origins-and-incomplete-peers-together", seeders > 0 && leechers > 0)
	verif.Cover("several-seeders-and-several-incomplete-peers", seeders > 2 && leechers > 2)
}
