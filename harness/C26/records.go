//kse:pkg tracker/trackerserver
package trackerserver

import (
	"time"

	"github.com/uber-go/tally"
	"github.com/uber/kraken/core"
	"github.com/uber/kraken/tracker/peerhandoutpolicy"
	verif "github.com/uber/kraken/zzverif"
)

// Stores that keep one record per (peer id, ip, port).
//
// peerstore.Store promises "at most n random peers", not one record per peer
// id: the Redis store identifies a record by (peer id, ip, port)
// (peerstore.peerIdentity), so an agent that re-announces from another address
// before its old record expires comes back under two records. The handout
// clauses must hold for whatever such a store returns. The stub below returns
// records with pairwise different addresses whose peer ids are unknowns (case
// split), so ids may repeat -- in particular the announcer's id may sit on an
// older record next to the record UpdatePeer has just written.
//
// What is asserted about repeated ids: the announcer's id is never handed out
// (the statement, and HEAD drops every entry carrying it); no RECORD
// (id, ip, port) is handed out twice (the tracker adds no duplicates). Two
// different records of one non-announcing peer id are passed through by HEAD;
// collapsing them is the store's business, so "no peer id twice" is asserted
// only by the harnesses that run the real LocalStore (handout.go).

type verifRRecord struct {
	id       core.PeerID
	ip       string
	port     int
	complete bool
}

type verifRStore struct {
	recs     []verifRRecord
	insertAt int // where a new record goes (which records a sample holds, and in which order, is up to the store)
}

func (s *verifRStore) Close() {}

func (s *verifRStore) UpdatePeer(h core.InfoHash, p *core.PeerInfo) error {
	for i := range s.recs {
		if s.recs[i].id == p.PeerID && s.recs[i].ip == p.IP && s.recs[i].port == p.Port {
			s.recs[i].complete = p.Complete
			return nil
		}
	}
	r := verifRRecord{id: p.PeerID, ip: p.IP, port: p.Port, complete: p.Complete}
	var out []verifRRecord
	out = append(out, s.recs[:s.insertAt]...)
	out = append(out, r)
	out = append(out, s.recs[s.insertAt:]...)
	s.recs = out
	return nil
}

func (s *verifRStore) GetPeers(h core.InfoHash, n int) ([]*core.PeerInfo, error) {
	if len(s.recs) < n {
		n = len(s.recs)
	}
	var res []*core.PeerInfo
	for i := 0; i < n; i++ {
		r := s.recs[i]
		res = append(res, core.NewPeerInfo(r.id, r.ip, r.port, false, r.complete))
	}
	return res, nil
}

// VerifHandoutRepeatedPeerRecords: one announce of an incomplete peer against a
// store holding records whose peer ids may repeat (the announcer's included).
func VerifHandoutRepeatedPeerRecords() {
	verif.Option("max_preempt", 0)
	verif.Option("sched_fixed", 1)
	nrec := verif.Bound("stored_records", 3, 4)
	verif.Note("peer store stubbed at the peerstore.Store interface: records with pairwise different addresses, peer id of every record an unknown (announcer or one of two other agents), fixed sample order with the announcer's new record first or last")
	me := core.NewPeerInfo(core.PeerID{1}, "10.0.0.1", 5000, false, false)
	ids := []core.PeerID{me.PeerID, {2}, {3}}
	ps := &verifRStore{}
	mine := 0
	for i := 0; i < nrec; i++ {
		// the two other agents are interchangeable: the first record is the
		// announcer's or the first agent's
		nid := len(ids)
		if i == 0 {
			nid = 2
		}
		id := ids[verif.Choice("record_peer_id", nid)]
		if id == me.PeerID {
			mine++
		}
		ps.recs = append(ps.recs, verifRRecord{id: id, ip: "10.0.1.1", port: 6000 + i, complete: verif.Bool("record_complete")})
	}
	if verif.Choice("new_record_first", 2) == 0 {
		ps.insertAt = nrec
	}
	limit := 1 + verif.Choice("handout_limit", nrec+1)
	norigins := 1
	policy, err := peerhandoutpolicy.NewPriorityPolicy(tally.NoopScope, "completeness")
	verif.Assert("policy-exists", err == nil)
	s := New(Config{PeerHandoutLimit: limit, AnnounceInterval: time.Second}, tally.NoopScope, policy, ps, &verifLOriginStore{n: norigins}, nil)
	d, _ := core.NewSHA256DigestFromHex("e3b0c44298fc1c149afbf4c8996fb92427ae41e4649b934ca495991b7852b855")
	h := core.InfoHash{7}

	resp, err := s.announce(d, h, me)
	verif.Assert("announce-succeeds", err == nil)
	if err != nil {
		return
	}
	agents := 0
	lastPrio := -1
	repeated := false
	for j, p := range resp.Peers {
		verif.Assert("handout-never-lists-announcer", p.PeerID != me.PeerID)
		for _, q := range resp.Peers[:j] {
			verif.Assert("no-record-twice", !(q.PeerID == p.PeerID && q.IP == p.IP && q.Port == p.Port))
			if q.PeerID == p.PeerID {
				repeated = true
			}
		}
		prio := 2
		if verifLIsOrigin(p.PeerID) {
			prio = 1
		} else {
			agents++
			if p.Complete {
				prio = 0
			}
		}
		verif.Assert("ordered-seeders-origins-incomplete", prio >= lastPrio)
		lastPrio = prio
	}
	verif.Assert("at-most-limit-agents", agents <= limit)
	verif.Assert("at-most-limit-agents-plus-origins", len(resp.Peers) <= limit+norigins)
	verif.Cover("announcer-id-on-an-older-record-too", mine >= 1 && limit > nrec)
	verif.Cover("announcer-id-on-several-older-records", mine >= 2 && limit > nrec)
	verif.Cover("other-peer-id-under-two-records-in-handout", repeated)
}
