//kse:pkg lib/torrent/storage/agentstorage
package agentstorage

import (
	"errors"

	"github.com/uber/kraken/core"
	"github.com/uber/kraken/lib/store"
	verif "github.com/uber/kraken/zzverif"
)

// I/O faults on the download file handle. The engine's file-system model has
// no fault injection, so the seam is at the store interface NewTorrent takes:
// a wrapper around the real CADownloadStore hands out the real
// FileReadWriter, except that ONE operation (Seek, Write or Close — which one
// and on which handle is a symbolic choice) reports an error. Write and Close
// faults are reported after the real operation was carried out (the bytes may
// have reached the file, the descriptor is closed), Seek faults instead of it.
// A WritePiece that returns an error counts as a rejected write; everything
// C03 says about accepted pieces, bitfield, progress and the committed file
// must keep holding.

const (
	verifFaultNone = iota
	verifFaultSeek
	verifFaultWrite
	verifFaultClose
)

type verifFaultStore struct {
	*store.CADownloadStore
	op     int // which operation fails
	handle int // on the handle opened as number `handle`
	opened int
	fired  bool
}

type verifFaultFile struct {
	store.FileReadWriter
	s     *verifFaultStore
	armed bool
}

func (s *verifFaultStore) GetDownloadFileReadWriter(name string) (store.FileReadWriter, error) {
	f, err := s.CADownloadStore.GetDownloadFileReadWriter(name)
	if err != nil {
		return nil, err
	}
	armed := s.op != verifFaultNone && s.opened == s.handle
	s.opened++
	return &verifFaultFile{FileReadWriter: f, s: s, armed: armed}, nil
}

func (f *verifFaultFile) fault(op int) bool {
	if f.armed && f.s.op == op && !f.s.fired {
		f.s.fired = true
		return true
	}
	return false
}

func (f *verifFaultFile) Seek(off int64, whence int) (int64, error) {
	if f.fault(verifFaultSeek) {
		return 0, errors.New("injected seek error")
	}
	return f.FileReadWriter.Seek(off, whence)
}

func (f *verifFaultFile) Write(p []byte) (int, error) {
	n, err := f.FileReadWriter.Write(p)
	if f.fault(verifFaultWrite) {
		return n, errors.New("injected write error")
	}
	return n, err
}

func (f *verifFaultFile) Close() error {
	err := f.FileReadWriter.Close()
	if f.fault(verifFaultClose) {
		return errors.New("injected close error")
	}
	return err
}

// VerifTorrentWriteWithIOFault: k writes (any piece, correct or arbitrary
// bytes of the piece's length) on a torrent whose download file handle fails
// one symbolic operation once.
func VerifTorrentWriteWithIOFault() {
	verif.Option("panic_is_violation", 1)
	n, plen := 2, 1
	if verif.Bound("short_last_piece_shape", 0, 1) == 1 && verif.Bool("other_shape") {
		n, plen = 3, 2
	}
	e := &verifEnv{cads: verifNewCADS(), blob: verif.Bytes("blob", n), plen: plen}
	verif.Note("crc32 collision exclusion: a payload whose CRC equals the metainfo piece sum is assumed to be the piece's bytes")
	verif.Note("I/O faults are injected at the caDownloadStore interface handed to NewTorrent (one failing Seek/Write/Close on one download file handle); the FS model itself has no fault injection")
	d, err := core.NewSHA256DigestFromHex(verifBlobName)
	verif.Assert("digest", err == nil)
	e.mi, err = core.NewMetaInfoFromBytes(d, e.blob, int64(plen))
	verif.Assert("metainfo", err == nil)
	e.npiece = e.mi.NumPieces()
	verif.Assert("create-download-file", e.cads.CreateDownloadFile(verifBlobName, e.mi.Length()) == nil)
	fs := &verifFaultStore{CADownloadStore: e.cads}
	fs.op = verif.Choice("fault_op", 4)
	if fs.op != verifFaultNone {
		fs.handle = verif.Choice("fault_handle", 2)
	}
	e.t, err = NewTorrent(fs, e.mi)
	verif.Assert("new-torrent", err == nil)
	e.verified = make([]bool, e.npiece)
	e.check()
	k := verif.Bound("writes", 3, 4)
	for i := 0; i < k; i++ {
		pi := verif.Choice("piece_index", e.npiece)
		var payload []byte
		if verif.Choice("payload_kind", 2) == 0 {
			payload = append([]byte(nil), e.piece(pi)...)
		} else {
			payload = verif.Bytes("payload", len(e.piece(pi)))
		}
		werr := e.write(pi, payload)
		verif.Cover("write-failed-by-fault", fs.fired && werr != nil)
		e.check()
	}
	verif.Cover("fault-fired", fs.fired)
	verif.Cover("completed-despite-fault", fs.fired && e.t.Complete())
}
