//kse:pkg lib/torrent/storage/agentstorage
package agentstorage

import (
	"io"
	"path/filepath"
	"sync"

	"github.com/uber-go/tally"
	"github.com/uber/kraken/core"
	"github.com/uber/kraken/lib/store"
	"github.com/uber/kraken/lib/torrent/storage/piecereader"
	verif "github.com/uber/kraken/zzverif"
)

// C03: an agent commits a blob only after every piece is verified.
//
// The real Torrent / pieces / CADownloadStore / base file store code runs on
// the FS model. The blob bytes are symbolic, every write has a symbolic piece
// index, payload length and payload bytes.

const verifBlobName = "aaaaaaaaaaaaaaaaaaaaaaaaaaaaaaaaaaaaaaaaaaaaaaaaaaaaaaaaaaaaaaaa"

type verifEnv struct {
	cads   *store.CADownloadStore
	blob   []byte
	plen   int
	mi     *core.MetaInfo
	t      *Torrent
	npiece int
	// ghost: pieces for which some WritePiece returned nil
	verified []bool
}

func verifNewCADS() *store.CADownloadStore {
	root := verif.TempDir()
	cads, err := store.NewCADownloadStore(store.CADownloadStoreConfig{
		DownloadDir: filepath.Join(root, "download"),
		CacheDir:    filepath.Join(root, "cache"),
		// no background cleanup goroutines (idle-file cleanup is C10/C18)
		DownloadCleanup: store.CleanupConfig{Disabled: true},
		CacheCleanup:    store.CleanupConfig{Disabled: true},
	}, tally.NoopScope)
	verif.Assert("new-store", err == nil)
	return cads
}

// verifSetup creates the download file and the Torrent for a symbolic blob of
// n bytes cut into pieces of plen bytes.
func verifSetup(n, plen int) *verifEnv {
	// a write is accepted or rejected: a panic of the code under test is neither
	verif.Option("panic_is_violation", 1)
	verif.Note("crc32 collision exclusion: a payload whose CRC equals the metainfo piece sum is assumed to be the piece's bytes")
	e := &verifEnv{cads: verifNewCADS(), blob: verif.Bytes("blob", n), plen: plen}
	d, err := core.NewSHA256DigestFromHex(verifBlobName)
	verif.Assert("digest", err == nil)
	e.mi, err = core.NewMetaInfoFromBytes(d, e.blob, int64(plen))
	verif.Assert("metainfo", err == nil)
	e.npiece = e.mi.NumPieces()
	verif.Assert("create-download-file", e.cads.CreateDownloadFile(verifBlobName, e.mi.Length()) == nil)
	e.t, err = NewTorrent(e.cads, e.mi)
	verif.Assert("new-torrent", err == nil)
	e.verified = make([]bool, e.npiece)
	return e
}

func (e *verifEnv) piece(pi int) []byte {
	lo := pi * e.plen
	hi := lo + e.plen
	if hi > len(e.blob) {
		hi = len(e.blob)
	}
	return e.blob[lo:hi]
}

func verifEq(a, b []byte) bool {
	if len(a) != len(b) {
		return false
	}
	same := true
	for i := range a {
		same = verif.And(same, a[i] == b[i])
	}
	return same
}

// prepare states the checksum-collision exclusion for a payload aimed at
// piece pi and reports whether the payload is exactly that piece's bytes.
func (e *verifEnv) prepare(pi int, payload []byte) (valid bool, correct bool) {
	valid = pi >= 0 && pi < e.npiece
	if valid {
		correct = verifEq(payload, e.piece(pi)) // false when the lengths differ
		// crc32 is an uninterpreted function under the engine: state that
		// the checksum of this payload does not collide with the piece's
		// checksum unless the bytes are the piece's bytes.
		verif.Assume(verif.Implies(core.PieceSum(payload) == e.mi.GetPieceSum(pi), correct))
	}
	return
}

// record checks the outcome of one WritePiece against the ghost record: an
// accepted write had a valid index and carried exactly the piece's bytes, and
// no piece is accepted twice.
func (e *verifEnv) record(pi int, payload []byte, valid, correct bool, err error) {
	if err != nil {
		verif.Reach("write-rejected")
		return
	}
	verif.Reach("write-accepted")
	verif.Assert("accepted-write-has-valid-index", valid)
	verif.Assert("accepted-write-has-piece-length", len(payload) == len(e.piece(pi)))
	verif.Assert("accepted-write-has-piece-content", correct)
	verif.Assert("piece-accepted-at-most-once", !e.verified[pi])
	e.verified[pi] = true
}

// write performs one WritePiece (sequential use) and records its outcome.
func (e *verifEnv) write(pi int, payload []byte) error {
	valid, correct := e.prepare(pi, payload)
	err := e.t.WritePiece(piecereader.NewBuffer(payload), pi)
	e.record(pi, payload, valid, correct, err)
	return err
}

func (e *verifEnv) numVerified() int {
	k := 0
	for _, v := range e.verified {
		if v {
			k++
		}
	}
	return k
}

// check compares everything the torrent reports with the ghost record, at a
// quiescent point (no write in progress).
func (e *verifEnv) check() {
	t := e.t
	bf := t.Bitfield()
	verif.Assert("bitfield-length", int(bf.Len()) == e.npiece)
	missing := t.MissingPieces()
	mi := 0
	for i := 0; i < e.npiece; i++ {
		verif.Assert("bitfield-matches-verified", bf.Test(uint(i)) == e.verified[i])
		verif.Assert("haspiece-matches-verified", t.HasPiece(i) == e.verified[i])
		if !e.verified[i] {
			verif.Assert("missing-lists-unverified", mi < len(missing) && missing[mi] == i)
			mi++
		}
	}
	verif.Assert("missing-lists-only-unverified", mi == len(missing))
	want := int64(e.numVerified()) * int64(e.plen)
	if want > int64(len(e.blob)) {
		want = int64(len(e.blob))
	}
	verif.Assert("progress-matches-verified", t.BytesDownloaded() == want)

	all := e.numVerified() == e.npiece
	verif.Assert("complete-only-when-all-verified", !t.Complete() || all)
	verif.Cover("completed", t.Complete())
	_, statErr := e.cads.Cache().GetFileStat(verifBlobName)
	verif.Assert("cached-only-when-all-verified", statErr != nil || all)
	if t.Complete() {
		verif.Assert("complete-implies-cached", statErr == nil)
	}
	if statErr == nil {
		r, err := e.cads.Cache().GetFileReader(verifBlobName)
		verif.Assert("cache-open", err == nil)
		b, err := io.ReadAll(r)
		r.Close()
		verif.Assert("cache-read", err == nil)
		verif.Assert("committed-file-is-the-blob", verifEq(b, e.blob))
	}
	// verified pieces keep their bytes wherever the file currently is
	if e.numVerified() > 0 {
		r, err := e.cads.Any().GetFileReader(verifBlobName)
		verif.Assert("any-open", err == nil)
		b, err := io.ReadAll(r)
		r.Close()
		verif.Assert("any-read", err == nil)
		verif.Assert("file-length", len(b) == len(e.blob))
		for i := 0; i < e.npiece; i++ {
			if e.verified[i] {
				lo := i * e.plen
				verif.Assert("verified-piece-bytes-intact", verifEq(b[lo:lo+len(e.piece(i))], e.piece(i)))
			}
		}
	}
}

// payload: symbolic payload (any length from 0 to piece length + 1, arbitrary
// bytes).
func (e *verifEnv) payload() []byte {
	return verif.Bytes("payload", verif.Len("payload_len", 0, e.plen+1))
}

// verifShape picks the blob length and piece length. Quick: piece length 2,
// blob of 0..4 bytes (0, 1 or 2 pieces, short and full last piece); thorough
// adds piece length 1 and 5-byte blobs (up to 5 pieces).
func verifShape() (n, plen int) {
	plen = verif.Len("piece_len", verif.Bound("min_piece_len", 2, 1), 2)
	n = verif.Len("blob_len", 0, verif.Bound("blob_len", 4, 5))
	return
}

// VerifTorrentWriteSequence: k writes from the fresh torrent, each with a
// symbolic index (every piece and one past the end), symbolic payload length
// and bytes, in any order and with repetitions.
func VerifTorrentWriteSequence() {
	n, plen := verifShape()
	e := verifSetup(n, plen)
	verif.Cover("several-pieces", e.npiece >= 2)
	verif.Cover("short-last-piece", n%plen != 0)
	e.check()
	k := verif.Bound("writes", 2, 3)
	for i := 0; i < k; i++ {
		pi := verif.Len("piece_index", -1, e.npiece) // -1 and npiece: just outside the torrent
		e.write(pi, e.payload())
		e.check()
	}
}

// VerifTorrentWriteFromAnyState: every piece is first brought into one of
// three conditions by real writes — untouched, holding garbage from a rejected
// corrupted write, or verified — which yields every reachable combination of
// piece states; then one arbitrary write follows (any valid index, any index
// beyond the end, any payload). Pieces are prepared in descending or ascending
// order (symbolic).
func VerifTorrentWriteFromAnyState() {
	n, plen := verifShape()
	e := verifSetup(n, plen)
	descending := verif.Bool("prepare_descending")
	for j := 0; j < e.npiece; j++ {
		i := j
		if descending {
			i = e.npiece - 1 - j
		}
		switch verif.Choice("prepared_state", 3) {
		case 0:
		case 1:
			bad := verif.Bytes("garbage", len(e.piece(i)))
			verif.Assume(!verifEq(bad, e.piece(i)))
			err := e.write(i, bad)
			verif.Assert("corrupted-piece-rejected", err != nil)
		case 2:
			err := e.write(i, append([]byte(nil), e.piece(i)...))
			verif.Assert("correct-piece-accepted", err == nil)
		}
	}
	e.check()
	var pi int
	if verif.Bool("index_outside_torrent") {
		pi = verif.Int("bad_index") // any int outside the torrent, negative included
		verif.Assume(verif.Or(pi < 0, pi >= e.npiece))
	} else {
		if e.npiece == 0 {
			return
		}
		pi = verif.Choice("piece_index", e.npiece)
	}
	wasVerified := pi >= 0 && pi < e.npiece && e.verified[pi]
	err := e.write(pi, e.payload())
	if wasVerified {
		verif.Assert("rewrite-of-verified-piece-rejected", err != nil)
	}
	e.check()
}

// VerifTorrentConcurrentWriters: two goroutines write one piece each (same or
// different piece, correct or arbitrary payload) under every interleaving
// within the preemption bound; the checks run after both have returned.
func VerifTorrentConcurrentWriters() {
	verif.Option("max_preempt", verif.Bound("preemptions", 1, 2))
	e := verifSetup(2, 1) // two pieces of one byte
	var wg sync.WaitGroup
	errs := make([]error, 2)
	// writer 0 targets piece 0, writer 1 the same or the other piece; both
	// payloads are arbitrary bytes (the solver decides which are correct)
	idx := []int{0, verif.Choice("second_writer_piece", 2)}
	pay := [][]byte{verif.Bytes("payload0", 1), verif.Bytes("payload1", 1)}
	valid, correct := make([]bool, 2), make([]bool, 2)
	for w := 0; w < 2; w++ {
		valid[w], correct[w] = e.prepare(idx[w], pay[w])
	}
	for w := 0; w < 2; w++ {
		w := w
		wg.Add(1)
		go func() {
			defer wg.Done()
			errs[w] = e.t.WritePiece(piecereader.NewBuffer(pay[w]), idx[w])
		}()
	}
	wg.Wait()
	for w := 0; w < 2; w++ {
		e.record(idx[w], pay[w], valid[w], correct[w], errs[w])
	}
	verif.Cover("both-accepted", errs[0] == nil && errs[1] == nil)
	verif.Cover("same-piece", idx[0] == idx[1])
	e.check()
}
