//kse:pkg lib/torrent/storage/agentstorage
package agentstorage

import (
	"github.com/uber/kraken/lib/torrent/storage/piecereader"
	verif "github.com/uber/kraken/zzverif"
)

// VerifFindingNegativePieceIndex: a write with a negative piece index must be
// rejected like any other invalid index (see FINDINGS.md).
func VerifFindingNegativePieceIndex() {
	verif.Option("panic_is_violation", 1)
	e := verifSetup(2, 1)
	pi := -1
	if verif.Bool("most_negative") {
		pi = -1 << 63
	}
	err := e.t.WritePiece(piecereader.NewBuffer(verif.Bytes("payload", 1)), pi)
	verif.Assert("negative-index-rejected", err != nil)
	e.check()
	// the rejected write leaves the download usable: finish it
	for i := 0; i < e.npiece; i++ {
		werr := e.write(i, e.piece(i))
		verif.Assert("correct-piece-accepted-afterwards", werr == nil)
	}
	e.check()
}
