//kse:pkg lib/hashring
package hashring

import (
	"sync"

	"github.com/uber-go/tally"
	"github.com/uber/kraken/core"
	"github.com/uber/kraken/utils/stringset"
	verif "github.com/uber/kraken/zzverif"
)

// Replica sets observed WHILE a Refresh is in progress (API only).
//
// Refresh calls out of the ring twice without holding its lock: the health
// round (healthcheck.Filter.Run, for the active filter up to its timeout) and
// the Watcher notification; Locations may also be called from any other
// goroutine at any moment. The statement speaks of "current members" and
// "healthy" without a moment, so an observer is entitled to a replica set that
// follows the statement's rule for ONE membership+health view the ring stands
// for: the view before the refresh or the view after it -- never the members
// of one with the health of the other (new members would count as unhealthy,
// and after a replacement of the whole fleet no owner would be "healthy": an
// empty list).

// verifGObserver calls Locations from inside the ring's call-outs.
type verifGObserver struct {
	armed bool
	r     Ring
	d     core.Digest
	seen  [][]string
	where []string
}

func (o *verifGObserver) observe(where string) {
	if !o.armed {
		return // (start-up: the ring under construction is not reachable by anybody)
	}
	o.seen = append(o.seen, o.r.Locations(o.d))
	o.where = append(o.where, where)
}

type verifGWatcher struct{ o *verifGObserver }

func (w *verifGWatcher) Notify(latest stringset.Set) { w.o.observe("notify") }

// verifGObservingFilter: the health round looks at the ring before and after
// it computed the health of the hosts it was given.
type verifGObservingFilter struct {
	inner *verifGFilter
	o     *verifGObserver
}

func (f *verifGObservingFilter) Run(addrs stringset.Set) stringset.Set {
	f.o.observe("health-round-begin")
	verif.Yield() // the round takes time: other goroutines run meanwhile
	out := f.inner.Run(addrs)
	f.o.observe("health-round-end")
	return out
}

type verifGView struct {
	member, healthy []bool
}

func (w *verifGWorld) view() verifGView {
	v := verifGView{make([]bool, len(w.member)), make([]bool, len(w.healthy))}
	copy(v.member, w.member)
	copy(v.healthy, w.healthy)
	return v
}

// changeMembership replaces the membership by any other non-empty subset of
// the hosts (join, leave, rolling or full replacement) and redraws health.
func (w *verifGWorld) changeMembership() bool {
	sub := verif.Choice("membership_after", (1<<uint(w.nhosts))-1) + 1
	same := true
	for i := 0; i < w.nhosts; i++ {
		m := sub&(1<<uint(i)) != 0
		if m != w.member[i] {
			same = false
		}
		w.member[i] = m
	}
	w.drawHealth()
	return !same
}

func verifGDisjoint(a, b verifGView) bool {
	for i := range a.member {
		if a.member[i] && b.member[i] {
			return false
		}
	}
	return true
}

func verifGAnyHealthy(v verifGView) bool {
	for i := range v.member {
		if v.member[i] && v.healthy[i] {
			return true
		}
	}
	return false
}

func (w *verifGWorld) checkObserved(locs []string, before, after verifGView, shard string) {
	verif.Assert("replica-set-observed-during-refresh-non-empty", len(locs) > 0)
	wantOld := verifGExpected(before.member, before.healthy, w.maxReplica, shard)
	wantNew := verifGExpected(after.member, after.healthy, w.maxReplica, shard)
	verif.Assert("replica-set-observed-during-refresh-follows-one-published-view",
		verifGSame(locs, wantOld) || verifGSame(locs, wantNew))
}

// VerifRingObservedFromCallbacksDuringRefresh: a watcher and the health filter
// call Locations from inside a membership-changing Refresh (deterministic: no
// schedule involved). Membership before and after are arbitrary different
// non-empty subsets, health bits before and after arbitrary.
func VerifRingObservedFromCallbacksDuringRefresh() {
	nhosts := verif.Bound("hosts_during", 3, 4)
	w := verifGSetup(nhosts, false)
	w.drawHealth()
	ndig := verif.Bound("digests_during", 1, len(verifGDigests))
	d, err := core.NewSHA256DigestFromHex(verifGDigests[(1+verif.Choice("digest", ndig))%len(verifGDigests)])
	verif.Assume(err == nil)
	o := &verifGObserver{d: d}
	filter := &verifGObservingFilter{inner: w.filter, o: o}
	ra := New(Config{MaxReplica: w.maxReplica}, w.ca, filter, tally.NoopScope, WithWatcher(&verifGWatcher{o}))
	o.r = ra
	before := w.view()
	if !w.changeMembership() {
		return
	}
	after := w.view()
	o.armed = true
	ra.Refresh()
	o.armed = false
	verif.Assert("watcher-was-notified-of-the-membership-change", len(o.seen) == 3)
	verif.Cover("whole-fleet-replaced-and-old-fleet-had-a-healthy-host",
		verifGDisjoint(before, after) && verifGAnyHealthy(before))
	for _, locs := range o.seen {
		w.checkObserved(locs, before, after, d.ShardID())
	}
	// and afterwards the ring stands for the new view
	verif.Assert("replica-set-as-stated-after-refresh",
		verifGSame(ra.Locations(d), verifGExpected(after.member, after.healthy, w.maxReplica, d.ShardID())))
}

// VerifRingObservedConcurrentlyWithRefresh: another goroutine calls Locations
// at any schedule point of a membership-changing Refresh (every host healthy
// before and after, so only the membership differs between the two views).
func VerifRingObservedConcurrentlyWithRefresh() {
	verif.Option("max_preempt", verif.Bound("preemptions_during", 1, 2))
	nhosts := verif.Bound("hosts_concurrent", 3, 3)
	w := verifGSetup(nhosts, false)
	for i := range w.healthy {
		w.healthy[i] = true
	}
	d, err := core.NewSHA256DigestFromHex(verifGDigests[1])
	verif.Assume(err == nil)
	o := &verifGObserver{d: d} // never armed: the callbacks only yield
	filter := &verifGObservingFilter{inner: w.filter, o: o}
	ra := New(Config{MaxReplica: w.maxReplica}, w.ca, filter, tally.NoopScope, WithWatcher(&verifGWatcher{o}))
	before := w.view()
	sub := verif.Choice("membership_after", (1<<uint(nhosts))-1) + 1
	changed := false
	for i := 0; i < nhosts; i++ {
		m := sub&(1<<uint(i)) != 0
		if m != w.member[i] {
			changed = true
		}
		w.member[i] = m
	}
	if !changed {
		return
	}
	after := w.view()

	var (
		wg   sync.WaitGroup
		mu   sync.Mutex
		locs []string
	)
	wg.Add(1)
	go func() {
		defer wg.Done()
		l := ra.Locations(d)
		mu.Lock()
		locs = l
		mu.Unlock()
	}()
	ra.Refresh()
	wg.Wait()
	mu.Lock()
	got := locs
	mu.Unlock()
	w.checkObserved(got, before, after, d.ShardID())
	verif.Cover("observer-saw-the-view-before-the-refresh",
		verifGSame(got, verifGExpected(before.member, before.healthy, w.maxReplica, d.ShardID())))
	verif.Cover("observer-saw-the-view-after-the-refresh",
		verifGSame(got, verifGExpected(after.member, after.healthy, w.maxReplica, d.ShardID())))
}
