//kse:pkg lib/hashring
package hashring

import (
	"hash"
	"math"
	"sort"

	"github.com/uber-go/tally"
	"github.com/uber/kraken/core"
	"github.com/uber/kraken/lib/hrw"
	verif "github.com/uber/kraken/zzverif"
)

// Uninterpreted scores (engine option hrw_score_uninterpreted): one run covers
// every digest / shard id and every hash function, because the solver chooses
// any tie-free score assignment for the members. For native replay the chosen
// order is installed into the ring's rendezvous hash through its pluggable Hash
// and ScoreFunc fields, which is why this file touches ring internals
// (r.hash) and is kept apart from api.go.

const verifGUFDigest = "ab12c44298fc1c149afbf4c8996fb92427ae41e4649b934ca495991b7852b855"

type verifGRecHash struct{ buf []byte }

func (h *verifGRecHash) Write(p []byte) (int, error) { h.buf = append(h.buf, p...); return len(p), nil }
func (h *verifGRecHash) Sum(b []byte) []byte         { return append(b, h.buf...) }
func (h *verifGRecHash) Reset()                      { h.buf = nil }
func (h *verifGRecHash) Size() int                   { return 0 }
func (h *verifGRecHash) BlockSize() int              { return 1 }

type verifGScores struct{ rank map[string]int }

func verifGNewScores(shard string) *verifGScores {
	sc := &verifGScores{rank: map[string]int{}}
	if verif.Symbolic() {
		return sc
	}
	type kv struct {
		label string
		k     int64
	}
	var ks []kv
	for _, l := range verifGHosts {
		ks = append(ks, kv{l, verif.Int64("hrwscore:" + l + ":" + shard)})
	}
	sort.Slice(ks, func(i, j int) bool {
		if ks[i].k != ks[j].k {
			return ks[i].k < ks[j].k
		}
		return ks[i].label < ks[j].label
	})
	for r, e := range ks {
		sc.rank[e.label] = r
	}
	return sc
}

func (sc *verifGScores) hashFactory() hash.Hash { return &verifGRecHash{} }

// native only: b = 2 decoded shard bytes + label
func (sc *verifGScores) scoreFunc(b []byte, max []byte, hasher hash.Hash) float64 {
	target := float64(sc.rank[string(b[2:])]+1) * 1000
	return math.Exp(-float64(_defaultWeight) / target)
}

// install makes the ring (natively) score with sc.
func (sc *verifGScores) install(r Ring) {
	if verif.Symbolic() {
		return
	}
	rr := r.(*ring)
	rr.hash.Hash = sc.hashFactory
	rr.hash.ScoreFunc = sc.scoreFunc
}

// checkUF: as check, with ring and oracle scoring through sc natively.
func (w *verifGWorld) checkUF(sc *verifGScores, ra, rb Ring, d core.Digest) {
	sc.install(ra)
	sc.install(rb)
	old := verifGNewScorer
	verifGNewScorer = func() *hrw.RendezvousHash { return hrw.NewRendezvousHash(sc.hashFactory, sc.scoreFunc) }
	defer func() { verifGNewScorer = old }()
	w.check(ra, rb, d)
}

// VerifRingLocationsAnyScores: the replica rule for every digest at once
// (uninterpreted, tie-free scores) and two discovery orders.
func VerifRingLocationsAnyScores() {
	verif.Option("hrw_score_uninterpreted", 1)
	nhosts := verif.Bound("hosts", 3, 4)
	w := verifGSetup(nhosts, true)
	w.drawHealth()
	d, err := core.NewSHA256DigestFromHex(verifGUFDigest)
	verif.Assume(err == nil)
	sc := verifGNewScores(d.ShardID())
	ra := New(Config{MaxReplica: w.maxReplica}, w.ca, w.filter, tally.NoopScope)
	rb := New(Config{MaxReplica: w.maxReplica}, w.cb, w.filter, tally.NoopScope)
	w.checkUF(sc, ra, rb, d)
}

// VerifRingRefreshHealthOnlyAnyScores: the health view changes between two
// refreshes while the membership stays the same (uninterpreted scores: every
// digest at once); the refreshed ring must follow the new health view and agree
// with a ring started afresh.
func VerifRingRefreshHealthOnlyAnyScores() {
	verif.Option("hrw_score_uninterpreted", 1)
	nhosts := verif.Bound("hosts_health_uf", 3, 4)
	w := verifGSetup(nhosts, false)
	d, err := core.NewSHA256DigestFromHex(verifGUFDigest)
	verif.Assume(err == nil)
	sc := verifGNewScores(d.ShardID())
	verifGHealthOnly(w, d, func(ra, rb Ring) { w.checkUF(sc, ra, rb, d) })
}

// VerifRingRefreshAnyScores: membership and health change, Refresh, and the rule
// holds for the new membership (uninterpreted scores).
func VerifRingRefreshAnyScores() {
	verif.Option("hrw_score_uninterpreted", 1)
	nhosts := verif.Bound("hosts_refresh_uf", 3, 4)
	w := verifGSetup(nhosts, false)
	for i := range w.healthy {
		w.healthy[i] = true // before the change everybody is healthy
	}
	d, err := core.NewSHA256DigestFromHex(verifGUFDigest)
	verif.Assume(err == nil)
	sc := verifGNewScores(d.ShardID())
	ra := New(Config{MaxReplica: w.maxReplica}, w.ca, w.filter, tally.NoopScope)
	rb := New(Config{MaxReplica: w.maxReplica}, w.cb, w.filter, tally.NoopScope)
	t := verif.Choice("toggled", nhosts)
	w.member[t] = !w.member[t]
	if w.ca.size() == 0 {
		return
	}
	w.drawHealth()
	ra.Refresh()
	rb.Refresh()
	w.checkUF(sc, ra, rb, d)
}
