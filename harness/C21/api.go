//kse:pkg lib/hashring
package hashring

import (
	"github.com/uber-go/tally"
	"github.com/uber/kraken/core"
	"github.com/uber/kraken/lib/hrw"
	"github.com/uber/kraken/utils/stringset"
	verif "github.com/uber/kraken/zzverif"
)

var verifGHosts = []string{"h0:80", "h1:80", "h2:80", "h3:80"}

// verifGCluster is the host list; order is the order in which Resolve inserts
// the hosts into the set it returns, i.e. the discovery order (the engine's maps
// iterate in insertion order; natively the order is random anyway).
type verifGCluster struct {
	member []bool
	order  []int
}

func (c *verifGCluster) Resolve() stringset.Set {
	s := stringset.New()
	for _, i := range c.order {
		if c.member[i] {
			s.Add(verifGHosts[i])
		}
	}
	return s
}

func (c *verifGCluster) size() int {
	n := 0
	for _, m := range c.member {
		if m {
			n++
		}
	}
	return n
}

// verifGFilter is the health filter: a fixed (symbolic) health bit per host.
type verifGFilter struct{ healthy []bool }

func (f *verifGFilter) Run(addrs stringset.Set) stringset.Set {
	out := stringset.New()
	for i, h := range verifGHosts {
		if addrs.Has(h) && f.healthy[i] {
			out.Add(h)
		}
	}
	return out
}

func verifGPermutation(n int) []int {
	p := make([]int, 0, n)
	used := make([]bool, n)
	for i := 0; i < n; i++ {
		k := verif.Choice("discovered_next", n-i)
		for j := 0; j < n; j++ {
			if used[j] {
				continue
			}
			if k == 0 {
				used[j] = true
				p = append(p, j)
				break
			}
			k--
		}
	}
	return p
}

// verifGNewScorer builds the rendezvous hash whose exported Score the oracle
// uses to rank members (the white-box harness substitutes its own for native
// replay of uninterpreted scores).
var verifGNewScorer = func() *hrw.RendezvousHash {
	return hrw.NewRendezvousHash(hrw.Murmur3Hash, hrw.UInt64ToFloat64)
}

// verifGExpected is the statement's replica set, computed from the scores of
// the members (hrw's exported Score), the health bits and MaxReplica.
func verifGExpected(member, healthy []bool, maxReplica int, shard string) []string {
	scorer := verifGNewScorer()
	var ranked []*hrw.RendezvousHashNode
	for i, h := range verifGHosts {
		if i < len(member) && member[i] {
			ranked = append(ranked, &hrw.RendezvousHashNode{RHash: scorer, Label: h, Weight: _defaultWeight})
		}
	}
	// selection sort by descending score
	for i := 0; i < len(ranked); i++ {
		for j := i + 1; j < len(ranked); j++ {
			if ranked[j].Score(shard) > ranked[i].Score(shard) {
				ranked[i], ranked[j] = ranked[j], ranked[i]
			}
		}
	}
	isHealthy := func(label string) bool {
		for i, h := range verifGHosts {
			if h == label {
				return healthy[i]
			}
		}
		return false
	}
	var top, firstHealthy []string
	for r, n := range ranked {
		if isHealthy(n.Label) {
			if r < maxReplica {
				top = append(top, n.Label)
			}
			if firstHealthy == nil {
				firstHealthy = []string{n.Label}
			}
		}
	}
	switch {
	case firstHealthy == nil:
		return []string{ranked[0].Label} // nobody healthy: the top owner
	case len(top) > 0:
		return top // healthy members among the top MaxReplica owners
	default:
		return firstHealthy // none of those healthy: highest-ranked healthy member
	}
}

func verifGSame(a, b []string) bool {
	if len(a) != len(b) {
		return false
	}
	for i := range a {
		if a[i] != b[i] {
			return false
		}
	}
	return true
}

type verifGWorld struct {
	nhosts     int
	member     []bool
	healthy    []bool
	maxReplica int
	ca, cb     *verifGCluster
	filter     *verifGFilter
}

// verifGSetup: symbolic membership (non-empty subset), health bits of the
// members, MaxReplica and a second discovery order (a permutation of the
// members; the first ring discovers them in index order).
func verifGSetup(nhosts int, twoOrders bool) *verifGWorld {
	w := &verifGWorld{nhosts: nhosts}
	w.member = make([]bool, nhosts)
	w.healthy = make([]bool, nhosts)
	sub := verif.Choice("membership", (1<<uint(nhosts))-1) + 1
	var members []int
	for i := 0; i < nhosts; i++ {
		w.member[i] = sub&(1<<uint(i)) != 0
		if w.member[i] {
			members = append(members, i)
		}
	}
	w.maxReplica = verif.IntRange("max_replica", 1, nhosts+1)
	ident := make([]int, nhosts)
	for i := range ident {
		ident[i] = i
	}
	w.ca = &verifGCluster{member: w.member, order: ident}
	orderB := make([]int, 0, nhosts)
	if twoOrders {
		for _, k := range verifGPermutation(len(members)) {
			orderB = append(orderB, members[k])
		}
	} else {
		for k := len(members) - 1; k >= 0; k-- {
			orderB = append(orderB, members[k])
		}
	}
	for i := 0; i < nhosts; i++ {
		if !w.member[i] {
			orderB = append(orderB, i) // hosts that may join later
		}
	}
	w.cb = &verifGCluster{member: w.member, order: orderB}
	w.filter = &verifGFilter{healthy: w.healthy}
	return w
}

// drawHealth gives every current member a symbolic health bit.
func (w *verifGWorld) drawHealth() {
	for i := range w.member {
		w.healthy[i] = false
		if w.member[i] {
			w.healthy[i] = verif.Bool("healthy")
		}
	}
}

func (w *verifGWorld) check(ra, rb Ring, d core.Digest) {
	want := verifGExpected(w.member, w.healthy, w.maxReplica, d.ShardID())
	la := ra.Locations(d)
	lb := rb.Locations(d)
	verif.Assert("replica-set-non-empty", len(la) > 0)
	verif.Assert("replica-set-as-stated", verifGSame(la, want))
	verif.Assert("same-replica-set-for-any-discovery-order", verifGSame(la, lb))
	for _, a := range la {
		verif.Assert("replica-is-a-current-member", ra.Contains(a))
	}
	anyHealthy := false
	for i := range w.member {
		if w.member[i] && w.healthy[i] {
			anyHealthy = true
		}
	}
	verif.Cover("nobody-healthy", !anyHealthy)
	verif.Cover("fallback-to-first-healthy-beyond-max-replica", anyHealthy && len(la) == 1 && w.ca.size() > w.maxReplica)
	verif.Cover("several-replicas", len(la) > 1)
}

var verifGDigests = []string{
	"0000000000000000000000000000000000000000000000000000000000000000",
	"a1b2c44298fc1c149afbf4c8996fb92427ae41e4649b934ca495991b7852b855",
	"ffff5e884898da28047151d0e56f8dc6292773603d0d6aabbdd62a11ef721d15",
	"7f3c2cf24dba5fb0a30e26e83b2ac5b9e29e1b161e5c1fa7425e73043362938b",
}

// VerifRingLocationsRealScores: the real ring (murmur3 scores) on a few
// concrete digests; membership, health, MaxReplica and discovery order are
// unknowns.
func VerifRingLocationsRealScores() {
	nhosts := verif.Bound("hosts_real", 3, 4)
	w := verifGSetup(nhosts, true)
	w.drawHealth()
	ndig := verif.Bound("digests_real", 2, len(verifGDigests))
	d, err := core.NewSHA256DigestFromHex(verifGDigests[verif.Choice("digest", ndig)])
	verif.Assume(err == nil)
	ra := New(Config{MaxReplica: w.maxReplica}, w.ca, w.filter, tally.NoopScope)
	rb := New(Config{MaxReplica: w.maxReplica}, w.cb, w.filter, tally.NoopScope)
	w.check(ra, rb, d)
}

// VerifRingRefreshRealScores: one host joins or leaves and health changes; after
// Refresh the rule holds for the new membership (real scores, one digest).
func VerifRingRefreshRealScores() {
	nhosts := verif.Bound("hosts_refresh", 3, 4)
	w := verifGSetup(nhosts, false)
	for i := range w.healthy {
		w.healthy[i] = true // before the change everybody is healthy
	}
	d, err := core.NewSHA256DigestFromHex(verifGDigests[1])
	verif.Assume(err == nil)
	ra := New(Config{MaxReplica: w.maxReplica}, w.ca, w.filter, tally.NoopScope)
	rb := New(Config{MaxReplica: w.maxReplica}, w.cb, w.filter, tally.NoopScope)
	t := verif.Choice("toggled", nhosts)
	w.member[t] = !w.member[t]
	if w.ca.size() == 0 {
		return
	}
	w.drawHealth()
	ra.Refresh()
	rb.Refresh()
	w.check(ra, rb, d)
	verif.Assert("members-are-the-current-hosts", stringset.Equal(ra.Members(), w.ca.Resolve()))
}

// verifGHealthOnly is the body of the health-only Refresh harnesses: the rings
// start with an arbitrary (symbolic) health view, then the membership stays
// exactly as it is while every member's health bit is redrawn independently
// (so a member may recover while another one fails: same number of healthy
// hosts, different set), then Refresh, and the statement's rule must hold for
// the *new* health view -- and equal what a ring built afresh from the same
// membership and health view computes.
func verifGHealthOnly(w *verifGWorld, d core.Digest, check func(ra, rb Ring)) {
	w.drawHealth() // health view H1 at start-up
	nBefore := 0
	before := make([]bool, len(w.healthy))
	for i := range w.healthy {
		before[i] = w.healthy[i]
		if w.healthy[i] {
			nBefore++
		}
	}
	ra := New(Config{MaxReplica: w.maxReplica}, w.ca, w.filter, tally.NoopScope)
	w.drawHealth() // health view H2; membership unchanged
	nAfter, changed := 0, false
	for i := range w.healthy {
		if w.healthy[i] {
			nAfter++
		}
		if w.healthy[i] != before[i] {
			changed = true
		}
	}
	ra.Refresh()
	// the reference: a process that starts now with the same membership (found
	// in another order) and the same health view.
	rb := New(Config{MaxReplica: w.maxReplica}, w.cb, w.filter, tally.NoopScope)
	verif.Cover("health-swapped-same-count", changed && nBefore == nAfter)
	verif.Cover("health-count-changed", nBefore != nAfter)
	verif.Cover("health-unchanged", !changed)
	check(ra, rb)
}

// VerifRingRefreshHealthOnlyRealScores: health changes between two refreshes
// with the membership unchanged (real scores, a few digests).
func VerifRingRefreshHealthOnlyRealScores() {
	nhosts := verif.Bound("hosts_health", 3, 4)
	w := verifGSetup(nhosts, false)
	ndig := verif.Bound("digests_health", 2, len(verifGDigests))
	d, err := core.NewSHA256DigestFromHex(verifGDigests[verif.Choice("digest", ndig)])
	verif.Assume(err == nil)
	verifGHealthOnly(w, d, func(ra, rb Ring) { w.check(ra, rb, d) })
}
