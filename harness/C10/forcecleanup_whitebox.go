//kse:pkg origin/blobserver
package blobserver

// White-box part of C10: builds a blobserver.Server from its fields to drive
// maybeDelete (the forced cleanup of the origin) with model collaborators.

import (
	"bytes"
	"errors"
	"path/filepath"
	"time"

	"github.com/andres-erbsen/clock"
	"github.com/uber-go/tally"
	"github.com/uber/kraken/core"
	"github.com/uber/kraken/lib/persistedretry"
	"github.com/uber/kraken/lib/persistedretry/writeback"
	"github.com/uber/kraken/lib/store"
	"github.com/uber/kraken/lib/store/metadata"
	"github.com/uber/kraken/utils/stringset"
	verif "github.com/uber/kraken/zzverif"
)

type verifRing struct{ owners []string }

func (r verifRing) Locations(core.Digest) []string { return r.owners }
func (r verifRing) Contains(string) bool           { return true }
func (r verifRing) WaitForContains(string) error   { return nil }
func (r verifRing) Members() stringset.Set         { return stringset.New(r.owners...) }
func (r verifRing) Monitor(<-chan struct{})        {}
func (r verifRing) Refresh()                       {}

// verifWriteBack is a model write-back manager: Find returns the pending
// tasks, SyncExec succeeds or fails as chosen per task.
type verifWriteBack struct {
	pending  []persistedretry.Task
	findErr  bool
	executed int
	failed   int
}

func (w *verifWriteBack) Add(persistedretry.Task) error { return nil }
func (w *verifWriteBack) Close()                        {}
func (w *verifWriteBack) Find(interface{}) ([]persistedretry.Task, error) {
	if w.findErr {
		return nil, errors.New("find failed")
	}
	return w.pending, nil
}
func (w *verifWriteBack) SyncExec(persistedretry.Task) error {
	if verif.Choice("write-back-outcome", 2) == 1 {
		w.failed++
		return errors.New("backend unavailable")
	}
	w.executed++
	return nil
}

// VerifForcedCleanupWritesBackFirst: origin forced cleanup (maybeDelete) of
// one cached blob with arbitrary age, ownership and persist flag: a blob
// awaiting write-back is removed only after every pending write-back task for
// it was executed successfully; if the task lookup or an execution fails the
// blob and its flag stay.
func VerifForcedCleanupWritesBackFirst() {
	verif.Option("max_preempt", 0)
	root := filepath.Join(verif.TempDir(), "c10f")
	cas, err := store.NewCAStore(store.CAStoreConfig{
		UploadDir:     filepath.Join(root, "upload"),
		CacheDir:      filepath.Join(root, "cache"),
		UploadCleanup: store.CleanupConfig{Disabled: true},
		CacheCleanup:  store.CleanupConfig{Disabled: true},
	}, tally.NoopScope)
	if err != nil {
		panic(err)
	}
	blob := []byte("xy")
	d, err := core.NewDigester().FromBytes(blob)
	if err != nil {
		panic(err)
	}
	if err := cas.CreateCacheFile(d.Hex(), bytes.NewReader(blob)); err != nil {
		panic(err)
	}
	persisted := verif.Choice("persisted", 2) == 1
	if persisted {
		if _, err := cas.SetCacheFileMetadata(d.Hex(), metadata.NewPersist(true)); err != nil {
			panic(err)
		}
	}
	wb := &verifWriteBack{findErr: verif.Choice("find-fails", 2) == 1}
	ntasks := verif.Len("pending-tasks", 0, 2)
	for i := 0; i < ntasks; i++ {
		wb.pending = append(wb.pending, writeback.NewTask("ns", d.Hex(), 0))
	}
	owners := []string{"other"}
	if verif.Choice("owns", 2) == 1 {
		owners = []string{"self"}
	}
	clk := clock.NewMock()
	// age of the blob relative to the TTL: both sides of the comparison
	clk.Set(time.Now().Add(time.Duration(verif.Choice("age-hours", 3)) * time.Hour))
	s := &Server{clk: clk, addr: "self", hashRing: verifRing{owners}, cas: cas, writeBackManager: wb}

	deleted, derr := s.maybeDelete(d.Hex(), 90*time.Minute)
	_, serr := cas.GetCacheFileStat(d.Hex())
	present := serr == nil
	verif.Cover("deleted", deleted)
	verif.Cover("kept", !deleted && derr == nil)
	verif.Cover("refused", derr != nil)
	verif.Assert("reports-what-it-did", deleted == !present)
	if persisted {
		if !present {
			verif.Reach("persisted-blob-removed")
			verif.Assert("removed-only-after-all-write-backs-succeeded",
				!wb.findErr && wb.failed == 0 && wb.executed == ntasks)
		}
		if wb.findErr || wb.failed > 0 {
			verif.Assert("kept-when-write-back-fails", present)
			var pm metadata.Persist
			gerr := cas.GetCacheFileMetadata(d.Hex(), &pm)
			verif.Assert("still-marked-when-write-back-fails", gerr == nil && pm.Value)
		}
	}
}
