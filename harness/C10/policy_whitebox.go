//kse:pkg lib/store
package store

// White-box part of C10: builds fInfo values directly (unexported struct).

import (
	"time"

	verif "github.com/uber/kraken/zzverif"
)

func verifSymFInfo(tag string) fInfo {
	return fInfo{
		name:         tag,
		accessTime:   time.Unix(verifInstant(tag+"-access"), 0),
		downloadTime: time.Unix(verifInstant(tag+"-download"), 0),
		size:         1,
	}
}

func verifSign(x int) int {
	return verif.Ite(x < 0, -1, verif.Ite(x > 0, 1, 0))
}

// VerifPolicyIsStrictWeakOrder: the comparator handed to the sort of the
// usage-driven cleanup is a strict weak order on arbitrary access / download
// times (otherwise the deletion order is whatever the sort makes of it), and
// it ranks files served to consumers first, older access first within a class.
func VerifPolicyIsStrictWeakOrder() {
	a, b, c := verifSymFInfo("a"), verifSymFInfo("b"), verifSymFInfo("c")
	ab, ba := cachedInAgentPolicy(a, b), cachedInAgentPolicy(b, a)
	bc, ac := cachedInAgentPolicy(b, c), cachedInAgentPolicy(a, c)
	verif.Assert("irreflexive", cachedInAgentPolicy(a, a) == 0)
	verif.Assert("antisymmetric", verifSign(ab) == -verifSign(ba))
	verif.Assert("transitive", verif.Implies(verif.And(ab < 0, bc < 0), ac < 0))
	verif.Assert("equivalence-transitive", verif.Implies(verif.And(ab == 0, bc == 0), ac == 0))

	servedA, servedB := isDownloadedByConsumer(a), isDownloadedByConsumer(b)
	verif.Cover("served-vs-not", verif.And(servedA, !servedB))
	verif.Assert("served-to-consumers-first", verif.Implies(verif.And(servedA, !servedB), ab < 0))
	sameClass := verif.And(servedA == servedB, forSureInAgent(a) == forSureInAgent(b))
	verif.Assert("older-access-first-within-class",
		verif.Implies(verif.And(sameClass, a.accessTime.Before(b.accessTime)), ab < 0))
}
