//kse:pkg lib/store
package store

import (
	"os"
	"path/filepath"
	"time"

	"github.com/andres-erbsen/clock"
	"github.com/uber-go/tally"
	"github.com/uber/kraken/lib/store/base"
	"github.com/uber/kraken/lib/store/metadata"
	verif "github.com/uber/kraken/zzverif"
)

// All instants are whole seconds inside one window in which the varint
// encoding of the last-access-time sidecar has a single length.
const (
	verifT0 = int64(1_600_000_000)
	verifT1 = int64(1_700_000_000)
)

func verifInstant(name string) int64 {
	s := verif.Int64(name)
	verif.Assume(s >= verifT0)
	verif.Assume(s <= verifT1)
	return s
}

// verifSeconds is a symbolic non-negative duration of whole seconds (up to
// about 68 years); 0 is included (TTL 0 disables the TTL rule).
func verifSeconds(name string) time.Duration {
	s := verif.Int64(name)
	verif.Assume(s >= 0)
	verif.Assume(s <= 1<<31)
	return time.Duration(s) * time.Second
}

var verifNames = []string{"f0", "f1", "f2"}

type verifFile struct {
	name    string
	path    string
	persist int // 0 absent, 1 false, 2 true
	hasLAT  bool
	lat     int64
	mtime   int64
}

func verifMust(err error) {
	if err != nil {
		panic(err)
	}
}

// verifPopulate creates n files in a cache store with symbolic modification
// time, last access time (or none) and persist flag (absent / false / true).
// The mock clock still stands at its epoch, so no store operation here
// refreshes the last access time behind the harness' back.
func verifPopulate(cs *cacheStore, n int, full bool) []verifFile {
	files := make([]verifFile, n)
	for i := 0; i < n; i++ {
		f := &files[i]
		f.name = verifNames[i]
		verifMust(cs.newFileOp().CreateFile(f.name, cs.state, 1))
		p, err := cs.newFileOp().GetFilePath(f.name)
		verifMust(err)
		f.path = p
		if full {
			f.persist = verif.Choice("persist", 3)
		} else {
			f.persist = 2 * verif.Choice("persist", 2)
		}
		if f.persist > 0 {
			_, err := cs.SetCacheFileMetadata(f.name, metadata.NewPersist(f.persist == 2))
			verifMust(err)
		}
		f.hasLAT = !full || verif.Choice("has-lat", 2) == 1
		if f.hasLAT {
			f.lat = verifInstant("lat")
			_, err := cs.SetCacheFileMetadata(f.name, metadata.NewLastAccessTime(time.Unix(f.lat, 0)))
			verifMust(err)
		} else {
			verifMust(cs.DeleteCacheFileMetadata(f.name, &metadata.LastAccessTime{}))
		}
		f.mtime = verifInstant("mtime")
		mt := time.Unix(f.mtime, 0)
		verifMust(os.Chtimes(f.path, mt, mt))
	}
	return files
}

func verifExists(f verifFile) bool {
	_, err := os.Stat(f.path)
	return err == nil
}

// VerifCleanupRemovesExactlyIdle: one normal (non aggressive) cleanup pass
// over files with arbitrary ages, access times and persist flags, for an
// arbitrary idle limit and TTL: exactly the unprotected files that are idle
// longer than the limit or older than the TTL disappear.
func VerifCleanupRemovesExactlyIdle() {
	verif.Option("max_preempt", 0)
	clk := clock.NewMock()
	dir := filepath.Join(verif.TempDir(), "c10", "cache")
	cs, err := newCacheStore(dir, base.NewLocalFileStore(clk), 0)
	verifMust(err)
	n := verif.Bound("files", 2, 3)
	files := verifPopulate(cs, n, true)

	now := verifInstant("now")
	clk.Set(time.Unix(now, 0))
	tti := verifSeconds("tti")
	ttl := verifSeconds("ttl")

	m := newCleanupManager(clk, tally.NoopScope)
	_, err = m.cleanup(cs.newFileOp(), CleanupConfig{TTI: tti, TTL: ttl}, cachedInAgentPolicy)
	verif.Assert("cleanup-ok", err == nil)

	for _, f := range files {
		nowT := time.Unix(now, 0)
		old := verif.And(ttl > 0, nowT.Sub(time.Unix(f.mtime, 0)) > ttl)
		idle := false
		if f.hasLAT {
			idle = nowT.Sub(time.Unix(f.lat, 0)) > tti
		}
		expectRemoved := verif.And(f.persist != 2, verif.Or(old, idle))
		gone := !verifExists(f)
		verif.Cover("removed", gone)
		verif.Cover("kept", !gone)
		verif.Cover("protected-but-expired", verif.And(f.persist == 2, verif.Or(old, idle)))
		verif.Assert("removed-exactly-idle-or-expired-unprotected", gone == expectRemoved)
	}
}
