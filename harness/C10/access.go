//kse:pkg lib/store
package store

import (
	"os"
	"path/filepath"
	"strconv"
	"time"

	"github.com/andres-erbsen/clock"
	"github.com/uber-go/tally"
	"github.com/uber/kraken/lib/store/base"
	"github.com/uber/kraken/lib/store/metadata"
	verif "github.com/uber/kraken/zzverif"
)

// verifLATResolution is the documented granularity with which accesses are
// recorded (lruFileMap.timeResolution): the recorded last access may lag the
// real one by less than this.
const verifLATResolution = 5 * 60

// VerifCleanupFollowsRealAccesses: a file is created and then read several
// times, with an arbitrary number of seconds between consecutive accesses;
// after another arbitrary pause a normal cleanup pass with an arbitrary idle
// limit runs. "Last access" is what the readers actually did (ghost variable),
// not a planted sidecar: a file idle for longer than the limit is removed, and
// a removed file was idle for longer than the limit minus the recording
// granularity.
func VerifCleanupFollowsRealAccesses() {
	verif.Option("max_preempt", 0)
	clk := clock.NewMock()
	now := verifT0
	clk.Set(time.Unix(now, 0))
	dir := filepath.Join(verif.TempDir(), "c10a", "cache")
	cs, err := newCacheStore(dir, base.NewLocalFileStore(clk), 0)
	verifMust(err)
	verifMust(cs.newFileOp().CreateFile("f0", cs.state, 1))
	lastAccess := now
	pause := func(tag string) {
		d := verif.Int64(tag)
		verif.Assume(d >= 0)
		verif.Assume(d <= 4*verifLATResolution)
		now += d
		clk.Set(time.Unix(now, 0))
	}
	accesses := verif.Bound("accesses", 3, 4)
	for i := 0; i < accesses; i++ {
		pause("gap")
		r, err := cs.GetCacheFileReader("f0")
		verif.Assert("readable", err == nil)
		r.Close()
		lastAccess = now
	}
	pause("gap")
	ttiS := verif.Int64("tti")
	verif.Assume(ttiS >= 1)
	verif.Assume(ttiS <= 8*verifLATResolution)
	m := newCleanupManager(clk, tally.NoopScope)
	_, err = m.cleanup(cs.newFileOp(), CleanupConfig{TTI: time.Duration(ttiS) * time.Second}, cachedInAgentPolicy)
	verif.Assert("cleanup-ok", err == nil)

	_, serr := os.Stat(filepath.Join(dir, "f0", base.DefaultDataFileName))
	gone := serr != nil
	idle := now - lastAccess
	verif.Cover("removed", gone)
	verif.Cover("kept", !gone)
	verif.Cover("recently-read-many-times", verif.And(!gone, now-verifT0 > ttiS))
	verif.Assert("idle-longer-than-limit-is-removed", verif.Implies(idle > ttiS, gone))
	verif.Assert("removed-only-if-idle-up-to-recording-granularity", verif.Implies(gone, idle > ttiS-verifLATResolution))
}

// VerifUnreadablePersistMarkerProtects: the write-back marker of a cached file
// holds arbitrary bytes (the servers only ever write "true" into it and remove
// it after the write-back, so a marker that is present but torn or garbled
// still belongs to a file awaiting write-back). A delete request, an LRU
// eviction or a cleanup pass removes the file only if the marker explicitly
// says false.
func VerifUnreadablePersistMarkerProtects() {
	verif.Option("max_preempt", 0)
	clk := clock.NewMock()
	clk.Set(time.Unix(verifT0, 0))
	dir := filepath.Join(verif.TempDir(), "c10m", "cache")
	cs, err := newCacheStore(dir, base.NewLRUFileStore(1, clk), 0)
	verifMust(err)
	verifMust(cs.newFileOp().CreateFile("f0", cs.state, 1))
	// mark it through the API, then let the marker content be arbitrary
	_, err = cs.SetCacheFileMetadata("f0", metadata.NewPersist(true))
	verifMust(err)
	// shapes of a damaged "true": a prefix of it (torn write), optionally
	// followed by one arbitrary byte (garbled tail); includes "", "t", "true"
	// and, through the arbitrary byte, "0", "1", "f", "F", "T"
	marker := []byte("true"[:verif.Len("marker-prefix", 0, 4)])
	if verif.Choice("garbled-tail", 2) == 1 {
		marker = append(marker, verif.Byte("tail"))
	}
	verifMust(os.WriteFile(filepath.Join(dir, "f0", "_persist"), marker, 0o664))

	switch verif.Choice("remover", 3) {
	case 0:
		cs.DeleteCacheFile("f0")
	case 1: // a second file overflows the file map of capacity 1
		verifMust(cs.newFileOp().CreateFile("f1", cs.state, 1))
	case 2:
		clk.Add(time.Hour)
		m := newCleanupManager(clk, tally.NoopScope)
		_, err := m.cleanup(cs.newFileOp(), CleanupConfig{TTI: time.Second, TTL: time.Second}, cachedInAgentPolicy)
		verif.Assert("cleanup-ok", err == nil)
	}
	_, serr := os.Stat(filepath.Join(dir, "f0", base.DefaultDataFileName))
	gone := serr != nil
	v, perr := strconv.ParseBool(string(marker))
	explicitlyUnmarked := perr == nil && !v
	verif.Cover("removed", gone)
	verif.Cover("kept-with-undecodable-marker", !gone && perr != nil)
	if gone {
		verif.Assert("removed-only-when-marker-says-false", explicitlyUnmarked)
	}
}
