//kse:pkg lib/store
package store

import (
	"path/filepath"
	"time"

	"github.com/andres-erbsen/clock"
	"github.com/uber-go/tally"
	"github.com/uber/kraken/lib/store/base"
	"github.com/uber/kraken/utils/diskspaceutil"
	verif "github.com/uber/kraken/zzverif"
)

// VerifUsageDrivenCleanupOrder: the usage-driven (aggressive, lower threshold
// set) cleanup with a symbolic disk size, i.e. a symbolic number of bytes to
// free, over files with arbitrary access and download times: persisted files
// stay, and whenever one unprotected file is deleted while another one is
// kept, the kept one does not rank before the deleted one (files served to
// consumers rank first; within the same class the older access ranks first).
func VerifUsageDrivenCleanupOrder() {
	verif.Option("max_preempt", 0)
	clk := clock.NewMock()
	dir := filepath.Join(verif.TempDir(), "c10u", "cache")
	cs, err := newCacheStore(dir, base.NewLocalFileStore(clk), 0)
	verifMust(err)
	// Two files in both tiers: a third one multiplies the comparator's case
	// splits inside the sort beyond the thorough budget; the thorough tier
	// adds the remaining flag kinds (persist=false, no access time) instead.
	n := 2
	files := verifPopulate(cs, n, verif.Bound("all-flag-kinds", 0, 1) == 1)
	clk.Set(time.Unix(verifInstant("now"), 0))

	// bytes to free = total - total*50/100: 0, 1, 2, … for total 0, 1, 3, …
	total := uint64(2*verif.Len("bytes-to-free", 0, n) - 1)
	if total > 1<<62 {
		total = 0
	}
	usage := func() (diskspaceutil.UsageInfo, error) {
		return diskspaceutil.UsageInfo{Util: 90, TotalBytes: total, UsedBytes: total}, nil
	}
	m := newCleanupManager(clk, tally.NoopScope)
	cfg := CleanupConfig{TTI: time.Hour, AggressiveThreshold: 80, AggressiveTTL: time.Hour, AggressiveLowerThreshold: 50}
	verif.Assert("aggressive-mode", m.shouldAggro(cs.newFileOp(), cfg, usage))
	_, err = m.customPolicyBasedCleanup(cs.newFileOp(), cfg, cachedInAgentPolicy, usage)
	verif.Assert("cleanup-ok", err == nil)

	gone := make([]bool, n)
	for i, f := range files {
		gone[i] = !verifExists(f)
		if f.persist == 2 {
			verif.Assert("persisted-file-kept", !gone[i])
		}
		if !f.hasLAT {
			verif.Assert("file-without-access-time-kept", !gone[i])
		}
	}
	served := func(f verifFile) bool {
		d := time.Unix(f.mtime, 0).Sub(time.Unix(f.lat, 0)).Abs()
		return d > time.Second
	}
	sure := func(f verifFile) bool {
		d := time.Unix(f.mtime, 0).Sub(time.Unix(f.lat, 0)).Abs()
		return d > 45*time.Minute
	}
	for i, x := range files {
		for j, y := range files {
			if i == j || !x.hasLAT || !y.hasLAT || x.persist == 2 || y.persist == 2 {
				continue
			}
			if gone[i] && !gone[j] {
				verif.Reach("one-deleted-one-kept")
				sx, sy := served(x), served(y)
				verif.Assert("kept-file-not-served-while-deleted-one-unserved", !verif.And(sy, !sx))
				same := verif.And(sx == sy, sure(x) == sure(y))
				verif.Assert("kept-file-not-older-within-class", !verif.And(same, y.lat < x.lat))
			}
		}
	}
}
