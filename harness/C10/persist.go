//kse:pkg lib/store
package store

import (
	"os"
	"path/filepath"
	"time"

	"github.com/andres-erbsen/clock"
	"github.com/uber-go/tally"
	"github.com/uber/kraken/lib/store/base"
	"github.com/uber/kraken/lib/store/metadata"
	verif "github.com/uber/kraken/zzverif"
)

// VerifPersistedNeverRemoved: histories of delete requests, persist-flag
// changes, accesses, creations that overflow a bounded (LRU) file map, clock
// advances and cleanup passes with an idle limit that everything exceeds: a
// file whose persist flag was last set to true is on disk after every step.
func VerifPersistedNeverRemoved() {
	verif.Option("max_preempt", 0)
	clk := clock.NewMock()
	clk.Set(time.Unix(verifT0, 0))
	dir := filepath.Join(verif.TempDir(), "c10p", "cache")
	capacity := verif.Len("map-capacity", 1, 2)
	cs, err := newCacheStore(dir, base.NewLRUFileStore(capacity, clk), 0)
	verifMust(err)
	cm := newCleanupManager(clk, tally.NoopScope)
	names := verifNames[:2]
	persisted := make([]bool, len(names))
	dataPath := func(i int) string { return filepath.Join(dir, names[i], base.DefaultDataFileName) }
	onDisk := func(i int) bool {
		_, err := os.Stat(dataPath(i))
		return err == nil
	}
	steps := verif.Bound("steps", 3, 4)
	for s := 0; s < steps; s++ {
		i := verif.Choice("file", len(names))
		switch verif.Choice("op", 6) {
		case 0: // create (may overflow the file map and evict the oldest entry)
			err := cs.newFileOp().CreateFile(names[i], cs.state, 1)
			verif.Cover("created", err == nil)
		case 1: // set the persist flag
			v := verif.Choice("flag", 2) == 1
			if _, err := cs.SetCacheFileMetadata(names[i], metadata.NewPersist(v)); err == nil {
				persisted[i] = v
				verif.Cover("marked-persisted", v)
				verif.Cover("unmarked", !v)
			}
		case 2: // delete request
			err := cs.DeleteCacheFile(names[i])
			verif.Cover("delete-refused", err == base.ErrFilePersisted)
			verif.Cover("deleted", err == nil)
			if persisted[i] {
				verif.Assert("delete-of-persisted-file-is-refused", err != nil)
			}
		case 3: // access (reloads an evicted entry, reorders the LRU queue)
			if r, err := cs.GetCacheFileReader(names[i]); err == nil {
				r.Close()
				verif.Reach("accessed")
			}
		case 4: // time passes
			clk.Add(time.Hour)
		case 5: // periodic cleanup, every file idle for longer than the limit
			clk.Add(time.Hour)
			_, err := cm.cleanup(cs.newFileOp(), CleanupConfig{TTI: time.Second, TTL: time.Second}, cachedInAgentPolicy)
			verif.Assert("cleanup-ok", err == nil)
			for j := range names {
				if !persisted[j] {
					verif.Assert("cleanup-removes-unprotected-expired-file", !onDisk(j))
				}
			}
		}
		for j := range names {
			verif.Cover("persisted-and-present", persisted[j] && onDisk(j))
			if persisted[j] {
				verif.Assert("persisted-file-on-disk", onDisk(j))
			}
		}
	}
}
