//kse:pkg lib/torrent/scheduler/conn
package conn

import (
	"encoding/binary"
	"errors"
	"io"
	"net"
	"runtime"
	"time"

	"github.com/andres-erbsen/clock"
	"github.com/golang/protobuf/proto"
	"github.com/uber-go/tally"
	"github.com/uber/kraken/core"
	"github.com/uber/kraken/gen/go/proto/p2p"
	"github.com/uber/kraken/lib/torrent/networkevent"
	"github.com/uber/kraken/lib/torrent/storage"
	verif "github.com/uber/kraken/zzverif"
	"github.com/willf/bitset"
	"go.uber.org/zap"
)

// C14, connection level. API-only harness file: uses constructors, functions
// and methods of package conn, no struct fields.
//
// Protobuf wire decoding is reflection-driven and outside the claim: under the
// engine proto.Unmarshal is replaced by VerifProtoUnmarshal below (engine
// model kse/model_protohook.go), which delivers the harness-built message with
// symbolic field values; natively the stub socket carries proto.Marshal of
// the same message, so the real decoder yields it.

const (
	verif14Hex40  = "0123456789abcdef0123456789abcdef01234567"
	verif14Hex64  = "0123456789abcdef0123456789abcdef0123456789abcdef0123456789abcdef"
	verif14MaxMsg = 40000 // allocation cap (elements): the 32 KiB message cap plus slack
)

var verif14Next *p2p.Message

// VerifProtoUnmarshal is the decode hook (see kse/model_protohook.go).
func VerifProtoUnmarshal(data []byte, dst proto.Message) error {
	m, ok := dst.(*p2p.Message)
	if !ok || verif14Next == nil {
		return errors.New("verif: no message staged")
	}
	*m = *verif14Next
	return nil
}

// verif14Sock is a net.Conn that serves a fixed byte sequence.
type verif14Sock struct {
	in     []byte
	closed bool
}

func (s *verif14Sock) Read(p []byte) (int, error) {
	if len(s.in) == 0 {
		return 0, io.EOF
	}
	n := copy(p, s.in)
	s.in = s.in[n:]
	return n, nil
}
func (s *verif14Sock) Write(p []byte) (int, error)        { return len(p), nil }
func (s *verif14Sock) Close() error                       { s.closed = true; return nil }
func (s *verif14Sock) LocalAddr() net.Addr                { return nil }
func (s *verif14Sock) RemoteAddr() net.Addr               { return nil }
func (s *verif14Sock) SetDeadline(t time.Time) error      { return nil }
func (s *verif14Sock) SetReadDeadline(t time.Time) error  { return nil }
func (s *verif14Sock) SetWriteDeadline(t time.Time) error { return nil }

// verif14Stage stages msg as the next decoded message and returns the bytes
// the socket must carry for it, followed by trailer (payload bytes).
func verif14Stage(msg *p2p.Message, trailer []byte) []byte {
	verif14Next = msg
	var data []byte
	if !verif.Symbolic() {
		b, err := proto.Marshal(msg)
		if err != nil {
			panic(err)
		}
		data = b
	}
	out := make([]byte, 4, 4+len(data)+len(trailer))
	binary.BigEndian.PutUint32(out, uint32(len(data)))
	out = append(out, data...)
	return append(out, trailer...)
}

type verif14NoEvents struct{}

func (verif14NoEvents) Produce(*networkevent.Event) {}
func (verif14NoEvents) Close() error                { return nil }

type verif14ConnEvents struct{}

func (verif14ConnEvents) ConnClosed(*Conn) {}

func verif14Handshaker() *Handshaker {
	var local core.PeerID
	local[0] = 0xEE
	h, err := NewHandshaker(Config{}, tally.NoopScope, clock.NewMock(), verif14NoEvents{}, local,
		verif14ConnEvents{}, zap.NewNop().Sugar())
	verif.Assert("new-handshaker", err == nil)
	return h
}

func verif14Info() *storage.TorrentInfo {
	d, err := core.NewSHA256DigestFromHex(verif14Hex64)
	verif.Assert("digest", err == nil)
	mi, err := core.NewMetaInfoFromBytes(d, []byte{1, 2, 3, 4, 5}, 2) // 3 pieces of <= 2 bytes
	verif.Assert("metainfo", err == nil)
	return storage.NewTorrentInfo(mi, bitset.New(3))
}

func verif14Conn(sock *verif14Sock) *Conn {
	var remote core.PeerID
	remote[0] = 0x51
	c, err := verif14Handshaker().newConn(sock, remote, false, verif14Info(), true)
	verif.Assert("new-conn", err == nil)
	return c
}

// verif14Guard runs f with the implicit obligations "no panic, no allocation
// beyond the cap". Under the engine they are engine obligations; natively the
// allocation is measured so that a counterexample reproduces.
func verif14Guard(f func()) {
	verif.Option("panic_is_violation", 1)
	verif.Option("alloc_is_violation", 1)
	verif.Option("max_alloc", verif14MaxMsg)
	if verif.Symbolic() {
		f()
		return
	}
	var a, b runtime.MemStats
	runtime.ReadMemStats(&a)
	f()
	runtime.ReadMemStats(&b)
	if b.TotalAlloc-a.TotalAlloc > 1<<20 {
		verif.Fail("bounded-alloc", "more than 1 MiB allocated for one small message")
	}
}

// verif14AnyMessage: symbolic type, every sub-message nil or present with
// symbolic integer fields.
func verif14AnyMessage(payloadHeader *p2p.PiecePayloadMessage) *p2p.Message {
	m := &p2p.Message{Type: p2p.Message_Type(verif.Int32("type")), PiecePayload: payloadHeader}
	if verif.Bool("has_request") {
		m.PieceRequest = &p2p.PieceRequestMessage{Index: verif.Int32("index"), Offset: verif.Int32("offset"), Length: verif.Int32("length")}
	}
	if verif.Bool("has_announce") {
		m.AnnouncePiece = &p2p.AnnouncePieceMessage{Index: verif.Int32("index")}
	}
	if verif.Bool("has_error") {
		m.Error = &p2p.ErrorMessage{Index: verif.Int32("index"), Code: p2p.ErrorMessage_ErrorCode(verif.Int32("code"))}
	}
	return m
}

// VerifConnReadMessage: any message: symbolic type, every sub-message nil or
// present, the piece-payload header absent or present with ANY int32 length,
// 0..3 payload bytes on the socket. readMessage fails exactly when a payload
// message has no header, a negative length, a length beyond the torrent's
// maximum piece length (2) or beyond what the socket carries; otherwise it
// returns the message with exactly Length payload bytes.
func VerifConnReadMessage() {
	var hdr *p2p.PiecePayloadMessage
	if verif.Bool("has_payload_header") {
		hdr = &p2p.PiecePayloadMessage{Index: verif.Int32("index"), Offset: verif.Int32("offset"), Length: verif.Int32("payload_length")}
	}
	msg := verif14AnyMessage(hdr)
	avail := verif.Len("socket_payload_bytes", 0, 3)
	payload := verif.Bytes("payload", avail)
	sock := &verif14Sock{in: verif14Stage(msg, payload)}
	c := verif14Conn(sock)
	maxLen := verif14Info().MaxPieceLength()
	verif14Guard(func() {
		got, err := c.readMessage()
		isPayload := msg.Type == p2p.Message_PIECE_PAYLOAD
		bad := false
		if isPayload {
			bad = hdr == nil
			if hdr != nil {
				bad = verif.Or(hdr.Length < 0, int64(hdr.Length) > maxLen, int(hdr.Length) > avail)
			}
		}
		verif.Cover("payload-without-header", isPayload && hdr == nil)
		if hdr != nil {
			verif.Cover("negative-length", verif.And(isPayload, hdr.Length < 0))
			verif.Cover("oversized-length", verif.And(isPayload, int64(hdr.Length) > maxLen))
		}
		if err != nil {
			verif.Reach("rejected")
			verif.Assert("error-only-for-malformed-or-short-payload", bad)
			return
		}
		verif.Assert("malformed-or-short-payload-rejected", !bad)
		verif.Assert("type-preserved", got.Message.Type == msg.Type)
		if isPayload {
			verif.Reach("payload-read")
			verif.Assert("payload-present", got.Payload != nil)
			verif.Assert("payload-has-announced-length", got.Payload.Length() == int(hdr.Length))
			b, rerr := io.ReadAll(got.Payload)
			verif.Assert("payload-readable", rerr == nil && len(b) == int(hdr.Length))
			for i := range b {
				verif.Assert("payload-bytes-are-socket-bytes", b[i] == payload[i])
			}
		} else {
			verif.Assert("no-payload-for-other-types", got.Payload == nil)
		}
	})
}

// VerifConnFindingPayloadHeader: a piece-payload message whose header is
// missing, or whose length is negative or larger than any message may be.
// Must be rejected with an error. Regression check for FINDINGS.md F1 (fixed
// upstream by c045f9a).
func VerifConnFindingPayloadHeader() {
	var hdr *p2p.PiecePayloadMessage
	if verif.Bool("has_payload_header") {
		hdr = &p2p.PiecePayloadMessage{Index: verif.Int32("index"), Offset: verif.Int32("offset"), Length: verif.Int32("payload_length")}
		// negative, or beyond the cap (kept <= 64 MiB so that the native replay is harmless)
		verif.Assume(verif.Or(hdr.Length < 0, verif.And(hdr.Length > 1<<21, hdr.Length <= 1<<26)))
	}
	msg := &p2p.Message{Type: p2p.Message_PIECE_PAYLOAD, PiecePayload: hdr}
	sock := &verif14Sock{in: verif14Stage(msg, verif.Bytes("payload", 2))}
	c := verif14Conn(sock)
	verif14Guard(func() {
		_, err := c.readMessage()
		verif.Assert("malformed-payload-header-rejected", err != nil)
	})
}

// VerifConnLengthPrefix: every 4-byte length prefix: readMessage never
// allocates more than the message cap and rejects prefixes beyond it.
func VerifConnLengthPrefix() {
	prefix := verif.Bytes("prefix", 4)
	n := binary.BigEndian.Uint32(prefix)
	// the sizes in between only differ in how much of the 32 KiB is allocated
	verif.Assume(verif.Or(n <= 2, n >= 32*1024-1))
	verif14Next = &p2p.Message{}
	sock := &verif14Sock{in: prefix} // nothing follows the prefix
	verif14Guard(func() {
		_, err := readMessage(sock)
		verif.Cover("over-cap", n > 32*1024)
		if n > 0 {
			verif.Assert("truncated-or-oversized-message-rejected", err != nil)
		}
	})
}

// ---- handshake ----

// verif14Handshake builds a handshake message around symbolic bitfield bytes.
func verif14Handshake(bitfieldBytes []byte, remote map[string][]byte) *p2p.Message {
	// identifiers: valid hex with one symbolic character each
	pid := []byte(verif14Hex40)
	pid[7] = verif.Byte("peer_id_char")
	ih := []byte(verif14Hex40)
	ih[3] = verif.Byte("info_hash_char")
	name := []byte(verif14Hex64)
	name[60] = verif.Byte("name_char")
	var bf *p2p.BitfieldMessage
	if verif.Bool("has_bitfield_body") {
		bf = &p2p.BitfieldMessage{
			PeerID: string(pid), InfoHash: string(ih), Name: string(name),
			BitfieldBytes: bitfieldBytes, RemoteBitfieldBytes: remote, Namespace: "ns",
		}
	}
	return &p2p.Message{Type: p2p.Message_Type(verif.Int32("type")), Bitfield: bf}
}

func verif14BitLength(b []byte) uint64 {
	if len(b) < 8 {
		return 0
	}
	return binary.BigEndian.Uint64(b[:8])
}

// VerifHandshakeAccept: handshake with symbolic identifiers and symbolic
// bitfield bytes with any announced bit length (including 0); also one remote
// bitfield entry. Accept returns an error or a pending conn whose bitfields
// are no longer than the bytes that carried them.
func VerifHandshakeAccept() {
	n := []int{0, 8, 16, 17, 7, 15, 24}[verif.Choice("bitfield_bytes", verif.Bound("bitfield_len_classes", 4, 7))]
	bb := verif.Bytes("bitfield", n)
	var remote map[string][]byte
	if verif.Bool("has_remote") {
		rb := verif.Bytes("remote_bitfield", 16)
		remote = map[string][]byte{verif14Hex40: rb}
	}
	msg := verif14Handshake(bb, remote)
	sock := &verif14Sock{in: verif14Stage(msg, nil)}
	h := verif14Handshaker()
	verif.Cover("zero-bit-bitfield", n >= 8 && verif14BitLength(bb) == 0)
	verif14Guard(func() {
		pc, err := h.Accept(sock)
		if err != nil {
			verif.Reach("handshake-rejected")
			return
		}
		verif.Reach("handshake-accepted")
		verif.Assert("accepted-is-bitfield-message", msg.Type == p2p.Message_BITFIELD && msg.Bitfield != nil)
		verif.Assert("bitfield-not-longer-than-its-bytes", pc.Bitfield().Len() <= uint(8*n))
		for _, b := range pc.RemoteBitfields() {
			verif.Assert("remote-bitfield-not-longer-than-its-bytes", b.Len() <= 8*16)
		}
	})
}

// VerifHandshakeFindingBitfieldLength: the announced bit length of the
// bitfield is any 64-bit number (kept <= 2^30 so that the native replay is
// harmless). Regression check for FINDINGS.md F2 (fixed upstream by 0e30b15):
// the length used to be trusted for an allocation before any byte was read.
func VerifHandshakeFindingBitfieldLength() {
	bb := verif.Bytes("bitfield", 16)
	l := verif14BitLength(bb)
	verif.Assume(verif.And(l > 64*verif14MaxMsg, l <= 1<<30))
	msg := &p2p.Message{Type: p2p.Message_BITFIELD, Bitfield: &p2p.BitfieldMessage{
		PeerID: verif14Hex40, InfoHash: verif14Hex40, Name: verif14Hex64, BitfieldBytes: bb, Namespace: "ns"}}
	sock := &verif14Sock{in: verif14Stage(msg, nil)}
	h := verif14Handshaker()
	verif14Guard(func() {
		_, err := h.Accept(sock)
		verif.Assert("oversized-bitfield-rejected", err != nil)
	})
}
