//kse:pkg lib/torrent/scheduler/dispatch
package dispatch

import (
	"bytes"
	"io"
	"path/filepath"

	"github.com/andres-erbsen/clock"
	"github.com/uber-go/tally"
	"github.com/uber/kraken/core"
	"github.com/uber/kraken/gen/go/proto/p2p"
	"github.com/uber/kraken/lib/store"
	"github.com/uber/kraken/lib/torrent/networkevent"
	"github.com/uber/kraken/lib/torrent/scheduler/conn"
	"github.com/uber/kraken/lib/torrent/scheduler/torrentlog"
	"github.com/uber/kraken/lib/torrent/storage"
	"github.com/uber/kraken/lib/torrent/storage/agentstorage"
	"github.com/uber/kraken/lib/torrent/storage/originstorage"
	"github.com/uber/kraken/lib/torrent/storage/piecereader"
	verif "github.com/uber/kraken/zzverif"
	"github.com/willf/bitset"
	"go.uber.org/zap"
)

// C14, dispatcher level (API-only file): a decoded message with arbitrary
// field values is handed to the real Dispatcher.dispatch of an agent torrent
// (real agentstorage.Torrent on the file-system model).

const verif14Name = "0123456789abcdef0123456789abcdef0123456789abcdef0123456789abcdef"

var verif14Blob = []byte{11, 22, 33, 44, 55} // 3 pieces: 2 + 2 + 1 bytes

type verif14Messages struct {
	sent   []*conn.Message
	closed bool
	recv   chan *conn.Message
}

func (m *verif14Messages) Send(msg *conn.Message) error   { m.sent = append(m.sent, msg); return nil }
func (m *verif14Messages) Receiver() <-chan *conn.Message { return m.recv }
func (m *verif14Messages) Close()                         { m.closed = true }

type verif14Events struct{}

func (verif14Events) DispatcherComplete(*Dispatcher)         {}
func (verif14Events) PeerRemoved(core.PeerID, core.InfoHash) {}

type verif14NoNet struct{}

func (verif14NoNet) Produce(*networkevent.Event) {}
func (verif14NoNet) Close() error                { return nil }

type verif14Env struct {
	t     storage.Torrent
	d     *Dispatcher
	p     *peer
	msgs  *verif14Messages
	p2    *peer
	msgs2 *verif14Messages
	have  [3]bool
}

func verif14Piece(i int) []byte {
	lo, hi := 2*i, 2*i+2
	if hi > len(verif14Blob) {
		hi = len(verif14Blob)
	}
	return verif14Blob[lo:hi]
}

// verif14NewEnv: torrent state class 0 fresh, 1 partially complete (piece 0),
// 2 complete (agent torrents); verif14Origin: an origin torrent (real
// originstorage.Torrent over the real CAStore).
const verif14Origin = 3

func verif14NewEnv(class int) *verif14Env { return verif14NewEnvBits(class, 3) }

// verif14NewEnvBits: advBits is the length of the adversarial peer's handshake
// bitfield.
func verif14NewEnvBits(class int, advBits uint) *verif14Env {
	root := verif.TempDir()
	dg, err := core.NewSHA256DigestFromHex(verif14Name)
	verif.Assert("digest", err == nil)
	if class == verif14Origin {
		// the origin's CA store verifies content against the name
		dg, err = core.NewDigester().FromBytes(verif14Blob)
		verif.Assert("blob-digest", err == nil)
	}
	mi, err := core.NewMetaInfoFromBytes(dg, verif14Blob, 2)
	verif.Assert("metainfo", err == nil)
	e := &verif14Env{}
	var t storage.Torrent
	if class == verif14Origin {
		// origin torrent: the complete blob in the origin's CA store
		cas, err := store.NewCAStore(store.CAStoreConfig{
			UploadDir:     filepath.Join(root, "upload"),
			CacheDir:      filepath.Join(root, "cache"),
			UploadCleanup: store.CleanupConfig{Disabled: true},
			CacheCleanup:  store.CleanupConfig{Disabled: true},
		}, tally.NoopScope)
		verif.Assert("new-ca-store", err == nil)
		verif.Assert("create-cache-file", cas.CreateCacheFile(dg.Hex(), bytes.NewReader(verif14Blob)) == nil)
		ot, err := originstorage.NewTorrent(cas, mi)
		verif.Assert("new-origin-torrent", err == nil)
		t = ot
		e.have = [3]bool{true, true, true}
	} else {
		cads, err := store.NewCADownloadStore(store.CADownloadStoreConfig{
			DownloadDir:     filepath.Join(root, "download"),
			CacheDir:        filepath.Join(root, "cache"),
			DownloadCleanup: store.CleanupConfig{Disabled: true},
			CacheCleanup:    store.CleanupConfig{Disabled: true},
		}, tally.NoopScope)
		verif.Assert("new-store", err == nil)
		verif.Assert("create-download-file", cads.CreateDownloadFile(verif14Name, mi.Length()) == nil)
		at, err := agentstorage.NewTorrent(cads, mi)
		verif.Assert("new-torrent", err == nil)
		t = at
		npre := []int{0, 1, 3}[class]
		for i := 0; i < npre; i++ {
			verif.Assert("prefill", at.WritePiece(piecereader.NewBuffer(verif14Piece(i)), i) == nil)
			e.have[i] = true
		}
	}
	e.t = t
	var local core.PeerID
	local[0] = 0xEE
	d, err := newDispatcher(Config{}, tally.NoopScope, clock.NewMock(), verif14NoNet{}, verif14Events{}, local, t,
		zap.NewNop().Sugar(), torrentlog.NewNopLogger())
	verif.Assert("new-dispatcher", err == nil)
	if t.Complete() {
		d.complete()
	}
	e.d = d
	// handshake bitfields: longer ones than the torrent are rejected by addPeer
	// (a58bc7c, checked by VerifDispatchFindingLongBitfieldComplete); the
	// adversarial peer announced advBits <= 3 bits, the second peer exactly 3
	e.p, e.msgs = e.addPeer(0x51, advBits)
	e.p2, e.msgs2 = e.addPeer(0x52, 3)
	return e
}

func (e *verif14Env) addPeer(id byte, nbits uint) (*peer, *verif14Messages) {
	var pid core.PeerID
	pid[0] = id
	msgs := &verif14Messages{recv: make(chan *conn.Message)}
	p, err := e.d.addPeer(pid, false, bitset.New(nbits), msgs)
	verif.Assert("add-peer", err == nil)
	return p, msgs
}

func verif14Options() {
	verif.Note("crc32 collision exclusion: a payload whose CRC equals a piece sum is assumed to be that piece's bytes")
	verif.Option("panic_is_violation", 1)
	verif.Option("alloc_is_violation", 1)
	verif.Option("max_alloc", 40000)
}

// verif14Adversarial builds a message of the given type with every field a
// full int32. bodies=false leaves the sub-message out.
func verif14Adversarial(ty p2p.Message_Type, body bool, idx int32) *conn.Message {
	m := &p2p.Message{Type: ty}
	var payload storage.PieceReader
	if body {
		switch ty {
		case p2p.Message_ERROR:
			m.Error = &p2p.ErrorMessage{Index: idx, Code: p2p.ErrorMessage_ErrorCode(verif.Int32("code")), Error: "x"}
		case p2p.Message_ANNOUCE_PIECE:
			m.AnnouncePiece = &p2p.AnnouncePieceMessage{Index: idx}
		case p2p.Message_PIECE_REQUEST:
			m.PieceRequest = &p2p.PieceRequestMessage{Index: idx, Offset: verif.Int32("offset"), Length: verif.Int32("length")}
		case p2p.Message_PIECE_PAYLOAD:
			m.PiecePayload = &p2p.PiecePayloadMessage{Index: idx, Offset: verif.Int32("offset"), Length: verif.Int32("length")}
		case p2p.Message_CANCEL_PIECE:
			m.CancelPiece = &p2p.CancelPieceMessage{Index: idx}
		case p2p.Message_BITFIELD:
			m.Bitfield = &p2p.BitfieldMessage{}
		case p2p.Message_COMPLETE:
			m.Complete = &p2p.CompleteMessage{}
		}
	}
	if ty == p2p.Message_PIECE_PAYLOAD {
		// the connection always attaches a reader to payload messages
		pb := verif.Bytes("payload", verif.Len("payload_bytes", 0, 2))
		// crc32 is an uninterpreted function under the engine: a payload whose
		// checksum equals a piece's checksum is that piece's bytes.
		for i := 0; i < 3; i++ {
			want := verif14Piece(i)
			same := len(pb) == len(want)
			if same {
				for k := range want {
					same = verif.And(same, pb[k] == want[k])
				}
			}
			verif.Assume(verif.Implies(core.PieceSum(pb) == core.PieceSum(want), same))
		}
		payload = piecereader.NewBuffer(pb)
	}
	return &conn.Message{Message: m, Payload: payload}
}

// afterwards: completed pieces still read back their bytes, and the
// dispatcher still answers a well-formed request of another peer.
func (e *verif14Env) afterwards() {
	// the adversarial peer's connection ends (as feed does when its receiver
	// closes): removing it must not hurt either
	verif.Assert("remove-peer", e.d.removePeer(e.p) == nil)
	for i := 0; i < 3; i++ {
		if !e.have[i] {
			continue
		}
		r, err := e.t.GetPieceReader(i)
		verif.Assert("completed-piece-still-readable", err == nil)
		b, err := io.ReadAll(r)
		r.Close()
		want := verif14Piece(i)
		verif.Assert("completed-piece-length-unchanged", err == nil && len(b) == len(want))
		for k := range want {
			verif.Assert("completed-piece-bytes-unchanged", b[k] == want[k])
		}
	}
	if e.have[0] {
		before := len(e.msgs2.sent)
		e.d.dispatch(e.p2, &conn.Message{Message: &p2p.Message{Type: p2p.Message_PIECE_REQUEST,
			PieceRequest: &p2p.PieceRequestMessage{Index: 0, Offset: 0, Length: 2}}})
		verif.Assert("still-serves-other-peer", len(e.msgs2.sent) == before+1 &&
			e.msgs2.sent[before].Message.Type == p2p.Message_PIECE_PAYLOAD)
		e.msgs2.sent[before].Payload.Close()
	} else {
		err := e.d.dispatch(e.p2, &conn.Message{Message: &p2p.Message{Type: p2p.Message_PIECE_PAYLOAD,
			PiecePayload: &p2p.PiecePayloadMessage{Index: 0, Offset: 0, Length: 2}}, Payload: piecereader.NewBuffer(verif14Piece(0))})
		verif.Assert("still-accepts-good-piece", err == nil && e.t.HasPiece(0))
	}
}

func verif14Type() p2p.Message_Type {
	// the seven defined types and one undefined
	return []p2p.Message_Type{p2p.Message_BITFIELD, p2p.Message_PIECE_REQUEST, p2p.Message_PIECE_PAYLOAD,
		p2p.Message_ANNOUCE_PIECE, p2p.Message_CANCEL_PIECE, p2p.Message_ERROR, p2p.Message_COMPLETE,
		p2p.Message_Type(77)}[verif.Choice("type", 8)]
}

// VerifDispatchAnyFields: message body present, index any int32 (negative, in
// range, at the end, far beyond; announce-piece: non-negative only, see F3),
// offset / length / error code any int32.
func VerifDispatchAnyFields() {
	verif14Options()
	// index-carrying types on every torrent state class; the trivial types
	// (bitfield, cancel, undefined) once, complete on two classes
	nstates := verif.Bound("torrent_states", 1, 3) // 1 partial, 2 complete, (0 fresh)
	c := verif.Choice("case", 4*nstates+5)
	var ty p2p.Message_Type
	state := 1
	if c < 4*nstates {
		ty = []p2p.Message_Type{p2p.Message_PIECE_REQUEST, p2p.Message_PIECE_PAYLOAD, p2p.Message_ANNOUCE_PIECE, p2p.Message_ERROR}[c%4]
		state = []int{1, 2, 0}[c/4]
	} else {
		k := c - 4*nstates
		ty = []p2p.Message_Type{p2p.Message_BITFIELD, p2p.Message_CANCEL_PIECE, p2p.Message_Type(77), p2p.Message_COMPLETE, p2p.Message_COMPLETE}[k]
		if k == 4 {
			state = 2
		}
	}
	// the adversarial peer's handshake bitfield has the torrent's size, or
	// (thorough) is one bit short
	advBits := uint(3 - verif.Choice("bitfield_short_by", verif.Bound("short_bitfield_classes", 1, 2)))
	e := verif14NewEnvBits(state, advBits)
	idx := verif.Int32("index")
	// every type takes the full int32 range (negative indices were repaired
	// upstream: e23eae0 for storage, c60f470 for announce-piece)
	msg := verif14Adversarial(ty, true, idx)
	e.d.dispatch(e.p, msg)
	verif.Cover("index-beyond-torrent", idx >= 3)
	verif.Cover("index-negative", idx < 0)
	// a payload may legitimately complete a piece
	for i := 0; i < 3; i++ {
		if !e.have[i] && e.t.HasPiece(i) {
			verif.Reach("adversarial-payload-was-a-valid-piece")
			e.have[i] = true
		}
	}
	e.afterwards()
}

// VerifDispatchFindingNegativeIndex: like above with a negative index. Regression
// check for FINDINGS.md (fixed upstream by e23eae0 / c60f470).
func VerifDispatchFindingNegativeIndex() {
	verif14Options()
	e := verif14NewEnv(1 + verif.Choice("torrent_state", verif.Bound("finding_states", 1, 2)))
	idx := verif.Int32("index")
	verif.Assume(idx < 0)
	ty := []p2p.Message_Type{p2p.Message_PIECE_REQUEST, p2p.Message_PIECE_PAYLOAD, p2p.Message_ANNOUCE_PIECE,
		p2p.Message_ERROR}[verif.Choice("type", 4)]
	e.d.dispatch(e.p, verif14Adversarial(ty, true, idx))
	e.afterwards()
}

// VerifDispatchFindingMissingBody: the sub-message named by the type is
// absent. Regression check for FINDINGS.md F4 (fixed upstream by c60f470).
func VerifDispatchFindingMissingBody() {
	verif14Options()
	ty := verif14Type()
	e := verif14NewEnv(1 + verif.Choice("torrent_state", verif.Bound("finding_states", 1, 2)))
	e.d.dispatch(e.p, verif14Adversarial(ty, false, 0))
	e.afterwards()
}

// VerifDispatchFindingOversizedBitfield: a peer whose handshake bitfield is
// longer than the torrent (bit beyond the last piece set) is added. Regression
// check for FINDINGS.md F5 (fixed upstream by c60f470).
func VerifDispatchFindingOversizedBitfield() {
	verif14Options()
	e := verif14NewEnv(0)
	nbits := verif.IntRange("bitfield_bits", 4, verif.Bound("oversized_bits", 8, 64))
	b := bitset.New(uint(nbits))
	bit := verif.IntRange("set_bit", 3, verif.Bound("oversized_bits", 8, 64)-1)
	verif.Assume(bit < nbits)
	b.Set(uint(bit))
	var pid core.PeerID
	pid[0] = 0x53
	err := e.d.AddPeer(pid, false, b, &verif14Messages{recv: make(chan *conn.Message)})
	verif.Cover("oversized-bitfield-rejected", err != nil) // rejected or accepted: either way no panic
	e.afterwards()
}

// VerifDispatchFindingLongBitfieldComplete: a peer whose handshake bitfield is
// longer than the torrent with no bit beyond it set. addPeer must reject it;
// were it accepted, COMPLETE (SetAll over the padded length) followed by the
// end of the connection indexed the per-piece counters out of range.
// Regression check for FINDINGS.md F6 (fixed upstream by a58bc7c).
func VerifDispatchFindingLongBitfieldComplete() {
	verif14Options()
	e := verif14NewEnv(1)
	nbits := verif.IntRange("bitfield_bits", 4, 8)
	var pid core.PeerID
	pid[0] = 0x53
	msgs := &verif14Messages{recv: make(chan *conn.Message)}
	p, err := e.d.addPeer(pid, false, bitset.New(uint(nbits)), msgs)
	verif.Assert("longer-bitfield-rejected", err != nil)
	if err == nil {
		e.d.dispatch(p, verif14Adversarial(p2p.Message_COMPLETE, true, 0))
		e.d.removePeer(p)
	}
	e.afterwards()
}

// VerifDispatchOriginAnyFields: the index-carrying message types with any
// int32 index / offset / length delivered to an ORIGIN torrent (read-only
// originstorage.Torrent): no panic, bounded allocation, blob bytes unchanged,
// other peers still served.
func VerifDispatchOriginAnyFields() {
	verif14Options()
	ty := []p2p.Message_Type{p2p.Message_PIECE_REQUEST, p2p.Message_PIECE_PAYLOAD, p2p.Message_ANNOUCE_PIECE,
		p2p.Message_ERROR, p2p.Message_COMPLETE}[verif.Choice("type", 5)]
	e := verif14NewEnv(verif14Origin)
	idx := verif.Int32("index")
	e.d.dispatch(e.p, verif14Adversarial(ty, true, idx))
	verif.Cover("index-negative", idx < 0)
	verif.Cover("index-beyond-torrent", idx >= 3)
	e.afterwards()
}
