//kse:pkg lib/store/memory
package memory

import (
	"github.com/uber/kraken/lib/store/base"
	verif "github.com/uber/kraken/zzverif"
)

// Scenario of FINDINGS.md (fixed upstream in 1837d29, kept as a regression
// check): a positional write of zero bytes at an offset beyond the current
// end. An OS file is unchanged by pwrite(fd, "", 0, off); before the fix both
// in-memory buffers grew to `off`.

func verifFindingZeroLen(sut, ref verifBufW) {
	n := verif.Len("content_len", 0, 2)
	content := verif.Bytes("content", n)
	if n > 0 {
		_, e1 := sut.WriteAt(content, 0)
		_, e2 := ref.WriteAt(content, 0)
		verif.Assert("prefill", verif.And(e1 == nil, e2 == nil))
	}
	off := int64(verif.Len("offset", 0, 4))
	n1, _ := sut.WriteAt([]byte{}, off)
	n2, _ := ref.WriteAt([]byte{}, off)
	verif.Cover("beyond-end", off > int64(n))
	verif.Assert("count", n1 == n2)
	verif.Assert("size-after-empty-write", sut.Size() == ref.Size())
}

// VerifFindingBufferReadWriterZeroLengthWritePastEnd: regression check of the fixed finding.
func VerifFindingBufferReadWriterZeroLengthWritePastEnd() {
	verifFindingZeroLen(base.NewBufferReadWriter(uint64(verif.Len("capacity", 0, 2))), verifRefFile(nil))
}
