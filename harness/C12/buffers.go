//kse:pkg lib/store/memory
package memory

import (
	"io"
	"os"
	"path/filepath"

	storelib "github.com/uber/kraken/lib/store"
	"github.com/uber/kraken/lib/store/base"
	verif "github.com/uber/kraken/zzverif"
)

// C12: the in-memory blob buffers (memory.File, base.BufferReadWriter,
// store.NewBufferFileReader) are driven with a symbolic operation sequence
// and compared, operation by operation, with an *os.File that receives the
// same sequence (differential oracle; natively that is the real OS file).

// verifBuf is the operation surface shared by the buffers and the reference.
type verifBuf interface {
	io.Reader
	io.ReaderAt
	io.Seeker
	Size() int64
}

type verifBufW interface {
	verifBuf
	io.Writer
	io.WriterAt
}

// verifOSFile gives *os.File the Size accessor of the buffers.
type verifOSFile struct{ *os.File }

func (f verifOSFile) Size() int64 {
	fi, err := f.File.Stat()
	if err != nil {
		return -2
	}
	return fi.Size()
}

func verifRefFile(content []byte) verifOSFile {
	p := filepath.Join(verif.TempDir(), "c12-ref")
	f, err := os.OpenFile(p, os.O_RDWR|os.O_CREATE|os.O_TRUNC, 0o644)
	verif.Assert("ref-open", err == nil)
	if len(content) > 0 {
		_, err = f.WriteAt(content, 0)
		verif.Assert("ref-prefill", err == nil)
	}
	return verifOSFile{f}
}

func verifPos(s io.Seeker) int64 {
	p, err := s.Seek(0, io.SeekCurrent)
	if err != nil {
		return -3
	}
	return p
}

// verifSameBytes is a non-forking comparison of a[:n] and b[:n].
func verifSameBytes(a, b []byte, n int) bool {
	same := true
	for i := 0; i < n; i++ {
		same = verif.And(same, a[i] == b[i])
	}
	return same
}

type verifC12Cfg struct {
	writable bool
	// blindSteps > 0: whether the cursor of the buffer under test is observed
	// after a step is itself a decision. Observing it takes a Seek(0,
	// SeekCurrent) on the buffer, i.e. an extra operation of the history, and
	// an implementation may treat Seek as a synchronisation point; histories
	// without that call between two operations must be covered as well.
	blindSteps int
}

// verifC12Step applies one symbolic operation to both objects and compares
// everything the property names: byte counts, bytes, sizes, offsets.
func verifC12Step(sut, ref verifBuf, cfg verifC12Cfg, maxLen, maxOff int) {
	nops := 4
	if cfg.writable {
		nops = 6
	}
	shape := verifAnyShape
	if cfg.blindSteps > 0 && verif.Choice("observe_cursor", 2) == 0 {
		shape |= verifNoCursor
	}
	verifC12Op(sut, ref, verif.Choice("op", nops), shape, maxLen, maxOff)
}

const (
	verifOpRead    = 0
	verifOpWriteAt = 5

	verifAnyShape = 0 // no restriction on the operation's arguments
	verifGrow     = 1 // WriteAt ending beyond the current end (the buffer has to grow)
	verifInPlace  = 2 // non-empty WriteAt entirely inside the written extent
	verifShapes   = 3 // mask

	// verifNoCursor: do not ask the buffer under test for its cursor after the
	// operation (that is a Seek call on it); the cursor is then checked by the
	// next observation and through the bytes later Reads return.
	verifNoCursor = 4
)

// verifC12Op applies operation `op` (lengths, offsets, bytes unknown) to both
// objects and compares the results. shape restricts a WriteAt (see above).
func verifC12Op(sut, ref verifBuf, op int, shape int, maxLen, maxOff int) {
	noCursor := shape&verifNoCursor != 0
	shape &= verifShapes
	size := ref.Size()
	pos := verifPos(ref)
	switch op {
	case 0: // Read
		n := verif.Len("rlen", 0, maxLen)
		p1, p2 := make([]byte, n), make([]byte, n)
		n1, _ := sut.Read(p1)
		n2, _ := ref.Read(p2)
		verif.Cover("read-crosses-end", verif.And(n2 > 0, n2 < n))
		verif.Cover("read-at-end", verif.And(n2 == 0, n > 0))
		verif.Assert("read-count", n1 == n2)
		verif.Assert("read-bytes", verifSameBytes(p1, p2, n2))
	case 1: // ReadAt
		n := verif.Len("ralen", 0, maxLen)
		off := int64(verif.Len("raoff", -1, maxOff))
		p1, p2 := make([]byte, n), make([]byte, n)
		n1, _ := sut.ReadAt(p1, off)
		n2, _ := ref.ReadAt(p2, off)
		verif.Cover("readat-crosses-end", verif.And(n2 > 0, n2 < n))
		verif.Cover("readat-negative", off < 0)
		verif.Assert("readat-count", n1 == n2)
		verif.Assert("readat-bytes", verifSameBytes(p1, p2, n2))
	case 2: // Seek within the written extent
		whence := verif.Choice("whence", 3)
		off := int64(verif.Len("soff", -maxOff, maxOff))
		var target int64
		switch whence {
		case io.SeekStart:
			target = off
		case io.SeekCurrent:
			target = pos + off
		case io.SeekEnd:
			target = size + off
		}
		// the property quantifies over seeks within the written extent
		verif.Assume(target >= 0)
		verif.Assume(target <= size)
		r1, e1 := sut.Seek(off, whence)
		r2, e2 := ref.Seek(off, whence)
		verif.Assert("seek-ref-ok", e2 == nil)
		verif.Assert("seek-ok", e1 == nil)
		verif.Assert("seek-result", r1 == r2)
		verif.Cover("seek-to-end", r2 == size)
	case 3: // Size only (checked below for every operation)
	case 4: // Write
		n := verif.Len("wlen", 0, maxLen)
		p := verif.Bytes("wdata", n)
		w := sut.(verifBufW)
		n1, _ := w.Write(p)
		n2, _ := ref.(verifBufW).Write(p)
		verif.Cover("write-extends", pos+int64(n) > size)
		verif.Cover("write-overwrites", verif.And(n > 0, pos < size))
		verif.Assert("write-count", n1 == n2)
	case 5: // WriteAt
		n := verif.Len("walen", 0, maxLen)
		off := int64(verif.Len("waoff", -1, maxOff))
		switch shape {
		case verifGrow:
			verif.Assume(n > 0)
			verif.Assume(off >= 0)
			verif.Assume(off+int64(n) > size)
			verif.Cover("writeat-appends-at-end", off == size)
			verif.Cover("writeat-grows-overlapping", off < size)
		case verifInPlace:
			verif.Assume(n > 0)
			verif.Assume(off >= 0)
			verif.Assume(off+int64(n) <= size)
			verif.Cover("writeat-in-place-ahead-of-cursor", off >= pos)
		}
		p := verif.Bytes("wadata", n)
		w := sut.(verifBufW)
		n1, _ := w.WriteAt(p, off)
		n2, _ := ref.(verifBufW).WriteAt(p, off)
		if shape != verifInPlace {
			verif.Cover("writeat-leaves-gap", verif.And(n > 0, off > size))
		}
		if shape == verifAnyShape {
			verif.Cover("empty-writeat-beyond-end", verif.And(n == 0, off > size))
			verif.Cover("writeat-negative", off < 0)
		}
		verif.Assert("writeat-count", n1 == n2)
	}
	verif.Assert("size", sut.Size() == ref.Size())
	if !noCursor {
		verif.Assert("offset", verifPos(sut) == verifPos(ref))
	}
}

// verifC12Contents compares the complete contents (gap bytes included).
func verifC12Contents(sut, ref verifBuf) {
	size := ref.Size()
	verif.Assert("final-size", sut.Size() == size)
	n := int(size)
	p1, p2 := make([]byte, n), make([]byte, n)
	n1, _ := sut.ReadAt(p1, 0)
	n2, _ := ref.ReadAt(p2, 0)
	verif.Assert("final-count", verif.And(n1 == n, n2 == n))
	verif.Assert("final-bytes", verifSameBytes(p1, p2, n))
}

func verifC12Run(sut, ref verifBuf, cfg verifC12Cfg, k, maxLen, maxOff int) {
	verif.Assert("initial-size", sut.Size() == ref.Size())
	verif.Assert("initial-offset", verifPos(sut) == verifPos(ref))
	for i := 0; i < k; i++ {
		verifC12Step(sut, ref, cfg, maxLen, maxOff)
	}
	verif.Assert("final-offset", verifPos(sut) == verifPos(ref))
	verifC12Contents(sut, ref)
}

// ---- sequences from the freshly created buffer -------------------------

// VerifBufferReadWriterVsOSFile: base.BufferReadWriter (aws.WriteAtBuffer)
// as created by NewBufferReadWriter, k operations.
func VerifBufferReadWriterVsOSFile() {
	c := verif.Len("capacity", 0, verif.Bound("capacity", 2, 3))
	verifC12Run(base.NewBufferReadWriter(uint64(c)), verifRefFile(nil),
		verifC12Cfg{writable: true, blindSteps: verif.Bound("cursor_observation_optional", 0, 1)},
		verif.Bound("ops", 2, 3), verif.Bound("len", 2, 2), verif.Bound("off", 3, 3))
}

// ---- one operation from an arbitrary reachable state (inductive step) ----
//
// The state of either buffer is (visible bytes, capacity, offset); bytes
// between length and capacity are zero in every reachable state because both
// implementations reallocate to exactly the needed length and never shrink.
// The harnesses below start from every such state within the bounds (content
// bytes symbolic) and apply one arbitrary operation, which together with the
// from-fresh harnesses above covers histories of any length over states
// within the size bounds.

// VerifBufferReadWriterStep: one operation on a BufferReadWriter brought (by
// one WriteAt and one Seek) into an arbitrary state.
func VerifBufferReadWriterStep() {
	maxContent := verif.Bound("content", 3, 5)
	n := verif.Len("content_len", 0, maxContent)
	c := verif.Len("capacity", 0, maxContent+verif.Bound("spare", 2, 3))
	off := verif.Len("start_offset", 0, n)
	content := verif.Bytes("content", n)
	sut := base.NewBufferReadWriter(uint64(c))
	ref := verifRefFile(content)
	if n > 0 {
		_, err := sut.WriteAt(content, 0)
		verif.Assert("sut-prefill", err == nil)
	}
	_, err := sut.Seek(int64(off), io.SeekStart)
	verif.Assert("sut-seek", err == nil)
	_, err = ref.Seek(int64(off), io.SeekStart)
	verif.Assert("ref-seek", err == nil)
	verifC12Run(sut, ref, verifC12Cfg{writable: true}, 1, verif.Bound("len", 2, 3), verif.Bound("off", 5, 7))
}

// VerifBufferReadWriterReadGrowRead: histories of length 3 and 4 of the shape
//
//	Read, WriteAt ending beyond the current end, [WriteAt inside the extent,] Read
//
// with NO Seek or Write in between (the harness does not ask the buffer for
// its cursor between these operations either: that would be a Seek), from an arbitrary state (content bytes
// symbolic; content length, capacity, cursor case-split as in the step
// harness). This is the interleaving in which a sequential reader that keeps
// anything derived from the buffer between calls (a slice header, a length, a
// bytes.Reader) goes stale: the positional write grows the extent, with spare
// capacity in place and without it by reallocation, and an OS file read after
// pwrite sees the new length and the new bytes. The optional third operation
// overwrites bytes that the last Read may return (stale backing array after a
// reallocation). In the thorough tier one more arbitrary operation follows.
func VerifBufferReadWriterReadGrowRead() {
	maxContent := verif.Bound("content", 2, 4)
	n := verif.Len("content_len", 0, maxContent)
	c := verif.Len("capacity", 0, n+verif.Bound("spare", 2, 3))
	off := verif.Len("start_offset", 0, n)
	content := verif.Bytes("content", n)
	sut := base.NewBufferReadWriter(uint64(c))
	ref := verifRefFile(content)
	if n > 0 {
		_, err := sut.WriteAt(content, 0)
		verif.Assert("sut-prefill", err == nil)
	}
	_, err := sut.Seek(int64(off), io.SeekStart)
	verif.Assert("sut-seek", err == nil)
	_, err = ref.Seek(int64(off), io.SeekStart)
	verif.Assert("ref-seek", err == nil)

	maxLen := verif.Bound("len", 2, 3)
	maxOff := verif.Bound("off", 4, 6)
	verifC12Op(sut, ref, verifOpRead, verifAnyShape|verifNoCursor, maxLen, maxOff)
	verifC12Op(sut, ref, verifOpWriteAt, verifGrow|verifNoCursor, maxLen, maxOff)
	if verif.Choice("overwrite", 2) == 1 {
		verifC12Op(sut, ref, verifOpWriteAt, verifInPlace|verifNoCursor, verif.Bound("overwrite_len", 1, 2), maxOff)
	}
	sizeBefore, posBefore := ref.Size(), verifPos(ref)
	verif.Cover("cursor-before-new-end", posBefore < sizeBefore)
	verifC12Op(sut, ref, verifOpRead, verifAnyShape, maxLen+1, maxOff)
	verif.Cover("last-read-moved-cursor", verifPos(ref) > posBefore)
	for i := 0; i < verif.Bound("tail", 0, 1); i++ {
		verifC12Step(sut, ref, verifC12Cfg{writable: true}, maxLen, maxOff)
	}
	verifC12Contents(sut, ref)
}

// VerifBufferFileReaderVsOSFile: store.NewBufferFileReader over symbolic
// content against an OS file holding the same content (read-only surface:
// Read, ReadAt, Seek, Size).
func VerifBufferFileReaderVsOSFile() {
	n := verif.Len("content_len", 0, verif.Bound("content", 3, 4))
	content := verif.Bytes("content", n)
	ref := verifRefFile(content)
	sut := storelib.NewBufferFileReader(append([]byte(nil), content...))
	verifC12Run(sut, ref, verifC12Cfg{}, verif.Bound("rops", 2, 3), verif.Bound("len", 2, 3), verif.Bound("off", 4, 5))
}
