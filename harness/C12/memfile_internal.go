//kse:pkg lib/store/memory
package memory

import (
	"io"
	"sync"

	verif "github.com/uber/kraken/zzverif"
)

// C12 harnesses for memory.File. Kept apart from buffers.go because they use
// the package-internal constructor newFile and the off field to build
// arbitrary pre-states (helpers and the OS-file oracle are in buffers.go).

func verifNewMemoryFile(c int) *File {
	arr := make([]byte, 0, c) // as memory.store.Create does
	return newFile(&arr, &sync.RWMutex{})
}

// VerifMemoryFileVsOSFile: memory.File as created by the store, k operations.
func VerifMemoryFileVsOSFile() {
	c := verif.Len("capacity", 0, verif.Bound("capacity", 2, 3))
	verifC12Run(verifNewMemoryFile(c), verifRefFile(nil), verifC12Cfg{writable: true},
		verif.Bound("ops", 2, 3), verif.Bound("len", 2, 2), verif.Bound("off", 3, 3))
}

// VerifMemoryFileStep: one operation on a memory.File in an arbitrary state.
func VerifMemoryFileStep() {
	maxContent := verif.Bound("content", 3, 5)
	n := verif.Len("content_len", 0, maxContent)
	spare := verif.Len("spare_capacity", 0, verif.Bound("spare", 2, 3))
	off := verif.Len("start_offset", 0, n)
	content := verif.Bytes("content", n)
	arr := make([]byte, n, n+spare)
	copy(arr, content)
	sut := newFile(&arr, &sync.RWMutex{})
	sut.off = int64(off)
	ref := verifRefFile(content)
	_, err := ref.Seek(int64(off), io.SeekStart)
	verif.Assert("ref-seek", err == nil)
	verifC12Run(sut, ref, verifC12Cfg{writable: true}, 1, verif.Bound("len", 2, 3), verif.Bound("off", 5, 7))
}

// VerifFindingMemoryFileZeroLengthWritePastEnd: regression check of the fixed finding.
func VerifFindingMemoryFileZeroLengthWritePastEnd() {
	verifFindingZeroLen(verifNewMemoryFile(verif.Len("capacity", 0, 2)), verifRefFile(nil))
}

