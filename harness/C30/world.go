//kse:pkg lib/persistedretry
package persistedretry

import (
	"errors"
	"sync"
	"time"

	verif "github.com/uber/kraken/zzverif"
)

// Reference Store, scripted Executor and ghost history shared by the C30
// harnesses (API-only: implements the package's Store / Executor / Task
// interfaces; no access to manager internals). The store never fails except
// for a bounded number of transient faults during start-up recovery (storeFault).

const verifTasks = 2

// verifTask is what the store hands out (a copy of the stored row, like the
// SQL stores do).
type verifTask struct {
	id          int
	w           *verifWorld
	lastAttempt time.Time
	failures    int
}

func (t *verifTask) GetLastAttempt() time.Time { return t.lastAttempt }
func (t *verifTask) GetFailures() int          { return t.failures }
func (t *verifTask) Ready() bool               { return t.w.ready[t.id] }
func (t *verifTask) Tags() map[string]string   { return map[string]string{} }

type verifRow struct {
	present     bool
	pending     bool // else failed
	lastAttempt time.Time
	failures    int
}

// verifWorld: the persistent store contents (survive restarts), the ghost
// history, and the process epoch: a call arriving from a manager of an earlier
// epoch belongs to a process that has crashed and never returns.
type verifWorld struct {
	mu       sync.Mutex
	symbolic bool
	rows     [verifTasks]verifRow
	ready    [verifTasks]bool
	epoch    int
	changed  chan struct{}

	// ghost
	accepted      [verifTasks]bool // Add returned nil and the task has not succeeded since
	succeeded     [verifTasks]bool // an execution returned nil since the task entered the store
	executions    [verifTasks]int
	enqueueRights [verifTasks]int // successful AddPending + MarkPending: each allows one execution
	executing     [verifTasks]int
	overlap       bool
	allSucceed    bool
	removedEarly  bool
	crashBudget   int
	crashes       int

	// transient store faults: while a manager is starting (starting == true:
	// the start-up recovery of NewManager) a store call may fail with an I/O
	// error and leave the store unchanged, at most faultBudget times per history.
	starting    bool
	faultBudget int
	faults      int
}

var errVerifStoreFault = errors.New("database is locked")

// storeFault (world locked): does this store call of the start-up recovery
// fail? The fault is transient: the same call succeeds when it is repeated
// once the budget is used up.
func (w *verifWorld) storeFault() bool {
	if w.starting && w.faultBudget > 0 && verif.Bool("store_call_fails_during_startup") {
		w.faultBudget--
		w.faults++
		return true
	}
	return false
}

// lock/unlock guard the world natively. Under the engine threads switch only at
// synchronisation operations, so the sections are atomic without a lock, and
// leaving the lock out keeps it from adding schedule points of its own.
func (w *verifWorld) lock() {
	if !w.symbolic {
		w.mu.Lock()
	}
}

func (w *verifWorld) unlock() {
	if !w.symbolic {
		w.mu.Unlock()
	}
}

func (w *verifWorld) signal() {
	select {
	case w.changed <- struct{}{}:
	default:
	}
}

// verifCrash is the panic by which the single-threaded harness abandons the
// operation in progress when the process dies.
type verifCrash struct{}

// maybeCrash: in the single-threaded harness the process may die right before
// any store or executor call (at most crashBudget times per run).
func (w *verifWorld) maybeCrash() {
	if w.crashBudget > 0 && verif.Bool("process_dies_here") {
		w.crashBudget--
		w.crashes++
		panic(verifCrash{})
	}
}

// dead blocks a thread of a crashed process for ever.
func (w *verifWorld) deadIfStale(epoch int) {
	if epoch != w.epoch {
		w.unlock()
		select {}
	}
}

type verifStore struct {
	w     *verifWorld
	epoch int
}

func (s *verifStore) id(t Task) int { return t.(*verifTask).id }

func (s *verifStore) add(t Task, pending bool) error {
	w := s.w
	w.maybeCrash()
	w.lock()
	w.deadIfStale(s.epoch)
	defer w.unlock()
	i := s.id(t)
	if w.rows[i].present {
		return ErrTaskExists
	}
	w.rows[i] = verifRow{present: true, pending: pending}
	w.succeeded[i] = false
	if pending {
		w.enqueueRights[i]++
	}
	w.signal()
	return nil
}

func (s *verifStore) AddPending(t Task) error { return s.add(t, true) }
func (s *verifStore) AddFailed(t Task) error  { return s.add(t, false) }

func (s *verifStore) MarkPending(t Task) error {
	w := s.w
	w.maybeCrash()
	w.lock()
	w.deadIfStale(s.epoch)
	defer w.unlock()
	i := s.id(t)
	if !w.rows[i].present {
		return ErrTaskNotFound
	}
	w.rows[i].pending = true
	w.enqueueRights[i]++
	w.signal()
	return nil
}

func (s *verifStore) MarkFailed(t Task) error {
	w := s.w
	w.maybeCrash()
	w.lock()
	w.deadIfStale(s.epoch)
	defer w.unlock()
	if w.storeFault() {
		return errVerifStoreFault
	}
	i := s.id(t)
	if !w.rows[i].present {
		return ErrTaskNotFound
	}
	w.rows[i].pending = false
	w.rows[i].failures++
	w.rows[i].lastAttempt = time.Now()
	w.signal()
	return nil
}

func (s *verifStore) get(pending bool) ([]Task, error) {
	w := s.w
	w.maybeCrash()
	w.lock()
	w.deadIfStale(s.epoch)
	defer w.unlock()
	if w.storeFault() {
		return nil, errVerifStoreFault
	}
	var out []Task
	for i, r := range w.rows {
		if r.present && r.pending == pending {
			out = append(out, &verifTask{id: i, w: w, lastAttempt: r.lastAttempt, failures: r.failures})
		}
	}
	return out, nil
}

func (s *verifStore) GetPending() ([]Task, error) { return s.get(true) }
func (s *verifStore) GetFailed() ([]Task, error)  { return s.get(false) }

func (s *verifStore) Remove(t Task) error {
	w := s.w
	w.maybeCrash()
	w.lock()
	w.deadIfStale(s.epoch)
	defer w.unlock()
	i := s.id(t)
	if w.rows[i].present && !w.succeeded[i] {
		w.removedEarly = true // asserted by the main thread
	}
	w.rows[i] = verifRow{}
	w.signal()
	return nil
}

func (s *verifStore) Find(query interface{}) ([]Task, error) { return nil, errors.New("not used") }

type verifExecutor struct {
	w     *verifWorld
	epoch int
}

func (e *verifExecutor) Name() string { return "verif" }

func (e *verifExecutor) Exec(t Task) error {
	w := e.w
	i := t.(*verifTask).id
	w.maybeCrash()
	w.lock()
	w.deadIfStale(e.epoch)
	w.executions[i]++
	w.executing[i]++
	if w.executing[i] > 1 {
		w.overlap = true
	}
	fails := !w.allSucceed && verif.Bool("execution_fails")
	w.unlock()

	verif.Yield() // the execution takes time; the process may die meanwhile

	w.maybeCrash()
	w.lock()
	w.deadIfStale(e.epoch)
	defer w.unlock()
	w.executing[i]--
	if fails {
		return errors.New("backend unavailable")
	}
	w.succeeded[i] = true
	w.accepted[i] = false
	return nil
}

func (w *verifWorld) pendingCount() int {
	w.lock()
	defer w.unlock()
	n := 0
	for _, r := range w.rows {
		if r.present && r.pending {
			n++
		}
	}
	return n
}

func (w *verifWorld) stored() int {
	w.lock()
	defer w.unlock()
	n := 0
	for _, r := range w.rows {
		if r.present {
			n++
		}
	}
	return n
}

// settle waits until no stored task is pending. A pending task is in a queue or
// being executed, so its worker will mark it failed or remove it; a task that
// is pending but forgotten makes this wait for ever, which the engine reports
// as a deadlock of the main thread.
func (w *verifWorld) settle() {
	for w.pendingCount() > 0 {
		<-w.changed
	}
}

func (w *verifWorld) checkSafety() {
	w.lock()
	defer w.unlock()
	verif.Assert("task-leaves-the-store-only-after-a-successful-execution", !w.removedEarly)
	verif.Assert("one-execution-at-a-time-per-task", !w.overlap)
	for i := range w.rows {
		verif.Assert("accepted-task-stays-stored-until-it-succeeds", !w.accepted[i] || w.rows[i].present)
		verif.Assert("no-execution-without-a-store-transition-to-pending", w.executions[i] <= w.enqueueRights[i])
	}
}
