//kse:pkg lib/persistedretry
package persistedretry

import (
	"time"

	"github.com/uber-go/tally"
	verif "github.com/uber/kraken/zzverif"
)

// White-box, single-threaded harness: the manager struct is built like
// NewManager builds it (markPendingTasksAsFailed included) but without its
// goroutines; the harness plays the two workers one step at a time (take a
// task from the queue, m.exec it — the body of manager.worker) and the ticker
// (m.pollRetries). This makes long histories and a process death before every
// single store / executor call affordable, and lets the representation
// invariant be checked exactly after every step.

func (w *verifWorld) newBareManager() *manager {
	cfg := Config{
		IncomingBuffer: 1, RetryBuffer: 1, NumIncomingWorkers: 1, NumRetryWorkers: 1,
		MaxTaskThroughput: time.Nanosecond, RetryInterval: time.Nanosecond,
		PollRetriesInterval: time.Hour, WorkqueueMetricsEmitInterval: time.Hour, Testing: true,
	}.applyDefaults()
	budget := w.crashBudget
	w.crashBudget = 0 // (a death during start-up is a death before the next step)
	defer func() { w.crashBudget = budget }()
	for {
		m := &manager{
			config:   cfg,
			stats:    tally.NoopScope,
			store:    &verifStore{w, w.epoch},
			executor: &verifExecutor{w, w.epoch},
			incoming: make(chan Task, cfg.IncomingBuffer),
			retries:  make(chan Task, cfg.RetryBuffer),
			done:     make(chan struct{}),
		}
		// start-up recovery; its store calls (GetPending, MarkFailed) may hit a
		// transient store fault (world.go: storeFault)
		faults := w.faults
		w.starting = true
		err := m.markPendingTasksAsFailed()
		w.starting = false
		if err == nil {
			return m // NewManager succeeds: this process serves from now on
		}
		// NewManager fails: the process does not come up and is started again
		// (the fault is transient and the budget is finite, so this ends).
		verif.Assert("start-up-fails-only-when-the-store-failed", w.faults > faults)
		verif.Cover("start-up-failed-on-a-store-fault-and-the-process-was-started-again", true)
	}
}

// workerStep is one iteration of manager.worker on the given queue.
func verifWorkerStep(m *manager, tasks chan Task) bool {
	select {
	case t := <-tasks:
		m.exec(t)
		return true
	default:
		return false
	}
}

// queued lists the tasks sitting in both queues (and puts them back).
func verifQueued(m *manager) (ids []int) {
	for _, q := range []chan Task{m.incoming, m.retries} {
		n := len(q)
		for k := 0; k < n; k++ {
			t := <-q
			ids = append(ids, t.(*verifTask).id)
			q <- t
		}
	}
	return ids
}

// checkInvariant: every stored task is failed (the poller will retry it) or
// pending and in a queue — never pending and forgotten; no task is queued twice.
func (w *verifWorld) checkInvariant(m *manager) {
	q := verifQueued(m)
	for i, r := range w.rows {
		n := 0
		for _, id := range q {
			if id == i {
				n++
			}
		}
		verif.Assert("no-task-queued-twice", n <= 1)
		if r.present && r.pending {
			verif.Assert("pending-task-is-queued-never-forgotten", n == 1)
		}
	}
	w.checkSafety()
}

// step runs one operation; a process death inside it unwinds to here.
func (w *verifWorld) step(f func()) (died bool) {
	defer func() {
		if r := recover(); r != nil {
			if _, ok := r.(verifCrash); !ok {
				panic(r)
			}
			died = true
		}
	}()
	f()
	return false
}

func VerifSequentialHistory() {
	verif.Option("panic_is_violation", 1)
	w := &verifWorld{changed: make(chan struct{}, 64), symbolic: verif.Symbolic()}
	w.crashBudget = verif.Bound("process_deaths", 1, 2)
	m := w.newBareManager()
	// (set after the first start: a fault on the empty store changes nothing)
	w.faultBudget = verif.Bound("startup_store_faults", 1, 2)
	steps := verif.Bound("steps", 3, 4)
	for s := 0; s < steps; s++ {
		var died bool
		op := verif.Choice("op", 5)
		switch op {
		case 0: // Add (new, duplicate; ready or delayed)
			i := verif.Choice("task", verifTasks)
			stored := w.rows[i].present
			if !stored {
				w.ready[i] = verif.Bool("ready")
			}
			verif.Cover("duplicate-add", stored)
			died = w.step(func() {
				verif.Assert("add-accepted", m.Add(&verifTask{id: i, w: w}) == nil)
				w.accepted[i] = w.rows[i].present
			})
			if died && w.rows[i].present && !stored {
				// the task reached the store before the process died: it counts
				// as accepted (the caller may or may not have been told)
				w.accepted[i] = true
			}
		case 1: // the retry ticker fires
			time.Sleep(2 * time.Nanosecond)
			died = w.step(func() { m.pollRetries() })
		case 2:
			died = w.step(func() { verifWorkerStep(m, m.incoming) })
		case 3:
			died = w.step(func() { verifWorkerStep(m, m.retries) })
		case 4: // orderly restart: queued tasks are dropped with the process
			m = w.newBareManager()
		}
		if died {
			verif.Cover("process-died", true)
			w.epoch++
			for i := range w.executing {
				w.executing[i] = 0
			}
			m = w.newBareManager()
		}
		w.checkInvariant(m)
	}

	// bounded progress: executions succeed, delays pass, no more deaths
	w.crashBudget = 0
	w.allSucceed = true
	for i := range w.ready {
		w.ready[i] = true
	}
	for round := 0; round < verifTasks+1 && w.stored() > 0; round++ {
		for verifWorkerStep(m, m.incoming) || verifWorkerStep(m, m.retries) {
		}
		time.Sleep(2 * time.Nanosecond)
		m.pollRetries()
		for verifWorkerStep(m, m.incoming) || verifWorkerStep(m, m.retries) {
		}
	}
	w.checkInvariant(m)
	verif.Assert("every-stored-task-is-eventually-executed-successfully", w.stored() == 0)
	for i := range w.accepted {
		verif.Assert("no-accepted-task-left-behind", !w.accepted[i])
	}
}
