//kse:pkg lib/persistedretry
package persistedretry

import (
	"time"

	"github.com/uber-go/tally"
	verif "github.com/uber/kraken/zzverif"
)

// API-level harness: the real manager with its real goroutines (one incoming
// worker, one retry worker, ticker loop, metrics loop) from NewManager; the
// harness thread adds tasks, fires the poller body (the ticker itself never
// fires under the engine) and restarts the manager, in every interleaving
// within the preemption bound.

func (w *verifWorld) newManager() Manager {
	cfg := Config{
		IncomingBuffer: 1, RetryBuffer: 1, NumIncomingWorkers: 1, NumRetryWorkers: 1,
		MaxTaskThroughput: time.Nanosecond, RetryInterval: time.Nanosecond,
		PollRetriesInterval: time.Hour, WorkqueueMetricsEmitInterval: time.Hour, Testing: true,
	}
	for {
		w.lock()
		faults := w.faults
		w.starting = true // store calls of the start-up recovery may fail (world.go: storeFault)
		w.unlock()
		m, err := NewManager(cfg, tally.NoopScope, &verifStore{w, w.epoch}, &verifExecutor{w, w.epoch})
		w.lock()
		w.starting = false
		injected := w.faults > faults
		w.unlock()
		if err == nil {
			return m
		}
		// the process did not come up (no goroutine was started): start it again
		verif.Assert("manager-starts-unless-the-store-failed", injected)
		verif.Cover("start-up-failed-on-a-store-fault-and-the-process-was-started-again", true)
	}
}

func verifPoll(m Manager) {
	time.Sleep(2 * time.Nanosecond)
	m.(*manager).pollRetries()
}

func (w *verifWorld) drain(m Manager) {
	w.lock()
	w.allSucceed = true
	for i := range w.ready {
		w.ready[i] = true
	}
	w.unlock()
	for round := 0; round < 2*verifTasks+1 && w.stored() > 0; round++ {
		w.settle()
		verifPoll(m)
		w.settle()
	}
	w.checkSafety()
	verif.Assert("every-stored-task-is-eventually-executed-successfully", w.stored() == 0)
	for i := range w.accepted {
		verif.Assert("no-accepted-task-left-behind", !w.accepted[i])
	}
}

func (w *verifWorld) add(m Manager, i int, ready bool) {
	w.lock()
	stored := w.rows[i].present
	if !stored {
		w.ready[i] = ready
	}
	w.unlock()
	err := m.Add(&verifTask{id: i, w: w})
	verif.Assert("add-accepted", err == nil)
	w.lock()
	if w.rows[i].present {
		w.accepted[i] = true
	}
	w.unlock()
}

// VerifConcurrentAddFailRetry: two tasks are added back to back (queue
// capacity 1: the second may overflow), executions fail or succeed, the
// poller retries; workers, poller body and the adding thread interleave.
func VerifConcurrentAddFailRetry() {
	verif.Option("panic_is_violation", 1) // a panic must never end a path silently
	verif.Option("max_preempt", verif.Bound("preemptions", 0, 1))
	// (drawn before any worker thread exists: natively the replay values are
	// read from one table that is not safe for concurrent use)
	second := verif.Choice("second_add", 3)
	w := &verifWorld{changed: make(chan struct{}, 64), symbolic: verif.Symbolic()}
	m := w.newManager()
	w.add(m, 0, true)
	switch second {
	case 0:
		w.add(m, 1, true)
	case 1:
		w.add(m, 0, true) // duplicate of a task that is queued, executing, failed or already gone
	case 2:
		w.add(m, 1, false) // delayed
	}
	w.checkSafety()
	verifPoll(m)
	w.checkSafety()
	w.settle()
	w.checkSafety()
	verif.Cover("a-task-failed-and-waits-for-the-poller", w.stored() > 0)
	w.drain(m)
}

// VerifConcurrentRestart: a task is added and the manager is closed and
// replaced (orderly restart) while the worker may be anywhere in the
// execution. (Process deaths at every store / executor call are explored by
// the single-threaded harness in sequential.go.)
func VerifConcurrentRestart() {
	verif.Option("panic_is_violation", 1) // a panic must never end a path silently
	verif.Option("max_preempt", verif.Bound("preemptions_restart", 0, 0)) // (1 preemption: > 500k paths)
	verif.Option("max_threads", 24)
	w := &verifWorld{changed: make(chan struct{}, 64), symbolic: verif.Symbolic()}
	m := w.newManager()
	w.add(m, 0, true)
	m.Close()
	w.lock()
	w.epoch++
	w.faultBudget = verif.Bound("startup_store_faults", 1, 2)
	w.unlock()
	m = w.newManager()
	w.checkSafety()
	verif.Assert("nothing-pending-after-restart-before-polling", w.pendingCount() == 0)
	w.drain(m)
}
