//kse:pkg lib/torrent/storage/agentstorage
package agentstorage

import (
	"io"
	"strconv"

	"github.com/uber/kraken/core"
	"github.com/uber/kraken/lib/store"
	"github.com/uber/kraken/lib/torrent/storage"
	"github.com/uber/kraken/lib/torrent/storage/piecereader"
	verif "github.com/uber/kraken/zzverif"
)

// C04, longer history: crash -> restart -> the blob (or what is left of the
// download) is evicted / deleted -> the same blob is downloaded AGAIN.
//
// A crash may leave debris that the restarted agent rightly ignores (an entry
// directory in the download directory that holds sidecars but no data file:
// the crash hit the commit after the rename of the data file and before the
// source directory was removed, or it hit the middle of the RemoveAll of a
// partial download). The statement's second sentence, "the download can be
// started again and still completes with the correct content", also covers
// the next download of that blob on the same directories: the fresh download
// must not trust the debris. The helpers of crash.go are reused (API only).

// verifC04CheckTorrent is the C04 oracle on a torrent handed out by the
// archive: reported complete => the cached bytes are the blob; a piece
// reported complete reads back as the blob's bytes of that piece.
func verifC04CheckTorrent(cads *store.CADownloadStore, t storage.Torrent, mi *core.MetaInfo, blob []byte, plen int) {
	if t.Complete() {
		verif.Reach("redownload-reported-complete")
		b, ok := verifC04CacheBytes(cads)
		verif.Assert("redownload-complete-implies-cached", ok)
		verif.Assert("redownload-complete-implies-blob", verifC04Same(b, blob))
	}
	verif.Assert("redownload-torrent-has-the-blobs-pieces", t.NumPieces() == mi.NumPieces())
	for pi := 0; pi < t.NumPieces(); pi++ {
		if !t.HasPiece(pi) {
			continue
		}
		verif.Reach("redownload-piece-reported")
		r, err := t.GetPieceReader(pi)
		verif.Assert("redownload-reported-piece-readable", err == nil)
		got, err := io.ReadAll(r)
		r.Close()
		verif.Assert("redownload-reported-piece-read", err == nil)
		verif.Assert("redownload-reported-piece-equals-blob", verifC04Same(got, verifC04Piece(blob, plen, pi)))
	}
}

// verifC04CheckStat: TorrentArchive.Stat (what the agent announces) reports a
// piece only if the blob's bytes of that piece are in the file.
func verifC04CheckStat(cads *store.CADownloadStore, archive *TorrentArchive, mi *core.MetaInfo, blob []byte, plen int) {
	info, err := archive.Stat("ns", mi.Digest())
	if err != nil {
		return
	}
	bf := info.Bitfield()
	var file []byte
	if r, err := cads.Any().GetFileReader(verifC04Name); err == nil {
		file, _ = io.ReadAll(r)
		r.Close()
	}
	for i := uint(0); i < bf.Len(); i++ {
		if !bf.Test(i) {
			continue
		}
		verif.Reach("redownload-stat-reports-piece")
		verif.Assert("redownload-stat-piece-within-torrent", int(i) < mi.NumPieces())
		want := verifC04Piece(blob, plen, int(i))
		lo := int(i) * plen
		verif.Assert("redownload-stat-piece-bytes-on-disk", lo+len(want) <= len(file) && verifC04Same(file[lo:lo+len(want)], want))
	}
}

const (
	// crash anywhere inside the complete download: CreateTorrent, every
	// WritePiece, the commit of the last one
	verifC04CrashInDownload = iota
	// crash inside TorrentArchive.DeleteTorrent of a partial download, with
	// the unlink order of RemoveAll (directory order) a decision
	verifC04CrashInDelete
)

func verifC04RedownloadRun(blob []byte, plen int, mode int) {
	verif.Note("C04 redownload: the reference blob and its metainfo are concrete (distinct non-zero values, so a zero-filled file is never the blob) for byte-exact sidecars / native replay; in the crash-in-download mode the bytes the peers deliver in the first life are symbolic (crc32 uninterpreted, checksum collision exclusion assumed); the other unknowns are the crash point, the piece order, the number of pieces written, the unlink order of RemoveAll (delete mode), whether the agent restarts once more after the eviction, and which missing piece the second download writes first")
	d, err := core.NewSHA256DigestFromHex(verifC04Name)
	verif.Assert("digest", err == nil)
	mi, err := core.NewMetaInfoFromBytes(d, blob, int64(plen))
	verif.Assert("metainfo", err == nil)
	n := mi.NumPieces()
	orders := 2
	if mode == verifC04CrashInDelete {
		// which piece the partial download holds: quick the first (full) one,
		// thorough also the last (short) one
		orders = verif.Bound("delete_piece_orders", 1, 2)
	}
	descending := verif.Choice("piece_order", orders) == 1
	order := func(j int) int {
		if descending {
			return n - 1 - j
		}
		return j
	}

	// ---- first life (delete mode: set-up outside the crash scope, then the
	// crashing DeleteTorrent)
	_, archive1, err := verifC04Stores(mi)
	verif.Assert("stores", err == nil)
	var crashed bool
	switch mode {
	case verifC04CrashInDownload:
		crashed = verif.CrashScope(func() {
			t1, err := archive1.CreateTorrent("ns", d)
			verif.Assert("create-torrent", err == nil)
			for j := 0; j < n; j++ {
				// symbolic bytes from the peer (accepted: the piece's bytes;
				// rejected: garbage stays in the file, then the right bytes)
				verifC04Deliver(t1, mi, blob, plen, order(j), "payload"+strconv.Itoa(order(j)))
			}
			verif.Assert("complete-after-all-pieces", t1.Complete())
		})
	case verifC04CrashInDelete:
		written := verif.Len("pieces_written", verif.Bound("delete_min_pieces_written", 1, 0), n-1)
		t1, err := archive1.CreateTorrent("ns", d)
		verif.Assert("create-torrent", err == nil)
		for j := 0; j < written; j++ {
			err := t1.WritePiece(piecereader.NewBuffer(verifC04Piece(blob, plen, order(j))), order(j))
			verif.Assert("write-piece", err == nil)
		}
		// os.RemoveAll unlinks in directory order, which is arbitrary
		verif.Option("map_order_symbolic", 1)
		crashed = verif.CrashScope(func() {
			err := archive1.DeleteTorrent(d)
			verif.Assert("delete-partial-download", err == nil)
		})
		verif.Option("map_order_symbolic", 0)
	}
	verif.Cover("crashed", crashed)
	verif.Cover("not-crashed", !crashed)

	// ---- second life: restart on the same directories
	cads, archive, err := verifC04Stores(mi)
	verif.Assert("restart-stores", err == nil)
	b, wasCached := verifC04CacheBytes(cads)
	if wasCached {
		verif.Assert("cached-bytes-equal-blob", verifC04Same(b, blob))
	}
	if mode == verifC04CrashInDownload {
		verif.Cover("cached-blob-evicted", wasCached)
		verif.Cover("nothing-cached-at-eviction", !wasCached)
	} else {
		verif.Assert("partial-download-never-cached", !wasCached)
	}

	// the cached blob, or whatever is left of the download, is evicted
	// (TorrentArchive.DeleteTorrent is what the scheduler's TTL clean-up calls)
	err = archive.DeleteTorrent(d)
	verif.Assert("evict", err == nil)
	_, still := verifC04CacheBytes(cads)
	verif.Assert("evicted-blob-not-served", !still)

	if verif.Choice("restart_after_eviction", verif.Bound("restart_after_eviction_choices", 1, 2)) == 1 {
		cads, archive, err = verifC04Stores(mi)
		verif.Assert("restart-stores", err == nil)
	}

	// ---- the same blob is wanted again
	t, err := archive.CreateTorrent("ns", d)
	verif.Assert("download-can-be-started-again", err == nil)
	verifC04CheckTorrent(cads, t, mi, blob, plen)
	verifC04CheckStat(cads, archive, mi, blob, plen)

	// some but not all pieces arrive
	if missing := t.MissingPieces(); len(missing) > 1 {
		firsts := len(missing)
		if mode == verifC04CrashInDelete {
			// the unlink orders already multiply the paths: lowest piece first
			firsts = 1
		}
		pi := missing[verif.Choice("redownload_first_piece", firsts)]
		verif.Reach("redownload-partial")
		err := t.WritePiece(piecereader.NewBuffer(verifC04Piece(blob, plen, pi)), pi)
		verif.Assert("redownload-write-piece", err == nil)
		verifC04CheckTorrent(cads, t, mi, blob, plen)
		verifC04CheckStat(cads, archive, mi, blob, plen)
	}

	// the rest arrives: the download completes with the correct content
	for _, pi := range t.MissingPieces() {
		err := t.WritePiece(piecereader.NewBuffer(verifC04Piece(blob, plen, pi)), pi)
		verif.Assert("redownload-write-piece", err == nil)
	}
	verif.Assert("redownload-completes", t.Complete())
	verifC04CheckTorrent(cads, t, mi, blob, plen)

	// and a further restart still sees exactly the blob
	cads, archive, err = verifC04Stores(mi)
	verif.Assert("restart-stores", err == nil)
	t, err = archive.GetTorrent("ns", d)
	verif.Assert("redownload-survives-restart", err == nil && t.Complete())
	verifC04CheckTorrent(cads, t, mi, blob, plen)
}

// VerifCrashInDownloadThenEvictAndRedownload: 3-byte blob / two pieces; crash
// before every file-system step of the complete download (CreateTorrent,
// each WritePiece: data write, status byte; the commit Move of the last one:
// sidecar copies, rename, RemoveAll of the source directory), restart,
// eviction, second download of the same blob.
func VerifCrashInDownloadThenEvictAndRedownload() {
	verifC04RedownloadRun([]byte{0x11, 0x22, 0x33}, 2, verifC04CrashInDownload)
}

// VerifCrashInDeleteThenRedownload: crash before every unlink of the
// RemoveAll inside DeleteTorrent of a partial download, for every unlink
// order, restart, second download of the same blob.
func VerifCrashInDeleteThenRedownload() {
	verifC04RedownloadRun([]byte{0x11, 0x22, 0x33}, 2, verifC04CrashInDelete)
}
