//kse:pkg lib/torrent/storage/agentstorage
package agentstorage

import (
	"io"
	"os"
	"path/filepath"

	"github.com/uber-go/tally"
	"github.com/uber/kraken/core"
	"github.com/uber/kraken/lib/store"
	"github.com/uber/kraken/lib/torrent/storage"
	"github.com/uber/kraken/lib/torrent/storage/piecereader"
	verif "github.com/uber/kraken/zzverif"
)

// C04: an agent crash at any point never yields a wrong cached blob.
//
// Inside verif.CrashScope the real TorrentArchive / Torrent / CADownloadStore
// code creates a torrent, writes its pieces and commits it; the engine forks a
// process crash before every mutating file-system step. Afterwards fresh store
// objects are built on the same directories and the recovery observations of
// the property are checked.

const verifC04Name = "bbbbbbbbbbbbbbbbbbbbbbbbbbbbbbbbbbbbbbbbbbbbbbbbbbbbbbbbbbbbbbbb"

// verifC04Client is the tracker stub: it serves the true metainfo.
type verifC04Client struct{ mi *core.MetaInfo }

func (c verifC04Client) Download(namespace string, d core.Digest) (*core.MetaInfo, error) {
	return c.mi, nil
}

func verifC04Stores(mi *core.MetaInfo) (*store.CADownloadStore, *TorrentArchive, error) {
	root := verif.TempDir()
	cads, err := store.NewCADownloadStore(store.CADownloadStoreConfig{
		DownloadDir:     filepath.Join(root, "download"),
		CacheDir:        filepath.Join(root, "cache"),
		DownloadCleanup: store.CleanupConfig{Disabled: true},
		CacheCleanup:    store.CleanupConfig{Disabled: true},
	}, tally.NoopScope)
	if err != nil {
		return nil, nil, err
	}
	return cads, NewTorrentArchive(tally.NoopScope, cads, verifC04Client{mi}), nil
}

func verifC04Piece(blob []byte, plen, pi int) []byte {
	lo := pi * plen
	hi := lo + plen
	if hi > len(blob) {
		hi = len(blob)
	}
	return blob[lo:hi]
}

func verifC04Same(a, b []byte) bool {
	if len(a) != len(b) {
		return false
	}
	for i := range a {
		if a[i] != b[i] {
			return false
		}
	}
	return true
}

// verifC04CacheBytes returns the bytes served from the cache, if any.
func verifC04CacheBytes(cads *store.CADownloadStore) ([]byte, bool) {
	r, err := cads.Cache().GetFileReader(verifC04Name)
	if err != nil {
		return nil, false
	}
	defer r.Close()
	b, err := io.ReadAll(r)
	verif.Assert("cache-read", err == nil)
	return b, true
}

// verifC04Download runs the agent's download of blob: create the torrent,
// write the pieces in the given order (a prefix of them when stopAfter is
// smaller than the number of pieces), which commits after the last one.
func verifC04Download(mi *core.MetaInfo, blob []byte, plen int, descending bool, stopAfter int) {
	_, archive, err := verifC04Stores(mi)
	verif.Assert("stores", err == nil)
	t, err := archive.CreateTorrent("ns", mi.Digest())
	verif.Assert("create-torrent", err == nil)
	n := t.NumPieces()
	for j := 0; j < n && j < stopAfter; j++ {
		pi := j
		if descending {
			pi = n - 1 - j
		}
		err := t.WritePiece(piecereader.NewBuffer(verifC04Piece(blob, plen, pi)), pi)
		verif.Assert("write-piece", err == nil)
	}
	if stopAfter >= n {
		verif.Assert("complete-after-all-pieces", t.Complete())
	}
}

// verifC04Recover checks the property on fresh objects over the same
// directories.
func verifC04Recover(mi *core.MetaInfo, blob []byte, plen int) {
	cads, archive, err := verifC04Stores(mi)
	verif.Assert("restart-stores", err == nil)

	// nothing wrong is served from the cache
	if b, ok := verifC04CacheBytes(cads); ok {
		verif.Reach("cached-after-restart")
		verif.Assert("cached-bytes-equal-blob", verifC04Same(b, blob))
	}

	// Stat / GetTorrent report pieces / completeness only for correct bytes
	if info, err := archive.Stat("ns", mi.Digest()); err == nil {
		bf := info.Bitfield()
		var file []byte
		if r, err := cads.Any().GetFileReader(verifC04Name); err == nil {
			file, _ = io.ReadAll(r)
			r.Close()
		}
		for i := uint(0); i < bf.Len(); i++ {
			if !bf.Test(i) {
				continue
			}
			verif.Reach("stat-reports-piece-after-restart")
			verif.Assert("reported-piece-within-torrent", int(i) < mi.NumPieces())
			want := verifC04Piece(blob, plen, int(i))
			lo := int(i) * plen
			verif.Assert("reported-piece-bytes-on-disk", lo+len(want) <= len(file) && verifC04Same(file[lo:lo+len(want)], want))
		}
	}
	if st, err := archive.GetTorrent("ns", mi.Digest()); err == nil {
		if st.Complete() {
			verif.Reach("reported-complete-after-restart")
			b, ok := verifC04CacheBytes(cads)
			verif.Assert("complete-implies-cached", ok)
			verif.Assert("complete-implies-blob", verifC04Same(b, blob))
		}
	}

	// the download can be started again and completes with the right content
	var t storage.Torrent
	t, err = archive.CreateTorrent("ns", mi.Digest())
	verif.Assert("download-can-be-started-again", err == nil)
	if t.Complete() {
		b, ok := verifC04CacheBytes(cads)
		verif.Assert("complete-implies-cached", ok)
		verif.Assert("complete-implies-blob", verifC04Same(b, blob))
	}
	for _, pi := range t.MissingPieces() {
		verif.Reach("piece-rewritten-after-restart")
		err := t.WritePiece(piecereader.NewBuffer(verifC04Piece(blob, plen, pi)), pi)
		verif.Assert("continue-write-piece", err == nil)
	}
	verif.Assert("restarted-download-completes", t.Complete())
	b, ok := verifC04CacheBytes(cads)
	verif.Assert("restarted-download-cached", ok)
	verif.Assert("restarted-download-content", verifC04Same(b, blob))
}

// sidecar states after the crash that the two write-ups in FINDINGS.md are
// about: os.WriteFile had created the sidecar but not yet written it.
const (
	verifC04Any = iota
	verifC04NoEmptySidecar
	verifC04EmptyStatus
	verifC04EmptyMetainfo
)

func verifC04EmptyFile(suffix string) bool {
	p := filepath.Join(verif.TempDir(), "download", verifC04Name[:2], verifC04Name[2:4], verifC04Name, suffix)
	fi, err := os.Stat(p)
	return err == nil && fi.Size() == 0
}

func verifC04Run(blob []byte, plen int, which int) {
	verif.Note("C04: blob bytes are concrete (distinct non-zero values) so that the metainfo sidecar is the byte-exact JSON and crash snapshots replay natively; crash points, piece order and the number of pieces written are the unknowns")
	d, err := core.NewSHA256DigestFromHex(verifC04Name)
	verif.Assert("digest", err == nil)
	mi, err := core.NewMetaInfoFromBytes(d, blob, int64(plen))
	verif.Assert("metainfo", err == nil)
	descending := verif.Choice("piece_order", 2) == 1
	stopAfter := verif.Len("pieces_written", 0, mi.NumPieces())
	crashed := verif.CrashScope(func() {
		verifC04Download(mi, blob, plen, descending, stopAfter)
	})
	emptyStatus := verifC04EmptyFile("_status")
	emptyMetainfo := verifC04EmptyFile("_torrentmeta")
	switch which {
	case verifC04NoEmptySidecar:
		// full quantifier: every crash point (the two defects of FINDINGS.md
		// were repaired upstream by creating sidecars atomically)
	case verifC04EmptyStatus:
		// regression check of the repaired defect F1: a crash must never leave
		// an empty piece-status sidecar behind (it used to commit a zero file)
		verif.Assert("no-empty-status-sidecar-after-crash", !emptyStatus)
	case verifC04EmptyMetainfo:
		// regression check of the repaired defect F2
		verif.Assert("no-empty-metainfo-sidecar-after-crash", !emptyMetainfo)
	}
	verif.Cover("crashed", crashed)
	verif.Cover("not-crashed", !crashed)
	verifC04Recover(mi, blob, plen)
}

// VerifAgentCrashTwoPieces: 3-byte blob, piece length 2 (two pieces, the last
// one short), crash before every file-system step of create / write / commit,
// except the two crash points written up in FINDINGS.md.
func VerifAgentCrashTwoPieces() {
	verifC04Run([]byte{0x11, 0x22, 0x33}, 2, verifC04NoEmptySidecar)
}

// VerifAgentCrashThreePieces (thorough tier only does the larger shape).
func VerifAgentCrashThreePieces() {
	if verif.Bound("three_piece_shape", 0, 1) == 0 {
		verifC04Run([]byte{0x44}, 1, verifC04NoEmptySidecar)
		return
	}
	verifC04Run([]byte{0x11, 0x22, 0x33, 0x44, 0x55, 0x66}, 2, verifC04NoEmptySidecar)
}

// VerifFindingCrashLeavesEmptyStatusSidecar fires on the current tree: the
// crash hit between the creation and the write of the _status sidecar.
func VerifFindingCrashLeavesEmptyStatusSidecar() {
	verifC04Run([]byte{0x11, 0x22, 0x33}, 2, verifC04EmptyStatus)
}

// VerifFindingCrashLeavesEmptyMetainfoSidecar fires on the current tree: the
// crash hit between the creation and the write of the _torrentmeta sidecar.
func VerifFindingCrashLeavesEmptyMetainfoSidecar() {
	verifC04Run([]byte{0x11, 0x22, 0x33}, 2, verifC04EmptyMetainfo)
}
