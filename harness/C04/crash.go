//kse:pkg lib/torrent/storage/agentstorage
package agentstorage

import (
	"io"
	"os"
	"path/filepath"
	"strconv"

	"github.com/uber-go/tally"
	"github.com/uber/kraken/core"
	"github.com/uber/kraken/lib/store"
	"github.com/uber/kraken/lib/torrent/storage"
	"github.com/uber/kraken/lib/torrent/storage/piecereader"
	verif "github.com/uber/kraken/zzverif"
)

// C04: an agent crash at any point never yields a wrong cached blob.
//
// Inside verif.CrashScope the real TorrentArchive / Torrent / CADownloadStore
// code creates a torrent, writes its pieces and commits it; the engine forks a
// process crash before every mutating file-system step. Afterwards fresh store
// objects are built on the same directories and the recovery observations of
// the property are checked.
//
// The piece DATA of the download is symbolic: every piece a peer delivers is
// verif.Bytes (verifC04Deliver). crc32 is the engine's uninterpreted function
// of the payload bytes, so whether the torrent accepts a delivery is decided by
// the solver; as in harness/C03 a payload whose checksum equals the metainfo
// piece sum is assumed to be the piece's bytes (checksum collision exclusion).
// The metainfo is that of a concrete reference blob (real crc32 sums: the
// sidecars stay byte-exact JSON and crash snapshots replay natively); whatever
// is on disk after the crash (accepted payloads, garbage of rejected ones,
// zero fill) is compared with the reference blob byte by byte by the solver.

const verifC04Name = "bbbbbbbbbbbbbbbbbbbbbbbbbbbbbbbbbbbbbbbbbbbbbbbbbbbbbbbbbbbbbbbb"

// verifC04Client is the tracker stub: it serves the true metainfo.
type verifC04Client struct{ mi *core.MetaInfo }

func (c verifC04Client) Download(namespace string, d core.Digest) (*core.MetaInfo, error) {
	return c.mi, nil
}

func verifC04Stores(mi *core.MetaInfo) (*store.CADownloadStore, *TorrentArchive, error) {
	root := verif.TempDir()
	cads, err := store.NewCADownloadStore(store.CADownloadStoreConfig{
		DownloadDir:     filepath.Join(root, "download"),
		CacheDir:        filepath.Join(root, "cache"),
		DownloadCleanup: store.CleanupConfig{Disabled: true},
		CacheCleanup:    store.CleanupConfig{Disabled: true},
	}, tally.NoopScope)
	if err != nil {
		return nil, nil, err
	}
	return cads, NewTorrentArchive(tally.NoopScope, cads, verifC04Client{mi}), nil
}

func verifC04Piece(blob []byte, plen, pi int) []byte {
	lo := pi * plen
	hi := lo + plen
	if hi > len(blob) {
		hi = len(blob)
	}
	return blob[lo:hi]
}

// verifC04Same: byte-wise equality as one (symbolic) fact, no branching.
func verifC04Same(a, b []byte) bool {
	if len(a) != len(b) {
		return false
	}
	same := true
	for i := range a {
		same = verif.And(same, a[i] == b[i])
	}
	return same
}

// verifC04Deliver is one piece delivery of the first life: a peer sends
// arbitrary bytes of the piece's length for piece pi. The torrent checks them
// against the metainfo piece sum (solver decision on the uninterpreted crc32):
// accepted bytes are the piece's bytes; rejected ones are left as garbage in
// the download file, the agent asks again and then receives the piece's bytes.
func verifC04Deliver(t storage.Torrent, mi *core.MetaInfo, blob []byte, plen, pi int, tag string) {
	want := verifC04Piece(blob, plen, pi)
	payload := verif.Bytes(tag, len(want))
	correct := verifC04Same(payload, want)
	// crc32 is an uninterpreted function under the engine: the checksum of
	// this payload does not collide with the piece's checksum unless the bytes
	// are the piece's bytes
	verif.Assume(verif.Implies(core.PieceSum(payload) == mi.GetPieceSum(pi), correct))
	err := t.WritePiece(piecereader.NewBuffer(payload), pi)
	if err != nil {
		verif.Reach("corrupt-delivery-rejected")
		verif.Assert("rejected-delivery-was-corrupt", !correct)
		err = t.WritePiece(piecereader.NewBuffer(append([]byte(nil), want...)), pi)
		verif.Assert("write-piece", err == nil)
		return
	}
	verif.Reach("delivery-accepted")
	verif.Assert("accepted-delivery-has-piece-content", correct)
}

// verifC04CacheBytes returns the bytes served from the cache, if any.
func verifC04CacheBytes(cads *store.CADownloadStore) ([]byte, bool) {
	r, err := cads.Cache().GetFileReader(verifC04Name)
	if err != nil {
		return nil, false
	}
	defer r.Close()
	b, err := io.ReadAll(r)
	verif.Assert("cache-read", err == nil)
	return b, true
}

// verifC04Download runs the agent's download of blob: create the torrent,
// write the pieces in the given order (a prefix of them when stopAfter is
// smaller than the number of pieces), which commits after the last one.
func verifC04Download(mi *core.MetaInfo, blob []byte, plen int, descending bool, stopAfter int, symbolic bool) {
	_, archive, err := verifC04Stores(mi)
	verif.Assert("stores", err == nil)
	t, err := archive.CreateTorrent("ns", mi.Digest())
	verif.Assert("create-torrent", err == nil)
	n := t.NumPieces()
	for j := 0; j < n && j < stopAfter; j++ {
		pi := j
		if descending {
			pi = n - 1 - j
		}
		if symbolic {
			verifC04Deliver(t, mi, blob, plen, pi, "payload"+strconv.Itoa(pi))
		} else {
			err := t.WritePiece(piecereader.NewBuffer(verifC04Piece(blob, plen, pi)), pi)
			verif.Assert("write-piece", err == nil)
		}
	}
	if stopAfter >= n {
		verif.Assert("complete-after-all-pieces", t.Complete())
	}
}

// verifC04Recover checks the property on fresh objects over the same
// directories.
func verifC04Recover(mi *core.MetaInfo, blob []byte, plen int) {
	cads, archive, err := verifC04Stores(mi)
	verif.Assert("restart-stores", err == nil)

	// nothing wrong is served from the cache
	if b, ok := verifC04CacheBytes(cads); ok {
		verif.Reach("cached-after-restart")
		verif.Assert("cached-bytes-equal-blob", verifC04Same(b, blob))
	}

	// Stat / GetTorrent report pieces / completeness only for correct bytes
	if info, err := archive.Stat("ns", mi.Digest()); err == nil {
		bf := info.Bitfield()
		var file []byte
		if r, err := cads.Any().GetFileReader(verifC04Name); err == nil {
			file, _ = io.ReadAll(r)
			r.Close()
		}
		for i := uint(0); i < bf.Len(); i++ {
			if !bf.Test(i) {
				continue
			}
			verif.Reach("stat-reports-piece-after-restart")
			verif.Assert("reported-piece-within-torrent", int(i) < mi.NumPieces())
			want := verifC04Piece(blob, plen, int(i))
			lo := int(i) * plen
			verif.Assert("reported-piece-bytes-on-disk", lo+len(want) <= len(file) && verifC04Same(file[lo:lo+len(want)], want))
		}
	}
	if st, err := archive.GetTorrent("ns", mi.Digest()); err == nil {
		if st.Complete() {
			verif.Reach("reported-complete-after-restart")
			b, ok := verifC04CacheBytes(cads)
			verif.Assert("complete-implies-cached", ok)
			verif.Assert("complete-implies-blob", verifC04Same(b, blob))
		}
	}

	// the download can be started again and completes with the right content
	var t storage.Torrent
	t, err = archive.CreateTorrent("ns", mi.Digest())
	verif.Assert("download-can-be-started-again", err == nil)
	if t.Complete() {
		b, ok := verifC04CacheBytes(cads)
		verif.Assert("complete-implies-cached", ok)
		verif.Assert("complete-implies-blob", verifC04Same(b, blob))
	}
	for _, pi := range t.MissingPieces() {
		verif.Reach("piece-rewritten-after-restart")
		err := t.WritePiece(piecereader.NewBuffer(verifC04Piece(blob, plen, pi)), pi)
		verif.Assert("continue-write-piece", err == nil)
	}
	verif.Assert("restarted-download-completes", t.Complete())
	b, ok := verifC04CacheBytes(cads)
	verif.Assert("restarted-download-cached", ok)
	verif.Assert("restarted-download-content", verifC04Same(b, blob))
}

// sidecar states after the crash that the two write-ups in FINDINGS.md are
// about: os.WriteFile had created the sidecar but not yet written it.
const (
	verifC04Any = iota
	verifC04NoEmptySidecar
	verifC04EmptyStatus
	verifC04EmptyMetainfo
)

func verifC04EmptyFile(suffix string) bool {
	p := filepath.Join(verif.TempDir(), "download", verifC04Name[:2], verifC04Name[2:4], verifC04Name, suffix)
	fi, err := os.Stat(p)
	return err == nil && fi.Size() == 0
}

func verifC04Run(blob []byte, plen int, which int) {
	// the two sidecar regression checks are about content-independent crash
	// windows: they keep concrete deliveries
	symbolic := which == verifC04NoEmptySidecar
	if symbolic {
		verif.Note("C04: the reference blob (and with it the metainfo) is concrete so that the metainfo sidecar is the byte-exact JSON and crash snapshots replay natively; the bytes every peer delivers are symbolic (crc32 uninterpreted, checksum collision exclusion assumed as in C03); crash points, piece order and the number of pieces written are the other unknowns")
	} else {
		verif.Note("C04 sidecar regression checks: delivered bytes are the concrete reference bytes; crash points, piece order and the number of pieces written are the unknowns")
	}
	d, err := core.NewSHA256DigestFromHex(verifC04Name)
	verif.Assert("digest", err == nil)
	mi, err := core.NewMetaInfoFromBytes(d, blob, int64(plen))
	verif.Assert("metainfo", err == nil)
	descending := verif.Choice("piece_order", 2) == 1
	stopAfter := verif.Len("pieces_written", 0, mi.NumPieces())
	crashed := verif.CrashScope(func() {
		verifC04Download(mi, blob, plen, descending, stopAfter, symbolic)
	})
	emptyStatus := verifC04EmptyFile("_status")
	emptyMetainfo := verifC04EmptyFile("_torrentmeta")
	switch which {
	case verifC04NoEmptySidecar:
		// full quantifier: every crash point (the two defects of FINDINGS.md
		// were repaired upstream by creating sidecars atomically)
	case verifC04EmptyStatus:
		// regression check of the repaired defect F1: a crash must never leave
		// an empty piece-status sidecar behind (it used to commit a zero file)
		verif.Assert("no-empty-status-sidecar-after-crash", !emptyStatus)
	case verifC04EmptyMetainfo:
		// regression check of the repaired defect F2
		verif.Assert("no-empty-metainfo-sidecar-after-crash", !emptyMetainfo)
	}
	verif.Cover("crashed", crashed)
	verif.Cover("not-crashed", !crashed)
	verifC04Recover(mi, blob, plen)
}

// VerifAgentCrashTwoPieces: 3-byte blob, piece length 2 (two pieces, the last
// one short), crash before every file-system step of create / write / commit,
// except the two crash points written up in FINDINGS.md.
func VerifAgentCrashTwoPieces() {
	verifC04Run([]byte{0x11, 0x22, 0x33}, 2, verifC04NoEmptySidecar)
}

// VerifAgentCrashThreePieces (thorough tier only does the larger shape).
func VerifAgentCrashThreePieces() {
	if verif.Bound("three_piece_shape", 0, 1) == 0 {
		verifC04Run([]byte{0x44}, 1, verifC04NoEmptySidecar)
		return
	}
	verifC04Run([]byte{0x11, 0x22, 0x33, 0x44, 0x55, 0x66}, 2, verifC04NoEmptySidecar)
}

// VerifFindingCrashLeavesEmptyStatusSidecar fires on the current tree: the
// crash hit between the creation and the write of the _status sidecar.
func VerifFindingCrashLeavesEmptyStatusSidecar() {
	verifC04Run([]byte{0x11, 0x22, 0x33}, 2, verifC04EmptyStatus)
}

// VerifFindingCrashLeavesEmptyMetainfoSidecar fires on the current tree: the
// crash hit between the creation and the write of the _torrentmeta sidecar.
func VerifFindingCrashLeavesEmptyMetainfoSidecar() {
	verifC04Run([]byte{0x11, 0x22, 0x33}, 2, verifC04EmptyMetainfo)
}
